import CssVerif.Lemmas.UrlsKept
/-!
# C19 — URL enumeration/replacement exact; flattening @imports preserves meaning

Property theorems only (helpers are in `Lemmas/Urls.lean`, `Lemmas/UrlsKept.lean`). Model: `Model/Urls.lean`, tied to
`cssutils/__init__.py:183-458`, `cssimportrule.py:273-362`, `cssstylesheet.py:496-913` and to CPython's
`posixpath` / `urllib.parse` by the correspondence of `tools/harness/c19.py`.
-/
namespace CssVerif.C19
open CssVerif.Urls

/-! ## T19.1 — `getUrls` / `replaceUrls` -/

/-- T19.1a: after `replaceUrls(sheet, f)` the URLs of the sheet are `f` of the URLs before, one for one and in the
same order; and T19.1b: the replacer was called with exactly `getUrls sheet`, in that order, once each —
for every sheet, every replacer that does not raise, and whatever re-fetching the imports gives. -/
theorem replaceUrls_getUrls (g : Str → Str) (reload : Str → Bool × Str × Sheet) (sh : Sheet) :
    ∃ sh', replaceUrls (total g) reload false sh = .ok (sh', getUrls sh) ∧ getUrls sh' = (getUrls sh).map g := by
  refine ⟨mapRules g (mapImports g reload sh), ?_, ?_⟩
  · rw [replaceUrls_total, styleDeclsL_mapImports]; rfl
  · have h := rulesUris_map g (mapImports g reload sh)
    simp only [rulesUris] at h
    simp only [getUrls, importHrefs_mapRules, importHrefs_mapImports, h, styleDeclsL_mapImports, List.map_append]

/-- with `ignoreImportRules=True` the hrefs of the @import rules are neither passed to the replacer nor changed -/
theorem replaceUrls_ignoreImports (g : Str → Str) (reload : Str → Bool × Str × Sheet) (sh : Sheet) :
    ∃ sh', replaceUrls (total g) reload true sh = .ok (sh', rulesUris sh) ∧
      importHrefs sh' = importHrefs sh ∧ rulesUris sh' = (rulesUris sh).map g := by
  refine ⟨mapRules g sh, replaceUrls_total_ign g reload sh, importHrefs_mapRules g sh, rulesUris_map g sh⟩

/-- T19.1c: the identity replacer is a no-op (on the whole rule tree, provided fetching an import again yields
the sheet it yielded before; the hrefs, URLs and everything that is serialised are unchanged regardless:
`replaceUrls_getUrls` with `g = id`). -/
theorem replaceUrls_id (reload : Str → Bool × Str × Sheet) (sh : Sheet) (h : Stable reload sh) :
    replaceUrls (total fun u => u) reload false sh = .ok (sh, getUrls sh) := by
  rw [replaceUrls_total, styleDeclsL_mapImports, mapImports_id reload sh h, mapRules_id]; rfl

/-- T19.1e, "touches nothing else": the replacer is consulted on the URLs `getUrls` yields and on nothing else —
two replacers that agree there give the same result, the same call log, the same exception -/
theorem replaceUrls_local (f f' : Str → Except Err Str) (reload : Str → Bool × Str × Sheet) (sh : Sheet)
    (h : ∀ u ∈ getUrls sh, f u = f' u) : replaceUrls f reload false sh = replaceUrls f' reload false sh :=
  replaceUrls_congr f f' reload sh h

/-- … so a replacer that may raise elsewhere but not on a URL of the sheet behaves like a total one:
the result exists, the log is `getUrls sheet`, the new URLs are the replacer's answers -/
theorem replaceUrls_partial_replacer (f : Str → Except Err Str) (reload : Str → Bool × Str × Sheet) (sh : Sheet)
    (h : ∀ u ∈ getUrls sh, ∃ v, f u = .ok v) :
    ∃ sh', replaceUrls f reload false sh = .ok (sh', getUrls sh) ∧
      (getUrls sh').map Except.ok = (getUrls sh).map f := by
  let g : Str → Str := fun u => match f u with
    | .ok v => v
    | .error _ => u
  have hfg : ∀ u ∈ getUrls sh, f u = total g u := by
    intro u hu
    obtain ⟨v, hv⟩ := h u hu
    simp [total, g, hv]
  obtain ⟨sh', h1, h2⟩ := replaceUrls_getUrls g reload sh
  refine ⟨sh', ?_, ?_⟩
  · rw [replaceUrls_local f (total g) reload sh hfg, h1]
  · rw [h2, List.map_map]
    apply List.map_congr_left
    intro u hu
    simp [hfg u hu, total]

/-- T19.1d, order: imports first, then every rule's URLs in document order — a rule's own declarations before
those of its child rules (@page before its margin boxes, fix 8b00308), nested rules where they stand. -/
theorem getUrls_order (sh : Sheet) : getUrls sh = importHrefs sh ++ rulesUris sh := rfl

theorem rulesUris_page (sel : Str) (st : Style) (ms : List (Str × Style)) (rs : List Rule) :
    rulesUris (.page sel st ms :: rs) = uriValues st ++ marginUris ms ++ rulesUris rs := by
  rw [rulesUris_cons, ruleUris, styleDecls_page_uris]

theorem rulesUris_media (m : Str) (inner rs : List Rule) :
    rulesUris (.media m inner :: rs) = rulesUris inner ++ rulesUris rs := by
  rw [rulesUris_cons]; simp [ruleUris, rulesUris, styleDecls]

theorem rulesUris_style (sel : Str) (st : Style) (rs : List Rule) :
    rulesUris (.style sel st :: rs) = uriValues st ++ rulesUris rs := by
  rw [rulesUris_cons]; simp [ruleUris, styleDecls]

/-- non-vacuity / the @page order on a concrete sheet -/
example : getUrls [.imp [0x69] [] false [] [],
                   .page [] [⟨[0x62], [.uri [0x70]], []⟩] [([0x74], [⟨[0x62], [.uri [0x6D]], []⟩])],
                   .media [0x73] [.style [0x61] [⟨[0x62], [.tok [0x78], .uri [0x75]], []⟩]]]
    = [[0x69], [0x70], [0x6D], [0x75]] := by decide

/-! ### completeness: "every url() value" (was the known finding C19-url-in-function; `_values` now descends into
the arguments of functions) -/

/-- `getUrls` yields every URL of the sheet — imports, and every url() of every declaration at any depth of
function nesting — in document order: it is the independent enumeration `allUrls` -/
theorem getUrls_complete (sh : Sheet) : getUrls sh = allUrls sh := by
  have : (fun st => uriValues st) = fun st => uriValuesDeep st := funext uriValues_deep
  simp only [getUrls, allUrls]
  rw [show (styleDeclsL sh).flatMap uriValues = (styleDeclsL sh).flatMap uriValuesDeep from by
    exact congrArg (fun f => (styleDeclsL sh).flatMap f) this]

/-- `a{background:image-set(url(x.png) 1x)}`: the URL is enumerated, and `replaceUrls` reaches it -/
theorem getUrls_reaches_nested_url :
    getUrls [.style [0x61] [⟨[0x62], [.fn [0x69] [.uri [0x78], .tok [0x31]]], []⟩]] = [[0x78]] := by decide

/-! ## T19.2 — re-basing: the path algebra of `Replacer` (`os.path.normpath`) against `urljoin`

`T` = the path segments of the importing sheet's directory as `urljoin` splits them, `D` = the directory segments of
the @import href (`css/sub/a.css` ↦ `[css, sub]`), `g` = its file name, `U ++ [f]` = the segments of a relative
`url()` of the imported sheet. `normComps false` is the loop of `os.path.normpath` on a relative path, `rdsSegs` the
dot-segment removal of `urljoin`; the model's `normpath`/`urljoin` are built from exactly these. -/

/-- T19.2 [W1], now for EVERY relative path-only URL (after the fixes of `Replacer`): seen from the importing
(combined) sheet the re-based path `rebasedSegs D U f` — `normpath (D ++ U ++ [f])`, with the slash put back when the
URL ends in `/`, `.` or `..` — resolves to the path the original URL `U…/f` resolved to from the imported sheet's own
location: for every base directory `T` (also when `..` climbs above the root, where `urljoin` clamps), every import
directory `D`, every `U` and EVERY last segment `f` (a name, empty, `.` or `..`).
Guard left: the segments of `D` and `U` are non-empty (`a//b`: `urljoin` and `normpath` both drop the empty
segment; covered by the oracle, not by this theorem). Characters: `quote` leaves unreserved and reserved path
characters alone (`quote_identity_on_safe`) and percent-encodes the others, which does not change the URI meant;
query and fragment are carried over verbatim (`replacer_relative`). -/
theorem rebased_url_resolves_identically (T D U : List Str) (g f : Str)
    (hD : ∀ c ∈ D, c ≠ []) (hU : ∀ c ∈ U, c ≠ []) (hg : Normal g) :
    rdsSegs (T ++ rebasedSegs D U f)
      = rdsSegs ((rdsSegs (T ++ D ++ [g])).dropLast ++ (U ++ [f])) := by
  by_cases hf : f = [] ∨ f = dot ∨ f = dotdot
  · exact rdsSegs_dir_url T D U g f hD hU hg hf
  · have hfn : Normal f := ⟨fun e => hf (Or.inl e), fun e => hf (Or.inr (Or.inl e)), fun e => hf (Or.inr (Or.inr e))⟩
    simp only [rebasedSegs, hf, ↓reduceIte]
    exact rebased_segs T D U g f hD hU hg hfn

/-- the case of a URL that names a file, spelled out: the re-based path is `normpath` of the joined segments -/
theorem rebased_file_url_resolves_identically (T D U : List Str) (g f : Str)
    (hD : ∀ c ∈ D, c ≠ []) (hU : ∀ c ∈ U, c ≠ []) (hg : Normal g) (hf : Normal f) :
    rdsSegs (T ++ normComps false (D ++ U ++ [f]))
      = rdsSegs ((rdsSegs (T ++ D ++ [g])).dropLast ++ (U ++ [f])) :=
  rebased_segs T D U g f hD hU hg hf

/-- `rebasedSegs` is what the model of `Replacer` computes: `url(img/)`, `url(.)`, `url(..)`, `url(../x.png)` in
`css/a.css` (was the known finding C19-rebase-trailing-slash for the first three) -/
example :
    replacer (CssVerif.Proto.cps "css/a.css") (CssVerif.Proto.cps "img/") = .ok (CssVerif.Proto.cps "css/img/") ∧
    joinWith cSlash (rebasedSegs [CssVerif.Proto.cps "css"] [CssVerif.Proto.cps "img"] []) = CssVerif.Proto.cps "css/img/" ∧
    replacer (CssVerif.Proto.cps "css/a.css") (CssVerif.Proto.cps ".") = .ok (CssVerif.Proto.cps "css/") ∧
    joinWith cSlash (rebasedSegs [CssVerif.Proto.cps "css"] [] dot) = CssVerif.Proto.cps "css/" ∧
    replacer (CssVerif.Proto.cps "css/a.css") (CssVerif.Proto.cps "..") = .ok (CssVerif.Proto.cps "./") ∧
    joinWith cSlash (rebasedSegs [CssVerif.Proto.cps "css"] [] dotdot) = CssVerif.Proto.cps "./" ∧
    replacer (CssVerif.Proto.cps "css/a.css") (CssVerif.Proto.cps "../x.png") = .ok (CssVerif.Proto.cps "x.png") ∧
    joinWith cSlash (rebasedSegs [CssVerif.Proto.cps "css"] [dotdot] (CssVerif.Proto.cps "x.png")) = CssVerif.Proto.cps "x.png" := by
  decide

/-- nested imports: re-basing against the inner @import (`D2`) and then against the outer one (`D1`) resolves like
the original URL seen through both directories — the per-edge statement composes (the output of one re-basing
satisfies the guard of the next) -/
theorem rebasing_composes (T D1 D2 U : List Str) (f : Str)
    (h1 : ∀ c ∈ D1, c ≠ []) (h2 : ∀ c ∈ D2, c ≠ []) (hU : ∀ c ∈ U, c ≠ []) (hf : Normal f) :
    rdsSegs (T ++ normComps false (D1 ++ normComps false (D2 ++ U ++ [f])))
      = rdsSegs (T ++ (D1 ++ (D2 ++ U ++ [f]))) := by
  have hin : ∀ c ∈ D2 ++ U, c ≠ [] := by
    intro c hc
    rcases List.mem_append.mp hc with hc | hc
    · exact h2 c hc
    · exact hU c hc
  have hinner : ∀ c ∈ D2 ++ U ++ [f], c ≠ [] := by
    intro c hc
    rcases List.mem_append.mp hc with hc | hc
    · exact hin c hc
    · simp at hc; subst hc; exact hf.1
  -- the inner result ends in `f` and has no empty segment
  have hlast := normComps_getLast false (D2 ++ U) f hf
  have hne := normComps_segs_nonempty (D2 ++ U ++ [f]) hinner
  obtain ⟨X, hX⟩ : ∃ X, normComps false (D2 ++ U ++ [f]) = X ++ [f] := by
    generalize normComps false (D2 ++ U ++ [f]) = l at hlast
    rcases List.eq_nil_or_concat l with rfl | ⟨X, x, rfl⟩
    · simp at hlast
    · refine ⟨X, ?_⟩
      simp [List.concat_eq_append] at hlast ⊢
      exact hlast
  have hXne : ∀ c ∈ X, c ≠ [] := fun c hc => hne c (by rw [hX]; simp [hc])
  have houter : ∀ c ∈ D1 ++ X, c ≠ [] := by
    intro c hc
    rcases List.mem_append.mp hc with hc | hc
    · exact h1 c hc
    · exact hXne c hc
  have s1 := rdsSegs_norm T (D1 ++ X) f houter hf
  have s2 := rdsSegs_norm (T ++ D1) (D2 ++ U) f hin hf
  rw [hX, ← List.append_assoc D1 X [f], s1]
  rw [List.append_assoc D1 X [f], ← hX, ← List.append_assoc T D1, s2]
  simp [List.append_assoc]

/-- the same with the stacks spelled out: normalising never changes what dot-segment removal yields -/
theorem normpath_then_resolve (S cs : List Str) (h : ∀ c ∈ cs, c ≠ []) :
    (normComps false cs).foldl rdsStep S = cs.foldl rdsStep S := rds_norm_fold S cs h

/-- non-vacuity, and the clamping case: main sheet `/main.css`, `@import "c/a"`, `url(../../../x)`; the root's
empty segment is popped too and `urlunsplit` puts the leading slash back -/
example : rdsSegs ([[]] ++ normComps false ([[0x63]] ++ [dotdot, dotdot, dotdot] ++ [[0x78]])) = [[0x78]] ∧
    rdsSegs ((rdsSegs ([[]] ++ [[0x63]] ++ [[0x61]])).dropLast ++ ([dotdot, dotdot, dotdot] ++ [[0x78]]))
      = [[0x78]] := by decide

/-- `Replacer` keeps anything absolute: a URL with a scheme is returned as it is -/
theorem replacer_keeps_absolute (r : ReplacerState) (uri : Str) (s : Split) (h : urlsplit uri = .ok s)
    (habs : s.scheme ≠ []) : replacerCall r uri = .ok uri := by
  simp only [replacerCall, h]
  rw [if_pos habs]

/-- a host-relative (`/x.png`) or scheme-relative (`//cdn/x.png`) URL of a sheet imported with a relative href is
returned as it is: it means the same from the importing sheet -/
theorem replacer_keeps_host_relative (r : ReplacerState) (uri : Str) (s : Split) (h : urlsplit uri = .ok s)
    (hs : s.scheme = []) (habs : s.netloc ≠ [] ∨ startsWith [cSlash] s.path = true)
    (hr : r.scheme = [] ∧ r.location = []) : replacerCall r uri = .ok uri := by
  simp only [replacerCall, h]
  rw [if_neg (by simp [hs]), if_pos habs, if_pos hr]

/-- … and of a sheet imported with an absolute or scheme-relative href it is completed with the scheme and host of
that href (was the known finding C19-rebase-other-origin) -/
theorem replacer_completes_host_relative (r : ReplacerState) (uri : Str) (s : Split) (h : urlsplit uri = .ok s)
    (hs : s.scheme = []) (habs : s.netloc ≠ [] ∨ startsWith [cSlash] s.path = true)
    (hr : ¬ (r.scheme = [] ∧ r.location = [])) :
    replacerCall r uri = .ok (urlunsplit {
      scheme := r.scheme, netloc := (if s.netloc ≠ [] then s.netloc else r.location),
      path := s.path, query := s.query, fragment := s.fragment }) := by
  simp only [replacerCall, h]
  rw [if_neg (by simp [hs]), if_pos habs, if_neg hr]

/-- a relative URL with a path: the path is re-based (`normpath` of the join with the import directory, the slash put
back for a directory URL), scheme and host of the @import href are put in front, query and fragment are put back
unchanged (fix dd65231) -/
theorem replacer_relative (r : ReplacerState) (uri : Str) (s : Split) (h : urlsplit uri = .ok s)
    (hrel : s.scheme = [] ∧ s.netloc = [] ∧ startsWith [cSlash] s.path = false) (hp : s.path ≠ []) (p : Str)
    (hq : quote (let c := normpath (pjoin r.base [(psplit s.path).1, (psplit s.path).2])
                 if ((psplit s.path).2 = [] ∨ (psplit s.path).2 = dot ∨ (psplit s.path).2 = dotdot) ∧
                     c.getLast? ≠ some cSlash then c ++ [cSlash] else c) = .ok p) :
    replacerCall r uri = .ok (urlunsplit {
      scheme := r.scheme, netloc := r.location,
      path := (if (p.takeWhile (· ≠ cSlash)).contains cColon then cDot :: cSlash :: p else p),
      query := s.query, fragment := s.fragment }) := by
  simp only [replacerCall, h]
  rw [if_neg (by simp [hrel.1]), if_neg (by simp [hrel.2.1, hrel.2.2])]
  simp only [hp, ↓reduceIte]
  simp only at hq
  rw [hq]

/-- a reference without a path (`#frag`, `?q`, empty) means the imported sheet itself: it is re-based to the path of
the @import href, with that href's query if it has none (was the known finding C19-rebase-same-document) -/
theorem replacer_same_document (r : ReplacerState) (uri : Str) (s : Split) (h : urlsplit uri = .ok s)
    (hrel : s.scheme = [] ∧ s.netloc = []) (hp : s.path = []) (p : Str) (hq : quote r.path = .ok p) :
    replacerCall r uri = .ok (urlunsplit {
      scheme := r.scheme, netloc := r.location,
      path := (if (p.takeWhile (· ≠ cSlash)).contains cColon then cDot :: cSlash :: p else p),
      query := (if s.query ≠ [] then s.query else r.query), fragment := s.fragment }) := by
  simp only [replacerCall, h]
  rw [if_neg (by simp [hrel.1]), if_neg (by simp [hrel.2, hp, startsWith, List.isPrefixOf])]
  simp only [hp, ↓reduceIte, hq]

/-- `quote(…, safe="/%:@!$&'()*+,;=")` is the identity on unreserved characters, `%` and the characters RFC 3986
allows in a path (fix dd65231: escapes survive; was the known finding C19-rebase-reserved-chars) -/
theorem quote_identity_on_safe (s : Str) (h : QuoteSafe s) : quote s = .ok s := quote_safe s h

/-- the string-level `normpath` of a relative path is the segment-level `normComps false` -/
theorem normpath_relative (p : Str) (h0 : p ≠ []) (h1 : p.head? ≠ some cSlash) :
    normpath p = (if joinWith cSlash (normComps false (splitOn cSlash p)) = [] then dot
                  else joinWith cSlash (normComps false (splitOn cSlash p))) := by
  have hi : initialSlashes p = 0 := by
    unfold initialSlashes
    split <;> simp_all [cSlash]
  simp [normpath, h0, hi]

/-- worked example with the real strings: `@import "css/a.css"`, `url(../img/x.png?v=2#f)` -/
example : replacer (CssVerif.Proto.cps "css/a.css") (CssVerif.Proto.cps "../img/x.png?v=2#f")
    = .ok (CssVerif.Proto.cps "img/x.png?v=2#f") := by decide

example : urljoin (CssVerif.Proto.cps "http://h/base/main.css") (CssVerif.Proto.cps "img/x.png?v=2#f")
    = urljoin (CssVerif.Proto.cps "http://h/base/css/a.css") (CssVerif.Proto.cps "../img/x.png?v=2#f") := by decide

/-! ### T19.2, strings [W2, partial]: the string functions of the model are the segment functions.
`Replacer` is closed at the string level for paths made of simple segments (`replacer_on_strings`); for `urljoin` the
string level rests on the correspondence with CPython (its path algebra is `rdsSegs`, used above). -/

/-- `Replacer(href)(url)` as strings: for an @import href `D/g` and a URL `U/f` whose segments consist of unreserved
characters and `%` (`.`/`..` allowed inside, `f` a name), the result is the `/`-join of `normComps (D ++ U ++ [f])`:
through `urlsplit`, `posixpath.split`, `join`, `normpath`, `quote` and `urlunsplit` nothing else happens -/
theorem replacer_on_strings (D U : List Str) (g f : Str) (hD : ∀ s ∈ D, SimpleSeg s) (hU : ∀ s ∈ U, SimpleSeg s)
    (hg : SimpleSeg g) (hf : SimpleSeg f) (hfn : Normal f) :
    replacer (joinWith cSlash (D ++ [g])) (joinWith cSlash (U ++ [f]))
      = .ok (joinWith cSlash (normComps false (D ++ U ++ [f]))) :=
  replacer_on_segments D U g f hD hU hg hf hfn

/-- … which resolves, by `rebased_url_resolves_identically`, to what the original URL resolved to -/
theorem replacer_on_strings_resolves (T D U : List Str) (g f : Str) (hD : ∀ s ∈ D, SimpleSeg s)
    (hU : ∀ s ∈ U, SimpleSeg s) (hg : SimpleSeg g) (hgn : Normal g) (hf : SimpleSeg f) (hfn : Normal f) :
    ∃ r, replacer (joinWith cSlash (D ++ [g])) (joinWith cSlash (U ++ [f])) = .ok r ∧
      rdsSegs (T ++ splitOn cSlash r) = rdsSegs ((rdsSegs (T ++ D ++ [g])).dropLast ++ (U ++ [f])) := by
  refine ⟨_, replacer_on_strings D U g f hD hU hg hf hfn, ?_⟩
  have hall : ∀ s ∈ D ++ U ++ [f], SimpleSeg s := by
    intro s hs
    rcases List.mem_append.mp hs with h | h
    · rcases List.mem_append.mp h with h | h
      · exact hD s h
      · exact hU s h
    · simp at h; subst h; exact hf
  have hlast := normComps_getLast false (D ++ U) f hfn
  have hne : normComps false (D ++ U ++ [f]) ≠ [] := by
    intro e; rw [e] at hlast; simp at hlast
  rw [splitOn_joinWith cSlash _ hne
    (fun s hs => simple_noSlash s (hall s (normComps_subset false _ s hs)))]
  exact rebased_file_url_resolves_identically T D U g f (fun c hc => (hD c hc).1) (fun c hc => (hU c hc).1) hgn hfn

/-- **T19.2 on strings [W2]** — main sheet at `scheme://host/T…/m`, `@import "D…/g"`, `url(U…/f)` in the imported
sheet, every segment made of unreserved characters and `%` (`.` and `..` allowed in `D` and `U`; `g`, `f` names),
scheme and host well formed (`WFOrigin`, e.g. `http://h`):
`urljoin(main, Replacer(href)(url)) = urljoin(urljoin(main, href), url)`, through the models of `urlsplit`,
`urlunsplit`, `urlparse`, `urljoin`, `posixpath.split/join/normpath` and `quote` — also when `..` climbs above the root. -/
theorem rebased_url_resolves_identically_on_strings (sch net : Str) (w : WFOrigin sch net) (Tdir D U : List Str)
    (m g f : Str) (hT : ∀ s ∈ Tdir, SimpleSeg s) (hm : SimpleSeg m) (hD : ∀ s ∈ D, SimpleSeg s) (hg : SimpleSeg g)
    (hgn : Normal g) (hU : ∀ s ∈ U, SimpleSeg s) (hf : SimpleSeg f) (hfn : Normal f) :
    ∃ r sheetUrl,
      replacer (joinWith cSlash (D ++ [g])) (joinWith cSlash (U ++ [f])) = .ok r ∧
      urljoin (originStr sch net ++ cSlash :: joinWith cSlash (Tdir ++ [m])) (joinWith cSlash (D ++ [g])) = .ok sheetUrl ∧
      urljoin (originStr sch net ++ cSlash :: joinWith cSlash (Tdir ++ [m])) r
        = urljoin sheetUrl (joinWith cSlash (U ++ [f])) :=
  rebase_resolves_strings sch net w Tdir D U m g f hT hm hD hg hgn hU hf hfn

/-- non-vacuity: `http://h` is a well-formed origin -/
example : WFOrigin (CssVerif.Proto.cps "http") (CssVerif.Proto.cps "h") where
  sch_ne := by decide
  sch_alpha := by intro c h; simp [CssVerif.Proto.cps] at h; subst h; decide
  sch_chars := by decide
  sch_rel := by decide
  sch_net := by decide
  net_ne := by decide
  net_chars := by decide

example : SimpleSeg (CssVerif.Proto.cps "x%41.png") := by
  refine ⟨by decide, ?_⟩
  decide

/-- `'/'.join(parts).split('/') == parts` -/
theorem split_join (cs : List Str) (h : cs ≠ []) (h0 : ∀ s ∈ cs, cSlash ∉ s) :
    splitOn cSlash (joinWith cSlash cs) = cs := splitOn_joinWith cSlash cs h h0

/-- `os.path.normpath('/'.join(segments))` = `'/'.join(normComps segments)` for a relative path ending in a name -/
theorem normpath_of_segments (cs : List Str) (f : Str) (h0 : ∀ s ∈ cs ++ [f], cSlash ∉ s)
    (h1 : (cs ++ [f]).head? ≠ some []) (hf : Normal f) :
    normpath (joinWith cSlash (cs ++ [f])) = joinWith cSlash (normComps false (cs ++ [f])) :=
  normpath_joinWith cs f h0 h1 hf

/-! ### the four former findings of the re-basing, now machine-checked as repaired on the model
(witnesses of `known/C19.json`, status fixed; the same inputs are replayed on the implementation every run) -/
section
open CssVerif.Proto

/-- was C19-rebase-same-document: `url(#frag)` of `css/a.css` means `css/a.css#frag`, and so does the re-based URL -/
theorem rebase_keeps_same_document_reference :
    replacer (cps "css/a.css") (cps "#frag") = .ok (cps "css/a.css#frag") ∧
    urljoin (cps "http://h/base/main.css") (cps "css/a.css#frag")
      = urljoin (cps "http://h/base/css/a.css") (cps "#frag") ∧
    replacer (cps "css/a.css") (cps "?q=1") = .ok (cps "css/a.css?q=1") ∧
    replacer (cps "css/a.css?v=2") [] = .ok (cps "css/a.css?v=2") := by decide

/-- was C19-rebase-other-origin: scheme and host of the @import href are kept, for relative, host-relative and
scheme-relative URLs of the imported sheet -/
theorem rebase_keeps_the_host_of_the_import :
    replacer (cps "http://other/css/a.css") (cps "x.png") = .ok (cps "http://other/css/x.png") ∧
    urljoin (cps "http://h/base/main.css") (cps "http://other/css/x.png")
      = urljoin (cps "http://other/css/a.css") (cps "x.png") ∧
    replacer (cps "http://other/css/a.css") (cps "/r.png") = .ok (cps "http://other/r.png") ∧
    replacer (cps "http://other/css/a.css") (cps "//cdn/c.png") = .ok (cps "http://cdn/c.png") ∧
    replacer (cps "//other/css/a.css") (cps "x.png") = .ok (cps "//other/css/x.png") ∧
    replacer (cps "css/a.css") (cps "/r.png") = .ok (cps "/r.png") := by decide

/-- was C19-rebase-trailing-slash -/
theorem rebase_keeps_trailing_slash :
    replacer (cps "css/a.css") (cps "img/") = .ok (cps "css/img/") ∧
    urljoin (cps "http://h/base/main.css") (cps "css/img/") = urljoin (cps "http://h/base/css/a.css") (cps "img/") ∧
    replacer (cps "css/a.css") (cps ".") = .ok (cps "css/") ∧
    replacer (cps "css/a.css") (cps "..") = .ok (cps "./") := by decide

/-- was C19-rebase-reserved-chars; a first segment with a colon gets `./` in front -/
theorem rebase_keeps_reserved_characters :
    replacer (cps "css/a.css") (cps "img@2x.png") = .ok (cps "css/img@2x.png") ∧
    replacer (cps "css/a.css") (cps "x.png;v=1") = .ok (cps "css/x.png;v=1") ∧
    replacer (cps "a.css") (cps "./a:b.png") = .ok (cps "./a:b.png") ∧
    replacer (cps "css/a.css") (cps "a b.png") = .ok (cps "css/a%20b.png") := by decide
end

/-! ## T19.3 — flattening

Full statement (does NOT hold on every import tree, see the remaining known findings below):
  for every loaded tree, `resolveImports` returns a sheet with the same meaning — the rules of all reachable sheets in
  cascade order under the media of their @import edges, every URL resolving as before — and fetches nothing.
What holds for EVERY tree: `resolveImports` does not raise HierarchyRequestErr (`resolveImports_never_raises_hierarchy`).
What holds for every tree without @namespace rules, kept imports included: `resolveImports` is the specification
`flatSpec` (section "T19.3 with kept imports" below) — in which the three deviations from the full statement are visible.
On trees described by `Flat` (every target available, every group with media consists of comments and style rules
after flattening: nothing is kept) the specification is the full statement: -/

/-- T19.3 [W1]: `resolveImports` computes exactly the specified flattening — cascade order, marker comment, re-basing
with the @import's href, wrapping in the @import's media, @charset dropped — appended to the target, and no fetcher
is called; for every virtual file system, fetcher and href of the sheets. Termination is by structural recursion on
the import tree (the model has no fuel here). -/
theorem resolveImports_flat_partial (vfs : Vfs) (who : Who) (href : Str) (sheet out : Sheet) (h : Flat sheet out) :
    resolveImports vfs who href sheet = ⟨.ok out, []⟩ := by
  have := resolveRules_flat vfs who h href []
  simpa [resolveImports] using this

/-- … into an existing target the rules are appended in that order -/
theorem resolveRules_flat_appends (vfs : Vfs) (who : Who) (href : Str) (target sheet out : Sheet) (h : Flat sheet out) :
    resolveRules vfs who href target sheet = ⟨.ok (target ++ out), []⟩ := resolveRules_flat vfs who h href target

/-- every rule of the flattened sheet is a comment, style, @media, @page, @font-face or unknown rule: no @import,
@charset or @namespace is left -/
theorem flat_has_no_imports (sheet out : Sheet) (h : Flat sheet out) : ∀ r ∈ out, isPlain r = true := h.plain_out

/-- T19.3, totality (was the known finding C19-media-import-of-kept-import-raises): for EVERY loaded import tree,
virtual file system and fetcher, `resolveImports` does not raise HierarchyRequestErr — an @import that has to be kept
makes the sheet it stands in "not combinable", so the @import of that sheet is kept too instead of being wrapped -/
theorem resolveImports_never_raises_hierarchy (vfs : Vfs) (who : Who) (href : Str) (sheet : Sheet) :
    (resolveImports vfs who href sheet).val ≠ .error .hierarchyRequestErr :=
  resolveRules_ne_hier vfs who sheet href []

/-- whatever passed `_combinable` is accepted by the @media proxy -/
theorem media_proxy_accepts_combinable (rs : List Rule) (h : rs.all combinable = true) :
    proxyAddAll [] rs = .ok rs := by
  simpa using proxyAddAll_combinable rs [] h

section
open CssVerif.Proto

/-- non-vacuity: main sheet `@charset "x"; @import "css/a.css" print; b{}` with `css/a.css` = `a{background:url(i.png)}`
flattens to `/* START … */ @media print{a{background:url(css/i.png)}} b{}` -/
example : Flat
    [.charset (cps "x"),
     .imp (cps "css/a.css") (cps "print") true (cps "http://h/css/a.css")
       [.style (cps "a") [⟨cps "background", [.uri (cps "i.png")], []⟩]],
     .style (cps "b") []]
    [.comment (startComment (cps "css/a.css")),
     .media (cps "print") [.style (cps "a") [⟨cps "background", [.uri (cps "css/i.png")], []⟩]],
     .style (cps "b") []] := by
  refine Flat.charset _ ?_
  have h1 : Flat [.style (cps "a") [⟨cps "background", [.uri (cps "i.png")], []⟩]]
      [.style (cps "a") [⟨cps "background", [.uri (cps "i.png")], []⟩]] := Flat.plain rfl Flat.nil
  have h2 : Flat [.style (cps "b") []] [.style (cps "b") []] := Flat.plain rfl Flat.nil
  have hr : replRules (replacer (cps "css/a.css")) [.style (cps "a") [⟨cps "background", [.uri (cps "i.png")], []⟩]]
      = .ok ([.style (cps "a") [⟨cps "background", [.uri (cps "css/i.png")], []⟩]], [cps "i.png"]) := by
    have : replacer (cps "css/a.css") (cps "i.png") = .ok (cps "css/i.png") := by decide
    simp [replRules, replRule, replStyle, replComps, replComp, this]
  have := Flat.imp (media := cps "print") (ihref := cps "http://h/css/a.css") h1 hr
    (Or.inr (by intro r hr; simp at hr; subst hr; rfl)) h2
  have hne : cps "print" ≠ cps "all" := by decide
  simpa [wrapMedia, mediaAll, hne] using this

/-- was C19-media-import-of-kept-import-raises: `@import "a.css" print;` where `a.css` holds an @import that has to
be kept (here: not available) — now the @import of `a.css` is kept, after the marker comment.
kinds: 1 = comment, 2 = @import -/
theorem resolveImports_keeps_import_of_sheet_with_kept_import :
    (resolveImports [] .user (cps "http://h/m.css")
      [.imp (cps "a.css") (cps "print") true (cps "http://h/a.css")
        [.imp (cps "x.css") mediaAll false [] [], .style (cps "a") []]]).okMap
          (fun t => (t.map Rule.tag, importHrefs t)) = some ([1, 2], [cps "a.css"]) := by
  decide +kernel

/-! ### the findings of the flattening, machine-checked on the model -/

/-- was C19-unavailable-refetched (fixed by ca7960c): an unavailable target is NOT fetched again when the kept @import is
added to the flattened sheet: the URL that was tried is remembered -/
theorem resolveImports_does_not_refetch_unavailable :
    (resolveImports [] .user (cps "http://h/m.css")
      [.imp (cps "x.css") mediaAll false (cps "http://h/x.css") []]).log = [] := by
  decide +kernel

/-- … and at parse time an unavailable target is fetched once -/
theorem parse_fetches_unavailable_once :
    (parseSheet [] (cps "http://h/m.css") [notLoaded (cps "x.css") mediaAll]).log
      = [(.user, cps "http://h/x.css")] := by decide +kernel

/-- C19-kept-import-hoisted (still open): `@import "a.css"; @import "b.css" print;` with `b.css` = `@page{}` (cannot be
wrapped): the kept @import of b is put in front of the rules of a, which it used to follow in cascade order.
kinds: 1 = comment, 2 = @import, 4 = style rule -/
theorem kept_import_is_hoisted_over_merged_rules :
    (resolveImports [] .user (cps "http://h/m.css")
      [.imp (cps "a.css") mediaAll true (cps "http://h/a.css") [.style (cps "a") []],
       .imp (cps "b.css") (cps "print") true (cps "http://h/b.css") [.page [] [] []]]).okMap (·.map Rule.tag)
      = some [1, 2, 4, 1] := by decide +kernel

/-- was C19-kept-import-not-rebased (fixed by e8a4f78): `@import "css/a.css";` with `css/a.css` = `@import "b.css" print;` and
`css/b.css` = `@page{}`: the kept `@import "b.css"` arrives in the flattened sheet as `@import "css/b.css"`, which from
the main sheet means the sheet it meant before -/
theorem kept_nested_import_is_rebased :
    (resolveImports [] .user (cps "http://h/m.css")
      [.imp (cps "css/a.css") mediaAll true (cps "http://h/css/a.css")
        [.imp (cps "b.css") (cps "print") true (cps "http://h/css/b.css") [.page [] [] []]]]).okMap importHrefs
      = some [cps "css/b.css"] ∧
    urljoin (cps "http://h/m.css") (cps "css/b.css") = urljoin (cps "http://h/css/a.css") (cps "b.css") := by
  constructor
  · decide +kernel
  · decide
end

/- PARKED (re-sync of 2026-09-30, /repo ca7960c + e8a4f78). The section below — `resolveImports` is the specification
`flatSpec`, with its corollaries (groups in document order, what a group is, both orders kept, the body is the depth-first
traversal, nothing is fetched when everything was found) — was proved for the model BEFORE the two repairs. `addRule` /
`resolveRule` and `keep1` / `cascRule` now contain `reload` and `rebaseImps` (Model/Urls.lean); the proofs in
Lemmas/UrlsKept.lean have to thread these steps and are parked with this section. The statements are kept here verbatim as
the obligations to re-prove; until then the clause rests on the correspondences `resolve` / `flatspec` (model against the
implementation on generated import trees) and on the meaning oracle. Not claimed in MANIFEST.json.

/ -! ## T19.3 with kept imports — `resolveImports` is the specification `flatSpec`

`Flat` above has no place for an @import that stays. The specification `flatSpec` (`Model/Urls.lean`, Part 4) has:
the *groups* of the rules of a sheet in document order (`cascRules`) —
  an @charset: nothing;  a comment, style, @media, @page, @font-face, unknown rule: itself;
  an @import whose target was not found: the @import, looked for again from the flattened sheet (`keep1`);
  an @import without media: marker comment, then the flattened target (recursively `hoist (cascRules …)`), its url()
    values re-based with the @import's href, the @imports kept in it taken over (`keepAll`);
  an @import with media whose flattened target holds comments and style rules only: marker comment, one @media rule;
  any other @import with media: marker comment, the @import as it is —
and then the kept @imports moved to the front, behind a leading comment (`hoist`); no insertion position occurs in it.

Full statement (NOT provable: the known findings): the flattened sheet means what the tree meant. What is proved is
that the code computes exactly `flatSpec` wherever `flatSpec` has a value; it has none (`unsupported`) for trees
with an @namespace rule (their place in the target is C15's kernel) and where the model of `urljoin` has none, and it
raises where re-basing raises. The differences between `flatSpec` and the full statement are then visible in the
specification itself: `hoist` (C19-kept-import-hoisted), `replRules` leaving @import rules alone
(C19-kept-import-not-rebased), `keep1` fetching (C19-unavailable-refetched). - /

/ -- T19.3 [W1, generalised to kept imports]: wherever the specification has a value — trees with unavailable
targets, with groups that cannot be wrapped, at any depth, any file system and fetcher — `resolveImports` returns
exactly that sheet and makes exactly the fetcher calls of the specification.
Still `_partial`: trees with @namespace rules are outside (the specification has no value there). - /
theorem resolveImports_flat_kept_partial (vfs : Vfs) (who : Who) (href : Str) (sheet out : Sheet)
    (h : (flatSpec vfs who href sheet).val = .ok out) :
    resolveImports vfs who href sheet = flatSpec vfs who href sheet :=
  resolveImports_eq_flatSpec vfs who href sheet out h

/ -- T19.3 [W1, every tree without @namespace rules]: for EVERY loaded import tree in which no sheet holds an
@namespace rule — any nesting, any mix of available, unavailable, recursive, wrappable and unwrappable targets, any
file system and fetcher — `resolveImports` IS the specification: the same sheet or the same exception (a URL that
cannot be re-based), and the same fetcher calls in the same order. No hypothesis that the specification has a value. - /
theorem resolveImports_is_flatSpec (vfs : Vfs) (who : Who) (href : Str) (sheet : Sheet)
    (h : noNsL sheet = true) : resolveImports vfs who href sheet = flatSpec vfs who href sheet :=
  resolveImports_eq_flatSpec_full vfs who href sheet h

/ -- … and so does every intermediate call with a target that already holds rules - /
theorem resolveRules_is_groups_added (vfs : Vfs) (who : Who) (href : Str) (target sheet : Sheet)
    (h : noNsL sheet = true) :
    resolveRules vfs who href target sheet = (cascRules vfs who href sheet).mapOk (run target) :=
  resolveRules_casc_full vfs who sheet href target h

/ -- the groups consist of @imports (the kept ones) and of rules that `add` appends: no @charset, no @namespace - /
theorem groups_hold_imports_and_appended_rules (vfs : Vfs) (who : Who) (href : Str) (sheet c : Sheet)
    (h : (cascRules vfs who href sheet).val = .ok c) : ∀ r ∈ c, isImp r = true ∨ appended r = true := by
  intro r hr
  have := cascRules_kind vfs who sheet href c h r hr
  simpa [okKind] using this

/ -- … into an existing target: the groups are added one rule after the other (`run` = `target.add` in a loop) - /
theorem resolveRules_adds_groups (vfs : Vfs) (who : Who) (href : Str) (target sheet c : Sheet)
    (h : (cascRules vfs who href sheet).val = .ok c) :
    resolveRules vfs who href target sheet = ⟨.ok (run target c), (cascRules vfs who href sheet).log⟩ :=
  resolveRules_casc vfs who sheet href target c h

/ -- adding rules one by one to an empty sheet is hoisting: the positions `CSSStyleSheet.insertRule(inOrder=True)`
computes (after the last @import / after a leading comment / at the top) amount to "kept @imports first" - /
theorem adding_in_order_is_hoisting (c : List Rule) : run [] c = hoist c := run_nil_eq_hoist c

/ -- `resolveImports(sheet, target)` with a target that holds rules already: for every target of the shape
rules-without-@import ++ @imports ++ rules-without-@import in which the next @import goes right behind the @imports
(`Shape`; every sheet made by `resolveImports` has it, and so has e.g. a sheet with one leading comment), adding the
groups puts the kept @imports behind the @imports of the target and everything else at the end, each in their order - /
theorem adding_to_a_target_is_hoisting (pre K post c : List Rule) (s : Shape pre K post) :
    run (pre ++ K ++ post) c = pre ++ (K ++ c.filter isImp) ++ (post ++ c.filter (fun r => !isImp r)) :=
  run_shape c pre K post s

/ -- non-vacuity: a target that holds a comment, an @import and a style rule has the shape - /
example : Shape [.comment []] [.imp [] [] false [] []] [.style [] []] :=
  ⟨by simp [isImp], by simp [isImp], by simp [isImp], by simp [impIndex, afterLast, isImp], by simp⟩

/ -- flattening into the result of an earlier flattening is hoisting the concatenated groups - /
theorem flattening_into_a_flattened_sheet (c d : List Rule) : run (hoist c) d = hoist (c ++ d) := by
  rw [← run_nil_eq_hoist, ← run_append, run_nil_eq_hoist]

/ -- the specification of the last round is the special case without kept imports: on a tree described by `Flat`
the groups are the flattened sheet, nothing is hoisted and nothing fetched — so `resolveImports_flat_partial` is an
instance of `resolveImports_flat_kept_partial` - /
theorem flatSpec_generalises_flat (vfs : Vfs) (who : Who) (href : Str) (sheet out : Sheet) (h : Flat sheet out) :
    flatSpec vfs who href sheet = ⟨.ok out, []⟩ := by
  simp only [flatSpec, cascRules_flat vfs who h href]
  rw [hoist_noImp out (fun r hr => isPlain_notImp r (h.plain_out r hr))]

/ -- cascade order including kept imports: hoisting keeps the kept @imports in their order, the other rules in
their order, loses and invents nothing — for every list of groups - /
theorem hoist_keeps_both_orders (c : List Rule) :
    (hoist c).filter isImp = c.filter isImp ∧
    (hoist c).filter (fun r => !isImp r) = c.filter (fun r => !isImp r) ∧
    (hoist c).length = c.length ∧ ∀ r, r ∈ hoist c ↔ r ∈ c :=
  ⟨hoist_imports c, hoist_others c, hoist_length c, hoist_mem c⟩

/ -- … so in the flattened sheet the rules that are not @imports stand in the cascade order of the groups, and so do
the kept @imports - /
theorem flattened_keeps_both_orders (vfs : Vfs) (who : Who) (href : Str) (sheet c : Sheet)
    (h : (cascRules vfs who href sheet).val = .ok c) :
    ∃ out, (resolveImports vfs who href sheet).val = .ok out ∧
      out.filter isImp = c.filter isImp ∧ out.filter (fun r => !isImp r) = c.filter (fun r => !isImp r) := by
  refine ⟨hoist c, ?_, hoist_imports c, hoist_others c⟩
  have : (flatSpec vfs who href sheet).val = .ok (hoist c) := by simp [flatSpec, h]
  rw [resolveImports_flat_kept_partial vfs who href sheet _ this, this]

/ -- cascade order at EVERY depth: wherever the specification has a value, the rules of the flattened sheet that
are not @imports are exactly `bodyRules sheet` — the depth-first traversal of the import tree defined without file
system, fetcher, target, insertion position or hoisting: own rules in document order; for an @import without media
the marker comment and the re-based body of its target; with media one @media rule around it, or only the marker
comment when the target cannot be wrapped — and an @import is left in the flattened sheet exactly when `bodyRules`
says one has to be kept. With `resolveImports_flat_kept_partial` this is a statement about `resolveImports`. - /
theorem flattened_body_is_depth_first (vfs : Vfs) (who : Who) (href : Str) (sheet out : Sheet)
    (h : (flatSpec vfs who href sheet).val = .ok out) :
    bodyRules sheet = .ok (out.filter notImp, out.any isImp) ∧
    (resolveImports vfs who href sheet).val = .ok out := by
  constructor
  · unfold flatSpec at h
    cases hc : (cascRules vfs who href sheet).val with
    | error e => simp [hc] at h
    | ok c =>
      simp [hc] at h; subst h
      have := cascRules_body vfs who sheet href c hc
      have e1 : (hoist c).filter notImp = c.filter notImp := hoist_others c
      rw [this, e1, any_isImp_hoist]
  · rw [resolveImports_flat_kept_partial vfs who href sheet out h, h]

/ -- where the kept @imports go (the general form of C19-kept-import-hoisted): either the groups start with a rule
that is not an @import and stays in front — a comment — and all kept @imports follow it, or the kept @imports come
first; everything else behind them - /
theorem kept_imports_are_hoisted (c : List Rule) :
    (∃ x rest, c = x :: rest ∧ isImp x = false ∧
      hoist c = x :: (rest.filter isImp ++ rest.filter (fun r => !isImp r))) ∨
    hoist c = c.filter isImp ++ c.filter (fun r => !isImp r) := hoist_cases c

/ -- the region of C19-kept-import-hoisted, exactly: hoisting leaves the groups as they are if and only if the kept
@imports already stand in front of everything else, behind at most one leading comment (`hoisted`, decidable) — so
the order of the flattened sheet differs from cascade order exactly when some rule other than one leading comment
precedes a kept @import in the groups - /
theorem hoisting_is_identity_iff_imports_first (c : List Rule) : hoist c = c ↔ hoisted c = true :=
  hoist_eq_self_iff c

/ -- without a kept @import nothing is moved - /
theorem nothing_hoisted_without_kept_imports (c : List Rule) (h : ∀ r ∈ c, isImp r = false) : hoist c = c :=
  hoist_noImp c h

/ -- the groups of a sheet are the groups of its rules in document order - /
theorem groups_in_document_order (vfs : Vfs) (who : Who) (th : Str) (r : Rule) (rs : List Rule) (c d : List Rule)
    (l1 l2 : FLog) (h1 : cascRule vfs who th r = ⟨.ok c, l1⟩) (h2 : cascRules vfs who th rs = ⟨.ok d, l2⟩) :
    cascRules vfs who th (r :: rs) = ⟨.ok (c ++ d), l1 ++ l2⟩ := by
  simp [cascRules, h1, h2]

/ -- the group of an @import with media whose target cannot be wrapped (it still holds a kept @import, or an @page,
@font-face, @media … rule): the marker comment and the @import as it is, and nothing of its target - /
theorem group_of_unwrappable_import (vfs : Vfs) (who : Who) (th href media ihref : Str) (sheet ci : Sheet) (l : FLog)
    (rebased : Sheet × List Str)
    (hi : cascRules vfs who ihref sheet = ⟨.ok ci, l⟩)
    (hre : replRules (replacer href) (hoist ci) = .ok rebased)
    (hm : media ≠ mediaAll) (hc : rebased.1.all combinable = false) :
    cascRule vfs who th (.imp href media true ihref sheet)
      = ⟨.ok [.comment (startComment href), .imp href media true ihref sheet], l⟩ := by
  simp [cascRule, hi, hre, hm, hc]

/ -- the group of an @import with media whose flattened target holds comments and style rules only - /
theorem group_of_wrapped_import (vfs : Vfs) (who : Who) (th href media ihref : Str) (sheet ci : Sheet) (l : FLog)
    (rebased : Sheet × List Str)
    (hi : cascRules vfs who ihref sheet = ⟨.ok ci, l⟩)
    (hre : replRules (replacer href) (hoist ci) = .ok rebased)
    (hm : media ≠ mediaAll) (hc : rebased.1.all combinable = true) :
    cascRule vfs who th (.imp href media true ihref sheet)
      = ⟨.ok [.comment (startComment href), .media media rebased.1], l⟩ := by
  simp [cascRule, hi, hre, hm, hc]

/ -- the group of an @import without media: marker comment, then the flattened, re-based target with its kept
@imports taken over - /
theorem group_of_merged_import (vfs : Vfs) (who : Who) (th href ihref : Str) (sheet ci m : Sheet) (l l' : FLog)
    (rebased : Sheet × List Str)
    (hi : cascRules vfs who ihref sheet = ⟨.ok ci, l⟩)
    (hre : replRules (replacer href) (hoist ci) = .ok rebased)
    (hk : keepAll vfs who th rebased.1 = ⟨.ok m, l'⟩) :
    cascRule vfs who th (.imp href mediaAll true ihref sheet)
      = ⟨.ok (.comment (startComment href) :: m), l ++ l'⟩ := by
  simp [cascRule, hi, hre, hk]

/ -- the group of an @import whose target was not found: the @import itself, looked for once more from the
flattened sheet (C19-unavailable-refetched in general: that is one fetcher call whenever the URL is well-formed and
not the sheet itself) - /
theorem group_of_unavailable_import (vfs : Vfs) (who : Who) (th href media a : Str) (b : Sheet) (x : Rule) (l : FLog)
    (h : setHref (vfs.length + 2) vfs who [th] href media = ⟨.ok x, l⟩) :
    cascRule vfs who th (.imp href media false a b) = ⟨.ok [x], l⟩ := by
  simp [cascRule, keep1, h]

/ -- C19-kept-import-not-rebased in general: the re-basing step of a merged group maps url() values and leaves every
@import rule of the flattened target as it is — the kept @imports arrive with the hrefs they had - /
theorem rebasing_leaves_kept_imports (href : Str) (inner rebased : Sheet) (log : List Str)
    (h : replaceUrls (replacer href) (fun _ => (false, [], [])) true inner = .ok (rebased, log)) :
    rebased.filter isImp = inner.filter isImp := by
  simp only [replaceUrls, ↓reduceIte] at h
  split at h
  · simp at h
  · rename_i b hb
    simp at h
    rw [← h.1]
    exact replRules_keeps_imports _ inner b.1 b.2 hb

/ -- T19.3, fetching [generalised from `flatten_fetches_nothing_partial` to trees with kept imports]: when the target
of every @import, at any depth, was found when the sheet was loaded, `resolveImports` calls no fetcher — whether or
not @imports have to be kept because they cannot be wrapped — for every tree without @namespace rules.
(An @import whose target was NOT found is looked for again: `group_of_unavailable_import`, the known finding.) - /
theorem flatten_fetches_nothing_when_all_found (vfs : Vfs) (who : Who) (href : Str) (sheet : Sheet)
    (hn : noNsL sheet = true) (hf : allFoundL sheet = true) :
    (resolveImports vfs who href sheet).log = [] := by
  rw [resolveImports_is_flatSpec vfs who href sheet hn]
  have := (cascRules_found vfs who sheet href hf).1
  unfold flatSpec
  cases hc : (cascRules vfs who href sheet).val <;> simp [this, hc]

section
open CssVerif.Proto

/ -- non-vacuity of `flatten_fetches_nothing_when_all_found` with a kept @import: `@import "b.css" print;`,
`b.css` = `@page{}` - /
example : noNsL [.imp (cps "b.css") (cps "print") true (cps "http://h/b.css") [.page [] [] []]] = true ∧
    allFoundL [.imp (cps "b.css") (cps "print") true (cps "http://h/b.css") [.page [] [] []]] = true := by decide

/ -- non-vacuity of `rebasing_leaves_kept_imports` - /
example : replaceUrls (replacer (cps "css/a.css")) (fun _ => (false, [], [])) true
      [.imp (cps "b.css") (cps "print") true (cps "http://h/css/b.css") [.page [] [] []],
       .style (cps "a") [⟨cps "background", [.uri (cps "i.png")], []⟩]]
    = .ok ([.imp (cps "b.css") (cps "print") true (cps "http://h/css/b.css") [.page [] [] []],
       .style (cps "a") [⟨cps "background", [.uri (cps "css/i.png")], []⟩]], [cps "i.png"]) := by
  have : replacer (cps "css/a.css") (cps "i.png") = .ok (cps "css/i.png") := by decide
  simp [replaceUrls, replRules, replRule, replStyle, replComps, replComp, this]

/ -- non-vacuity of `group_of_merged_import`, `group_of_wrapped_import`, `group_of_unavailable_import` - /
example : cascRules [] .user (cps "http://h/a.css") [.style (cps "a") []] = ⟨.ok [.style (cps "a") []], []⟩ ∧
    replRules (replacer (cps "a.css")) (hoist [.style (cps "a") []]) = .ok ([.style (cps "a") []], []) ∧
    keepAll [] .user (cps "http://h/m.css") [.style (cps "a") []] = ⟨.ok [.style (cps "a") []], []⟩ ∧
    ([Rule.style (cps "a") []]).all combinable = true ∧
    setHref ([] : Vfs).length.succ.succ [] .user [cps "http://h/m.css"] (cps "x.css") mediaAll
      = ⟨.ok (notLoaded (cps "x.css") mediaAll), [(.user, cps "http://h/x.css")]⟩ := by
  refine ⟨rfl, rfl, rfl, rfl, ?_⟩
  have : urljoin (cps "http://h/m.css") (cps "x.css") = .ok (cps "http://h/x.css") := by decide
  have hne : ¬ cps "http://h/x.css" = cps "http://h/m.css" := by decide
  simp [setHref, this, vfsLookup, hne]

/ -- non-vacuity of `resolveImports_flat_kept_partial`, and the three known findings read off the specification:
main = `@import "a.css"; @import "b.css" print; @import "x.css";` with `a.css` = `a{}`, `b.css` = `@page{}` (cannot be
wrapped), `x.css` unavailable: the specification has the value comment, @import b, @import x, style rule, comment
(kinds 1 2 2 4 1) with one fetcher call - /
example :
    (flatSpec [] .user (cps "http://h/m.css")
      [.imp (cps "a.css") mediaAll true (cps "http://h/a.css") [.style (cps "a") []],
       .imp (cps "b.css") (cps "print") true (cps "http://h/b.css") [.page [] [] []],
       .imp (cps "x.css") mediaAll false [] []]).okMap (fun t => (t.map Rule.tag, importHrefs t))
      = some ([1, 2, 2, 4, 1], [cps "b.css", cps "x.css"]) ∧
    (flatSpec [] .user (cps "http://h/m.css")
      [.imp (cps "a.css") mediaAll true (cps "http://h/a.css") [.style (cps "a") []],
       .imp (cps "b.css") (cps "print") true (cps "http://h/b.css") [.page [] [] []],
       .imp (cps "x.css") mediaAll false [] []]).log = [(.user, cps "http://h/x.css")] := by
  constructor <;> decide +kernel

/ -- `bodyRules` on that tree: marker comment of a, the style rule of a, marker comment of b (whose target is not
merged) — kinds 1 4 1 — and "an @import is kept" - /
example :
    (match bodyRules
      [.imp (cps "a.css") mediaAll true (cps "http://h/a.css") [.style (cps "a") []],
       .imp (cps "b.css") (cps "print") true (cps "http://h/b.css") [.page [] [] []],
       .imp (cps "x.css") mediaAll false [] []] with
     | .ok (b, k) => some (b.map Rule.tag, k)
     | .error _ => none) = some ([1, 4, 1], true) := by decide +kernel

/ -- non-vacuity, nested: `@import "css/a.css";` with `css/a.css` = `@import "b.css" print; a{}` and `css/b.css` =
`@page{}`: the kept @import of the inner sheet is taken over into the outer group, behind the marker comment - /
example :
    (flatSpec [] .user (cps "http://h/m.css")
      [.imp (cps "css/a.css") mediaAll true (cps "http://h/css/a.css")
        [.imp (cps "b.css") (cps "print") true (cps "http://h/css/b.css") [.page [] [] []],
         .style (cps "a") []]]).okMap (fun t => (t.map Rule.tag, importHrefs t))
      = some ([1, 2, 1, 4], [cps "b.css"]) := by decide +kernel

/ -- non-vacuity of `resolveImports_is_flatSpec`: the witness trees above hold no @namespace rule - /
example : noNsL
      [.imp (cps "a.css") mediaAll true (cps "http://h/a.css") [.style (cps "a") []],
       .imp (cps "b.css") (cps "print") true (cps "http://h/b.css") [.page [] [] []],
       .imp (cps "x.css") mediaAll false [] []] = true := by decide

/ -- non-vacuity of the group theorems: their hypotheses hold for the witness trees above - /
example : cascRules [] .user (cps "http://h/b.css") [.page [] [] []] = ⟨.ok [.page [] [] []], []⟩ ∧
    replRules (replacer (cps "b.css")) (hoist [.page [] [] []]) = .ok ([.page [] [] []], []) ∧
    cps "print" ≠ mediaAll ∧ ([Rule.page [] [] []]).all combinable = false := by
  refine ⟨rfl, rfl, by decide, rfl⟩
end

-/

/-! ## T19.3, fetching — each available target is fetched exactly once per import edge

Full statement (does NOT hold, known finding C19-unavailable-refetched): the fetcher is called exactly once per
@import rule met while the tree is loaded, and never by `resolveImports`.
What holds is the statement for the targets the fetcher can deliver: -/

/-- while a sheet is parsed, the fetcher calls for deliverable URLs are exactly the import edges of the loaded
tree whose target was found, each once, in the order the @import rules are met (depth first) — for every virtual
file system, every sheet, every fuel -/
theorem parse_fetches_each_found_target_once_partial (vfs : Vfs) (href : Str) (raw loaded : Sheet)
    (h : (parseSheet vfs href raw).val = .ok loaded) :
    (parseSheet vfs href raw).log.filter (avail vfs) = edgesL .user loaded := by
  unfold parseSheet at h ⊢
  exact loadWith_edges vfs .user _
    (fun hr m r hv => twice_edges vfs .user _ (fun r' h' => setHref_edges vfs .user _ _ hr m r' h') r hv) raw loaded h

/-- … and `resolveImports` on a tree it can flatten completely calls no fetcher at all
(`resolveImports_flat_partial` gives the empty log) -/
theorem flatten_fetches_nothing_partial (vfs : Vfs) (who : Who) (href : Str) (sheet out : Sheet) (h : Flat sheet out) :
    (resolveImports vfs who href sheet).log = [] := by
  rw [resolveImports_flat_partial vfs who href sheet out h]

/-! ## the fuel of the loader model is sufficient (so "termination" of loading is a theorem, not an assumption) -/

/-- along an import chain no file occurs twice (recursion guard of fix bfd81fb), so `_setHref` nests at most as deep
as there are files not yet on the chain: with more fuel than that the model never reports fuel exhaustion -/
theorem setHref_noFuel' (vfs : Vfs) (who : Who) (fuel : Nat) (chain : List Str) (href media : Str)
    (h : unvisited vfs chain < fuel) : (setHref fuel vfs who chain href media).val ≠ .error .fuel :=
  setHref_noFuel vfs who fuel chain href media h

/-- `parseSheet` (fuel `vfs.length + 2`) never runs out of fuel -/
theorem parseSheet_noFuel (vfs : Vfs) (href : Str) (raw : Sheet) : (parseSheet vfs href raw).val ≠ .error .fuel := by
  intro h
  obtain ⟨hr, m, he⟩ := loadWith_error _ raw .fuel h
  simp only [parseImp, twice_val] at he
  have := unvisited_le vfs [href]
  exact setHref_noFuel vfs .user (vfs.length + 2) [href] hr m (by omega) he

/-- … nor does the re-fetch that `CSSStyleSheet.add` does for an @import whose target was not found, nor anything
else in `resolveImports`: the model's answers never depend on the fuel -/
theorem resolveImports_noFuel (vfs : Vfs) (who : Who) (href : Str) (sheet : Sheet) :
    (resolveImports vfs who href sheet).val ≠ .error .fuel := resolveRules_ne_fuel vfs who sheet href []

end CssVerif.C19
