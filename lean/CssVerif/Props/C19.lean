import CssVerif.Lemmas.Urls
/-!
# C19 — URL enumeration/replacement exact; flattening @imports preserves meaning

Property theorems only (helpers are in `Lemmas/Urls.lean`). Model: `Model/Urls.lean`, tied to
`cssutils/__init__.py:183-415`, `cssimportrule.py:273-346`, `cssstylesheet.py:552-884` and to CPython's
`posixpath` / `urllib.parse` by the correspondence of `tools/harness/c19.py`.
-/
namespace CssVerif.C19
open CssVerif.Urls

/-! ## T19.1 — `getUrls` / `replaceUrls` -/

/-- T19.1a: after `replaceUrls(sheet, f)` the URLs of the sheet are `f` of the URLs before, one for one and in the
same order; and T19.1b: the replacer was called with exactly `getUrls sheet`, in that order, once each —
for every sheet, every replacer that does not raise, and whatever re-fetching the imports gives. -/
theorem replaceUrls_getUrls (g : Str → Str) (reload : Str → Bool × Str × Sheet) (sh : Sheet) :
    ∃ sh', replaceUrls (total g) reload false sh = .ok (sh', getUrls sh) ∧ getUrls sh' = (getUrls sh).map g := by
  refine ⟨mapRules g (mapImports g reload sh), ?_, ?_⟩
  · rw [replaceUrls_total, styleDeclsL_mapImports]; rfl
  · have h := rulesUris_map g (mapImports g reload sh)
    simp only [rulesUris] at h
    simp only [getUrls, importHrefs_mapRules, importHrefs_mapImports, h, styleDeclsL_mapImports, List.map_append]

/-- with `ignoreImportRules=True` the hrefs of the @import rules are neither passed to the replacer nor changed -/
theorem replaceUrls_ignoreImports (g : Str → Str) (reload : Str → Bool × Str × Sheet) (sh : Sheet) :
    ∃ sh', replaceUrls (total g) reload true sh = .ok (sh', rulesUris sh) ∧
      importHrefs sh' = importHrefs sh ∧ rulesUris sh' = (rulesUris sh).map g := by
  refine ⟨mapRules g sh, replaceUrls_total_ign g reload sh, importHrefs_mapRules g sh, rulesUris_map g sh⟩

/-- T19.1c: the identity replacer is a no-op (on the whole rule tree, provided fetching an import again yields
the sheet it yielded before; the hrefs, URLs and everything that is serialised are unchanged regardless:
`replaceUrls_getUrls` with `g = id`). -/
theorem replaceUrls_id (reload : Str → Bool × Str × Sheet) (sh : Sheet) (h : Stable reload sh) :
    replaceUrls (total fun u => u) reload false sh = .ok (sh, getUrls sh) := by
  rw [replaceUrls_total, styleDeclsL_mapImports, mapImports_id reload sh h, mapRules_id]; rfl

/-- T19.1d, order: imports first, then every rule's URLs in document order — a rule's own declarations before
those of its child rules (@page before its margin boxes, fix 8b00308), nested rules where they stand. -/
theorem getUrls_order (sh : Sheet) : getUrls sh = importHrefs sh ++ rulesUris sh := rfl

theorem rulesUris_page (sel : Str) (st : Style) (ms : List (Str × Style)) (rs : List Rule) :
    rulesUris (.page sel st ms :: rs) = uriValues st ++ marginUris ms ++ rulesUris rs := by
  rw [rulesUris_cons, ruleUris, styleDecls_page_uris]

theorem rulesUris_media (m : Str) (inner rs : List Rule) :
    rulesUris (.media m inner :: rs) = rulesUris inner ++ rulesUris rs := by
  rw [rulesUris_cons]; simp [ruleUris, rulesUris, styleDecls]

theorem rulesUris_style (sel : Str) (st : Style) (rs : List Rule) :
    rulesUris (.style sel st :: rs) = uriValues st ++ rulesUris rs := by
  rw [rulesUris_cons]; simp [ruleUris, styleDecls]

/-- non-vacuity / the @page order on a concrete sheet -/
example : getUrls [.imp [0x69] [] false [] [],
                   .page [] [⟨[0x62], [.uri [0x70]], []⟩] [([0x74], [⟨[0x62], [.uri [0x6D]], []⟩])],
                   .media [0x73] [.style [0x61] [⟨[0x62], [.tok [0x78], .uri [0x75]], []⟩]]]
    = [[0x69], [0x70], [0x6D], [0x75]] := by decide

/-! ### completeness: "every url() value"

Full statement (does NOT hold, known finding C19-url-in-function):
  `∀ sh, getUrls sh = allUrls sh`   where `allUrls` also descends into function arguments.
`_uri_values` (`__init__.py:215-221`) iterates the top-level items of a property value only. -/

/-- what holds: on sheets without a url() inside a function argument `getUrls` yields every URL -/
theorem getUrls_complete_partial (sh : Sheet) (h : FlatSheet sh) : getUrls sh = allUrls sh := by
  simp only [getUrls, allUrls, flatMap_uriValuesDeep_flat _ h]

/-- `a{background:image-set(url(x.png) 1x)}`: the URL is not enumerated (and hence never replaced or re-based) -/
theorem getUrls_misses_nested_url :
    getUrls [.style [0x61] [⟨[0x62], [.fn [0x69] [.uri [0x78], .tok [0x31]]], []⟩]] = [] ∧
    allUrls [.style [0x61] [⟨[0x62], [.fn [0x69] [.uri [0x78], .tok [0x31]]], []⟩]] = [[0x78]] := by decide

example : FlatSheet [.style [0x61] [⟨[0x62], [.uri [0x78], .fn [0x66] [.tok [0x31]]], []⟩]] := by
  intro st hst d hd c hc
  simp [styleDeclsL, styleDecls] at hst
  subst hst
  simp at hd
  subst hd
  simp at hc
  rcases hc with rfl | rfl <;> simp [Comp.flat, compsUrlsDeep, compUrlsDeep]

end CssVerif.C19
