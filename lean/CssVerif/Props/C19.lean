import CssVerif.Lemmas.Urls
/-!
# C19 — URL enumeration/replacement exact; flattening @imports preserves meaning

Property theorems only (helpers are in `Lemmas/Urls.lean`). Model: `Model/Urls.lean`, tied to
`cssutils/__init__.py:183-415`, `cssimportrule.py:273-346`, `cssstylesheet.py:552-884` and to CPython's
`posixpath` / `urllib.parse` by the correspondence of `tools/harness/c19.py`.
-/
namespace CssVerif.C19
open CssVerif.Urls

/-! ## T19.1 — `getUrls` / `replaceUrls` -/

/-- T19.1a: after `replaceUrls(sheet, f)` the URLs of the sheet are `f` of the URLs before, one for one and in the
same order; and T19.1b: the replacer was called with exactly `getUrls sheet`, in that order, once each —
for every sheet, every replacer that does not raise, and whatever re-fetching the imports gives. -/
theorem replaceUrls_getUrls (g : Str → Str) (reload : Str → Bool × Str × Sheet) (sh : Sheet) :
    ∃ sh', replaceUrls (total g) reload false sh = .ok (sh', getUrls sh) ∧ getUrls sh' = (getUrls sh).map g := by
  refine ⟨mapRules g (mapImports g reload sh), ?_, ?_⟩
  · rw [replaceUrls_total, styleDeclsL_mapImports]; rfl
  · have h := rulesUris_map g (mapImports g reload sh)
    simp only [rulesUris] at h
    simp only [getUrls, importHrefs_mapRules, importHrefs_mapImports, h, styleDeclsL_mapImports, List.map_append]

/-- with `ignoreImportRules=True` the hrefs of the @import rules are neither passed to the replacer nor changed -/
theorem replaceUrls_ignoreImports (g : Str → Str) (reload : Str → Bool × Str × Sheet) (sh : Sheet) :
    ∃ sh', replaceUrls (total g) reload true sh = .ok (sh', rulesUris sh) ∧
      importHrefs sh' = importHrefs sh ∧ rulesUris sh' = (rulesUris sh).map g := by
  refine ⟨mapRules g sh, replaceUrls_total_ign g reload sh, importHrefs_mapRules g sh, rulesUris_map g sh⟩

/-- T19.1c: the identity replacer is a no-op (on the whole rule tree, provided fetching an import again yields
the sheet it yielded before; the hrefs, URLs and everything that is serialised are unchanged regardless:
`replaceUrls_getUrls` with `g = id`). -/
theorem replaceUrls_id (reload : Str → Bool × Str × Sheet) (sh : Sheet) (h : Stable reload sh) :
    replaceUrls (total fun u => u) reload false sh = .ok (sh, getUrls sh) := by
  rw [replaceUrls_total, styleDeclsL_mapImports, mapImports_id reload sh h, mapRules_id]; rfl

/-- T19.1d, order: imports first, then every rule's URLs in document order — a rule's own declarations before
those of its child rules (@page before its margin boxes, fix 8b00308), nested rules where they stand. -/
theorem getUrls_order (sh : Sheet) : getUrls sh = importHrefs sh ++ rulesUris sh := rfl

theorem rulesUris_page (sel : Str) (st : Style) (ms : List (Str × Style)) (rs : List Rule) :
    rulesUris (.page sel st ms :: rs) = uriValues st ++ marginUris ms ++ rulesUris rs := by
  rw [rulesUris_cons, ruleUris, styleDecls_page_uris]

theorem rulesUris_media (m : Str) (inner rs : List Rule) :
    rulesUris (.media m inner :: rs) = rulesUris inner ++ rulesUris rs := by
  rw [rulesUris_cons]; simp [ruleUris, rulesUris, styleDecls]

theorem rulesUris_style (sel : Str) (st : Style) (rs : List Rule) :
    rulesUris (.style sel st :: rs) = uriValues st ++ rulesUris rs := by
  rw [rulesUris_cons]; simp [ruleUris, styleDecls]

/-- non-vacuity / the @page order on a concrete sheet -/
example : getUrls [.imp [0x69] [] false [] [],
                   .page [] [⟨[0x62], [.uri [0x70]], []⟩] [([0x74], [⟨[0x62], [.uri [0x6D]], []⟩])],
                   .media [0x73] [.style [0x61] [⟨[0x62], [.tok [0x78], .uri [0x75]], []⟩]]]
    = [[0x69], [0x70], [0x6D], [0x75]] := by decide

/-! ### completeness: "every url() value"

Full statement (does NOT hold, known finding C19-url-in-function):
  `∀ sh, getUrls sh = allUrls sh`   where `allUrls` also descends into function arguments.
`_uri_values` (`__init__.py:215-221`) iterates the top-level items of a property value only. -/

/-- what holds: on sheets without a url() inside a function argument `getUrls` yields every URL -/
theorem getUrls_complete_partial (sh : Sheet) (h : FlatSheet sh) : getUrls sh = allUrls sh := by
  simp only [getUrls, allUrls, flatMap_uriValuesDeep_flat _ h]

/-- `a{background:image-set(url(x.png) 1x)}`: the URL is not enumerated (and hence never replaced or re-based) -/
theorem getUrls_misses_nested_url :
    getUrls [.style [0x61] [⟨[0x62], [.fn [0x69] [.uri [0x78], .tok [0x31]]], []⟩]] = [] ∧
    allUrls [.style [0x61] [⟨[0x62], [.fn [0x69] [.uri [0x78], .tok [0x31]]], []⟩]] = [[0x78]] := by decide

example : FlatSheet [.style [0x61] [⟨[0x62], [.uri [0x78], .fn [0x66] [.tok [0x31]]], []⟩]] := by
  intro st hst d hd c hc
  simp [styleDeclsL, styleDecls] at hst
  subst hst
  simp at hd
  subst hd
  simp at hc
  rcases hc with rfl | rfl <;> simp [Comp.flat, compsUrlsDeep, compUrlsDeep]

/-! ## T19.2 — re-basing: the path algebra of `Replacer` (`os.path.normpath`) against `urljoin`

`T` = the path segments of the importing sheet's directory as `urljoin` splits them, `D` = the directory segments of
the @import href (`css/sub/a.css` ↦ `[css, sub]`), `g` = its file name, `U ++ [f]` = the segments of a relative
`url()` of the imported sheet. `normComps false` is the loop of `os.path.normpath` on a relative path, `rdsSegs` the
dot-segment removal of `urljoin`; the model's `normpath`/`urljoin` are built from exactly these. -/

/-- T19.2 [W1]: seen from the importing (combined) sheet the re-based URL `norm (D ++ U ++ [f])` resolves to the
path the original URL resolved to from the imported sheet's own location — for every base directory (also when
`..` climbs above the root, where `urljoin` clamps), every import directory and every relative URL whose
segments are non-empty and whose last segment is a name. -/
theorem rebased_url_resolves_identically (T D U : List Str) (g f : Str)
    (hD : ∀ c ∈ D, c ≠ []) (hU : ∀ c ∈ U, c ≠ []) (hg : Normal g) (hf : Normal f) :
    rdsSegs (T ++ normComps false (D ++ U ++ [f]))
      = rdsSegs ((rdsSegs (T ++ D ++ [g])).dropLast ++ (U ++ [f])) := by
  rw [rdsSegs_two_step T D (U ++ [f]) g hg (by simp)]
  have h : ∀ c ∈ D ++ U, c ≠ [] := by
    intro c hc
    rcases List.mem_append.mp hc with hc | hc
    · exact hD c hc
    · exact hU c hc
  have := rdsSegs_norm T (D ++ U) f h hf
  simpa [List.append_assoc] using this

/-- the same with the stacks spelled out: normalising never changes what dot-segment removal yields -/
theorem normpath_then_resolve (S cs : List Str) (h : ∀ c ∈ cs, c ≠ []) :
    (normComps false cs).foldl rdsStep S = cs.foldl rdsStep S := rds_norm_fold S cs h

/-- non-vacuity, and the clamping case: main sheet `/main.css`, `@import "c/a"`, `url(../../../x)`; the root's
empty segment is popped too and `urlunsplit` puts the leading slash back -/
example : rdsSegs ([[]] ++ normComps false ([[0x63]] ++ [dotdot, dotdot, dotdot] ++ [[0x78]])) = [[0x78]] ∧
    rdsSegs ((rdsSegs ([[]] ++ [[0x63]] ++ [[0x61]])).dropLast ++ ([dotdot, dotdot, dotdot] ++ [[0x78]]))
      = [[0x78]] := by decide

/-- `Replacer` keeps anything absolute: a URL with a scheme, with a host (`//host/…`) or with a root-relative path
is returned as it is (`__init__.py:281-283`) -/
theorem replacer_keeps_absolute (base uri : Str) (s : Split) (h : urlsplit uri = .ok s)
    (habs : s.scheme ≠ [] ∨ s.netloc ≠ [] ∨ startsWith [cSlash] s.path = true) :
    replacerCall base uri = .ok uri := by
  simp only [replacerCall, h]
  rw [if_pos habs]

/-- … and for a relative one it re-bases the path only: query and fragment are put back unchanged (fix dd65231) -/
theorem replacer_relative (base uri : Str) (s : Split) (h : urlsplit uri = .ok s)
    (hrel : s.scheme = [] ∧ s.netloc = [] ∧ startsWith [cSlash] s.path = false) (p : Str)
    (hq : quote (normpath (pjoin base [(psplit s.path).1, (psplit s.path).2])) = .ok p) :
    replacerCall base uri = .ok (urlunsplit { scheme := [], netloc := [], path := p, query := s.query,
                                              fragment := s.fragment }) := by
  simp only [replacerCall, h]
  rw [if_neg (by simp [hrel.1, hrel.2.1, hrel.2.2]), hq]

/-- `quote(…, safe='/%')` is the identity on unreserved characters, `/` and `%` (fix dd65231: escapes survive) -/
theorem quote_identity_on_safe (s : Str) (h : QuoteSafe s) : quote s = .ok s := quote_safe s h

/-- the string-level `normpath` of a relative path is the segment-level `normComps false` -/
theorem normpath_relative (p : Str) (h0 : p ≠ []) (h1 : p.head? ≠ some cSlash) :
    normpath p = (if joinWith cSlash (normComps false (splitOn cSlash p)) = [] then dot
                  else joinWith cSlash (normComps false (splitOn cSlash p))) := by
  have hi : initialSlashes p = 0 := by
    unfold initialSlashes
    split <;> simp_all [cSlash]
  simp [normpath, h0, hi]

/-- worked example with the real strings: `@import "css/a.css"`, `url(../img/x.png?v=2#f)` -/
example : replacer (CssVerif.Proto.cps "css/a.css") (CssVerif.Proto.cps "../img/x.png?v=2#f")
    = .ok (CssVerif.Proto.cps "img/x.png?v=2#f") := by decide

example : urljoin (CssVerif.Proto.cps "http://h/base/main.css") (CssVerif.Proto.cps "img/x.png?v=2#f")
    = urljoin (CssVerif.Proto.cps "http://h/base/css/a.css") (CssVerif.Proto.cps "../img/x.png?v=2#f") := by decide

end CssVerif.C19
