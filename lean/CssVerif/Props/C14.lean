import CssVerif.Model.Profiles
/-!
# C14 — the profile registry's verdicts depend on its contents, not its history
-/
namespace CssVerif.C14
open CssVerif.Profiles

/-- T14.5 a `removeProfile` that raises `NoSuchProfileException` changes nothing (every registry, no invariant needed) -/
theorem remove_rejected_unchanged (cfg : Cfg) (r : Reg) (p : Option Str)
    (h : (removeProfile cfg r p).2 = some .noSuchProfile) : (removeProfile cfg r p).1 = r := by
  unfold removeProfile at *
  cases p with
  | none => rfl
  | some p =>
    simp only at *
    cases h1 : dget r.raw p with
    | none => rfl
    | some e =>
      simp only [h1] at *
      cases h2 : dget r.compiled p with
      | none => rfl
      | some c =>
        simp only [h2] at *
        split at h
        · split at h
          · split at h
            · sorry
            · simp at h
          · simp [updateKnown] at h
        · simp at h

end CssVerif.C14
