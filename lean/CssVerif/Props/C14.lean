import CssVerif.Lemmas.Profiles
import CssVerif.Lemmas.MacroRank
import CssVerif.Lemmas.MacroHist
import CssVerif.Lemmas.MacroComplete
import CssVerif.Lemmas.MacroFuel
import CssVerif.Lemmas.ProfilesSpec
import CssVerif.Gen.C14Profiles
/-!
# C14 — the profile registry's verdicts depend on its contents, not its history

Property theorems only (helpers: `Lemmas/Profiles.lean`). Model: `Model/Profiles.lean`, a statement-by-statement
transcription of class `Profiles` of `cssutils/profiles.py` as it is now (with the repairs 86e5da6, 8a9e974,
fb19e57), tied to the code by the per-operation correspondence of `tools/harness/c14.py`. Regex acceptance is the
parameter `accepts`; every theorem holds for all of its values, for every base macro table and every bound on the
expansion loop (`cfg`), for all profile names, property tables and macro tables, well formed or not.

`Inv cfg r` (T14.1): names listed once; the raw table covers exactly the names, with complete entries; the macro
cache `used` is, look-up for look-up, the base macros updated with the macros of the registered profiles in
registration order; the compiled table has the names as keys in registration order and holds the expansion of each
raw definition under that environment; `knownNames` is derived from the compiled table.

Four defects that broke this on the earlier tree (remove-all kept the macro cache; re-adding a registered name with
macros kept the replaced macros; bulk add over registered profiles did not re-expand them; a mutator that raised
left a half-updated registry) are fixed in the code; the histories that exposed them are re-checked below
(`fixed_*`).
-/
namespace CssVerif.C14
open CssVerif.Profiles

/-! ## T14.1 the invariant is kept by every operation, unconditionally -/

/-- the registry without profiles satisfies the invariant -/
theorem inv_empty (cfg : Cfg) : Inv cfg (empty cfg) :=
  ⟨by simp [empty], by simp [empty, dget], by simp [empty, dget], SameEnv.refl _, rfl, by simp [empty], rfl⟩

/-- `addProfile`, whatever the name (new or registered), the properties and the macros (new ones, ones that shadow
token macros, general macros or another profile's macros, undefined or cyclic ones) -/
theorem addProfile_inv (cfg : Cfg) (r : Reg) (p : Str) (ps : Dict PVal) (ms : Option (Dict Str))
    (hinv : Inv cfg r) : Inv cfg (addProfile cfg r p ps ms).1 :=
  Profiles.addProfile_inv cfg r p ps ms hinv

/-- `addProfiles` (bulk add), on an empty registry or over registered profiles, names repeated or not -/
theorem addProfiles_inv (cfg : Cfg) (r : Reg) (l : List ProfileDef) (hinv : Inv cfg r) :
    Inv cfg (addProfiles cfg r l).1 :=
  Profiles.addProfiles_inv cfg r l hinv

/-- `removeProfile(name)` / `removeProfile()`, registered name or not, dependants or not -/
theorem removeProfile_inv (cfg : Cfg) (r : Reg) (q : Option Str) (hinv : Inv cfg r) :
    Inv cfg (removeProfile cfg r q).1 :=
  Profiles.removeProfile_inv cfg r q hinv

/-- `removeProfile(all=True)`, from any registry at all -/
theorem removeAll_inv (cfg : Cfg) (r : Reg) : Inv cfg (removeAll cfg r) :=
  Profiles.removeAll_inv cfg r

theorem setDefault_inv (cfg : Cfg) (r : Reg) (d : Option (List Str)) (hinv : Inv cfg r) : Inv cfg (setDefault r d) :=
  Profiles.setDefault_inv cfg r d hinv

/-- every finite history of operations keeps the invariant -/
theorem run_inv (cfg : Cfg) (r : Reg) (ops : List Op) (hinv : Inv cfg r) : Inv cfg (run cfg r ops) :=
  Profiles.run_inv cfg r ops hinv

/-- `Profiles()` followed by any history: the invariant holds — for ANY built-in tables (if the constructor's
`addProfiles` raised, Python would have no object; the model then continues from the empty registry) -/
theorem reachable_inv (cfg : Cfg) (builtins : List ProfileDef) (ops : List Op) :
    Inv cfg (run cfg (init cfg builtins).1 ops) := by
  apply Profiles.run_inv
  have h := Profiles.addProfiles_inv cfg (empty cfg) builtins (inv_empty cfg)
  unfold init
  simp only
  cases hx : (addProfiles cfg (empty cfg) builtins).2 with
  | some e => exact h
  | none => exact ⟨h.nodup, h.rawDom, h.rawFull, h.used, h.ckeys, h.cvals, rfl⟩

/-- and when the built-in names differ (checked for the generated tables on every run: driver `initcheck`), a
construction that does not raise registers exactly the tables, in order -/
theorem init_contents (cfg : Cfg) (l : List ProfileDef) (hnd : (l.map (·.name)).Nodup)
    (hs : (init cfg l).2 = none) :
    contents (init cfg l).1 = l.map (fun d => { name := d.name, props := d.props, macros := dm d }) := by
  have hs' : (addProfiles cfg (empty cfg) l).2 = none := by
    unfold init at hs
    cases hx : (addProfiles cfg (empty cfg) l).2 with
    | none => rfl
    | some e => simp [hx] at hs
  have := addProfiles_ok_plain cfg (empty cfg) l (inv_empty cfg) (by simp [empty]) hnd hs'
  unfold init
  simp only [hs']
  exact this

/-- an operation that raises — undefined macro, endless macro, unknown profile — leaves the registry exactly as
it was (this contains T14.5) -/
theorem rejected_unchanged (cfg : Cfg) (r : Reg) (op : Op) (e : Exc) (h : (step cfg r op).2 = some e) :
    (step cfg r op).1 = r :=
  step_fail cfg r op e h

/-- a definition that expands with some fuel expands to the same text with any larger fuel (see `fuel_irrelevant`
in T14.6 for the statement without the premise "expands") -/
theorem fuel_irrelevant_finished (m : Dict Str) (f g : Nat) (v r : Str) (hfg : f ≤ g)
    (h : expandValue m f v = .ok r) : expandValue m g v = .ok r :=
  expandValue_fuel_mono m f g v r hfg h

/-- `expand_mono`: a definition that expands is not affected by further macros under new names -/
theorem expand_mono (a b : Dict Str) (h : ∀ k v, dget a k = some v → dget b k = some v) (f : Nat) (d r : Dict PVal)
    (hr : expandDict f a d = .ok r) : expandDict f b d = .ok r :=
  expandDict_mono h f d r hr

/-! ## T14.2 contents determine behaviour -/

/-- two registries that satisfy the invariant and hold the same profiles (same names in the same order, same raw
definitions, same macros) with the same `defaultProfiles` answer every query alike: `validate`,
`validateWithProfile` (with or without explicit profiles), `propertiesByProfile`, `profiles`, `knownNames` —
whatever histories produced them. -/
theorem contents_determine (cfg : Cfg) (accepts : CVal → Str → Bool) (r₁ r₂ : Reg) (h₁ : Inv cfg r₁) (h₂ : Inv cfg r₂)
    (hc : contents r₁ = contents r₂) (hd : r₁.default = r₂.default) :
    r₁.names = r₂.names ∧ r₁.known = r₂.known ∧
    (∀ n v, validate accepts r₁ n v = validate accepts r₂ n v) ∧
    (∀ n v ps, validateWithProfile accepts r₁ n v ps = validateWithProfile accepts r₂ n v ps) ∧
    (∀ ps, propertiesByProfile r₁ ps = propertiesByProfile r₂ ps) := by
  have ho := obs_eq_of_contents cfg r₁ r₂ h₁ h₂ hc hd
  have ho' := ho
  simp only [obs, Obs.mk.injEq] at ho'
  exact ⟨ho'.1, ho'.2.2.1, fun n v => validate_obs accepts r₁ r₂ ho n v,
    fun n v ps => validateWithProfile_obs accepts r₁ r₂ ho n v ps, fun ps => propertiesByProfile_obs r₁ r₂ ho ps⟩

/-- **the answers as explicit functions of the contents**: a registry that satisfies the invariant is, for every
query, the registry `specReg cfg (scontents r) r.default` computed from its contents and `defaultProfiles` alone
(`Model/ProfilesSpec.lean`: environment = base macros updated with the entries' macros in order; compiled table =
every raw table expanded under it) — `profiles`, `knownNames`, the effective default profiles, `validate`,
`validateWithProfile` (any `profiles` argument), `propertiesByProfile` -/
theorem answers_from_contents (cfg : Cfg) (accepts : CVal → Str → Bool) (r : Reg) (hinv : Inv cfg r) :
    r.names = (specReg cfg (scontents r) r.default).names ∧
    r.known = (specReg cfg (scontents r) r.default).known ∧
    getDefault r = getDefault (specReg cfg (scontents r) r.default) ∧
    (∀ n v, validate accepts r n v = validate accepts (specReg cfg (scontents r) r.default) n v) ∧
    (∀ n v ps, validateWithProfile accepts r n v ps
      = validateWithProfile accepts (specReg cfg (scontents r) r.default) n v ps) ∧
    (∀ ps, propertiesByProfile r ps = propertiesByProfile (specReg cfg (scontents r) r.default) ps) := by
  have ho := obs_spec cfg r hinv
  have ho' := ho
  simp only [obs, Obs.mk.injEq] at ho'
  refine ⟨ho'.1, ho'.2.2.1, ?_, fun n v => validate_obs accepts _ _ ho n v,
    fun n v ps => validateWithProfile_obs accepts _ _ ho n v ps, fun ps => propertiesByProfile_obs _ _ ho ps⟩
  simp only [getDefault, specReg, scontents_names]

/-- for everything reachable from `Profiles()`, whatever the history -/
theorem reachable_answers_from_contents (cfg : Cfg) (accepts : CVal → Str → Bool) (builtins : List ProfileDef)
    (ops : List Op) (n v : Str) (ps : Option (List Str)) :
    let r := run cfg (init cfg builtins).1 ops
    validate accepts r n v = validate accepts (specReg cfg (scontents r) r.default) n v ∧
    validateWithProfile accepts r n v ps = validateWithProfile accepts (specReg cfg (scontents r) r.default) n v ps ∧
    r.known = (specReg cfg (scontents r) r.default).known := by
  intro r
  obtain ⟨_, hk, _, hv, hw, _⟩ := answers_from_contents cfg accepts r (reachable_inv cfg builtins ops)
  exact ⟨hv n v, hw n v ps, hk⟩

/-- in particular for everything reachable from `Profiles()`: two histories that end with the same contents and
`defaultProfiles` end with the same verdicts -/
theorem histories_with_same_contents (cfg : Cfg) (accepts : CVal → Str → Bool) (builtins : List ProfileDef)
    (ops₁ ops₂ : List Op)
    (hc : contents (run cfg (init cfg builtins).1 ops₁) = contents (run cfg (init cfg builtins).1 ops₂))
    (hd : (run cfg (init cfg builtins).1 ops₁).default = (run cfg (init cfg builtins).1 ops₂).default) (n v : Str) :
    validate accepts (run cfg (init cfg builtins).1 ops₁) n v = validate accepts (run cfg (init cfg builtins).1 ops₂) n v ∧
    (run cfg (init cfg builtins).1 ops₁).known = (run cfg (init cfg builtins).1 ops₂).known := by
  obtain ⟨_, hk, hv, _, _⟩ := contents_determine cfg accepts _ _ (reachable_inv cfg builtins ops₁)
    (reachable_inv cfg builtins ops₂) hc hd
  exact ⟨hv n v, hk⟩

/-- what a history does to the contents: as long as each operation goes through (or is a removal rejected with
`NoSuchProfileException`) and bulk adds bring new names only, the contents and `defaultProfiles` evolve like a
plain list of (name, properties, macros) under the same operations -/
theorem run_contents (cfg : Cfg) (r : Reg) (ops : List Op) (hinv : Inv cfg r) (hq : QuietRun cfg r ops) :
    contents (run cfg r ops) = crun (contents r) ops ∧ (run cfg r ops).default = drun r.default ops :=
  Profiles.run_contents cfg r ops hinv hq

/-- adding a profile under a fresh name and removing it again — with any other operations in between that do not
name it: additions (with or without macros that shadow built-in ones or the profile's), replacements, bulk adds,
removals, remove-all, default assignments — leaves a registry that cannot be told from the one that never saw it:
same `profiles`, `knownNames`, compiled patterns and `defaultProfiles`, hence same verdicts. (`QuietRun`: in both
histories every operation goes through; e.g. nobody starts to lean on the profile's macros.) -/
theorem add_remove_interleaved (cfg : Cfg) (r : Reg) (p : Str) (ps : Dict PVal) (ms : Option (Dict Str))
    (ops : List Op) (hinv : Inv cfg r) (hp : p ∉ r.names) (hno : ∀ op ∈ ops, ¬ op.mentions p)
    (hq₁ : QuietRun cfg r ([.add p ps ms] ++ ops ++ [.remove (some p)])) (hq₂ : QuietRun cfg r ops) :
    obs (run cfg r ([.add p ps ms] ++ ops ++ [.remove (some p)])) = obs (run cfg r ops) := by
  obtain ⟨c1, d1⟩ := Profiles.run_contents cfg r _ hinv hq₁
  obtain ⟨c2, d2⟩ := Profiles.run_contents cfg r _ hinv hq₂
  apply obs_eq_of_contents cfg _ _ (Profiles.run_inv cfg r _ hinv) (Profiles.run_inv cfg r _ hinv)
  · rw [c1, c2]
    exact add_remove_contents (contents r) p ps ms ops (by rw [contents_names]; exact hp) hno
  · rw [d1, d2]; exact add_remove_default r.default p ps ms ops

/-- the plain case: add, then remove; if either step raises, nothing has changed anyway -/
theorem add_remove (cfg : Cfg) (accepts : CVal → Str → Bool) (r : Reg) (p : Str) (ps : Dict PVal)
    (ms : Option (Dict Str)) (hinv : Inv cfg r) (hp : p ∉ r.names)
    (hq : QuietRun cfg r [.add p ps ms, .remove (some p)]) (n v : Str) :
    validate accepts (run cfg r [.add p ps ms, .remove (some p)]) n v = validate accepts r n v ∧
    (run cfg r [.add p ps ms, .remove (some p)]).known = r.known := by
  have h := add_remove_interleaved cfg r p ps ms [] hinv hp (by simp) hq trivial
  refine ⟨validate_obs accepts _ _ h n v, ?_⟩
  have h' := h
  simp only [obs, Obs.mk.injEq] at h'
  exact h'.2.2.1

/-! ## T14.3 valid iff some registered profile that defines the property accepts the value -/

theorem valid_iff_some_profile (cfg : Cfg) (accepts : CVal → Str → Bool) (r : Reg) (hinv : Inv cfg r)
    (name value : Str) :
    ∃ b, validate accepts r name value = .ok b ∧
      (b = true ↔ ∃ p ∈ r.names, ∃ d c, dget r.compiled p = some d ∧ dget d name = some c ∧ accepts c value = true) :=
  validate_spec cfg accepts r hinv name value

/-! ## T14.4 `defaultProfiles` decides which profile is reported, never whether a value is valid -/

/-- for default profiles that are registered: `validateWithProfile` does not raise, its `valid` is `validate`'s
answer, and `matching` says exactly whether one of the default profiles accepts -/
theorem defaults_affect_matching_only (cfg : Cfg) (accepts : CVal → Str → Bool) (r : Reg) (hinv : Inv cfg r)
    (d : Option (List Str)) (hd : ∀ p ∈ getDefault (setDefault r d), p ∈ r.names) (name value : Str) :
    ∃ vd, validateWithProfile accepts (setDefault r d) name value none = .ok vd ∧
      validate accepts r name value = .ok vd.valid ∧
      (vd.matching = true ↔ ∃ p ∈ getDefault (setDefault r d), AcceptsIn accepts r.compiled name value p) := by
  obtain ⟨vd, h1, h2, h3⟩ := validateWithProfile_spec cfg accepts (setDefault r d)
    (Profiles.setDefault_inv cfg r d hinv) hd name value
  obtain ⟨b, hb1, hb2⟩ := validate_spec cfg accepts r hinv name value
  refine ⟨vd, h1, ?_, h3⟩
  rw [hb1]
  congr 1
  have : (b = true) ↔ (vd.valid = true) := hb2.trans h2.symm
  cases b <;> cases hv : vd.valid <;> simp_all

/-- hence two assignments of registered default profiles give the same validity -/
theorem defaults_same_validity (cfg : Cfg) (accepts : CVal → Str → Bool) (r : Reg) (hinv : Inv cfg r)
    (d₁ d₂ : Option (List Str)) (h₁ : ∀ p ∈ getDefault (setDefault r d₁), p ∈ r.names)
    (h₂ : ∀ p ∈ getDefault (setDefault r d₂), p ∈ r.names) (name value : Str) :
    ∃ v₁ v₂, validateWithProfile accepts (setDefault r d₁) name value none = .ok v₁ ∧
      validateWithProfile accepts (setDefault r d₂) name value none = .ok v₂ ∧ v₁.valid = v₂.valid := by
  obtain ⟨v₁, a1, a2, _⟩ := defaults_affect_matching_only cfg accepts r hinv d₁ h₁ name value
  obtain ⟨v₂, b1, b2, _⟩ := defaults_affect_matching_only cfg accepts r hinv d₂ h₂ name value
  refine ⟨v₁, v₂, a1, b1, ?_⟩
  rw [a2] at b2
  exact Except.ok.inj b2

/-! ## T14.5 removing an unknown profile is rejected and changes nothing -/

theorem remove_unknown_rejected_unchanged (cfg : Cfg) (r : Reg) (p : Str) (hinv : Inv cfg r) (hp : p ∉ r.names) :
    removeProfile cfg r (some p) = (r, some .noSuchProfile) :=
  removeProfile_unknown cfg r p hinv hp

/-- for EVERY registry (no invariant needed) and every exception: a `removeProfile` that raises has not changed
anything -/
theorem remove_rejected_unchanged (cfg : Cfg) (r : Reg) (q : Option Str) (e : Exc)
    (h : (removeProfile cfg r q).2 = some e) : (removeProfile cfg r q).1 = r :=
  removeProfile_fail cfg r q e h

/-! ## T14.6 the macro expansion ends for macro sets without a cycle

`_expand_macros` repeats `re.sub` while `re.search` finds a placeholder (`profiles.py:190`), without a bound; the
model's loop has a fuel. `RankedBy rk m`: every macro used by the body of a defined macro has a lower rank;
`Acyclic m`: some rank function exists; `depth rk v`: one more than the highest rank among the placeholders of `v`. -/

/-- one `re.sub` pass: the placeholders of the result are exactly the placeholders of the substituted bodies, in
order — the wrapping `(?:…)` keeps the surrounding text from fusing with a body into a new placeholder -/
theorem pass_placeholders (m : Dict Str) (v r : Str) (h : subPass m v = .ok r) :
    phNames r = (phNames v).flatMap (bodyPhs m) :=
  subPass_phNames m v r h

/-- every pass lowers the depth -/
theorem pass_lowers_depth (rk : Str → Nat) (m : Dict Str) (hr : RankedBy rk m) (v r : Str)
    (h : subPass m v = .ok r) (hp : hasPh v = true) : depth rk r < depth rk v :=
  subPass_depth rk m hr v r h hp

/-- **termination**: for a ranked macro set the loop ends within `depth rk v` passes — with a text or with the
`KeyError` of an undefined macro; the fuel does not run out. For EVERY value, defined macros or not. -/
theorem expand_terminates (rk : Str → Nat) (m : Dict Str) (hr : RankedBy rk m) (f : Nat) (v : Str)
    (hf : depth rk v ≤ f) : expandValue m f v ≠ .error .diverges :=
  expandValue_terminates rk m hr f v hf

/-- the number of passes (`re.sub` calls) is at most the depth -/
theorem passes_bounded (rk : Str → Nat) (m : Dict Str) (hr : RankedBy rk m) (f : Nat) (v : Str) (n : Nat)
    (h : passCount m f v = .ok n) : n ≤ depth rk v :=
  passCount_le_depth rk m hr f v n h

/-- the bound on the loop is no part of any result — for a macro set without a cycle (this replaces the premise
"the expansion has finished" of the earlier `fuel_irrelevant`): from some fuel on, every fuel gives the same
answer, and the answer is not "still running" -/
theorem fuel_irrelevant (m : Dict Str) (hac : Acyclic m) (v : Str) :
    ∃ N, ∀ f, N ≤ f → expandValue m f v = expandValue m N v ∧ expandValue m N v ≠ .error .diverges := by
  obtain ⟨rk, hr⟩ := hac
  have hN := expandValue_terminates rk m hr (depth rk v) v (Nat.le_refl _)
  exact ⟨depth rk v, fun f hf => ⟨expandValue_stable m _ f v hf hN, hN⟩⟩

/-- in general: whenever the loop has ended (text or `KeyError`), more fuel changes nothing -/
theorem fuel_irrelevant_ended (m : Dict Str) (f g : Nat) (v : Str) (hfg : f ≤ g)
    (h : expandValue m f v ≠ .error .diverges) : expandValue m g v = expandValue m f v :=
  expandValue_stable m f g v hfg h

/-- **totality**: ranked, and no undefined macro in the value or in any body — the expansion returns a text, and
the text has no placeholder left -/
theorem expand_total (rk : Str → Nat) (m : Dict Str) (hr : RankedBy rk m) (hc : Closed m) (f : Nat) (v : Str)
    (hf : depth rk v ≤ f) (hd : ∀ n ∈ phNames v, (dget m n).isSome) :
    ∃ r, expandValue m f v = .ok r ∧ hasPh r = false :=
  expandValue_total rk m hr hc f v hf hd

/-- the executable cycle check is sound, and gives a bound that does not depend on the value: a macro set that
passes it is acyclic, and `|m| + 1` passes are enough for every value -/
theorem acyclic_check_sound (m : Dict Str) (h : acyclicB m = true) :
    Acyclic m ∧ ∀ f, m.length + 1 ≤ f → ∀ v, expandValue m f v ≠ .error .diverges :=
  ⟨acyclicB_acyclic m h, fun f hf v => acyclicB_terminates m h f hf v⟩

/-- and complete: a macro set with a rank function passes the check (were the search for a rank to run out of its
fuel `|m| + 1`, there would be `|m| + 1` distinct defined macros on a chain) — `acyclicB` decides `Acyclic` -/
theorem acyclic_check_complete (m : Dict Str) : acyclicB m = true ↔ Acyclic m :=
  acyclicB_iff m

/-- what makes `Profiles()` go through, for ANY tables: distinct names; the macro set (base macros updated with the
macros of all tables) passes the cycle check and is closed; no property uses an undefined macro; the fuel exceeds
the number of macros -/
theorem init_goes_through (cfg : Cfg) (l : List ProfileDef) (hnd : (l.map (·.name)).Nodup)
    (hac : acyclicB (bulkEnv cfg.base l) = true) (hcl : closedB (bulkEnv cfg.base l) = true)
    (hpc : ∀ d ∈ l, propsClosedB (bulkEnv cfg.base l) d.props = true)
    (hf : (bulkEnv cfg.base l).length + 1 ≤ cfg.fuel) : (init cfg l).2 = none :=
  init_ok_of_checks cfg l hnd hac hcl hpc hf

/-- `Profiles()` goes through, from what the properties reach only: distinct names, and every macro a property uses is
defined, with everything it uses in turn, within the fuel -/
theorem init_goes_through_reach (cfg : Cfg) (l : List ProfileDef) (hnd : (l.map (·.name)).Nodup)
    (hpd : ∀ d ∈ l, propsDeepB (bulkEnv cfg.base l) cfg.fuel d.props = true) : (init cfg l).2 = none :=
  init_ok_of_deep cfg l hnd hpd

/-- a value all of whose macros are defined to depth `f` (so that no cycle is on the way) expands within `f` passes to
a text without placeholders — whatever the rest of the macro set looks like -/
theorem expand_total_reach (m : Dict Str) (f : Nat) (v : Str) (hd : ∀ n ∈ phNames v, definedDeep m f n = true) :
    ∃ r, expandValue m f v = .ok r ∧ hasPh r = false :=
  expandValue_total_deep m f v hd

/-! ### the built-in tables (`Gen/C14Profiles.lean`, regenerated from `cssutils/profiles.py` on every run)

Evaluated by the kernel on the regenerated tables, in pieces: a cycle among the built-in macros, a built-in property that
reaches an undefined macro, or a repeated profile name in `__init__` breaks the build. -/

/-- the macro environment of `Profiles()` is the literal table the translator computed with Python dicts -/
theorem builtin_env : bulkEnv Gen.C14.base Gen.C14.builtins = Gen.C14.envLit := by decide +kernel

set_option maxRecDepth 100000 in
/-- the built-in macros (token macros, general macros, the macros of the nine profiles) have no cycle -/
theorem builtin_acyclic : acyclicB Gen.C14.envLit = true := by decide +kernel

set_option maxRecDepth 100000 in
/-- every macro a built-in property uses is defined, and so is every macro that one uses, and so on down (nothing
is asked of a built-in macro that no built-in property reaches) -/
theorem builtin_props_defined :
    Gen.C14.builtins.all (fun d => propsDeepB Gen.C14.envLit Gen.C14.cfg.fuel d.props) = true := by
  decide +kernel

theorem builtin_names_nodup : (Gen.C14.builtins.map (·.name)).Nodup := by decide +kernel

/-- **`Profiles()` does not raise and does not hang** (the registry the driver starts from) -/
theorem builtin_init_ok : (init Gen.C14.cfg Gen.C14.builtins).2 = none := by
  apply init_ok_of_deep Gen.C14.cfg Gen.C14.builtins builtin_names_nodup
  intro d hd
  show propsDeepB (bulkEnv Gen.C14.base Gen.C14.builtins) Gen.C14.cfg.fuel d.props = true
  rw [builtin_env]
  exact List.all_eq_true.mp builtin_props_defined d hd

/-- and registers exactly the nine tables, in order (`init_contents` with its premises discharged) -/
theorem builtin_init_contents :
    contents (init Gen.C14.cfg Gen.C14.builtins).1
      = Gen.C14.builtins.map (fun d => { name := d.name, props := d.props, macros := dm d }) :=
  init_contents Gen.C14.cfg Gen.C14.builtins builtin_names_nodup builtin_init_ok

/-- with the built-in macros, no value at all makes the expansion loop run on: 93 passes are enough -/
theorem builtin_never_diverges (v : Str) (f : Nat) (hf : Gen.C14.envLit.length + 1 ≤ f) :
    expandValue Gen.C14.envLit f v ≠ .error .diverges :=
  acyclicB_terminates Gen.C14.envLit builtin_acyclic f hf v

/-! ### T14.6 along histories

`RankedAll rk m`: every entry of a macro table uses lower-ranked macros only; `RankedOp rk op`: the macros the operation
brings are such tables; `Bounded rk fuel`: every rank is below the fuel. -/

/-- **no operation of a history answers "still running"**: when the base macros, the macros of the built-in tables
and the macros of every operation of the history respect one rank function whose ranks are below the fuel, the
constructor and every operation of the history end (they go through, or raise `KeyError` /
`NoSuchProfileException` / `ValueError`) — whatever the names, properties, order and interleaving -/
theorem history_never_diverges (rk : Str → Nat) (cfg : Cfg) (hb : Bounded rk cfg.fuel) (hbase : RankedAll rk cfg.base)
    (builtins : List ProfileDef) (hl : ∀ d ∈ builtins, optRanked rk d.macros) (ops : List Op)
    (hops : ∀ op ∈ ops, RankedOp rk op) :
    (init cfg builtins).2 ≠ some .diverges ∧
    ∀ pre op post, ops = pre ++ op :: post →
      (step cfg (run cfg (init cfg builtins).1 pre) op).2 ≠ some .diverges :=
  ⟨init_nodiv hb hbase builtins hl,
   (run_nodiv hb (init cfg builtins).1 (init_good hbase builtins hl) ops hops).2⟩

set_option maxRecDepth 100000 in
/-- the ranks the cycle check finds for the built-in macro environment fit every entry of the base macros … -/
theorem builtin_base_ranked : rankedAllB (rankFn Gen.C14.envLit) Gen.C14.base = true := by decide +kernel

set_option maxRecDepth 100000 in
/-- … and every entry of the macros of the built-in tables (also entries that a later table overrides) -/
theorem builtin_macros_ranked :
    Gen.C14.builtins.all (fun d => rankedAllB (rankFn Gen.C14.envLit) (d.macros.getD [])) = true := by
  decide +kernel

/-- from `Profiles()`, with the fuel of the driver: a history whose operations bring macros that fit the ranks of
the built-in macros never makes an operation run on -/
theorem builtin_histories_never_diverge (ops : List Op)
    (hops : ∀ op ∈ ops, RankedOp (rankFn Gen.C14.envLit) op) (pre : List Op) (op : Op) (post : List Op)
    (h : ops = pre ++ op :: post) :
    (step Gen.C14.cfg (run Gen.C14.cfg (init Gen.C14.cfg Gen.C14.builtins).1 pre) op).2 ≠ some .diverges :=
  (history_never_diverges (rankFn Gen.C14.envLit) Gen.C14.cfg
    (bounded_rankFn Gen.C14.envLit Gen.C14.cfg.fuel (by decide +kernel))
    (rankedAllB_spec _ _ builtin_base_ranked) Gen.C14.builtins
    (fun d hd => rankedAllB_spec _ _ (List.all_eq_true.mp builtin_macros_ranked d hd)) ops hops).2 pre op post h

/-- in particular every history of operations that bring no macros at all (additions and replacements without
macros, bulk adds without macros, removals, remove-all, default assignments) -/
theorem builtin_plain_histories_never_diverge (ops : List Op) (hops : ∀ op ∈ ops, op.noMacros)
    (pre : List Op) (op : Op) (post : List Op) (h : ops = pre ++ op :: post) :
    (step Gen.C14.cfg (run Gen.C14.cfg (init Gen.C14.cfg Gen.C14.builtins).1 pre) op).2 ≠ some .diverges :=
  builtin_histories_never_diverge ops (fun o ho => rankedOp_of_noMacros _ o (hops o ho)) pre op post h

/-- **the fuel is no part of what a history computes**: two configurations with the same base macros and fuels
above the ranks build the same `Profiles()` and, after any history whose macros respect the rank function, hold
the same registry (every field: macro cache, names, raw and compiled tables, defaults, known names) — hence give the
same outcome for every operation and the same answers. The bound the model puts on Python's unbounded loop cannot be
observed. -/
theorem fuel_no_part_of_histories (rk : Str → Nat) (c₁ c₂ : Cfg) (hb : c₁.base = c₂.base)
    (h₁ : Bounded rk c₁.fuel) (h₂ : Bounded rk c₂.fuel) (hbase : RankedAll rk c₁.base)
    (builtins : List ProfileDef) (hl : ∀ d ∈ builtins, optRanked rk d.macros) (ops : List Op)
    (hops : ∀ op ∈ ops, RankedOp rk op) :
    init c₁ builtins = init c₂ builtins ∧
    run c₁ (init c₁ builtins).1 ops = run c₂ (init c₂ builtins).1 ops ∧
    ∀ op, RankedOp rk op →
      step c₁ (run c₁ (init c₁ builtins).1 ops) op = step c₂ (run c₂ (init c₂ builtins).1 ops) op := by
  have hi := init_fuel_eq ⟨hb⟩ h₁ h₂ hbase builtins hl
  have hg := init_good hbase builtins hl
  have hr := run_fuel_eq ⟨hb⟩ h₁ h₂ (init c₁ builtins).1 hg ops hops
  refine ⟨hi, by rw [hr, hi], ?_⟩
  intro op hop
  have hg' := (run_nodiv h₁ (init c₁ builtins).1 hg ops hops).1
  rw [step_fuel_eq ⟨hb⟩ h₁ h₂ hg' op hop, hr, hi]

/-- for the built-in tables: any fuel above the number of built-in macros gives the registry the driver (fuel 200)
computes, after every history whose macros fit the built-in ranks — in particular after every history without
new macros -/
theorem builtin_fuel_irrelevant (f : Nat) (hf : Gen.C14.envLit.length < f) (ops : List Op)
    (hops : ∀ op ∈ ops, RankedOp (rankFn Gen.C14.envLit) op) :
    run { base := Gen.C14.base, fuel := f } (init { base := Gen.C14.base, fuel := f } Gen.C14.builtins).1 ops
      = run Gen.C14.cfg (init Gen.C14.cfg Gen.C14.builtins).1 ops :=
  (fuel_no_part_of_histories (rankFn Gen.C14.envLit) { base := Gen.C14.base, fuel := f } Gen.C14.cfg rfl
    (bounded_rankFn Gen.C14.envLit f hf)
    (bounded_rankFn Gen.C14.envLit Gen.C14.cfg.fuel (by decide +kernel))
    (rankedAllB_spec _ _ builtin_base_ranked) Gen.C14.builtins
    (fun d hd => rankedAllB_spec _ _ (List.all_eq_true.mp builtin_macros_ranked d hd)) ops hops).2.1

/-! ## the histories that exposed the four repaired defects, re-checked on the model of the repaired code

A tiny configuration: one base macro `c ↦ "r"`. Names `A B X U` = `[65] [66] [88] [85]`, property `x` = `[120]`,
the pattern `{c}` = `[123, 99, 125]`, macro `m` = `[109]`. In each of the first three, two histories lead to the
same contents; on the earlier tree the compiled patterns differed (`…z…` against `…r…`), now they agree — as
`contents_determine` says they must. These are tests of the model (by evaluation), not theorems about all inputs. -/

def wcfg : Cfg := { base := [([99], [114])], fuel := 4 }
def xc : Dict PVal := [([120], .pat [123, 99, 125])]

/-- was C14-removeall-keeps-macros -/
theorem fixed_removeAll :
    let r₁ := run wcfg (empty wcfg) [.add [65] [] (some [([99], [122])]), .removeAll, .add [66] xc none]
    let r₂ := run wcfg (empty wcfg) [.add [66] xc none]
    contents r₁ = contents r₂ ∧ obs r₁ = obs r₂ ∧
    dget r₁.compiled [66] = some [([120], .re (wrapRe [40, 63, 58, 114, 41]))] := by
  decide

/-- was C14-replace-stale-macros -/
theorem fixed_replace :
    let r₁ := run wcfg (empty wcfg)
      [.add [88] [] (some [([99], [122])]), .add [88] [] (some [([109], [113])]), .add [66] xc none]
    let r₂ := run wcfg (empty wcfg) [.add [88] [] (some [([109], [113])]), .add [66] xc none]
    contents r₁ = contents r₂ ∧ obs r₁ = obs r₂ ∧
    dget r₁.compiled [66] = some [([120], .re (wrapRe [40, 63, 58, 114, 41]))] := by
  decide

/-- was C14-addprofiles-no-reexpansion -/
theorem fixed_addProfiles :
    let r₁ := run wcfg (empty wcfg)
      [.add [65] xc none, .addMany [{ name := [66], props := [], macros := some [([99], [122])] }]]
    let r₂ := run wcfg (empty wcfg) [.add [65] xc none, .add [66] [] (some [([99], [122])])]
    contents r₁ = contents r₂ ∧ obs r₁ = obs r₂ ∧
    dget r₁.compiled [65] = some [([120], .re (wrapRe [40, 63, 58, 122, 41]))] := by
  decide

/-- was C14-failed-expansion-partial-update: `addProfile` with the undefined macro `n` raises `KeyError` and the
registry is the one before -/
theorem fixed_failed_add :
    addProfile wcfg (empty wcfg) [85] [([120], .pat [123, 110, 125])] none = (empty wcfg, some (.keyError [110])) := by
  decide

/-- a self-referential macro: the expansion loop does not end (`diverges` = Python never returns); in the model
the call is rejected like any other failure and nothing changes -/
theorem cyclic_macro_rejected :
    addProfile wcfg (empty wcfg) [85] [([120], .pat [123, 109, 125])] (some [([109], [120, 123, 109, 125])])
      = (empty wcfg, some .diverges) := by
  decide

/-! ## non-vacuity: the hypotheses of the theorems above are satisfiable (and used) -/

/-- a history in which everything goes through: add `A` with a macro that shadows the base macro `c`, bulk-add `B`
that uses it, set a default, remove an unknown name (rejected), remove `A` — `QuietRun` holds -/
example : QuietRun wcfg (empty wcfg)
    [.add [65] [] (some [([99], [122])]), .addMany [{ name := [66], props := xc, macros := none }],
     .setDefault (some [[66]]), .remove (some [67]), .remove (some [65])] := by
  refine ⟨Or.inl (by decide), trivial, Or.inl (by decide), ⟨by decide, by decide⟩, Or.inl rfl, trivial,
    Or.inr ⟨⟨_, rfl⟩, by decide⟩, trivial, Or.inl (by decide), trivial, trivial⟩

/-- the two hypotheses of `add_remove_interleaved` together, for a profile `P = [80]` whose macro shadows the base
macro `c` while another profile that uses `c` is added in between -/
example : QuietRun wcfg (empty wcfg)
      ([.add [80] [] (some [([99], [122])])] ++ [.add [66] xc none] ++ [.remove (some [80])]) ∧
    QuietRun wcfg (empty wcfg) [.add [66] xc none] := by
  refine ⟨⟨Or.inl (by decide), trivial, Or.inl (by decide), trivial, Or.inl (by decide), trivial, trivial⟩,
    Or.inl (by decide), trivial, trivial⟩

/-- non-vacuity of `RankedBy` / `Closed` / the premises of `expand_total`: macros `a ↦ "{b}x"`, `b ↦ "y"`, the value
`{a}{b}`; and the check tells a cycle (`a ↦ "{b}"`, `b ↦ "{a}"`) from none -/
example : acyclicB [([97], [123, 98, 125, 120]), ([98], [121])] = true ∧
    closedB [([97], [123, 98, 125, 120]), ([98], [121])] = true ∧
    depth (rankFn [([97], [123, 98, 125, 120]), ([98], [121])]) [123, 97, 125, 123, 98, 125] = 2 ∧
    expandValue [([97], [123, 98, 125, 120]), ([98], [121])] 2 [123, 97, 125, 123, 98, 125]
      = .ok [40, 63, 58, 40, 63, 58, 121, 41, 120, 41, 40, 63, 58, 121, 41] ∧
    passCount [([97], [123, 98, 125, 120]), ([98], [121])] 5 [123, 97, 125, 123, 98, 125] = .ok 2 ∧
    acyclicB [([97], [123, 98, 125]), ([98], [123, 97, 125])] = false :=
  ⟨by decide, by decide, by decide, rfl, rfl, by decide⟩

example : RankedBy (rankFn [([97], [123, 98, 125, 120]), ([98], [121])]) [([97], [123, 98, 125, 120]), ([98], [121])] :=
  acyclicB_ranked _ (by decide)

/-- the premise of `expand_total_reach` holds for `{a}` under the macros above with depth 2, and fails with depth 1 -/
example : (∀ n ∈ phNames [123, 97, 125], definedDeep [([97], [123, 98, 125, 120]), ([98], [121])] 2 n = true) ∧
    definedDeep [([97], [123, 98, 125, 120]), ([98], [121])] 1 [97] = false := by
  decide

/-- `pass_placeholders` / `pass_lowers_depth` have instances: one pass over `{a}` under the macros above -/
example : subPass [([97], [123, 98, 125, 120]), ([98], [121])] [123, 97, 125] = .ok [40, 63, 58, 123, 98, 125, 120, 41] ∧
    hasPh [123, 97, 125] = true :=
  ⟨rfl, by decide⟩

/-- the premises of `history_never_diverges` together: base macro `c ↦ "r"`, an addition with the macro `m ↦ "{c}"`
(rank 1 above `c`), a fuel of 4 -/
example : ∃ rk : Str → Nat, Bounded rk wcfg.fuel ∧ RankedAll rk wcfg.base ∧
    RankedOp rk (.add [65] xc (some [([109], [123, 99, 125])])) := by
  refine ⟨fun k => if k = [109] then 1 else 0, fun k => ?_, ?_, ?_⟩
  · show (if k = [109] then 1 else 0) < 4
    split <;> omega
  · exact rankedAllB_spec _ _ (by decide)
  · exact rankedAllB_spec _ _ (by decide)

/-- `Op.noMacros` has instances of every kind -/
example : (Op.add [65] xc none).noMacros ∧ (Op.addMany [{ name := [66], props := xc, macros := none }]).noMacros ∧
    (Op.remove (some [65])).noMacros := by
  refine ⟨⟨rfl, rfl⟩, ?_, trivial⟩
  intro d hd
  simp only [List.mem_singleton] at hd
  subst hd; rfl

/-- the premises of `fuel_no_part_of_histories`: two fuels (4 and 9) above the ranks of one rank function that fits
the base macros of `wcfg` -/
example : ∃ rk : Str → Nat, Bounded rk wcfg.fuel ∧ Bounded rk 9 ∧ RankedAll rk wcfg.base :=
  ⟨fun _ => 0, fun _ => by show 0 < 4; omega, fun _ => by show 0 < 9; omega, rankedAllB_spec _ _ (by decide)⟩

end CssVerif.C14
