import CssVerif.Lemmas.Profiles
/-!
# C14 — the profile registry's verdicts depend on its contents, not its history

Property theorems only (helpers: `Lemmas/Profiles.lean`). Model: `Model/Profiles.lean`, a statement-by-statement
transcription of class `Profiles` (`cssutils/profiles.py:100-450`), tied to the code by the per-operation
correspondence of `tools/harness/c14.py`. Regex acceptance is the parameter `accepts`; every theorem holds for all
of its values, for every base macro table and every fuel (`cfg`).

`Inv cfg r` (T14.1): names listed once; the raw table covers exactly the names; the macro cache `used` is, look-up
for look-up, the base macros updated with the macros of the registered profiles in registration order; the
compiled table has the names as keys in registration order and holds the expansion of each raw definition
under that environment; `knownNames` is derived from the compiled table.

What the code does NOT keep (all four confirmed on the implementation, listed in `known/C14.json`, negations
proved below at concrete witnesses):
* `removeProfile(all=True)` leaves `_usedMacros` as it was                 — `removeAll_inv_partial`, `finding_removeAll`
* `addProfile` of a registered name with macros leaves stale macros behind  — guard of `addProfile_inv`, `finding_replace`
* `addProfiles` over a non-empty registry does not re-expand the old ones   — `Good (.addMany _) = False`, `finding_addProfiles`
* an operation whose expansion fails leaves a half-updated registry         — `Expandable` hypotheses, `finding_failed_add`
-/
namespace CssVerif.C14
open CssVerif.Profiles

/-! ## T14.1 the invariant is kept -/

/-- the registry without profiles (what `Profiles.__init__` starts from) satisfies the invariant -/
theorem inv_empty (cfg : Cfg) : Inv cfg (empty cfg) :=
  ⟨by simp [empty], by simp [empty, dget], by simp [empty, dget], SameEnv.refl _, rfl, by simp [empty], rfl⟩

/-- `addProfile` under a name that is not registered (any macros: new ones, or ones that shadow token macros,
general macros or another profile's macros), or of a registered name without macros: no exception, the invariant
holds afterwards, and the contents are the old ones plus / with the profile — provided the new contents expand.

Full statement (false, see `finding_replace`): the same without `hguard`. -/
theorem addProfile_inv_partial (cfg : Cfg) (r : Reg) (p : Str) (ps : Dict PVal) (ms : Option (Dict Str))
    (hinv : Inv cfg r) (hguard : p ∉ r.names ∨ truthy ms = false)
    (hexp : Expandable cfg (dset r.raw p { props := some ps, macros := storedMacros r.raw p ms }) (addNames r.names p)) :
    (addProfile cfg r p ps ms).2 = none ∧ Inv cfg (addProfile cfg r p ps ms).1 ∧
    (addProfile cfg r p ps ms).1.names = addNames r.names p ∧
    (addProfile cfg r p ps ms).1.raw = dset r.raw p { props := some ps, macros := storedMacros r.raw p ms } ∧
    (addProfile cfg r p ps ms).1.default = r.default :=
  addProfile_inv cfg r p ps ms hinv hguard hexp

/-- `removeProfile` of a registered profile: no exception, invariant kept, the profile is gone and nothing else
changed — provided what is left still expands (nobody leaned on the removed profile's macros). -/
theorem removeProfile_inv (cfg : Cfg) (r : Reg) (p : Str) (hinv : Inv cfg r) (hp : p ∈ r.names)
    (hexp : Expandable cfg (derase r.raw p) (r.names.erase p)) :
    (removeProfile cfg r (some p)).2 = none ∧ Inv cfg (removeProfile cfg r (some p)).1 ∧
    (removeProfile cfg r (some p)).1.names = r.names.erase p ∧
    (removeProfile cfg r (some p)).1.raw = derase r.raw p ∧
    (removeProfile cfg r (some p)).1.default = r.default :=
  Profiles.removeProfile_inv cfg r p hinv hp hexp

/-- `removeProfile(all=True)`, partial: only when the environment of the contents is the base environment
(e.g. no registered profile has macros). Full statement (false, see `finding_removeAll`): without `hguard`. -/
theorem removeAll_inv_partial (cfg : Cfg) (r : Reg) (hinv : Inv cfg r)
    (hguard : SameEnv (envOf cfg.base r.raw r.names) cfg.base) : Inv cfg (removeAll r) :=
  Profiles.removeAll_inv_partial cfg r hinv hguard

/-- `addProfiles` (bulk add) on a registry without profiles — this is how `Profiles.__init__` fills the registry —
with entries named apart, each expanding under the joint macro environment: no exception, the invariant holds,
the contents are the entries in order. Partial: on a registry that already holds profiles the code does not
re-expand them (see `finding_addProfiles`). -/
theorem addProfiles_inv_partial (cfg : Cfg) (r : Reg) (l : List ProfileDef) (hinv : Inv cfg r) (hempty : r.names = [])
    (hnd : (l.map (·.name)).Nodup)
    (hex : ∀ d ∈ l, ∃ ex, expandDict cfg.fuel (bulkEnv cfg.base l) d.props = .ok ex) :
    (addProfiles cfg r l).2 = none ∧ Inv cfg (addProfiles cfg r l).1 ∧
    contents (addProfiles cfg r l).1 = l.map (fun d => { name := d.name, props := d.props, macros := dm d }) ∧
    (addProfiles cfg r l).1.default = r.default :=
  addProfiles_inv_empty cfg r l hinv hempty hnd hex

/-- `Profiles()`: for built-in tables whose names differ and whose definitions expand (checked for the generated
tables by the driver on every run: `initcheck`), construction does not raise and yields a registry that
satisfies the invariant — so every theorem here applies to all histories that start from a fresh `Profiles()` -/
theorem init_inv (cfg : Cfg) (l : List ProfileDef) (hnd : (l.map (·.name)).Nodup)
    (hex : ∀ d ∈ l, ∃ ex, expandDict cfg.fuel (bulkEnv cfg.base l) d.props = .ok ex) :
    (init cfg l).2 = none ∧ Inv cfg (init cfg l).1 ∧
    contents (init cfg l).1 = l.map (fun d => { name := d.name, props := d.props, macros := dm d }) := by
  obtain ⟨h1, h2, h3, _⟩ := addProfiles_inv_empty cfg (empty cfg) l (inv_empty cfg) rfl hnd hex
  unfold init
  simp only [h1]
  exact ⟨trivial, ⟨h2.nodup, h2.rawDom, h2.rawFull, h2.used, h2.ckeys, h2.cvals, rfl⟩, h3⟩

theorem setDefault_inv (cfg : Cfg) (r : Reg) (d : Option (List Str)) (hinv : Inv cfg r) : Inv cfg (setDefault r d) :=
  Profiles.setDefault_inv cfg r d hinv

/-- every history that stays in the good region keeps the invariant, and its effect on the contents and on
`defaultProfiles` is that of the same operations on a plain list of (name, properties, macros) -/
theorem run_inv (cfg : Cfg) (r : Reg) (ops : List Op) (hinv : Inv cfg r) (hg : GoodRun cfg r ops) :
    Inv cfg (run cfg r ops) ∧ contents (run cfg r ops) = crun (contents r) ops ∧
    (run cfg r ops).default = drun r.default ops :=
  run_good cfg r ops hinv hg

/-- the bound on the expansion loop is no part of any result: a definition that expands with some fuel expands to
the same text with any larger fuel -/
theorem fuel_irrelevant (m : Dict Str) (f g : Nat) (v r : Str) (hfg : f ≤ g)
    (h : expandValue m f v = .ok r) : expandValue m g v = .ok r :=
  expandValue_fuel_mono m f g v r hfg h

/-- `expand_mono`: a definition that expands is not affected by further macros under new names -/
theorem expand_mono (a b : Dict Str) (h : ∀ k v, dget a k = some v → dget b k = some v) (f : Nat) (d r : Dict PVal)
    (hr : expandDict f a d = .ok r) : expandDict f b d = .ok r :=
  expandDict_mono h f d r hr

/-! ## T14.2 contents determine behaviour -/

/-- two registries that satisfy the invariant and hold the same profiles (same names in the same order, same raw
definitions, same macros) with the same `defaultProfiles` answer every query alike: `validate`,
`validateWithProfile` (with or without explicit profiles), `propertiesByProfile`, `profiles`, `knownNames` —
whatever histories produced them. -/
theorem contents_determine (cfg : Cfg) (accepts : CVal → Str → Bool) (r₁ r₂ : Reg) (h₁ : Inv cfg r₁) (h₂ : Inv cfg r₂)
    (hc : contents r₁ = contents r₂) (hd : r₁.default = r₂.default) :
    r₁.names = r₂.names ∧ r₁.known = r₂.known ∧
    (∀ n v, validate accepts r₁ n v = validate accepts r₂ n v) ∧
    (∀ n v ps, validateWithProfile accepts r₁ n v ps = validateWithProfile accepts r₂ n v ps) ∧
    (∀ ps, propertiesByProfile r₁ ps = propertiesByProfile r₂ ps) := by
  have ho := obs_eq_of_contents cfg r₁ r₂ h₁ h₂ hc hd
  have ho' := ho
  simp only [obs, Obs.mk.injEq] at ho'
  exact ⟨ho'.1, ho'.2.2.1, fun n v => validate_obs accepts r₁ r₂ ho n v,
    fun n v ps => validateWithProfile_obs accepts r₁ r₂ ho n v ps, fun ps => propertiesByProfile_obs r₁ r₂ ho ps⟩

/-- adding a profile under a fresh name and removing it again — with any other operations in between that do not
name it, all inside the good region — leaves a registry that cannot be told from the one that never saw it:
same `profiles`, `knownNames`, compiled patterns and `defaultProfiles`, hence same verdicts. -/
theorem add_remove_interleaved (cfg : Cfg) (r : Reg) (p : Str) (ps : Dict PVal) (ms : Option (Dict Str))
    (ops : List Op) (hinv : Inv cfg r) (hp : p ∉ r.names) (hno : ∀ op ∈ ops, ¬ op.mentions p)
    (hg₁ : GoodRun cfg r ([.add p ps ms] ++ ops ++ [.remove (some p)])) (hg₂ : GoodRun cfg r ops) :
    obs (run cfg r ([.add p ps ms] ++ ops ++ [.remove (some p)])) = obs (run cfg r ops) := by
  obtain ⟨i1, c1, d1⟩ := run_good cfg r _ hinv hg₁
  obtain ⟨i2, c2, d2⟩ := run_good cfg r _ hinv hg₂
  apply obs_eq_of_contents cfg _ _ i1 i2
  · rw [c1, c2]
    exact add_remove_contents (contents r) p ps ms ops (by rw [contents_names]; exact hp) hno
  · rw [d1, d2]; exact add_remove_default r.default p ps ms ops

/-- the plain case: add, then remove -/
theorem add_remove (cfg : Cfg) (accepts : CVal → Str → Bool) (r : Reg) (p : Str) (ps : Dict PVal)
    (ms : Option (Dict Str)) (hinv : Inv cfg r) (hp : p ∉ r.names)
    (hg : GoodRun cfg r [.add p ps ms, .remove (some p)]) (n v : Str) :
    validate accepts (run cfg r [.add p ps ms, .remove (some p)]) n v = validate accepts r n v ∧
    (run cfg r [.add p ps ms, .remove (some p)]).known = r.known := by
  have h := add_remove_interleaved cfg r p ps ms [] hinv hp (by simp) hg trivial
  refine ⟨validate_obs accepts _ _ h n v, ?_⟩
  have h' := h
  simp only [obs, Obs.mk.injEq] at h'
  exact h'.2.2.1

/-! ## T14.3 valid iff some registered profile that defines the property accepts the value -/

theorem valid_iff_some_profile (cfg : Cfg) (accepts : CVal → Str → Bool) (r : Reg) (hinv : Inv cfg r)
    (name value : Str) :
    ∃ b, validate accepts r name value = .ok b ∧
      (b = true ↔ ∃ p ∈ r.names, ∃ d c, dget r.compiled p = some d ∧ dget d name = some c ∧ accepts c value = true) :=
  validate_spec cfg accepts r hinv name value

/-! ## T14.4 `defaultProfiles` decides which profile is reported, never whether a value is valid -/

/-- for default profiles that are registered: `validateWithProfile` does not raise, its `valid` is `validate`'s
answer, and `matching` says exactly whether one of the default profiles accepts -/
theorem defaults_affect_matching_only (cfg : Cfg) (accepts : CVal → Str → Bool) (r : Reg) (hinv : Inv cfg r)
    (d : Option (List Str)) (hd : ∀ p ∈ getDefault (setDefault r d), p ∈ r.names) (name value : Str) :
    ∃ vd, validateWithProfile accepts (setDefault r d) name value none = .ok vd ∧
      validate accepts r name value = .ok vd.valid ∧
      (vd.matching = true ↔ ∃ p ∈ getDefault (setDefault r d), AcceptsIn accepts r.compiled name value p) := by
  obtain ⟨vd, h1, h2, h3⟩ := validateWithProfile_spec cfg accepts (setDefault r d)
    (Profiles.setDefault_inv cfg r d hinv) hd name value
  obtain ⟨b, hb1, hb2⟩ := validate_spec cfg accepts r hinv name value
  refine ⟨vd, h1, ?_, h3⟩
  rw [hb1]
  congr 1
  have : (b = true) ↔ (vd.valid = true) := hb2.trans h2.symm
  cases b <;> cases hv : vd.valid <;> simp_all

/-- hence two assignments of registered default profiles give the same validity -/
theorem defaults_same_validity (cfg : Cfg) (accepts : CVal → Str → Bool) (r : Reg) (hinv : Inv cfg r)
    (d₁ d₂ : Option (List Str)) (h₁ : ∀ p ∈ getDefault (setDefault r d₁), p ∈ r.names)
    (h₂ : ∀ p ∈ getDefault (setDefault r d₂), p ∈ r.names) (name value : Str) :
    ∃ v₁ v₂, validateWithProfile accepts (setDefault r d₁) name value none = .ok v₁ ∧
      validateWithProfile accepts (setDefault r d₂) name value none = .ok v₂ ∧ v₁.valid = v₂.valid := by
  obtain ⟨v₁, a1, a2, _⟩ := defaults_affect_matching_only cfg accepts r hinv d₁ h₁ name value
  obtain ⟨v₂, b1, b2, _⟩ := defaults_affect_matching_only cfg accepts r hinv d₂ h₂ name value
  refine ⟨v₁, v₂, a1, b1, ?_⟩
  rw [a2] at b2
  exact Except.ok.inj b2

/-! ## T14.5 removing an unknown profile is rejected and changes nothing -/

theorem remove_unknown_rejected_unchanged (cfg : Cfg) (r : Reg) (p : Str) (hinv : Inv cfg r) (hp : p ∉ r.names) :
    removeProfile cfg r (some p) = (r, some .noSuchProfile) :=
  removeProfile_unknown cfg r p hinv hp

/-- for EVERY registry (no invariant needed): a `removeProfile` that answers `NoSuchProfileException` has not
changed anything, and `removeProfile()` without a name always answers so -/
theorem remove_rejected_unchanged (cfg : Cfg) (r : Reg) (p : Option Str)
    (h : (removeProfile cfg r p).2 = some .noSuchProfile) : (removeProfile cfg r p).1 = r :=
  removeProfile_rejected_unchanged cfg r p h

/-! ## the four findings, machine-checked at concrete witnesses

A tiny configuration: one base macro `c ↦ "r"`. Names `A B X U` = `[65] [66] [88] [85]`, property `x` = `[120]`,
the pattern `{c}` = `[123, 99, 125]`, macro `m` = `[109]`. In each of the first three, two histories lead to
registries with the same contents and `defaultProfiles` whose compiled patterns — hence verdicts — differ;
`contents_determine` therefore cannot hold without the guards above. -/

def wcfg : Cfg := { base := [([99], [114])], fuel := 4 }
def xc : Dict PVal := [([120], .pat [123, 99, 125])]

/-- `removeProfile(all=True)` keeps the macro cache -/
theorem finding_removeAll :
    let r₁ := run wcfg (empty wcfg) [.add [65] [] (some [([99], [122])]), .removeAll, .add [66] xc none]
    let r₂ := run wcfg (empty wcfg) [.add [66] xc none]
    contents r₁ = contents r₂ ∧ r₁.default = r₂.default ∧
    dget r₁.compiled [66] = some [([120], .re (wrapRe [40, 63, 58, 122, 41]))] ∧
    dget r₂.compiled [66] = some [([120], .re (wrapRe [40, 63, 58, 114, 41]))] := by
  decide

/-- re-adding a registered name with other macros keeps the replaced macros in use -/
theorem finding_replace :
    let r₁ := run wcfg (empty wcfg)
      [.add [88] [] (some [([99], [122])]), .add [88] [] (some [([109], [113])]), .add [66] xc none]
    let r₂ := run wcfg (empty wcfg) [.add [88] [] (some [([109], [113])]), .add [66] xc none]
    contents r₁ = contents r₂ ∧ r₁.default = r₂.default ∧
    dget r₁.compiled [66] = some [([120], .re (wrapRe [40, 63, 58, 122, 41]))] ∧
    dget r₂.compiled [66] = some [([120], .re (wrapRe [40, 63, 58, 114, 41]))] := by
  decide

/-- `addProfiles` over a non-empty registry does not re-expand what is registered -/
theorem finding_addProfiles :
    let r₁ := run wcfg (empty wcfg)
      [.add [65] xc none, .addMany [{ name := [66], props := [], macros := some [([99], [122])] }]]
    let r₂ := run wcfg (empty wcfg) [.add [65] xc none, .add [66] [] (some [([99], [122])])]
    contents r₁ = contents r₂ ∧ r₁.default = r₂.default ∧
    dget r₁.compiled [65] = some [([120], .re (wrapRe [40, 63, 58, 114, 41]))] ∧
    dget r₂.compiled [65] = some [([120], .re (wrapRe [40, 63, 58, 122, 41]))] := by
  decide

/-- a failed `addProfile` (undefined macro `n`) leaves the name registered without compiled properties:
`validate` raises `KeyError` for every value no earlier profile accepts, and the profile cannot be removed -/
theorem finding_failed_add (accepts : CVal → Str → Bool) :
    let res := addProfile wcfg (empty wcfg) [85] [([120], .pat [123, 110, 125])] none
    res.2 = some (.keyError [110]) ∧ res.1.names = [[85]] ∧ dget res.1.compiled [85] = none ∧
    validate accepts res.1 [120] [] = .error (.keyError [85]) ∧
    (removeProfile wcfg res.1 (some [85])).2 = some .noSuchProfile := by
  refine ⟨by decide, by decide, by decide, ?_, by decide⟩
  rfl

/-! ## non-vacuity: the hypotheses of the theorems above are satisfiable (and used) -/

/-- a history inside the good region: add `A` with a macro that shadows the base macro `c`, add `B` that uses it,
set a default, remove `A` again — `GoodRun` holds, so `run_inv` applies to it -/
example : GoodRun wcfg (empty wcfg)
    [.add [65] [] (some [([99], [122])]), .add [66] xc none, .setDefault (some [[66]]), .remove (some [65])] := by
  refine ⟨⟨Or.inl (by decide), ?_⟩, ⟨Or.inl (by decide), ?_⟩, trivial, ?_, trivial⟩
  · intro n hn
    have : n = [65] := by simpa [addNames, empty] using hn
    subst this
    exact ⟨_, rfl⟩
  · intro n hn
    have : n = [65] ∨ n = [66] := by
      have h : n ∈ [[65], [66]] := hn
      simpa using h
    cases this with
    | inl h => subst h; exact ⟨_, rfl⟩
    | inr h => subst h; exact ⟨_, rfl⟩
  · intro _ n hn
    have : n = [66] := by
      have h : n ∈ [[66]] := hn
      simpa using h
    subst this
    exact ⟨_, rfl⟩

/-- the guard of `removeAll_inv_partial` is satisfiable with a profile registered -/
example : SameEnv (envOf wcfg.base (run wcfg (empty wcfg) [.add [65] xc none]).raw
    (run wcfg (empty wcfg) [.add [65] xc none]).names) wcfg.base := fun _ => rfl

end CssVerif.C14
