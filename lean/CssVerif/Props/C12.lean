import CssVerif.Lemmas.Globals
import CssVerif.Lemmas.GlobalsSites
import CssVerif.Gen.C12Grammars
import CssVerif.Lemmas.GlobalsMemo
import CssVerif.Lemmas.GlobalsMutables
/-!
# C12 — no hidden state: history-independent results, global modes restored

Property theorems only. Models: `Model/GlobalsProd.lean` (the production engine with `savedTokens` and the
tokenizer's push-back queue, K4) and `Model/Globals.lean` (error mode, serializer, profiles; every entry point and
what its body can do, K7). Helpers: `Lemmas/GlobalsProd.lean`, `Lemmas/Globals.lean`, `Lemmas/GlobalsSites.lean`.
The tie to the code is `tools/harness/c12.py` (differential on random grammars / token streams / call trees,
differential on random call histories with injected faults, source-site table).

All theorems hold for every `fuel`: they do not depend on the termination of the engine (C01).
-/
namespace CssVerif.C12
open CssVerif.GProd CssVerif.Globals

/-! ## the tie (a): the writers of process-wide state are the ones the model has -/

/-- the table regenerated from the sources on this run is the table the model was written against -/
theorem sites_as_modelled : CssVerif.Gen.C12.sites = expectedSites := by decide +kernel

/-! ## the tie (a'): the grammars cssutils really uses, captured from the live objects on this run

`Gen.C12.realEnv` holds every `Sequence/Choice/Prod` tree that reached `ProdParser.parse` while a fixed set of
inputs was parsed (MediaList, MediaQuery alone and as a list member, PropertyValue and all value classes,
CSSVariablesDeclaration, MarginRule, a sheet with every rule kind), with all flags and with the links
"this production's `toSeq` started that grammar". What a production accepts is not captured; the three
facts below do not depend on it (`wfEnv_shape`, `envPartof_shape`). -/

/-- every production that starts a hand-back child goes on with the loop -/
theorem real_grammars_keep_handback_discipline : wfEnv CssVerif.Gen.C12.realEnv = true := by decide +kernel

/-- no grammar that is ever used stand-alone has a `stopIfNoMoreMatch` production -/
theorem real_standalone_grammars_never_hand_back :
    CssVerif.Gen.C12.standalone.all (fun k => !(envPartof CssVerif.Gen.C12.realEnv k)) = true := by decide +kernel

/-- the hand-back protocol is in use (non-vacuity): some grammar hands tokens back, every such grammar is a
`MediaQuery`, and it was only ever reached as the child of another parser -/
theorem real_handback_grammar_is_the_media_query_in_a_list :
    (List.range CssVerif.Gen.C12.realEnv.length).any (envPartof CssVerif.Gen.C12.realEnv) = true ∧
    (List.range CssVerif.Gen.C12.realEnv.length).all (fun k =>
      !(envPartof CssVerif.Gen.C12.realEnv k) ||
      (CssVerif.Gen.C12.grammarNames[k]? == some "MediaQuery" && !(CssVerif.Gen.C12.standalone.contains k))) = true := by
  decide +kernel

/-- T12.2 for the grammars of the code base: whatever their productions accept (`shape env = realEnv`), a
stand-alone call of any grammar that is used stand-alone leaves `savedTokens` empty, returning or raising -/
theorem real_engine_no_residue (env : Env) (hshape : shape env = CssVerif.Gen.C12.realEnv) (fuel k : Nat)
    (hk : k ∈ CssVerif.Gen.C12.standalone) (src : Stream) (g : PG) (hs : g.saved = [])
    (hc : (ctor env fuel k src g).out ≠ .noFuel ∧ (ctor env fuel k src g).out ≠ .unsupported) :
    (ctor env fuel k src g).g.saved = [] := by
  have hwf : wfEnv env = true := by
    rw [← wfEnv_shape, hshape]; exact real_grammars_keep_handback_discipline
  have hp : envPartof env k = false := by
    rw [← envPartof_shape, hshape]
    have := real_standalone_grammars_never_hand_back
    rw [List.all_eq_true] at this
    simpa using this k hk
  obtain ⟨_, hb⟩ := ctor_handback env hwf fuel k src g hs
  rcases hb with hb | hb | hb | hb
  · exact absurd hb hc.1
  · exact absurd hb hc.2
  · exact hb
  · rw [hp] at hb; simp at hb

/-! ## T12.2 — `savedTokens` and the push-back queue (engine level, all grammars, all call trees) -/

/-- T12.2 `no_residue` (engine). A stand-alone production parser call — any grammar without a
`stopIfNoMoreMatch` production, any environment of child grammars that respects the hand-back discipline
(`wfEnv`), any token source, either error mode, any tree of nested parsers — leaves `savedTokens` empty,
whether it returns (wellformed or not, "no content") or raises. -/
theorem engine_no_residue (env : Env) (hwf : wfEnv env = true) (fuel k : Nat) (src : Stream) (g : PG)
    (hk : envPartof env k = false) (hs : g.saved = [])
    (hc : (ctor env fuel k src g).out ≠ .noFuel ∧ (ctor env fuel k src g).out ≠ .unsupported) :
    (ctor env fuel k src g).g.saved = [] := by
  obtain ⟨_, hb⟩ := ctor_handback env hwf fuel k src g hs
  rcases hb with hb | hb | hb | hb
  · exact absurd hb hc.1
  · exact absurd hb hc.2
  · exact hb
  · rw [hk] at hb; simp at hb

/-- the hand-back protocol itself: a parser that was started as somebody's child hands back at most ONE token,
only together with a wellformed result (never when raising), and only if its grammar has a
`stopIfNoMoreMatch` production; the enclosing loop pops it before anything else can happen (that is what
`loop_handback` proves about the parent) -/
theorem handback_at_most_one (env : Env) (hwf : wfEnv env = true) (fuel k : Nat) (l : L) (g : PG)
    (hs : g.saved = []) (hw : l.wellformed = true) (hp : l.stopIf = false) :
    let r := loop env fuel k l g
    r.out = .noFuel ∨ r.out = .unsupported ∨ r.g.saved = [] ∨
      (envPartof env k = true ∧ r.g.saved.length = 1 ∧ ∃ items, r.out = .ok true items) :=
  (loop_handback env hwf fuel k l g (by simp [hs]) hw (by simp [hp])).2

/-- what `ProdParser()` does to the push-back queue makes its old content irrelevant: the complete result of a
call (outcome, returned items, remaining stream, final global state) is the same whatever was left in `_pushed` -/
theorem engine_pushed_irrelevant (env : Env) (fuel k : Nat) (src : Stream) (g : PG) (p : List Tok) :
    ctor env fuel k src { g with pushed := p } = ctor env fuel k src g :=
  ctor_ignores_pushed env fuel k src g p

/-- T12.3 (engine): the result of a production parser call is a function of its arguments, the error mode and
`savedTokens` — so, with T12.2, of its arguments and the error mode alone -/
theorem engine_history_independent (env : Env) (fuel k : Nat) (src : Stream) (g g' : PG)
    (hr : g.raising = g'.raising) (hs : g.saved = g'.saved) :
    ctor env fuel k src g = ctor env fuel k src g' := by
  have e : g = { g' with pushed := g.pushed } := by
    cases g; cases g'; simp_all
  rw [e, ctor_ignores_pushed]

/-- T12.1 (engine): no production parser call writes the error mode -/
theorem engine_mode_untouched (env : Env) (fuel k : Nat) (src : Stream) (g : PG) :
    (ctor env fuel k src g).g.raising = g.raising :=
  ctor_raising env fuel k src g

/-- Why `Clean` matters (the defect of the pinned tree, fixed by 24ef513, as a statement about the model):
whatever is in `savedTokens` when a call starts is consumed by that call before its own first token. -/
theorem leftover_is_consumed_first (l : L) (g : PG) (t : Tok) (rest : List Tok) (h : g.saved = t :: rest) :
    fetch l g = some (some t, l.toks, { g with saved := rest }) := by
  simp [fetch, h]

/-! non-vacuity: the shape of MediaList (grammar 0: a comma separated list whose members start a MediaQuery
child) and MediaQuery as part of a list (grammar 1: `stopIfNoMoreMatch` on the media type) -/
def mediaEnv : Env :=
  [ { tb := [ .seq [1, 2] 1 1,
              .prod [0, 6] ⟨false, false, false, false, false, false⟩ (.child 1),
              .seq [3, 4] 0 maxsize,
              .prod [3] ⟨false, false, false, false, false, false⟩ .drop,
              .prod [0, 6] ⟨false, false, false, false, false, false⟩ (.child 1) ],
      keepS := false, checkS := false, emptyOk := false, postErr := false },
    { tb := [ .seq [1] 1 1,
              .prod [0] ⟨false, false, false, true, false, false⟩ .keep ],
      keepS := false, checkS := false, emptyOk := false, postErr := false } ]

example : wfEnv mediaEnv = true := by decide
example : envPartof mediaEnv 0 = false ∧ envPartof mediaEnv 1 = true := by decide
/-- the discipline is a real restriction: a child production that hands back AND stops is rejected -/
example : wfEnv [ { tb := [ .seq [1] 1 1, .prod [0] ⟨false, true, false, false, false, false⟩ (.child 1) ],
                    keepS := false, checkS := false, emptyOk := false, postErr := false },
                  { tb := [ .seq [1] 1 1, .prod [0] ⟨false, false, false, true, false, false⟩ .keep ],
                    keepS := false, checkS := false, emptyOk := false, postErr := false } ] = false := by decide

/-! the protocol at work on `mediaEnv` (a MediaList-like parent with MediaQuery-like children), evaluated by the kernel -/
def tIdent : Tok := ⟨.other, 0, false⟩
def tFoo : Tok := ⟨.other, 1, false⟩
def tComma : Tok := ⟨.other, 3, true⟩

/-- `screen, screen`: the first child meets the comma, hands it back, the parent pops it and goes on;
both children are in the result and nothing is left -/
example : (ctor mediaEnv 100 0 (.lst [tIdent, tComma, tIdent]) ⟨false, [], []⟩).out =
      .ok true [.openc 1, .tok 0 false, .closec true, .openc 1, .tok 0 false, .closec true] ∧
    (ctor mediaEnv 100 0 (.lst [tIdent, tComma, tIdent]) ⟨false, [], []⟩).g.saved = [] := by decide +kernel

/-- `screen foo, screen` (the input of the pinned-tree defect, inside a list): the child hands `foo` back, the
parent pops it, has no production for it and reports the error — and nothing is left -/
example : (ctor mediaEnv 100 0 (.lst [tIdent, tFoo, tComma, tIdent]) ⟨false, [], []⟩).out =
      .ok false [.openc 1, .tok 0 false, .closec true] ∧
    (ctor mediaEnv 100 0 (.lst [tIdent, tFoo, tComma, tIdent]) ⟨false, [], []⟩).g.saved = [] ∧
    (ctor mediaEnv 100 0 (.lst [tIdent, tFoo, tComma, tIdent]) ⟨true, [], []⟩).out = .raised ∧
    (ctor mediaEnv 100 0 (.lst [tIdent, tFoo, tComma, tIdent]) ⟨true, [], []⟩).g.saved = [] := by decide +kernel

/-- the hypothesis `envPartof env k = false` of `engine_no_residue` cannot be dropped: the hand-back grammar
called stand-alone (what `MediaQuery('screen foo')` did before 24ef513) leaves `foo` behind … -/
theorem standalone_handback_grammar_leaks :
    (ctor mediaEnv 100 1 (.lst [tIdent, tFoo]) ⟨false, [], []⟩).g.saved = [tFoo] := by decide +kernel

/-- … and the next call anywhere consumes it: `screen` parsed after that leak is not `screen` any more -/
example : (ctor mediaEnv 100 0 (.lst [tIdent]) ⟨false, [], []⟩).out = .ok true [.openc 1, .tok 0 false, .closec true] ∧
    (ctor mediaEnv 100 0 (.lst [tIdent]) ⟨false, [tFoo], []⟩).out ≠
      (ctor mediaEnv 100 0 (.lst [tIdent]) ⟨false, [], []⟩).out := by decide +kernel

/-! ## T12.1 — mode, preferences, serializer, profiles, parser objects are restored -/

/-- T12.1 `restored`. Every library call — every entry point of `CSSParser` and the module-level helpers, any
direct DOM call, `csscombine`, serialisation — with ANY body script (log calls, @imports with a fetcher that
returns, returns nothing, raises a swallowed or a propagating exception and meanwhile calls the library itself,
production parser call trees), ANY per-call `validate` argument and ANY input fault (undecodable bytes, missing
file), whether it returns or raises, leaves the error mode, the serializer object, every preference, the profile
registry and every field of every `CSSParser` object as they were. -/
theorem restored (env : Env) (fuel : Nat) (s : Step) (g : G) (hq : quiet s = true) :
    (runStep env fuel s g).g.vis = g.vis :=
  runStep_kept env fuel s g hq

/-- the `finally` of `__parseSetting`, at full strength: even if the body is NOT quiet — a fetcher or a log
handler assigns `cssutils.log.raiseExceptions` during the parse — the mode found at the start of the call is
the mode after the call, returning or raising (fixes 0bb31e0 and 13b9223) -/
theorem parse_restores_mode_whatever_happens (env : Env) (fuel : Nat) (p : PRef) (v : Option Bool) (inp : Input)
    (body : List Step) (g : G) :
    (runStep env fuel (.parseString p v inp body) g).g.raising = g.raising ∧
    (runStep env fuel (.parseStyle p v inp body) g).g.raising = g.raising ∧
    (∀ found, (runStep env fuel (.parseFile p v found inp body) g).g.raising = g.raising) := by
  refine ⟨by simp [runStep, withParseSetting], by simp [runStep, withParseSetting], ?_⟩
  intro found
  cases found <;> simp [runStep, withParseSetting]

/-- while a sheet is parsed the user's fetcher sees the PARSER's mode; `parseUrl` fetches before the mode is
switched, so there the fetcher sees the global mode -/
theorem mode_seen_by_fetcher (env : Env) (fuel : Nat) (p : PRef) (v : Option Bool) (res : FetchRes)
    (sub body : List Step) (g : G) :
    (runStep env fuel (.parseString p v .str (.imp [] res sub :: body)) g).obs.head? = some (.seen (g.parser p).raising) ∧
    (runStep env fuel (.parseUrl p v [] res .str body) g).obs.head? = some (.seen g.raising) := by
  constructor
  · simp only [runStep, withParseSetting, decode, runSteps]
    apply seqR_head
    apply seqR_head
    apply importOnce_head
    apply seqR_head
    rfl
  · simp only [runStep]
    apply seqR_head
    rfl

/-- a parser created in raising mode raises on the first log call of the body, a default parser never does,
and a direct DOM call follows the global mode -/
theorem who_raises (env : Env) (fuel : Nat) (g : G) (v : Option Bool) (rest : List Step) :
    (runStep env fuel (.parseString (.fresh ⟨true, true⟩) v .str (.log false :: rest)) g).res = .error .dom ∧
    (runStep env fuel (.parseString (.fresh ⟨false, true⟩) v .str [.log false]) g).res = .ok () ∧
    (runStep env fuel (.direct (.log false :: rest)) { g with raising := true }).res = .error .dom := by
  simp [runStep, runSteps, withParseSetting, decode, seqR, doLog, G.parser]

/-- the per-call `validate` argument is used for this call and nowhere else: what an entry point returns is
validating iff the argument says so, or — without the argument — iff the parser object was created so; and
(by `restored`) the parser object is the same afterwards, so an earlier `validate=False` cannot show later -/
theorem validate_argument_is_per_call (env : Env) (fuel : Nat) (p : PRef) (v : Option Bool) (inp : Input)
    (body : List Step) (g : G) (hok : (runStep env fuel (.parseStyle p v inp body) g).res = .ok ()) :
    (runStep env fuel (.parseStyle p v inp body) g).obs.getLast? = some (.validating (v.getD (g.parser p).validate)) ∧
    (quietL body = true →
      (runStep env fuel (.parseStyle p v inp body) g).g.parsers = g.parsers) := by
  constructor
  · simp only [runStep, withParseSetting, decode] at hok ⊢
    cases inp <;> simp only [] at hok ⊢
    all_goals first
      | (simp at hok; done)
      | (unfold seqR at hok ⊢
         split at hok
         · simp at hok
         · simp)
  · intro hq
    have := runStep_kept env fuel (.parseStyle p v inp body) g (by simpa [quiet] using hq)
    simp only [Kept, G.vis, Vis.mk.injEq] at this
    exact this.2.2.2.2.2

/-- `csscombine`, full statement: `quiet` for `Step.combine` demands that the serialisation phase cannot
raise (`serBody.all calm`). The sources have no raising statement and no log call in serialize.py
(`sites_as_modelled`), and every fault the property lists happens before the swap, so `restored` covers them.
What is NOT covered — and is false, the swap is not protected by `try/finally` (script.py:365-371): -/
theorem csscombine_unprotected_swap (env : Env) (fuel : Nat) (g : G) :
    (runStep env fuel (.combine (.parseString (.fresh ⟨false, true⟩) none .str []) [] [.log false])
      { g with raising := true }).g.ser.id = g.nextSer := by
  simp [runStep, runSteps, withParseSetting, decode, seqR, doLog, G.parser]

/-! ## T12.2 — top level -/

/-- T12.2 `no_residue`. After every completed top-level call (returning or raising), for every body script and
every production parser call tree in it, `savedTokens` is empty again. -/
theorem no_residue (env : Env) (hwf : wfEnv env = true) (fuel : Nat) (s : Step) (g : G)
    (ht : topOK env s = true) (hs : g.saved = []) (ha : hasArt (runStep env fuel s g).obs = false) :
    (runStep env fuel s g).g.saved = [] :=
  runStep_saved env hwf fuel s g ht hs ha

/-! ## T12.3 — results depend on the arguments and the explicit settings only -/

/-- noninterference: two process states that agree on the error mode, `savedTokens`, the preferences, the
serializer's carried-over indentation state and the profiles give the same result (value or exception) and
the same observations for every step — the content of the push-back queue, the identity of the serializer
object and everything else are never read — and agree again afterwards -/
theorem noninterference (env : Env) (fuel : Nat) (s : Step) (g g' : G) (h : Agree g g') :
    (runStep env fuel s g).res = (runStep env fuel s g').res ∧
    (runStep env fuel s g).obs = (runStep env fuel s g').obs ∧
    Agree (runStep env fuel s g).g (runStep env fuel s g').g :=
  runStep_sim env fuel s g g' h

/-- T12.3 `history_independent`. After ANY history of library calls (each with any body, any per-call
arguments, any fault, returning or raising, on long-lived or fresh parser objects) mixed with explicit
settings, a further call `x` behaves exactly as after the explicit settings alone. (Unguarded since the
serializer keeps the `indentSpecificities` bookkeeping for one sheet only.) -/
theorem history_independent (env : Env) (hwf : wfEnv env = true) (fuel : Nat) (h : List Step) (x : Step) (g : G)
    (hq : ∀ s ∈ h, s.isExplicit = true ∨ (quiet s = true ∧ topOK env s = true))
    (hs : g.saved = [])
    (ha : ∀ o ∈ (runHistory env fuel h g).2, hasArt o.2 = false) :
    (runStep env fuel x (runHistory env fuel h g).1).res = (runStep env fuel x (explicitOnly env fuel h g)).res ∧
    (runStep env fuel x (runHistory env fuel h g).1).obs = (runStep env fuel x (explicitOnly env fuel h g)).obs := by
  have hag := history_agree env hwf fuel h g g hq (Agree.refl g) hs ha
  have := runStep_sim env fuel x _ _ hag
  exact ⟨this.1, this.2.1⟩

/-- parser objects are reusable: the second use of the same parser (same arguments, same body) gives the
result of the first -/
theorem parser_reusable (env : Env) (hwf : wfEnv env = true) (fuel : Nat) (s : Step) (g : G)
    (hq : quiet s = true) (ht : topOK env s = true) (hs : g.saved = [])
    (ha : hasArt (runStep env fuel s g).obs = false) :
    (runStep env fuel s (runStep env fuel s g).g).res = (runStep env fuel s g).res ∧
    (runStep env fuel s (runStep env fuel s g).g).obs = (runStep env fuel s g).obs := by
  have hk := runStep_kept env fuel s g hq
  have hsv := runStep_saved env hwf fuel s g ht hs ha
  have := runStep_sim env fuel s _ _ (Agree.of_kept hk hs hsv)
  exact ⟨this.1, this.2.1⟩

/-- … also after OTHER calls on the same object with other per-call arguments: a call `s` on a parser that has
served any quiet history `h` meanwhile gives what it gives on the untouched process -/
theorem parser_reusable_after_other_calls (env : Env) (hwf : wfEnv env = true) (fuel : Nat) (h : List Step) (s : Step)
    (g : G) (hq : ∀ x ∈ h, quiet x = true ∧ topOK env x = true) (hs : g.saved = [])
    (ha : ∀ o ∈ (runHistory env fuel h g).2, hasArt o.2 = false) :
    (runStep env fuel s (runHistory env fuel h g).1).res = (runStep env fuel s g).res ∧
    (runStep env fuel s (runHistory env fuel h g).1).obs = (runStep env fuel s g).obs := by
  have hne : ∀ x ∈ h, x.isExplicit = false := by
    intro x hx
    have := (hq x hx).1
    cases x <;> simp_all [Step.isExplicit, quiet]
  have h1 := history_agree env hwf fuel h g g (fun x hx => Or.inr (hq x hx)) (Agree.refl g) hs ha
  have h2 : ∀ (l : List Step) (g : G), (∀ x ∈ l, x.isExplicit = false) → explicitOnly env fuel l g = g := by
    intro l
    induction l with
    | nil => intro g _; rfl
    | cons a as ih =>
      intro g hl
      simp only [explicitOnly, hl a List.mem_cons_self, Bool.false_eq_true, if_false]
      exact ih g fun x hx => hl x (List.mem_cons_of_mem _ hx)
  rw [h2 h g hne] at h1
  have := runStep_sim env fuel s _ _ h1
  exact ⟨this.1, this.2.1⟩

/-- a history without any explicit setting ends where it started (up to what nobody reads) -/
theorem quiet_history_returns (env : Env) (hwf : wfEnv env = true) (fuel : Nat) (h : List Step) (g : G)
    (hq : ∀ s ∈ h, quiet s = true ∧ topOK env s = true) (hs : g.saved = [])
    (ha : ∀ o ∈ (runHistory env fuel h g).2, hasArt o.2 = false) :
    Agree (runHistory env fuel h g).1 g := by
  have hne : ∀ s ∈ h, s.isExplicit = false := by
    intro s hs'
    have := (hq s hs').1
    cases s <;> simp_all [Step.isExplicit, quiet]
  have h1 := history_agree env hwf fuel h g g (fun s hs' => Or.inr (hq s hs')) (Agree.refl g) hs ha
  have h2 : ∀ (l : List Step) (g : G), (∀ s ∈ l, s.isExplicit = false) → explicitOnly env fuel l g = g := by
    intro l
    induction l with
    | nil => intro g _; rfl
    | cons a as ih =>
      intro g hl
      simp only [explicitOnly, hl a List.mem_cons_self, Bool.false_eq_true, if_false]
      exact ih g fun s hs' => hl s (List.mem_cons_of_mem _ hs')
  rw [h2 h g hne] at h1
  exact h1

/-! ## `prefs.indentSpecificities` (serialize.py; finding C12-indent-specificities, fixed)

The serializer used to keep `_selectors` / `_selectorlevel` from one call to the next. Since the fix
"indentSpecificities relates the rules of one sheet only" `do_CSSStyleSheet` starts from nothing and restores
the outer values, which is what `Step.serialize` does now. -/

def ruleA : SelRec := ⟨[1], [[0, 0, 1, 1]]⟩      -- a.x
def ruleB : SelRec := ⟨[1], [[0, 0, 2, 1]]⟩      -- a.x.y

/-- serialising changes nothing at all in the process state, whatever the preference says -/
theorem serialize_is_stateless (env : Env) (fuel : Nat) (rules : List SelRec) (g : G) :
    (runStep env fuel (.serialize rules) g).g = g := by
  simp only [runStep]

/-- the witness of the former finding: `a.x.y{…}` alone is not indented, also after `a.x{…}` was serialised in
an earlier call; inside ONE sheet the preference still does what it is for -/
theorem indent_specificities_is_per_sheet (env : Env) (fuel : Nat) (g : G) (h0 : g.ser = ⟨0, [], true⟩) :
    (runStep env fuel (.serialize [ruleB]) g).obs = [.levels [0]] ∧
    (runStep env fuel (.serialize [ruleB]) (runStep env fuel (.serialize [ruleA]) g).g).obs = [.levels [0]] ∧
    (runStep env fuel (.serialize [ruleA, ruleB]) g).obs = [.levels [0, 1]] := by
  simp only [runStep, h0]
  decide

/-! non-vacuity of the hypotheses used above -/
example : quiet (.parseString (.obj 0) (some false) .bytesBad [.log false,
    .imp [.parseStyle (.fresh ⟨false, true⟩) none .str []] (.raises (.user false)) [], .pp 0 (.tkz false [])]) = true := by
  decide
example : quiet (.combine (.parseUrl (.fresh ⟨false, true⟩) none [] .content .bytesOk [.log true]) [.log false]
    [.serialize [ruleA]]) = true := by
  decide
example : topOK mediaEnv (.direct [.pp 0 (.lst [])]) = true ∧ topOK mediaEnv (.direct [.pp 1 (.lst [])]) = false := by
  decide

/-! ## T12.4 — the memo tables are transparent (`Model/GlobalsMemo.lean`)

`_TOKENIZER_CACHE`, the tables a `Tokenizer` object keeps, `util.LazyRegex`. What the computations compute is a
parameter: the theorems hold for every `cmp` / `re`. -/

section memo
open CssVerif.Memo
variable {ε τ ρ : Type}

/-- tie (a''): every module-level / class-level mutable object of the package, every statement that can change one,
and the fields of Tokenizer / LazyRegex / Profiles / the error handler written outside `__init__`, regenerated from
the sources on this run, are the tables the roles were written against -/
theorem mutables_as_modelled :
    CssVerif.Gen.C12M.defs = expectedDefs.map (·.1) ∧ CssVerif.Gen.C12M.writes = expectedWrites ∧
    CssVerif.Gen.C12M.fields = expectedFields := by
  refine ⟨?_, ?_, ?_⟩ <;> decide +kernel

/-- no object whose role is "constant table" (or "filled while its module is imported") is written by any statement
of the package that runs after the import -/
theorem constants_never_written :
    (CssVerif.Gen.C12M.defs.all fun d =>
      !((rolesOfName d.2.2.1).all Role.isFixed) ||
      (runtimeWrites CssVerif.Gen.C12M.writes d.2.2.1).isEmpty) = true := by decide +kernel

/-- the cache is written by its look-up (`Tokenizer._bind`, the store of line 75) and cleared by `settings.set`;
of the two tables the computation reads, nothing writes `MACROS`, and `PRODUCTIONS` is written by `settings.set`
alone — the function that clears the cache -/
theorem memo_writers :
    runtimeWrites CssVerif.Gen.C12M.writes "_TOKENIZER_CACHE" =
      [("_TOKENIZER_CACHE", "cssutils/settings.py", "set", "call-clear"),
       ("_TOKENIZER_CACHE", "cssutils/tokenize2.py", "Tokenizer._bind", "setitem")] ∧
    runtimeWrites CssVerif.Gen.C12M.writes "MACROS" = [] ∧
    runtimeWrites CssVerif.Gen.C12M.writes "PRODUCTIONS" =
      [("PRODUCTIONS", "cssutils/settings.py", "set", "call-insert")] := by decide +kernel

/-- the tables handed out by the cache (shared by all `Tokenizer` objects of one key) are never changed in place:
nothing writes into them, a `Tokenizer` only re-binds its three table attributes in `_bind` (from the cache, at
creation and at the start of every run: `Memo.runTokenizer`) and changes its push-back queue; a `LazyRegex` is written
by `ensure` only (`pattern` never) -/
theorem memo_values_never_written :
    (["tokenmatches", "commentmatcher", "urimatcher"].all fun n =>
      (runtimeWrites CssVerif.Gen.C12M.writes n).isEmpty) = true ∧
    CssVerif.Gen.C12M.fields.filter (·.1 == "Tokenizer") =
      [("Tokenizer", "_bind", "commentmatcher", "set"), ("Tokenizer", "_bind", "tokenmatches", "set"),
       ("Tokenizer", "_bind", "urimatcher", "set"),
       ("Tokenizer", "clear", "_pushed", "set"), ("Tokenizer", "push", "_pushed", "set")] ∧
    CssVerif.Gen.C12M.fields.filter (·.1 == "LazyRegex") =
      [("LazyRegex", "ensure", "flags", "set"), ("LazyRegex", "ensure", "groupindex", "set"),
       ("LazyRegex", "ensure", "groups", "set"), ("LazyRegex", "ensure", "matcher", "set")] := by decide +kernel

/-- T12.4 **look-ups equal recomputation after every history.** Whatever `Tokenizer(...)` calls (any arguments,
raising or not) and `settings.set` calls happened before, in any order, starting from the empty cache: the tables a
new `Tokenizer(macros, productions)` gets are exactly what the computation gives for these arguments under the
module-level tables as they are now — value or exception. -/
theorem tokenizer_cache_transparent (cmp : Cmp ε τ) (G : TkGlobals) (ops : List TkOp) (m : MacrosArg) (p : ProdsArg) :
    (newTokenizer cmp (tkRun cmp (TkState.cold G) ops) m p).1.map (·.1) =
      tablesOf cmp (tkRun cmp (TkState.cold G) ops).glob m p :=
  newTokenizer_result cmp _ (tkRun_sound cmp _ (sound_cold cmp G) ops) m p

/-- hence the tables do not depend on the history, only on the explicit settings in it: the same call after
the `settings.set` calls alone gives the same tables -/
theorem tokenizer_history_independent (cmp : Cmp ε τ) (G : TkGlobals) (ops : List TkOp) (m : MacrosArg) (p : ProdsArg) :
    (newTokenizer cmp (tkRun cmp (TkState.cold G) ops) m p).1.map (·.1) =
      (newTokenizer cmp (tkRun cmp (TkState.cold G) (tkExplicit ops)) m p).1.map (·.1) := by
  rw [tokenizer_cache_transparent, tokenizer_cache_transparent,
    tkRun_glob cmp (TkState.cold G) (TkState.cold G) rfl ops]

/-- two caches that are both sound for the same module-level tables are indistinguishable -/
theorem memo_noninterference (cmp : Cmp ε τ) (s₁ s₂ : TkState τ) (h₁ : Sound cmp s₁) (h₂ : Sound cmp s₂)
    (hg : s₁.glob = s₂.glob) (m : MacrosArg) (p : ProdsArg) :
    (newTokenizer cmp s₁ m p).1.map (·.1) = (newTokenizer cmp s₂ m p).1.map (·.1) := by
  rw [newTokenizer_result cmp s₁ h₁, newTokenizer_result cmp s₂ h₂, hg]

/-- the cache is a cache: constructing a Tokenizer with the same arguments again (or with a dict of the same items:
the key is built from the sorted items) finds the entry and hands out the stored tables -/
theorem second_lookup_is_a_hit (cmp : Cmp ε τ) (s : TkState τ) (m : MacrosArg) (p : ProdsArg) (t : τ) (hit : Bool)
    (h : (newTokenizer cmp s m p).1 = .ok (t, hit)) :
    (newTokenizer cmp (newTokenizer cmp s m p).2 m p).1 = .ok (t, true) :=
  newTokenizer_again cmp s m p t hit h

/-- non-vacuity: the empty cache and everything reachable from it is sound -/
example (cmp : Cmp ε τ) (G : TkGlobals) (ops : List TkOp) : Sound cmp (tkRun cmp (TkState.cold G) ops) :=
  tkRun_sound cmp _ (sound_cold cmp G) ops

/-- the key does not depend on the order in which the dict was filled (evaluated on a sample), and `None`, `{}`
are different keys with the same tables -/
example : keyOf (some ⟨[([98], [50]), ([97], [49])], by decide⟩) none = keyOf (some ⟨[([97], [49]), ([98], [50])], by decide⟩) none ∧
    keyOf none none ≠ keyOf (some ⟨[], by decide⟩) none := by decide

/-- a small instance for kernel-evaluated examples: two macros, three productions -/
def sampleG : TkGlobals :=
  { macros := [([104], [91, 48, 45, 57, 97, 45, 102, 93]), ([110, 108], [92, 110])],                           -- h = [0-9a-f], nl = \\n
    prods := [([66, 79, 77], [120]), (sURI, [117, 123, 104, 125]), (sCOMMENT, [99, 123, 110, 108, 125])],             -- BOM = x, URI = u{h}, COMMENT = c{nl}
    dx := ([70, 85, 78, 67, 84, 73, 79, 78], [112, 114, 111, 103, 105, 100, 123, 104, 125]) }                                            -- FUNCTION = progid{h}

/-- the cache is in use: the second look-up of the same key is a hit and returns the stored tables -/
example :
    (newTokenizer (pyCompile 8) (TkState.cold sampleG) none none).1.map (·.2) = .ok false ∧
    (newTokenizer (pyCompile 8) (tkRun (pyCompile 8) (TkState.cold sampleG) [.new none none]) none none).1.map (·.2)
      = .ok true := by decide

/-- line 16 of settings.py (`_TOKENIZER_CACHE.clear()`) is needed: without it a look-up after the setting returns
the tables computed before it, which are not the recomputation -/
theorem settings_must_clear_the_cache :
    let s := settingsSetNoClear (tkRun (pyCompile 8) (TkState.cold sampleG) [.new none none])
    (newTokenizer (pyCompile 8) s none none).1.map (·.1) ≠ tablesOf (pyCompile 8) s.glob none none := by decide

/-- T12.4 for the long-lived objects, full strength since the fix "tokenizers which exist when settings.set changes the
productions follow the new productions" (before: only without a `settings.set` since the object was created; finding
C12-settings-stale-tokenizers): whatever happened since a `Tokenizer(m, p)` was created — any look-ups, runs and
`settings.set` calls, in any order — the tables a run of it works with (`_bind` at the start of `tokenize`) are the
recomputation for its arguments under the module-level tables as they are at that moment, i.e. what a new
`Tokenizer(m, p)` would get -/
theorem tokenizer_object_current (cmp : Cmp ε τ) (G : TkGlobals) (before since : List TkOp) (m : MacrosArg) (p : ProdsArg) :
    let s := tkRun cmp (newTokenizer cmp (tkRun cmp (TkState.cold G) before) m p).2 since
    (runTokenizer cmp s m p).1.map (·.1) = tablesOf cmp s.glob m p ∧
    (runTokenizer cmp s m p).1.map (·.1) = (newTokenizer cmp s m p).1.map (·.1) := by
  intro s
  have hs : Sound cmp s :=
    tkRun_sound cmp _ (newTokenizer_sound cmp _ (tkRun_sound cmp _ (sound_cold cmp G) before) m p) since
  exact ⟨runTokenizer_result cmp s hs m p, rfl⟩

/-- the attribute an object keeps between two runs is the table of its last look-up (objects are only ever added) -/
theorem tokenizer_object_keeps_tables_between_runs (cmp : Cmp ε τ) (s : TkState τ) (m : MacrosArg) (p : ProdsArg)
    (ops : List TkOp) (t : τ) (hit : Bool) (h : (newTokenizer cmp s m p).1 = .ok (t, hit)) :
    (tkRun cmp (newTokenizer cmp s m p).2 ops).insts[s.insts.length]? = some t := by
  obtain ⟨l, hl⟩ := tkRun_insts cmp (newTokenizer cmp s m p).2 ops
  rw [hl, newTokenizer_insts cmp s m p t hit h]
  simp

/-- the witness of the former finding C12-settings-stale-tokenizers: an object created before `settings.set` —
`prodparser.tokenizer`, `Base.__tokenizer2`, the tokenizer of an existing `CSSParser` — still holds the tables without
the new production in its attributes, but its next run works with the tables that have it, like a `Tokenizer`
created afterwards -/
theorem fixed_tokenizer_object_follows_settings :
    let s := tkRun (pyCompile 8) (TkState.cold sampleG) [.new none none, .settings]
    (s.insts[0]?.map fun t => Except.ok t) ≠ some (tablesOf (pyCompile 8) s.glob none none) ∧
    (runTokenizer (pyCompile 8) s none none).1.map (·.1) = tablesOf (pyCompile 8) s.glob none none ∧
    (newTokenizer (pyCompile 8) s none none).1.map (·.1) = tablesOf (pyCompile 8) s.glob none none := by decide

/-- T12.4 for `util.LazyRegex`: after any history of method calls on an object created as `LazyRegex(pattern, flags)`,
a method call answers what `re.compile(pattern, flags)` answers — or raises what `re.compile` raises; in
particular the `AttributeError` on a `None` matcher cannot happen -/
theorem lazy_regex_transparent {κ α : Type} (re : ReLib ε ρ) (ask : ρ → κ → α) (pattern : Str) (flags : Nat)
    (history : List κ) (q : κ) :
    (((Lazy.new pattern flags).run re ask history).query re ask q).1 =
      (match re.compile pattern flags with
       | .ok r => .ok (ask r q)
       | .error e => .error (.compile e)) :=
  (query_spec re ask pattern flags _ (run_linv re ask pattern flags _ (linv_new re pattern flags) history) q).2

theorem lazy_never_none {κ α : Type} (re : ReLib ε ρ) (ask : ρ → κ → α) (pattern : Str) (flags : Nat)
    (history : List κ) (q : κ) :
    (((Lazy.new pattern flags).run re ask history).query re ask q).1 ≠ .error .noneAttr := by
  rw [lazy_regex_transparent]
  cases re.compile pattern flags <;> simp

/-- what IS observable of the memo: the public attribute `flags` is the constructor's argument before the first use
and the compiled object's afterwards (`util.py:1018`) -/
example : let re : ReLib Unit Nat := { compile := fun _ f => .ok (f + 32), flagsOf := id, groupsOf := fun _ => 0 }
    (Lazy.new [102, 46, 111] 0 : Lazy Nat).flags = 0 ∧
    ((Lazy.new [102, 46, 111] 0 : Lazy Nat).query re (fun _ (_ : Unit) => ()) ()).2.flags = 32 := by decide

end memo

end CssVerif.C12
