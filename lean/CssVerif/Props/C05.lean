import CssVerif.Lemmas.Tok
import CssVerif.Lemmas.TokLex
import CssVerif.Lemmas.TokDet
import CssVerif.Lemmas.TokAppend
import CssVerif.Lemmas.TokLex2Sep
import CssVerif.Lemmas.TokStrItems
import CssVerif.Lemmas.TokIdentU
import CssVerif.Lemmas.TokURange
import CssVerif.Lemmas.TokNum
import CssVerif.Lemmas.TokFull
import CssVerif.Lemmas.TokLex2Full
import CssVerif.Lemmas.TokPush
/-!
# C05 — tokenizer: total, lossless, position-accurate, classifies by the grammar

Property theorems only (helpers and the specification functions `unescape`, `stringValue`, `lc`, `tokenValue`
are in `Model/TokSpec.lean`). Model: `Model/Tok.lean` (`tokenize text fullsheet doComments`), tables:
`Gen/C05Productions.lean` (regenerated from `cssproductions.py` / `tokenize2.py` / `helper.py` on every run),
tied to the code by the differential correspondence of `tools/harness/c05.py`.

Vocabulary: `(tokenize text full doC).items` = every step of the loop (`span` = the source code points the step
consumed, `found` = `span` plus a full-sheet completion, `emit` = yielded or filtered comment);
`bomItems text ++ body text full doC ++ eofItems …` is its decomposition.
-/
namespace CssVerif.C05
open CssVerif CssVerif.Tok CssVerif.Gen.C05

/-! ## T5.1 total; exactly one end marker -/

/-- every generated production is syntactically unable to match the empty string (so each step advances) -/
theorem productions_nonNullable : ∀ p ∈ productions, p.2.nonNullable = true :=
  Tok.productions_nonNullable

/-- **T5.1 total**: for every text and both flags the tokenizer stops regularly — it never spins
(`stuck`: no production matches, or an empty match), never raises (`int()`, `found[0]`), and the fuel of the
model's recursion is never exhausted. -/
theorem tokenize_total (text : Cps) (full doC : Bool) :
    ∃ line col, (tokenize text full doC).stop = .done line col :=
  mainLoop_done text full doC

/-- **T5.1 eof_once**: in full-sheet mode the output is the BOM token (if any), the body, and exactly one end
marker with an empty value — last; no other token has type `EOF`. -/
theorem eof_once (text : Cps) (doC : Bool) :
    ∃ line col, (tokenize text true doC).items =
        bomItems text ++ body text true doC ++ [⟨"EOF", [], line, col, [], [], true⟩] ∧
      ∀ it ∈ bomItems text ++ body text true doC, it.typ ≠ "EOF" := by
  obtain ⟨l, c, hd⟩ := mainLoop_done text true doC
  refine ⟨l, c, by simp [tokenize, hd, eofItems], ?_⟩
  intro it hit
  have hk : it.typ ∈ knownTypes := by
    rcases List.mem_append.mp hit with h | h
    · unfold bomItems at h
      split at h
      · simp only [List.mem_singleton] at h; subst h
        show bomName ∈ knownTypes
        decide
      · simp at h
    · exact (body_itemsOK_mem text true doC it h).1
  intro he
  rw [he] at hk
  revert hk; decide

/-- outside full-sheet mode there is no end marker -/
theorem no_eof_without_fullsheet (text : Cps) (doC : Bool) :
    (tokenize text false doC).items = bomItems text ++ body text false doC := by
  obtain ⟨l, c, hd⟩ := mainLoop_done text false doC
  simp [tokenize, hd, eofItems]

/-- every token type belongs to the generated vocabulary -/
theorem types_known (text : Cps) (full doC : Bool) : ∀ it ∈ body text full doC, it.typ ∈ knownTypes :=
  fun it h => (body_itemsOK_mem text full doC it h).1

/-! ## T5.2 the spans tile the input -/

/-- **T5.2 spans_tile**: the spans of all steps (yielded tokens and filtered comments), in order, concatenate to
the input — nothing skipped, nothing read twice. -/
theorem spans_tile (text : Cps) (full doC : Bool) : spans (tokenize text full doC).items = text :=
  tokenize_tile text full doC

/-- a token's `found` is its span; only the last token of a full sheet may carry a completion after its span -/
theorem found_is_span (text : Cps) (full doC : Bool) (a : List Item) (it : Item) (b : List Item)
    (h : (mainLoop text full doC).items = a ++ it :: b) :
    it.found = it.span ∨ (full = true ∧ b = [] ∧ ∃ k, it.found = it.span ++ k) :=
  itemsOK_split full _ (loop_itemsOK full doC _ _ _ _) a it b h

/-! ## T5.3 positions -/

/-- **T5.3 positions (general form)**: every token after the BOM token carries the line and column — lines
counted by line feeds, column = 1 + distance to the previous line feed — of its first code point **in the text
that follows the BOM**. (`lc pre` = position of the code point that follows `pre`.) -/
theorem positions_after_bom (text : Cps) (full doC : Bool) (a : List Item) (it : Item) (b : List Item)
    (h : body text full doC = a ++ it :: b) : (it.line, it.col) = lc (spans a) := by
  have := posOK_split _ [] (body_pos text full doC) a it b h
  simpa using this

/- Full statement (T5.3 as the property words it): for every input,
     (tokenize text full doC).items = a ++ it :: b → it.typ ≠ "EOF" → (it.line, it.col) = lc (spans a).
   It fails when the input starts with the BOM production (known finding C05-bom-col, `bom_col_witness`):
   `col` is not advanced after the BOM (tokenize2.py:138-141). Proved under the exact guard: -/

/-- **T5.3 positions** for inputs that do not start with the BOM production: every token except the end marker
carries the line and column of the first code point of its span in the input. -/
theorem positions_partial (text : Cps) (full doC : Bool) (hbom : bomRe.first text = none)
    (a : List Item) (it : Item) (b : List Item)
    (h : (tokenize text full doC).items = a ++ it :: b) (hne : it.typ ≠ "EOF") :
    (it.line, it.col) = lc (spans a) := by
  obtain ⟨l, c, hd⟩ := mainLoop_done text full doC
  have hb : bomItems text = [] := by simp [bomItems, hbom]
  simp only [tokenize, hb, List.nil_append, hd] at h
  obtain ⟨b', hb'⟩ := split_in_left (fun x : Item => x.typ = "EOF") _ _ a it b h
    (by intro y hy; simp only [eofItems] at hy; split at hy <;> simp at hy; rw [hy]) hne
  exact positions_after_bom text full doC a it b' hb'

/-- **known finding C05-bom-col** (machine-checked): for the input `EF BB BF 'a'` the IDENT `a` is reported at
line 1, column 1, although its first code point is at column 4 — the general statement fails at this input. -/
theorem bom_col_witness :
    (tokenize [0xEF, 0xBB, 0xBF, 0x61] false true).items =
      [⟨"BOM", [0xEF, 0xBB, 0xBF], 1, 1, [0xEF, 0xBB, 0xBF], [0xEF, 0xBB, 0xBF], true⟩,
       ⟨"IDENT", [0x61], 1, 1, [0x61], [0x61], true⟩] ∧
    lc [0xEF, 0xBB, 0xBF] = (1, 4) := by
  constructor
  · decide +kernel
  · decide

/-- the guard of `positions_partial` is satisfiable, and it is exactly what excludes the witness -/
example : bomRe.first [0x61, 0x20, 0x62] = none := by decide
example : bomRe.first [0xEF, 0xBB, 0xBF, 0x61] = some 3 := by decide
/-- a real U+FEFF is not the BOM production (which is written on code points FE FF / EF BB BF) -/
example : bomRe.first [0xFEFF, 0x61] = none := by decide

/-! ## T5.4 values -/

/-- **T5.4 (escape decoding)**: what `unicodesub(_repl, ·)` computes — a backtracking regular expression and a
replacement callback that calls `int(…, 16)` — is, for every string, exactly the independent one-pass decoder
`unescape` (it never raises). -/
theorem unicodesub_is_unescape (s : Cps) : subU s = some (unescape s) := subU_eq_unescape s

/-- **T5.4 (string decoding)**: what `stringsub(_repl, ·)` computes is, for every string, exactly the independent
one-pass string decoder `stringValue` — escaped backslash kept, backslash-newline dropped, hex escapes decoded, all
decided on the source text (it never raises). -/
theorem stringsub_is_stringValue (s : Cps) : subS s = some (stringValue s) := subS_eq_stringValue s

/-! `unescape` is characterised by these equations (it is defined without regular expressions in
`Lemmas/Tok.lean`; `runLen isHex t 6` = number of leading hex digits, at most 6; `wsLen` = length of the optional
terminator: CR LF, or one of TAB CR LF FF SPACE; `decodeHex` = escaped backslash for U+005C, the code point up to
U+10FFFF, the text as written above). -/
theorem unescape_nil : unescape [] = [] := rfl

theorem unescape_plain (c : Nat) (t : Cps) (h : c ≠ 92) : unescape (c :: t) = c :: unescape t := by
  show unescapeF (t.length + 1) (c :: t) = _
  simp only [unescapeF, h, ne_eq, not_false_eq_true, if_true]
  rfl

theorem unescape_lone_backslash : unescape [92] = [92] := by decide

/-- an escaped backslash is a unit: it stays, and its second half cannot start a hex escape -/
theorem unescape_pair (t : Cps) : unescape (92 :: 92 :: t) = 92 :: 92 :: unescape t := by
  show unescapeF (t.length + 1 + 1) (92 :: 92 :: t) = _
  simp only [unescapeF, ne_eq, not_true_eq_false, if_false, if_true]
  rw [unescapeF_fuel _ _ (Nat.le_succ _)]

theorem unescape_simple (d : Nat) (u : Cps) (h1 : d ≠ 92) (h2 : isHex d = false) :
    unescape (92 :: d :: u) = 92 :: unescape (d :: u) := by
  show unescapeF ((d :: u).length + 1) (92 :: d :: u) = 92 :: unescapeF (d :: u).length (d :: u)
  rw [unescapeF]
  simp [h1, h2]

theorem unescape_hex (d : Nat) (u : Cps) (h : isHex d = true) :
    unescape (92 :: d :: u) =
      decodeHex ((d :: u).take (runLen isHex (d :: u) 6))
          (92 :: (d :: u).take (runLen isHex (d :: u) 6 + wsLen ((d :: u).drop (runLen isHex (d :: u) 6))))
        ++ unescape ((d :: u).drop (runLen isHex (d :: u) 6 + wsLen ((d :: u).drop (runLen isHex (d :: u) 6)))) := by
  have hd : d ≠ 92 := by intro e; subst e; revert h; decide
  show unescapeF (u.length + 1 + 1) (92 :: d :: u) = _
  simp only [unescapeF, ne_eq, not_true_eq_false, if_false, hd, h, if_true]
  rw [unescapeF_fuel]
  have : 1 ≤ runLen isHex (d :: u) 6 := by simp [runLen, h]
  simp only [List.length_drop, List.length_cons]; omega

/-- **T5.4 values**: every token's value is `tokenValue typ found` — `stringValue found` (one-pass string
decoding) for STRING, INVALID and URI, `unescape found` for the other listed types (DIMENSION, IDENT, HASH, FUNCTION,
UNICODE-RANGE), `found` itself for every other type, comments included — where `found` is the token's span (plus
the completion for the last token of a full sheet, `found_is_span`). No exception. -/
theorem values (text : Cps) (full doC : Bool) : ∀ it ∈ body text full doC, it.value = tokenValue it.typ it.found :=
  fun it h => (body_itemsOK_mem text full doC it h).2

/-- outside full-sheet mode: the value of every token is the decoding of exactly its span -/
theorem values_partial_sheet (text : Cps) (doC : Bool) (a : List Item) (it : Item) (b : List Item)
    (h : (mainLoop text false doC).items = a ++ it :: b) : it.value = tokenValue it.typ it.span := by
  have hmem : it ∈ body text false doC := by
    unfold body; rw [h]; simp
  rcases found_is_span text false doC a it b h with hf | ⟨hf, _⟩
  · rw [values text false doC it hmem, hf]
  · cases hf

/-- **T5.4 for STRING / INVALID / URI, at full strength** (no guard; before the fix "a line break written as an
escape in a string is no longer taken for a line continuation" this needed the guard `safe found`): the value is the
one-pass reading `stringValue found`. -/
theorem string_values (text : Cps) (full doC : Bool) : ∀ it ∈ body text full doC,
    cleanTypes.contains it.typ = true → it.value = stringValue it.found := by
  intro it hit hcl
  have hun : unescTypes.contains it.typ = true := by
    have : ∀ t ∈ cleanTypes, unescTypes.contains t = true := by decide
    exact this _ (by simpa using hcl)
  rw [values text full doC it hit]
  unfold tokenValue
  rw [if_pos hun, if_pos hcl]

/-- **comments are verbatim**: the value of a COMMENT token is its text (its span, plus the closing delimiter for a
comment completed at the end of a full sheet) -/
theorem comments_verbatim (text : Cps) (full doC : Bool) : ∀ it ∈ body text full doC,
    it.typ = "COMMENT" → it.value = it.found := by
  intro it hit hc
  rw [values text full doC it hit, hc]
  exact tokenValue_plain _ _ (by decide)

/-! `stringValue` is characterised by these equations (and `unescape_hex`'s analogue for hex escapes) -/
theorem stringValue_plain (c : Nat) (t : Cps) (h : c ≠ 92) : stringValue (c :: t) = c :: stringValue t := by
  show stringValueF (t.length + 1) (c :: t) = _
  simp only [stringValueF, h, ne_eq, not_false_eq_true, if_true]
  rfl

theorem stringValue_pair (t : Cps) : stringValue (92 :: 92 :: t) = 92 :: 92 :: stringValue t := by
  show stringValueF (t.length + 1 + 1) (92 :: 92 :: t) = _
  simp only [stringValueF, ne_eq, not_true_eq_false, if_false, if_true]
  rw [stringValueF_fuel _ _ (Nat.le_succ _)]

/-- a line continuation is dropped: backslash CR LF, or backslash + one of LF, CR, FF -/
theorem stringValue_continuation_crlf (t : Cps) : stringValue (92 :: 13 :: 10 :: t) = stringValue t := by
  show stringValueF (t.length + 1 + 1 + 1) (92 :: 13 :: 10 :: t) = _
  rw [stringValueF]
  simp only [ne_eq, not_true_eq_false, if_false, List.head?_cons, and_self, if_true, List.drop_succ_cons,
    List.drop_zero, show ¬ (13 : Nat) = 92 by decide]
  exact stringValueF_fuel _ _ (by omega)

theorem stringValue_continuation (d : Nat) (t : Cps) (h : isNl d = true) (h2 : ¬ (d = 13 ∧ t.head? = some 10)) :
    stringValue (92 :: d :: t) = stringValue t := by
  have hd : d ≠ 92 := by intro e; subst e; revert h; decide
  show stringValueF (t.length + 1 + 1) (92 :: d :: t) = _
  rw [stringValueF]
  simp only [ne_eq, not_true_eq_false, if_false, hd, h2, h, if_true]
  exact stringValueF_fuel _ _ (by omega)

/-- **regression witness of the repaired defect C05-clean-decoded-newline** (machine-checked): the STRING `"\\\a "`
(quote, escaped backslash, hex escape of LF with terminator, quote) denotes backslash + line feed, and that is the
token's value now (it was `"\"`: the decoded LF had been removed together with the second backslash). -/
theorem clean_decoded_newline_witness :
    (tokenize [0x22, 0x5C, 0x5C, 0x5C, 0x61, 0x20, 0x22] false true).tokens.map (fun t => (t.typ, t.value)) =
      [("STRING", [0x22, 0x5C, 0x5C, 0x0A, 0x22])] ∧
    stringValue [0x22, 0x5C, 0x5C, 0x5C, 0x61, 0x20, 0x22] = [0x22, 0x5C, 0x5C, 0x0A, 0x22] := by
  refine ⟨by decide +kernel, by decide +kernel⟩

/-- the second shape: continuation backslash-CR, then a hex-escaped LF — the LF stays -/
example : (tokenize [0x22, 0x5C, 0x0D, 0x5C, 0x61, 0x20, 0x22] false true).tokens.map (fun t => (t.typ, t.value)) =
    [("STRING", [0x22, 0x0A, 0x22])] := by decide +kernel

/-- a continuation inside a quoted `url()` is dropped too: `url("a\<LF>b")` -/
example : (tokenize [117, 114, 108, 40, 0x22, 97, 0x5C, 0x0A, 98, 0x22, 41] false true).tokens.map
    (fun t => (t.typ, t.value)) = [("URI", [117, 114, 108, 40, 0x22, 97, 98, 0x22, 41])] := by decide +kernel

/-- a comment is verbatim: `/*a\2a/b*/` -/
example : (tokenize [47, 42, 97, 0x5C, 50, 97, 47, 98, 42, 47] false true).tokens.map (fun t => (t.typ, t.value)) =
    [("COMMENT", [47, 42, 97, 0x5C, 50, 97, 47, 98, 42, 47])] := by decide +kernel

/-! ## T5.5 error reports -/

/-- **T5.5**: the report built from a token carries that token's line and column, as attributes and in the
`[line:col: value]` suffix of the message (errorhandler.py:87-103). With T5.3 these are the line and column of the
first code point of the token complained about. -/
theorem report_position (msg : Cps) (t : Item) :
    (report msg (some t)).line = some t.line ∧ (report msg (some t)).col = some t.col ∧
    (report msg (some t)).msg = msg ++ [32, 91] ++ natDec t.line ++ [58] ++ natDec t.col ++ [58, 32] ++ t.value ++ [93] :=
  ⟨rfl, rfl, rfl⟩

example : natDec 120 = [49, 50, 48] := by decide

/-! ## T5.6 lexeme separation (in classes)

`Lex` (Lemmas/TokLex.lean) = grammar tokens with plain, escape-free lexemes of the classes proved so far:
NUMBER (ASCII digits), PERCENTAGE (digits `%`), DIMENSION (digits + plain identifier), HASH (`#` + letters, digits,
`-`, `_`), IDENT (first code point a letter other than u/U or `_`, then letters, digits, `-`, `_`), ATKEYWORD and the
reserved at-rules in any letter case (`@` + plain identifier; the type is `atType`: the generated table looked up
with the lower-cased spelling, else ATKEYWORD), the five match operators and CDO (fixed lexemes), the
single-character tokens `,:;{}>[]`; `render` joins the lexemes with single spaces; `expected` is the list of
(type, value) pairs with an S token between neighbours.
The other classes (FUNCTION, STRING, URI, UNICODE-RANGE, COMMENT, CDC, fractional numbers, identifiers that start with
`-`, `u`, `U`) are covered by `Lex2` / `lexeme_separation_all` below. -/

/-- **T5.6 (classes NUMBER, PERCENTAGE, DIMENSION, HASH, IDENT, ATKEYWORD incl. the reserved at-rules, match
operators, CDO, single-character tokens)**: a text produced from such tokens separated by single spaces is recovered
with exactly those token types and values, an S token between neighbours (partial-sheet mode, comments on or off).
`@charset ` is a token of its own (`CHARSET_SYM`, trailing space included): the lexeme `@charset` is excluded by `WF`,
and the text must not begin with `@charset `. -/
theorem lexeme_separation (doC : Bool) (ts : List Lex) (h : ∀ t ∈ ts, t.WF)
    (hcs : hasAt (render ts) charsetStart = false) :
    (tokenize (render ts) false doC).tokens.map proj = expected ts :=
  tokenize_lexemes doC ts h hcs

theorem atkeyword_class (doC : Bool) (c : Nat) (cs stop : Cps) (hc : inR nameStart c = true)
    (hcs : ∀ x ∈ cs, inR identRest x = true) (hs : Sep stop) :
    scan false doC (64 :: c :: cs ++ stop) productions = .hit "ATKEYWORD" (64 :: c :: cs).length :=
  scan_atkeyword doC c cs stop hc hcs hs

/-- the reserved at-rules are recognised in any letter case; other at-keywords stay ATKEYWORD -/
example : atType [64, 73, 109, 80, 111, 82, 116] = "IMPORT_SYM" ∧ atType [64, 102, 111, 110, 116, 45, 102, 97, 99, 101] = "FONT_FACE_SYM"
    ∧ atType [64, 120] = "ATKEYWORD" := by decide

/-- per class, whatever precedes: the scan at a lexeme followed by the end of the text or a space -/
theorem number_class (doC : Bool) (d : Nat) (ds stop : Cps) (hd : ∀ c ∈ d :: ds, isDigit c = true) (hs : Sep stop) :
    scan false doC (d :: ds ++ stop) productions = .hit "NUMBER" (d :: ds).length :=
  scan_number doC d ds stop hd hs

theorem ident_class (doC : Bool) (c : Nat) (cs stop : Cps) (hc : inR identStart c = true)
    (hcs : ∀ x ∈ cs, inR identRest x = true) (hs : Sep stop) :
    scan false doC (c :: cs ++ stop) productions = .hit "IDENT" (c :: cs).length :=
  scan_ident doC c cs stop hc hcs hs

theorem percentage_class (doC : Bool) (d : Nat) (ds rest : Cps) (hd : ∀ c ∈ d :: ds, isDigit c = true) :
    scan false doC (d :: ds ++ 37 :: rest) productions = .hit "PERCENTAGE" ((d :: ds).length + 1) :=
  scan_percentage doC d ds rest hd

theorem dimension_class (doC : Bool) (d : Nat) (ds : Cps) (c : Nat) (cs stop : Cps)
    (hd : ∀ x ∈ d :: ds, isDigit x = true) (hc : inR identStart c = true)
    (hcs : ∀ x ∈ cs, inR identRest x = true) (hst : Sep stop) :
    scan false doC (d :: ds ++ (c :: cs ++ stop)) productions =
      .hit "DIMENSION" ((d :: ds).length + (c :: cs).length) :=
  scan_dimension doC d ds c cs stop hd hc hcs hst

theorem hash_class (doC : Bool) (n : Nat) (ns stop : Cps) (hn : inR identRest n = true)
    (hns : ∀ x ∈ ns, inR identRest x = true) (hs : Sep stop) :
    scan false doC (35 :: n :: ns ++ stop) productions = .hit "HASH" (35 :: n :: ns).length :=
  scan_hash doC n ns stop hn hns hs

theorem fixed_class (doC : Bool) (name : String) (w : Cps) (k : Nat) (h : (name, w, k) ∈ fixedLexemes) (rest : Cps) :
    scan false doC (w ++ rest) productions = .hit name w.length :=
  scan_fixed doC name w k h rest

/-- the hypotheses are satisfiable, and the statement means what it says: `ab { c : 12 }` with `~=` thrown in -/
example : ∀ t ∈ [Lex.ident 97 [98], .fast 123, .ident 99 [], .fast 58, .num 49 [50], .fixed "INCLUDES" [126, 61] 13,
    .pct 53 [48], .dim 49 [] 112 [120], .hash 102 [48, 48], .atkw 109 [101, 100, 105, 97], .fast 125], t.WF := by
  intro t ht
  simp only [List.mem_cons, List.mem_nil_iff, or_false] at ht
  rcases ht with rfl | rfl | rfl | rfl | rfl | rfl | rfl | rfl | rfl | rfl | rfl <;> simp only [Lex.WF] <;> decide

example : hasAt (render [Lex.atkw 109 [101, 100, 105, 97], .ident 97 []]) charsetStart = false := by decide

example : render [Lex.ident 97 [98], .fast 123, .num 49 [50], .fast 125] =
    [97, 98, 32, 123, 32, 49, 50, 32, 125] := by decide

example : (tokenize [97, 98, 32, 123, 32, 49, 50, 32, 125] false true).tokens.map proj =
    [("IDENT", [97, 98]), ("S", [32]), ("CHAR", [123]), ("S", [32]), ("NUMBER", [49, 50]), ("S", [32]),
     ("CHAR", [125])] := by decide +kernel

/-- `50% 1px #f00` -/
example : expected [Lex.pct 53 [48], .dim 49 [] 112 [120], .hash 102 [48, 48]] =
    [("PERCENTAGE", [53, 48, 37]), ("S", [32]), ("DIMENSION", [49, 112, 120]), ("S", [32]),
     ("HASH", [35, 102, 48, 48])] := by decide

/-! ## T5.6 for the remaining classes: S, CDC, COMMENT, STRING, INVALID, FUNCTION, URI, UNICODE-RANGE

`Lex2` (Lemmas/TokLex2Sep.lean) adds to `Lex`: STRING (quote `"` or `'`, a body without backslash, line break or the
delimiter — the other quote may occur —, the same quote; `strI`: ANY body made of string items, with escapes and line
continuations, value = `stringValue`), IDENT with one or two leading hyphens or starting with `u` / `U`, NUMBER with sign and fraction (`numF`),
UNICODE-RANGE intervals, URI in quoted form (`uriQ`: `url(` white
space? string white space? `)`, value = `stringValue`), FUNCTION (plain identifier other than `and` in any letter
case, `(`), URI (`url(` in any letter case, an unquoted body of printable ASCII other than quotes, `)`, backslash and
white space, `)`), UNICODE-RANGE (`U+`/`u+`, one to six hex digits or `?`), COMMENT (`/*`, any body in which no `*/` ends,
`*/`) and CDC. `render2` joins the lexemes with single spaces; `expectedAll` lists (type, value) with an S token between
neighbours; a COMMENT token is not yielded when comments are off. S (any run of white space) and INVALID (which a
space does not end) have class theorems of their own.
Still on the classification oracle only: names with escapes or non-ASCII code points,
unquoted URLs with escapes. -/

/-- **T5.6 for all token classes** (plain lexemes): a text produced from grammar tokens of the classes NUMBER,
PERCENTAGE, DIMENSION, HASH, IDENT, ATKEYWORD incl. the reserved at-rules, the match operators, CDO, CDC, the
single-character tokens, STRING, FUNCTION, URI, UNICODE-RANGE and COMMENT, separated by single spaces, is recovered
with exactly those token types and values and an S token between neighbours; with comments off the COMMENT tokens are
left out and nothing else changes. -/
theorem lexeme_separation_all (doC : Bool) (ts : List Lex2) (h : ∀ t ∈ ts, t.WF)
    (hcs : hasAt (render2 ts) charsetStart = false) :
    (tokenize (render2 ts) false doC).tokens.map proj =
      (expectedAll ts).filter (fun p => doC || p.1 != "COMMENT") :=
  tokenize_lexemes2 doC ts h hcs

/-- **T5.6 in full-sheet mode**: the same tokens, followed by the end marker — on a rendered list of well-formed
lexemes no completion happens (`full_sheet_completion`: the partial-sheet run contains no INVALID token, no FUNCTION
that normalises to `url(`, no CHAR `/`). -/
theorem lexeme_separation_all_fullsheet (doC : Bool) (ts : List Lex2) (h : ∀ t ∈ ts, t.WF)
    (hcs : hasAt (render2 ts) charsetStart = false) :
    (tokenize (render2 ts) true doC).tokens.map proj =
      (expectedAll ts).filter (fun p => doC || p.1 != "COMMENT") ++ [("EOF", [])] :=
  tokenize_lexemes2_full doC ts h hcs

/-- IDENT that starts with one or two hyphens (`-moz-x`, `--var`), followed by the end of the text or a space -/
theorem ident_dash_class (doC : Bool) (n : Nat) (hn : n = 1 ∨ n = 2) (c : Nat) (cs stop : Cps)
    (hc : inR nameStart c = true) (hcs : ∀ x ∈ cs, inR identRest x = true) (hs : Sep stop) :
    scan false doC (dashes n ++ (c :: cs ++ stop)) productions = .hit "IDENT" (n + (c :: cs).length) :=
  scan_ident_dash doC n hn c cs stop hc hcs hs

/-- FUNCTION with one or two leading hyphens (`-moz-calc(`), whatever follows -/
theorem function_dash_class (doC : Bool) (n : Nat) (hn : n = 1 ∨ n = 2) (c : Nat) (cs rest : Cps)
    (hc : inR nameStart c = true) (hcs : ∀ x ∈ cs, inR identRest x = true) :
    scan false doC (dashes n ++ (c :: cs ++ 40 :: rest)) productions =
      .hit "FUNCTION" (n + (c :: cs).length + 1) :=
  scan_function_dash doC n hn c cs rest hc hcs

example : (tokenize [45, 109, 111, 122, 45, 99, 40, 49, 41] false true).tokens.map proj =
    [("FUNCTION", [45, 109, 111, 122, 45, 99, 40]), ("NUMBER", [49]), ("CHAR", [41])] := by decide +kernel

/-- IDENT that starts with `u` / `U` (`underline`, `url` without parenthesis), followed by the end of the text or a
space: URI and UNICODE-RANGE, which start with the same letter, do not match -/
theorem ident_u_class (doC : Bool) (u : Nat) (hu : IsU u) (cs stop : Cps) (hcs : ∀ x ∈ cs, inR identRest x = true)
    (hs : Sep stop) : scan false doC (u :: cs ++ stop) productions = .hit "IDENT" (u :: cs).length :=
  scan_ident_u doC u hu cs stop hcs hs

/-- **a pattern consumes only code points of its classes**: when all classes of `r` are positive and lie inside the
ranges `cs`, every success of `r` covers code points of `cs` only (so a number match cannot reach into what follows
the number: `numRe_ms_le`) -/
theorem pattern_consumes_its_classes (cs : List (Nat × Nat)) (r : Re) (h : consumesIn cs r = true) (s : Cps) (l : Nat)
    (hl : l ∈ r.ms s) : ∀ x ∈ s.take l, inR cs x = true :=
  consumesIn_sound cs r h s l hl

/-- numbers with sign and fraction, at the level of the number pattern (`{num}` = `reNUMBER`): an optional sign,
digits (possibly none), `.`, at least one digit is matched exactly when no digit follows.
(`number_fraction_class` is the scan-level class theorem; `number_signed_class` the one for signed integers,
`percentage_signed_class` / `dimension_signed_class` the PERCENTAGE / DIMENSION analogues.) -/
theorem number_fraction_first (sg ip : Cps) (d : Nat) (ds stop : Cps) (hsg : IsSign sg)
    (hip : ∀ c ∈ ip, isDigit c = true) (hd : ∀ c ∈ d :: ds, isDigit c = true)
    (hs : HeadIn (fun c => isDigit c = false) stop) :
    reNUMBER.first (sg ++ (ip ++ 46 :: d :: (ds ++ stop))) = some (sg.length + (ip.length + (1 + (1 + ds.length)))) :=
  numRe_first_frac sg ip d ds stop hsg hip hd hs

/-- **NUMBER class, fraction form**: optional sign, digits (possibly none), `.`, at least one digit, followed by the
end of the text or a space, is scanned as one NUMBER token: IDENT and FUNCTION (which may start with `-`), DIMENSION
and PERCENTAGE do not match -/
theorem number_fraction_class (doC : Bool) (sg ip : Cps) (d : Nat) (ds stop : Cps) (hsg : IsSign sg)
    (hip : ∀ c ∈ ip, isDigit c = true) (hd : ∀ c ∈ d :: ds, isDigit c = true) (hs : Sep stop) :
    scan false doC (sg ++ (ip ++ 46 :: d :: (ds ++ stop))) productions =
      .hit "NUMBER" (sg.length + (ip.length + (1 + (1 + ds.length)))) :=
  scan_number_frac doC sg ip d ds stop hsg hip hd hs

/-- **NUMBER class, signed integer**: optional sign and digits, followed by the end of the text or a space -/
theorem number_signed_class (doC : Bool) (sg : Cps) (d : Nat) (ds stop : Cps) (hsg : IsSign sg)
    (hd : ∀ c ∈ d :: ds, isDigit c = true) (hs : Sep stop) :
    scan false doC (sg ++ (d :: ds ++ stop)) productions = .hit "NUMBER" (sg.length + (d :: ds).length) :=
  scan_number_int doC sg d ds stop hsg hd hs

/-- **PERCENTAGE class with sign and fraction**: a number (optional sign; integer, or digits `.` digits) and `%`,
whatever follows -/
theorem percentage_signed_class (doC : Bool) (sg : Cps) (b : NumBody) (rest : Cps) (hsg : IsSign sg) (hb : b.WF) :
    scan false doC (sg ++ (b.text ++ 37 :: rest)) productions =
      .hit "PERCENTAGE" (sg.length + b.text.length + 1) :=
  scan_percentage_gen doC sg b rest hsg hb

/-- **DIMENSION class with sign and fraction**: such a number and a plain identifier as unit, followed by the end of
the text or a space -/
theorem dimension_signed_class (doC : Bool) (sg : Cps) (b : NumBody) (c : Nat) (cs stop : Cps) (hsg : IsSign sg)
    (hb : b.WF) (hc : inR identStart c = true) (hcs : ∀ x ∈ cs, inR identRest x = true) (hst : Sep stop) :
    scan false doC (sg ++ (b.text ++ (c :: cs ++ stop))) productions =
      .hit "DIMENSION" (sg.length + b.text.length + (c :: cs).length) :=
  scan_dimension_gen doC sg b c cs stop hsg hb hc hcs hst

example : (NumBody.frac [49] 53 []).WF ∧ (NumBody.int 49 [48]).WF ∧ (NumBody.frac [] 53 []).text = [46, 53] := by
  decide

/-- `-12.50 ` and `.5` -/
example : reNUMBER.first ([45] ++ ([49, 50] ++ 46 :: 53 :: ([48] ++ [32]))) = some 6 ∧
    reNUMBER.first ([] ++ ([] ++ 46 :: 53 :: ([] ++ []))) = some 2 := by decide
example : IsSign [45] ∧ IsSign [] := ⟨Or.inr (Or.inr rfl), Or.inl rfl⟩

/-- S: a run of white space (tab, CR, LF, FF, space) up to the end of the text or a code point that is not white
space -/
theorem s_class (doC : Bool) (c : Nat) (cs next : Cps) (hc : isWsC c = true) (hcs : ∀ x ∈ cs, isWsC x = true)
    (hn : HeadIn (fun x => isWsC x = false) next) :
    scan false doC (c :: cs ++ next) productions = .hit "S" (c :: cs).length :=
  scan_ws doC c cs next hc hcs hn

/-- CDC, whatever follows (IDENT, FUNCTION and the number productions, which may start with `-`, do not match) -/
theorem cdc_class (doC : Bool) (rest : Cps) : scan false doC ([45, 45, 62] ++ rest) productions = .hit "CDC" 3 :=
  scan_cdc doC rest

/-- **the COMMENT production is exactly a one-pass scanner, for every text**: `/\*[^*]*\*+([^/*][^*]*\*+)*/` matches at
the start of `s` iff `s` starts with `/*` and a `*/` follows, and then the match ends with the FIRST such `*/`
(`commentLen`, `firstClose`: defined without regular expressions). -/
theorem comment_is_scanner (s : Cps) : reCOMMENT.first s = commentLen s := comment_first s

/-- … and it is deterministic: the successes of the production's tail after `/*` (all positions a backtracking matcher
can reach) are at most one -/
theorem comment_deterministic (u : Cps) : cR.ms u = (cScan false u).toList := (comment_scan u).1

theorem firstClose_nil : firstClose [] = none := rfl
theorem firstClose_step (c : Nat) (t : Cps) :
    firstClose (c :: t) = if c = 42 ∧ t.head? = some 47 then some 0 else (firstClose t).map (1 + ·) :=
  firstClose_cons c t

/-- **COMMENT class**: `/*`, a body in which no `*/` ends (the body followed by `*` contains no `*/`), then `*/` is
scanned as one COMMENT token, whatever follows -/
theorem comment_class (doC : Bool) (body rest : Cps) (hb : firstClose (body ++ [42]) = none) :
    scan false doC (47 :: 42 :: body ++ 42 :: 47 :: rest) productions = .hit "COMMENT" (body.length + 4) :=
  scan_comment_general doC body rest hb

/-- the hypothesis holds for bodies without `*`, for `**`, for `/* /`; it fails for `*/x` -/
example : firstClose ([97, 32] ++ [42]) = none ∧ firstClose ([42, 42] ++ [42]) = none ∧
    firstClose ([47, 42, 32, 47] ++ [42]) = none ∧ firstClose ([42, 47, 120] ++ [42]) = some 0 := by decide

/-- **STRING class, every body**: a quote, a body made of string items — `SItem` (Lemmas/TokStrItems.lean): an ordinary
code point (not a line break, backslash or the delimiter; the other quote and non-ASCII code points are ordinary), a
backslash with a code point that is not a line break (escaped quote, escaped backslash, the first digit of a hex
escape, …), a backslash with a line break LF / FF / CR / CR LF (line continuation), a backslash with one to six hex
digits and a line break — these are all the alternatives of the production's item — and the same quote is scanned as
one STRING token covering exactly that, whatever follows. (Its value is `stringValue` of it: `string_values`.) -/
theorem string_class (doC : Bool) (q : Nat) (hq : q = 34 ∨ q = 39) (its : List SItem) (h : ∀ i ∈ its, i.WF q)
    (rest : Cps) :
    scan false doC (q :: flat its ++ q :: rest) productions = .hit "STRING" ((flat its).length + 2) :=
  scan_string_items doC q hq its h rest

/-- the string body of the production matches greedily exactly the items (first success of the backtracking matcher) -/
theorem string_body_greedy (q : Nat) (hq : q = 34 ∨ q = 39) (its : List SItem) (h : ∀ i ∈ its, i.WF q) (rest : Cps) :
    (strBody q).first (flat its ++ q :: rest) = some (flat its).length :=
  strBody_first_items q hq its h rest

/-- the special case of a body without backslash -/
theorem string_class_plain (doC : Bool) (q : Nat) (hq : q = 34 ∨ q = 39) (body rest : Cps)
    (hb : ∀ x ∈ body, ordinary q x = true) :
    scan false doC (q :: body ++ q :: rest) productions = .hit "STRING" (body.length + 2) :=
  scan_string_plain doC q hq body rest hb

/-- the hypotheses are satisfiable: `"a\"\41 b\<CR><LF>c\9<LF>'"` -/
example : ∀ i ∈ [SItem.ord 97, .esc 34, .esc 52, .ord 49, .ord 32, .ord 98, .cont 3, .ord 99, .hexnl 57 [] 0, .ord 39],
    i.WF 34 := by decide
example : flat [SItem.ord 97, .esc 34, .esc 52, .ord 49, .cont 3, .hexnl 57 [] 0] =
    [97, 92, 34, 92, 52, 49, 92, 13, 10, 92, 57, 10] := by decide
example : (tokenize [34, 97, 92, 34, 92, 52, 49, 92, 13, 10, 92, 57, 10, 34] false true).tokens.map proj =
    [("STRING", [34, 97, 92, 34, 0x41, 9, 34])] := by decide +kernel

/-- INVALID: an unterminated string (body without backslash) up to the end of the text or a line break; STRING does
not match there -/
theorem invalid_class_partial (doC : Bool) (q : Nat) (hq : q = 34 ∨ q = 39) (body stop : Cps)
    (hb : ∀ x ∈ body, ordinary q x = true) (hs : InvStop stop) :
    scan false doC (q :: body ++ stop) productions = .hit "INVALID" (body.length + 1) :=
  scan_invalid_plain doC q hq body stop hb hs

/-- FUNCTION: a plain identifier other than `and` directly followed by `(`, whatever follows: IDENT matches first
and is skipped, FUNCTION takes over -/
theorem function_class (doC : Bool) (c : Nat) (cs rest : Cps) (hc : inR identStart c = true)
    (hcs : ∀ x ∈ cs, inR identRest x = true) (hand : pyLower (c :: cs) ≠ andWord) :
    scan false doC (c :: cs ++ 40 :: rest) productions = .hit "FUNCTION" ((c :: cs).length + 1) :=
  scan_function doC c cs rest hc hcs hand

/-- wherever IDENT matches and `(` follows, FUNCTION matches the identifier and the parenthesis — for every text -/
theorem function_takes_over (s : Cps) (l : Nat) (h : reIDENT.first s = some l) (h40 : s[l]? = some 40) :
    reFUNCTION.first s = some (l + 1) :=
  function_after_ident s l h h40

/-- URI, unquoted with a plain body, whatever follows -/
theorem uri_class_partial (doC : Bool) (u r l : Nat) (hu : IsU u) (hr : IsR r) (hl : IsL l) (body rest : Cps)
    (hb : ∀ x ∈ body, inR uriPlain x = true) :
    scan false doC (u :: r :: l :: 40 :: (body ++ 41 :: rest)) productions = .hit "URI" (body.length + 5) :=
  scan_uri_plain doC u r l hu hr hl body rest hb

/-- URI, quoted: `url(` in any letter case, optional white space, a string (any items, either quote), optional white
space, `)`, whatever follows (value: `stringValue` of all of it, `string_values`) -/
theorem uri_quoted_class (doC : Bool) (u r l : Nat) (hu : IsU u) (hr : IsR r) (hl : IsL l) (w1 w2 : Cps) (q : Nat)
    (hq : q = 34 ∨ q = 39) (its : List SItem) (hw1 : ∀ x ∈ w1, isWsC x = true) (hw2 : ∀ x ∈ w2, isWsC x = true)
    (h : ∀ i ∈ its, i.WF q) (rest : Cps) :
    scan false doC (u :: r :: l :: 40 :: (w1 ++ (q :: (flat its ++ q :: (w2 ++ 41 :: rest))))) productions =
      .hit "URI" (4 + (w1.length + (((flat its).length + 2) + (w2.length + 1)))) :=
  scan_uri_quoted doC u r l hu hr hl w1 w2 q hq its hw1 hw2 h rest

/-- UNICODE-RANGE (single range) followed by the end of the text or a space; URI does not match there -/
theorem unicode_range_class_partial (doC : Bool) (u h : Nat) (hs stop : Cps) (hu : IsU u)
    (hh : ∀ x ∈ h :: hs, inR hexq x = true) (hlen : (h :: hs).length ≤ 6) (hst : Sep stop) :
    scan false doC (u :: 43 :: (h :: hs ++ stop)) productions = .hit "UNICODE-RANGE" ((h :: hs).length + 2) :=
  scan_urange doC u h hs stop hu hh hlen hst

/-- UNICODE-RANGE interval `U+0-7F`, followed by the end of the text or a space -/
theorem unicode_range_interval_class (doC : Bool) (u h : Nat) (hs : Cps) (h2 : Nat) (hs2 stop : Cps) (hu : IsU u)
    (hh : ∀ x ∈ h :: hs, inR hexq x = true) (hlen : (h :: hs).length ≤ 6)
    (hh2 : ∀ x ∈ h2 :: hs2, inR hexOnly x = true) (hlen2 : (h2 :: hs2).length ≤ 6) (hst : Sep stop) :
    scan false doC (u :: 43 :: (h :: hs ++ 45 :: (h2 :: hs2 ++ stop))) productions =
      .hit "UNICODE-RANGE" ((h :: hs).length + 2 + (1 + (h2 :: hs2).length)) :=
  scan_urange_interval doC u h hs h2 hs2 stop hu hh hlen hh2 hlen2 hst

/-- the hypotheses are satisfiable: `"a'b" f( url(x.png) U+2?? /* c */ --> ab` -/
example : ∀ t ∈ [Lex2.str 34 [97, 39, 98], .fn 102 [], .uri 117 114 108 [120, 46, 112, 110, 103],
    .urange 85 50 [63, 63], .cmt [32, 99, 32], .cdc, .old (.ident 97 [98])], t.WF := by
  intro t ht
  simp only [List.mem_cons, List.mem_nil_iff, or_false] at ht
  rcases ht with rfl | rfl | rfl | rfl | rfl | rfl | rfl <;> simp only [Lex2.WF, Lex.WF, IsU, IsR, IsL] <;> decide

example : render2 [Lex2.str 34 [97], .cmt [99], .cdc] = [34, 97, 34, 32, 47, 42, 99, 42, 47, 32, 45, 45, 62] := by
  decide

/-- with comments off the COMMENT token is left out and the S tokens on both sides stay -/
example : (expectedAll [Lex2.str 34 [97], .cmt [99], .cdc]).filter (fun p => false || p.1 != "COMMENT") =
    [("STRING", [34, 97, 34]), ("S", [32]), ("S", [32]), ("CDC", [45, 45, 62])] := by decide

example : (tokenize [34, 97, 34, 32, 47, 42, 99, 42, 47, 32, 45, 45, 62] false false).tokens.map proj =
    [("STRING", [34, 97, 34]), ("S", [32]), ("S", [32]), ("CDC", [45, 45, 62])] := by decide +kernel

/-- `and(` is not a FUNCTION: IDENT `and`, then `(` -/
example : (tokenize [65, 110, 68, 40] false true).tokens.map proj = [("IDENT", [65, 110, 68]), ("CHAR", [40])] := by
  decide +kernel

example : InvStop [10, 97] ∧ InvStop [] := ⟨Or.inr ⟨10, [97], rfl, by decide⟩, Or.inl rfl⟩

/-! ## T5.7 locality: a match never depends on what follows its end; append and cut

`tokensAt doC s line col` = the items of the loop on the text fragment `s` in partial-sheet mode, started at
`line`/`col` (`tokenize_is_tokensAt`: this is `tokenize` for a text that starts neither with the BOM production nor with
`@charset `); `endAt doC s line col` = how that run stops (`endAt_regular`: always `.done line' col'`). -/

/-- **locality of the regular expressions**: for a pattern without `$`, the successes on `s ++ b` that end inside `s`
are exactly the successes on `s`, in the same (backtracking) order -/
theorem re_locality (r : Re) (h : eolFree r = true) (s b : Cps) :
    (r.ms (s ++ b)).filter (fun l => decide (l ≤ s.length)) = r.ms s :=
  ms_local r h s b

/-- … and no generated production contains `$` -/
theorem productions_local : ∀ p ∈ productions, eolFree p.2 = true := productions_eolFree

theorem tokenize_is_tokensAt (doC : Bool) (s : Cps) (hb : bomRe.first s = none)
    (hc : hasAt s charsetStart = false) : (tokenize s false doC).items = tokensAt doC s 1 1 :=
  tokenize_plain doC s hb hc

theorem endAt_regular (doC : Bool) (s : Cps) (line col : Nat) : ∃ l' c', endAt doC s line col = .done l' c' :=
  endAt_done doC s line col

/-- **T5.7 tokenize_append**: when a token boundary of `a ++ b` falls at `|a|` (the items split into `pre ++ post`
with `pre` covering exactly `a`), then `pre` is the tokenization of `a` alone and `post` is the tokenization of `b`
started at the line and column where the run on `a` stopped — for every text, not only for rendered lexemes. -/
theorem tokenize_append (doC : Bool) (a b : Cps) (line col : Nat) (pre post : List Item)
    (h : tokensAt doC (a ++ b) line col = pre ++ post) (hs : spans pre = a) :
    tokensAt doC a line col = pre ∧
    ∃ line' col', endAt doC a line col = .done line' col' ∧ post = tokensAt doC b line' col' :=
  tokensAt_append_aux doC a b line col pre post h hs

/-- the same as an equation: tokens of `a ++ b` = tokens of `a` ++ tokens of `b`, positions continued -/
theorem tokenize_append_eq (doC : Bool) (a b : Cps) (line col : Nat)
    (h : ∃ pre post, tokensAt doC (a ++ b) line col = pre ++ post ∧ spans pre = a) :
    ∃ line' col', endAt doC a line col = .done line' col' ∧
      tokensAt doC (a ++ b) line col = tokensAt doC a line col ++ tokensAt doC b line' col' := by
  obtain ⟨pre, post, h1, h2⟩ := h
  obtain ⟨ha, l', c', he, hp⟩ := tokenize_append doC a b line col pre post h1 h2
  exact ⟨l', c', he, by rw [h1, ha, hp]⟩

/-- where the run on `a` stops is the position of the code point after `a` (lines by LF) -/
theorem tokenize_append_position (doC : Bool) (a before : Cps) (line col l' c' : Nat) (h : (line, col) = lc before)
    (hd : endAt doC a line col = .done l' c') : (l', c') = lc (before ++ a) :=
  endAt_pos doC a before line col l' c' h hd

/-- **T5.7 tokenize_cut** (truncation): cut the text `a₁ ++ a₂ ++ b` after `a₁ ++ a₂`, where `|a₁|` is a token
boundary of the whole text. The tokens before that boundary are kept exactly (types, values, positions); the rest of
the cut text, `a₂`, is tokenized from the same line and column as `a₂ ++ b` was. So a cut changes nothing before the
last token boundary that precedes it. -/
theorem tokenize_cut (doC : Bool) (a₁ a₂ b : Cps) (line col : Nat) (pre post : List Item)
    (h : tokensAt doC (a₁ ++ a₂ ++ b) line col = pre ++ post) (hs : spans pre = a₁) :
    ∃ line' col', tokensAt doC (a₁ ++ a₂) line col = pre ++ tokensAt doC a₂ line' col' ∧
      post = tokensAt doC (a₂ ++ b) line' col' :=
  tokensAt_cut doC a₁ a₂ b line col pre post h hs

/-- **a rendered lexeme list followed by a space is a closed prefix** (the syntactic sufficient condition for the
boundary of `tokenize_append`): append a space and ANY text `b` to a non-empty list of well-formed lexemes — the tokens
are the lexemes' tokens (`pre`: types and values `expectedAll ts`, source text `render2 ts`), and then the tokens of
` b` from the position reached; nothing in `b` can reach back into the lexemes. -/
theorem lexemes_then_anything (doC : Bool) (ts : List Lex2) (hne : ts ≠ []) (h : ∀ t ∈ ts, t.WF) (b : Cps)
    (line col : Nat) :
    ∃ pre line' col', tokensAt doC (render2 ts ++ 32 :: b) line col = pre ++ tokensAt doC (32 :: b) line' col' ∧
      pre.map proj = expectedAll ts ∧ spans pre = render2 ts := by
  obtain ⟨pre, l', c', h1, h2, h3, _⟩ :=
    tokensAt_lexemes_tail doC ts hne h (32 :: b) (Or.inr ⟨b, rfl⟩) line col
  exact ⟨pre, l', c', h1, h2, h3⟩

/-- for instance an unterminated comment or string after the space does not swallow the lexemes before it -/
example : (tokensAt true ([97, 32] ++ [47, 42, 32, 120]) 1 1).map proj =
    [("IDENT", [97]), ("S", [32]), ("CHAR", [47]), ("CHAR", [42]), ("S", [32]), ("IDENT", [120])] := by decide +kernel

/-- the hypothesis is satisfiable: `a ` + `b` -/
example : tokensAt true ([97, 32] ++ [98]) 1 1 =
    [⟨"IDENT", [97], 1, 1, [97], [97], true⟩, ⟨"S", [32], 1, 2, [32], [32], true⟩] ++
      [⟨"IDENT", [98], 1, 3, [98], [98], true⟩] ∧
    spans [⟨"IDENT", [97], 1, 1, [97], [97], true⟩, (⟨"S", [32], 1, 2, [32], [32], true⟩ : Item)] = [97, 32] := by
  constructor
  · decide +kernel
  · decide

/-- … and it is needed: `a` + `b` is one IDENT `ab`, `url(` + `x)` one URI, `/*` + `*/` one COMMENT -/
example : (tokensAt true ([97] ++ [98]) 1 1).map proj = [("IDENT", [97, 98])] ∧
    (tokensAt true ([117, 114, 108, 40] ++ [120, 41]) 1 1).map proj = [("URI", [117, 114, 108, 40, 120, 41])] ∧
    (tokensAt true [117, 114, 108, 40] 1 1).map proj = [("FUNCTION", [117, 114, 108, 40])] ∧
    (tokensAt true ([47, 42] ++ [42, 47]) 1 1).map proj = [("COMMENT", [47, 42, 42, 47])] := by
  refine ⟨by decide +kernel, by decide +kernel, by decide +kernel, by decide +kernel⟩

/-! ## T5.8 full-sheet completion, for every class

`Completion doC it x` (Lemmas/TokFull.lean) = `it` is a completed token and `x` is the token that partial-sheet mode
yields at the same place: a STRING whose `found` is its source span plus the opening quote (`x`: the INVALID token with
the same span); a URI whose `found` is what the URI production matches on span + the first of `')`, `")`, `)` that makes
it match — more than the span (`x`: the FUNCTION token `url(`, in any spelling that normalises to `url(`); a COMMENT
(comments on) whose `found` is its span + `*/` (`x`: the CHAR `/`). -/

/-- **T5.8 completion**: for EVERY text the tokens of full-sheet mode (between BOM token and end marker) are those of
partial-sheet mode — same types, values, positions — or they are a common prefix followed by ONE completed token
(STRING / URI / COMMENT) whose source span is all the text that partial-sheet mode tokenizes from there on (`x :: rest`):
an unterminated construct is completed at the end of the input and nowhere else, and nothing before it changes. With
`eof_once` (exactly one end marker follows) and `values` (the value is the decoding of span + completion). -/
theorem full_sheet_completion (text : Cps) (doC : Bool) :
    body text true doC = body text false doC ∨
    ∃ pre it x rest, body text true doC = pre ++ [it] ∧ body text false doC = pre ++ x :: rest ∧
      it.span = spans (x :: rest) ∧ Completion doC it x :=
  body_full text doC

/-- the three kinds of completion occur: `"ab` → STRING `"ab"`; `url(x` → URI `url(x)`, `url('x` → URI `url('x')`;
`/* c` → COMMENT `/* c*/` (and `/* c` with comments off is not completed: `/`, `*`, S, IDENT) -/
example : (tokenize [34, 97, 98] true true).tokens.map proj = [("STRING", [34, 97, 98, 34]), ("EOF", [])] ∧
    (tokenize [34, 97, 98] false true).tokens.map proj = [("INVALID", [34, 97, 98])] := by
  refine ⟨by decide +kernel, by decide +kernel⟩
example : (tokenize [117, 114, 108, 40, 120] true true).tokens.map proj =
      [("URI", [117, 114, 108, 40, 120, 41]), ("EOF", [])] ∧
    (tokenize [117, 114, 108, 40, 39, 120] true true).tokens.map proj =
      [("URI", [117, 114, 108, 40, 39, 120, 39, 41]), ("EOF", [])] ∧
    (tokenize [117, 114, 108, 40, 120] false true).tokens.map proj =
      [("FUNCTION", [117, 114, 108, 40]), ("IDENT", [120])] := by
  refine ⟨by decide +kernel, by decide +kernel, by decide +kernel⟩
example : (tokenize [47, 42, 32, 99] true true).tokens.map proj = [("COMMENT", [47, 42, 32, 99, 42, 47]), ("EOF", [])] ∧
    (tokenize [47, 42, 32, 99] true false).tokens.map proj =
      [("CHAR", [47]), ("CHAR", [42]), ("S", [32]), ("IDENT", [99]), ("EOF", [])] := by
  refine ⟨by decide +kernel, by decide +kernel⟩
/-- a construct that is not the last thing in the text is not completed: `"ab` LF `c` -/
example : (tokenize [34, 97, 98, 10, 99] true true).tokens.map proj =
    [("INVALID", [34, 97, 98]), ("S", [10]), ("IDENT", [99]), ("EOF", [])] := by decide +kernel

/-! ## T5.9 the generator with `push` (`self._pushed`)

Model: `Model/TokPush.lean` — the generator `tokenize` as a program (`program text full doC`: plain yields for BOM,
CHARSET_SYM, EOF; one event per loop iteration: drain `self._pushed`, then yield the token unless it is a filtered
comment), a consumer script of `next` / `push ts` actions, `runP st acts` = the outputs of the `next` calls
(`.text` token of the text, `.pushed` token handed in by `push`, `.stop`), `endP st acts` = the state after the script.
`remaining st` = text tokens still to come, `pending st` = pushed tokens not yet yielded. -/

/-- without `push` the generator yields exactly the tokens of the pure run -/
theorem program_is_tokenize (text : Cps) (full doC : Bool) :
    emitted (program text full doC) = (tokenize text full doC).tokens :=
  program_emitted text full doC

/-- **T5.9 push-back never disturbs the tokens of the text**: for every consumer script — whatever is pushed and
whenever — the text tokens that come out are, in order, an initial part of the tokens of the pure run; the rest is
what the generator still holds. Nothing of the text is lost, repeated or reordered. -/
theorem pushed_never_disturbs_text (text : Cps) (full doC : Bool) (acts : List Act) :
    (tokenize text full doC).tokens =
      (runP (initP text full doC) acts).filterMap Out.text? ++ remaining (endP (initP text full doC) acts) := by
  rw [← program_emitted]
  exact run_text acts (initP text full doC)

/-- **T5.9 pushed tokens are conserved**: what was pushed (in script order) is, up to order, what has been yielded
plus what the tokenizer still holds; so no pushed token is yielded twice and none is invented. -/
theorem pushed_conserved (st : PSt) (acts : List Act) :
    ((runP st acts).filterMap Out.pushed? ++ pending (endP st acts)).Perm (pushedBy acts ++ pending st) :=
  run_pushed acts st

/-- a script without `push`, on a fresh tokenizer, yields no pushed token -/
theorem no_push_no_pushed (text : Cps) (full doC : Bool) (n : Nat) :
    (runP (initP text full doC) (List.replicate n Act.next)).filterMap Out.pushed? = [] :=
  run_no_push (initP text full doC) rfl n

/-- **what is pushed after the last loop iteration is never yielded** (it stays in `self._pushed`): `yield from
self._pushed` runs at the start of a loop iteration only, so a token handed back after the last token of the text (or
after EOF) does not come again. Not part of C05's statement (which is about `tokenize` with an empty push-back list);
recorded because the consumer `prodparser.py:593/:631` pushes tokens back expecting to see them again. -/
theorem push_after_last_iteration_is_lost (st : PSt) (h : NoIter st) (acts : List Act) :
    (runP st acts).filterMap Out.pushed? = [] :=
  run_noIter acts st h

/-- example: text `a b` (IDENT S IDENT); push X after the first token: X comes before S; push Y after the last
token: Y never comes -/
example :
    let X : Item := ⟨"PUSHED", [1], 0, 0, [], [], true⟩
    let Y : Item := ⟨"PUSHED", [2], 0, 0, [], [], true⟩
    (runP (initP [97, 32, 98] true true) [.next, .push [X], .next, .next, .next, .push [Y], .next, .next]).map
        (fun o => match o with
          | .text it => it.typ
          | .pushed it => "pushed:" ++ it.typ
          | .stop => "stop") =
      ["IDENT", "pushed:PUSHED", "S", "IDENT", "EOF", "stop"] := by decide +kernel

/-- a token pushed while `yield from` is draining is seen by a LATER iteration only (the running one holds the old
iterator object): push X, Y; after X comes out push Z; Y comes next, then the text token, then Z -/
example :
    let T (n : Nat) : Item := ⟨"PUSHED", [n], 0, 0, [], [], true⟩
    (runP (initP [97, 32, 98] false true) [.next, .push [T 1, T 2], .next, .push [T 3], .next, .next, .next, .next]).map
        (fun o => match o with
          | .text it => it.typ
          | .pushed it => "P" ++ toString (it.value.headD 0)
          | .stop => "stop") =
      ["IDENT", "P1", "P2", "S", "P3", "IDENT"] := by decide +kernel

/-! ## the string productions are matched in one way only (fix ad43c3b)

`strBody q` (Lemmas/TokDet.lean) is the repeated item `([^\n\r\f\\q]|\\{nl}|{strescape})*` of the generated STRING and
INVALID productions (`string_productions_shape`). `Dec l` = `l` is strictly decreasing. -/

/-- the generated STRING and INVALID productions are built from `strBody 34` (double quote) and `strBody 39` -/
theorem string_productions_shape :
    reSTRING = Re.alt (Re.seq (Re.cls false [(34, 34)]) (Re.seq (strBody 34) (Re.cls false [(34, 34)])))
      (Re.seq (Re.cls false [(39, 39)]) (Re.seq (strBody 39) (Re.cls false [(39, 39)]))) ∧
    reINVALID = Re.alt (Re.seq (Re.cls false [(34, 34)]) (strBody 34)) (Re.seq (Re.cls false [(39, 39)]) (strBody 39)) :=
  ⟨reSTRING_shape, reINVALID_shape⟩

/-- **the string body is deterministic**: for EVERY input the list of successes of the string body — all positions
a backtracking matcher can reach, in its order of trial — is strictly decreasing: no position is reached by two
different splits into items, so backtracking never revisits a position. -/
theorem string_body_deterministic (s : Cps) : Dec ((strBody 34).ms s) ∧ Dec ((strBody 39).ms s) :=
  ⟨strBody_dec 34 (by decide) s, strBody_dec 39 (by decide) s⟩

/-- … hence no duplicate successes, and at most length + 1 of them (linear, not exponential) -/
theorem string_body_linear (s : Cps) :
    ((strBody 34).ms s).Nodup ∧ ((strBody 34).ms s).length ≤ s.length + 1 ∧
    ((strBody 39).ms s).Nodup ∧ ((strBody 39).ms s).length ≤ s.length + 1 :=
  ⟨dec_nodup _ (strBody_dec 34 (by decide) s),
   dec_length _ _ (strBody_dec 34 (by decide) s) (fun x hx => Re.ms_bounded _ s x hx),
   dec_nodup _ (strBody_dec 39 (by decide) s),
   dec_length _ _ (strBody_dec 39 (by decide) s) (fun x hx => Re.ms_bounded _ s x hx)⟩

/-- for the table before the fix the statement is false: on `\41` the position 3 is reached twice (`\41`, and `\4`
followed by the ordinary character `1`); on `\\414141` the old body has 22 successes for 7 code points (the new one 7),
on six times `\\41` it has 190 (the new one 13) -/
example : ¬ ((oldStrBody 34).ms [92, 52, 49]).Nodup := by decide
example : ((oldStrBody 34).ms [92, 52, 49, 52, 49, 52, 49]).length = 22 ∧
    ((strBody 34).ms [92, 52, 49, 52, 49, 52, 49]).length = 7 := by decide +kernel
example : ((oldStrBody 34).ms [92, 52, 49, 92, 52, 49, 92, 52, 49, 92, 52, 49, 92, 52, 49, 92, 52, 49]).length = 190 ∧
    ((strBody 34).ms [92, 52, 49, 92, 52, 49, 92, 52, 49, 92, 52, 49, 92, 52, 49, 92, 52, 49]).length = 13 := by
  decide +kernel

end CssVerif.C05
