import CssVerif.Model.Tok
namespace CssVerif.C05
open CssVerif CssVerif.Tok CssVerif.Gen.C05

/-- every generated production is syntactically unable to match the empty string -/
theorem productions_nonNullable : (productions.all fun p => p.2.nonNullable) = true := by decide

end CssVerif.C05
