import CssVerif.Lemmas.Normalize
import CssVerif.Lemmas.SheetSpecNoC
import CssVerif.Lemmas.SheetSpecEx
import CssVerif.Gen.C02Margins
import CssVerif.Gen.C02Validate
import CssVerif.Model.ParseCfg
/-!
# C02 — the parsed DOM is the same for every way of writing a well-formed sheet

* the normalisation that makes names insensitive to letter case and to CSS escapes of ordinary name characters
  (`cssutils.helper.normalize`);
* T2.2 `parse_render`: the structure level, every rule kind of the documented grammar incl. `@page` with page
  selector and margin boxes, `@font-face`, `@variables`, named `@import` / `@media`;
* T2.1 locality; T2.3 the two parser options (`comments_off` at sheet, block and declaration level,
  `validate_irrelevant` with the regenerated table of the reads of the flag), `parse_render_cfg`.
Below the token-list level (inner spelling of selectors, values, media queries) and the text level are decided by
exploration (tools/harness/c02.py).
-/
namespace CssVerif.C02
open CssVerif.Normalize

/-- T2.2a spelling invariance of names: for EVERY plain name (lower case, no backslash; any length, any
characters incl. non-ASCII) and EVERY spelling of it (any subset of its letters in upper case, a backslash
before any subset of its non-hex characters) `normalize` gives back the name. -/
theorem normalize_spell (name : List Nat) (σ : List (Bool × Bool)) (h : Plain name) :
    normalize (spell σ name) = name :=
  normalize_spell_aux name σ h

/-- hence two spellings of one name are never told apart -/
theorem spellings_agree (name : List Nat) (σ₁ σ₂ : List (Bool × Bool)) (h : Plain name) :
    normalize (spell σ₁ name) = normalize (spell σ₂ name) := by
  rw [normalize_spell name σ₁ h, normalize_spell name σ₂ h]

/-- `normalize` is idempotent on what it produces from a spelling -/
theorem normalize_idem_on_names (name : List Nat) (σ : List (Bool × Bool)) (h : Plain name) :
    normalize (normalize (spell σ name)) = normalize (spell σ name) := by
  rw [normalize_spell name σ h]
  have := normalize_spell name [] h
  have e : spell [] name = name := by
    clear this
    induction name with
    | nil => rfl
    | cons c t ih => simp [spell, ih (fun x hx => h x (by simp [hx]))]
  rw [e] at this; exact this

/-- the guard of `normalize_spell` is needed: a backslash before a hex digit is NOT a simple escape
(`c\olor` is `color`, but `\color` keeps its backslash — the tokenizer would have read `\c` as a hex escape) -/
example : normalize [0x5C, 0x63, 0x6F] = [0x5C, 0x63, 0x6F] := by decide

/-! non-vacuity -/
example : Plain [0x63, 0x6F, 0x6C, 0x6F, 0x72] := by
  intro c hc; simp at hc; rcases hc with rfl | rfl | rfl | rfl | rfl <;> decide
example : normalize (spell [(true, false), (false, true), (true, true)] [0x63, 0x6F, 0x6C, 0x6F, 0x72])
    = [0x63, 0x6F, 0x6C, 0x6F, 0x72] := by decide

/-! ## T2.2 `parse_render` — the structure level

Model: the structure kernel K2 (`Model/Struct.lean`: `_tokensupto2`, `_parse`, declaration block, property
split, style / media / unknown rule, sheet dispatcher) and the at-rule setters of `Model/AtRules.lean`
(`@import` with media list and name, `@namespace`, `@font-face`, `@page` with page selector and margin boxes,
`@variables`, `@charset`, the name setters), for EVERY oracle `O` of the
selector / value / media-query sub-parsers whose at-rule part is those setters (`AtFaithful O`; `withAtRules`
builds one from any oracle) and every margin table `M`.
Specification: `Model/SheetSpec.lean` — abstract sheet `A…`, spelled sheet `S…`, `erase`, `render`, DOM
projection `projSheet`.  `SSheet.WF O M s` (Lemmas/SheetSpec*.lean) says that the opaque parts are what the
abstract syntax means by them — names are names; a value is a well nested token list without `;` `!` at depth 0
that, comments aside, neither starts nor ends with white space; a selector group likewise without `,` `;`
braces; a media query list without braces and strings; prefixes and URIs of `@namespace` are declared once —
and that `O` accepts the selector, value and media-query token lists as they are written. -/
open CssVerif.SheetSpec CssVerif.Struct CssVerif.AtRules
open CssVerif.Proto (Cps cps)

/-- **T2.2 parse_render.**  For every spelled sheet `s` — an abstract sheet together with any choice of
white-space / comment tokens at every gap of its statements, any letter case and simple escapes of at-keywords,
property names and the priority ident, any quote style of import targets / namespace URIs / the encoding, any
placement of stand-alone `;` and the optional `;` after the last declaration — the DOM projection of what the
parser builds from the tokens of `s` is the abstract sheet: the rules in order, each with its selector groups,
declarations (name, value, priority), media queries and name, import target / media / name, namespace binding, page
selector and margin boxes, variables (name, value), and nothing else. -/
theorem parse_render (O : Oracle) (M : List Cps) (hO : AtFaithful O) (s : SSheet) (h : s.WF O M) :
    projSheet O M (parseSheet O M (render s)) = s.erase := by
  rw [parseSheet_render O M hO s h, projSheet_parsed O M s h]

/-- corollary: all spellings of one abstract sheet give the same DOM -/
theorem spelling_invariance (O : Oracle) (M : List Cps) (hO : AtFaithful O) (s₁ s₂ : SSheet)
    (h₁ : s₁.WF O M) (h₂ : s₂.WF O M) (he : s₁.erase = s₂.erase) :
    projSheet O M (parseSheet O M (render s₁)) = projSheet O M (parseSheet O M (render s₂)) := by
  rw [parse_render O M hO s₁ h₁, parse_render O M hO s₂ h₂, he]

/-- the hypothesis on the oracle is satisfiable from any oracle: replace its at-rule part by the setters of
`Model/AtRules.lean` (this is the oracle of the correspondence) -/
theorem withAtRules_faithful (O : Oracle) : AtFaithful (withAtRules O) :=
  ⟨fun _ _ => rfl, fun _ _ => rfl, fun _ _ => rfl, fun _ => rfl, fun _ => rfl⟩

/-- the declaration block alone (`CSSStyleDeclaration.cssText = tokens`, also the body of `@page` /
`@font-face`): every spelled block gives back its abstract items -/
theorem block_recovered (O : Oracle) (b : SBlock) (h : b.WF O) :
    projItems (parseDecls O b.toks) = b.erase :=
  parseDecls_block O b h

/-- the selector list alone (`SelectorList._setSelectorText`): the groups are recovered -/
theorem selector_groups_recovered (s : SSel) (h : s.WF) : (selGroups s.toks).map clean = s.erase :=
  selGroups_render s h

/-- `@media` (nested to any depth, with or without a name — `@media print "name" {`): `CSSMediaRule.cssText =
tokens` builds the rule of the spelled one, with any amount of fuel above the number of tokens -/
theorem media_rule_recovered (O : Oracle) (M : List Cps) (hO : AtFaithful O) (ns : List (Cps × Cps)) (kw : Mask) (g1 : Gap)
    (mq : List Tok) (g2 : Gap) (name : SName) (lead : WGap) (rules : SRules)
    (h : (SRule.media kw g1 mq g2 name lead rules).WF O M ns false) (f : Nat)
    (hf : (SRule.media kw g1 mq g2 name lead rules).toks.length < f) :
    (mediaRule O ns f (SRule.media kw g1 mq g2 name lead rules).toks).map (projRule O M) =
      some (SRule.media kw g1 mq g2 name lead rules).erase := by
  rw [mediaRule_render O M hO ns kw g1 mq g2 name lead rules false h f hf]
  simp [projRule_parsed O M ns false _ h]

/-- `@variables` alone (`CSSVariablesDeclaration.cssText = tokens`): every spelled block — white space and comments
at every gap, letter case and simple escapes of the names, optional last `;`, names declared more than once —
gives back the mapping it denotes, in order (`SVarBlock.erase`: a name declared again takes the place of its first
declaration) -/
theorem variables_block_recovered (O : Oracle) (b : SVarBlock) (h : b.WF O) :
    (varsDecl O b.toks).map (fun vs => vs.map projVar) = some b.erase := by
  rw [varsDecl_block O b h, Option.map_some, SVarBlock.proj_parsed O b h]

/-- the fuel of the `@variables` loop is irrelevant: any amount from the token count on gives the same variables (one
unit per declaration is what is used) -/
theorem variables_fuel_irrelevant (O : Oracle) (b : SVarBlock) (h : b.WF O) (f : Nat) (hf : b.toks.length + 1 ≤ f) :
    varsLoop O f [] b.toks = varsDecl O b.toks := by
  rw [varsDecl_block O b h, varsLoop_block O b h f (Nat.le_trans b.fuel_bound hf)]

/-- `@import` alone (`CSSImportRule.cssText = tokens`): target, media query tokens and name of every spelling;
`storedName`: an empty name is no name -/
theorem import_rule_recovered (O : Oracle) (kw : Mask) (g1 : Gap) (href : SHref) (g2 : Gap)
    (mq : Option (List Tok × Gap)) (name : SName) (h : ImportWF O href mq name) :
    (importRule O (SImp.import_ kw g1 href g2 mq name).toks).map
        (fun i => (i.href, i.media.map clean, storedName i.name)) =
      some (href.value, mq.map (fun p => strip p.1), storedName (name.map (·.2.1))) := by
  rw [importRule_render O kw g1 href g2 mq name h]
  cases mq with
  | none => rfl
  | some p =>
    obtain ⟨m, g3⟩ := p
    have := clean_padded [] (Gap.toks g3) m (by simp) (gapL_toks g3).isGap (h.mqWF (m, g3) rfl).1.core
    simp only [List.nil_append] at this
    simp [this]

/-- non-vacuity of the two: the `@variables` block and the named `@import` of the example sheet -/
example : Ex2.vblk.WF Ex2.O := Ex2.vblk_wf
/-- a test, not a theorem: the example block declares `c1` twice and `w` once: two variables -/
example : Ex2.vblk.erase.length = 2 := by decide +kernel

/-- string values: `_stringtokenvalue` / `_uritokenvalue` give back the text for every quote style, every
case of `url`, white space inside `url( )` -/
theorem href_recovered (r : SHref) (h : r.WF) :
    (match r with
      | .str .. => stringValue r.tok.val
      | .url .. => uriValue r.tok.val) = r.value :=
  href_value r h

/-! ## T2.1 locality -/

/-- **T2.1 locality.**  A well-formed stretch of rules is parsed on its own: whatever follows it (`x` is ANY token
list, also garbage or a truncated construct) and whatever state the dispatcher is in, the rules built from the
stretch are the rules of the stretch, appended in order, and the dispatcher resumes after exactly its tokens with
the namespace context unchanged. -/
theorem statements_local (O : Oracle) (M : List Cps) (hO : AtFaithful O) (rs : SRules) (x : List Tok) (st : SheetSt)
    (h : rs.WF O M st.nsmap false) :
    ∃ st', sheetLoop O M st (rs.toks ++ x) = sheetLoop O M st' x ∧
      st'.rules = st.rules ++ rs.parsed O st.nsmap ∧ st'.nsmap = st.nsmap :=
  sheetLoop_srules O M hO rs x st h

/-- the same inside `@media` (any nesting depth): the block parser builds the rules of the stretch and goes on
behind it -/
theorem media_block_local (O : Oracle) (M : List Cps) (hO : AtFaithful O) (ns : List (Cps × Cps)) (rs : SRules)
    (h : rs.WF O M ns true) (f : Nat) (acc : List Rule) (x : List Tok) (hf : rs.toks.length < f) :
    parseLoop (mediaStep O ns (fun l => mediaRule O ns f l)) acc (rs.toks ++ x) =
      parseLoop (mediaStep O ns (fun l => mediaRule O ns f l)) (acc ++ rs.parsed O ns) x :=
  mediaLoop_rules O M hO ns rs h f acc x hf

/-! ## T2.3 the two parser options: comments off, validation off

`validate` (`CSSParser(validate=…)`) is read on the parse path at two places, both of which only emit log records;
`Model/ParseCfg.lean` therefore has the flag decide about the validation records only.  That premise is not an
assumption of the theorems: `flag_reads_harmless` / `flag_guards` / `validate_body_pure` evaluate the table that
`tools/harness/c02_validate.py` regenerates from the AST of the whole package on every run (every read of
`validating` / `_validating` / `_isValidating()` / the parameter that carries the option, with what it guards), and
the correspondence parses every generated sheet with validation off as well. -/

/-- the tokenizer with `doComments=False` on the text of `s` gives the tokens of the sheet without comments -/
theorem comments_off_tokens (s : SSheet) : strip (render s) = render s.noC := strip_render s

/-- **T2.3 comments_off.**  Parsing with comment parsing disabled (the COMMENT tokens of `render s` dropped) gives
the abstract sheet without its comments: comment rules and comment items are gone, everything else is as before.
The hypothesis is the well-formedness of the comment-free spelling (the sub-parsers accept the selectors / values
as they are written without their comments). -/
theorem comments_off (O : Oracle) (M : List Cps) (hO : AtFaithful O) (s : SSheet) (h : s.noC.WF O M) :
    projSheet O M (parseSheet O M (strip (render s))) = eraseCRules s.erase := by
  rw [strip_render, parse_render O M hO s.noC h, SSheet.noC_erase]

/-! ### comments off at declaration level

`CSSStyleDeclaration.cssText = tokens` / `Property.cssText = tokens` on the tokens a tokenizer with
`doComments=False` produces (the block of a style rule of a sheet parsed with `parseComments=False`, or a style
attribute given token by token). -/

/-- the tokenizer with `doComments=False` on the text of a declaration / of a block -/
theorem comments_off_decl_tokens (d : SDecl) : strip d.toks = d.noC.toks := strip_sdecl d
theorem comments_off_block_tokens (b : SBlock) : strip b.toks = b.noC.toks := strip_block b

/-- **T2.3 at declaration level.**  A comment anywhere inside a declaration — between name and `:`, inside or
around the value, around `!` and the priority ident — is spelling: without the COMMENT tokens `Property` builds the
same abstract declaration (name, value, priority). -/
theorem comments_off_decl (O : Oracle) (d : SDecl) (h : d.noC.WF O) :
    (parseProperty O (strip d.toks)).bind (fun x => projItem (.decl x)) = some d.erase := by
  rw [strip_sdecl, parseProperty_sdecl O d.noC h]
  simp only [Option.bind_some, projItem_parsed O d.noC h, SDecl.noC_erase]

/-- **T2.3 at block level.**  Without the COMMENT tokens `CSSStyleDeclaration` builds exactly the items of the
block without its comment items (declarations, unknown at-rules with their inner comments removed), in order. -/
theorem comments_off_block (O : Oracle) (b : SBlock) (h : b.noC.WF O) :
    projItems (parseDecls O (strip b.toks)) = eraseCItems b.erase := by
  rw [strip_block, block_recovered O b.noC h, SBlock.noC_erase]

/-- hence: comments off = comments on, minus the comment items -/
theorem comments_on_off_block (O : Oracle) (b : SBlock) (h : b.WF O) (hn : b.noC.WF O) :
    projItems (parseDecls O (strip b.toks)) = eraseCItems (projItems (parseDecls O b.toks)) := by
  rw [comments_off_block O b hn, block_recovered O b h]

/-- non-vacuity: a declaration with comments in every gap and inside its value; a block with comment items -/
example : Ex2.dCm.noC.WF Ex2.O := Ex2.dCm_noC_wf _ Ex2.yes_value
example : Ex2.blkCm.noC.WF Ex2.O := Ex2.blkCm_noC_wf _ Ex2.yes_value
example : projItems (parseDecls Ex2.O (strip Ex2.blkCm.toks)) = eraseCItems Ex2.blkCm.erase :=
  comments_off_block _ _ (Ex2.blkCm_noC_wf _ Ex2.yes_value)
/-- a test, not a theorem: the comment-free parse of the example block has 2 items, the block itself 4 -/
example : (projItems (parseDecls Ex2.O (strip Ex2.blkCm.toks))).length = 2 ∧ Ex2.blkCm.erase.length = 4 := by
  decide +kernel

/-! ### validation off -/
section Validate
open CssVerif.ParseCfg

/-- **T2.3 validate_irrelevant.**  Switching validation on or off changes nothing in what the parser builds: for
every configuration, every token list (well formed or not), every oracle and every validation-record function the
rules are the same. -/
theorem validate_irrelevant (cfg : Cfg) (b : Bool) (V : List Rule → List Msg) (O : Oracle) (M : List Cps)
    (ts : List Tok) :
    (parseWith { cfg with validate := b } V O M ts).1 = (parseWith cfg V O M ts).1 := rfl

/-- with validation off there are no validation records at all -/
theorem validate_off_silent (cfg : Cfg) (V : List Rule → List Msg) (O : Oracle) (M : List Cps) (ts : List Tok) :
    (parseWith { cfg with validate := false } V O M ts).2 = [] := rfl

/-- the premise of `Model/ParseCfg.lean`, on the table regenerated from the source of this run: every read of the
flag either hands it on or guards statements that only log -/
theorem flag_reads_harmless : CssVerif.Gen.C02.flagSites.all siteHarmless = true := by decide

/-- … the guards are the two of `property.py` that the model describes (`Property._setCssText`: the call of
`validate()` whose result is dropped; `Property._setName`: the warning about an unknown name) -/
theorem flag_guards : guards CssVerif.Gen.C02.flagSites =
    [("cssutils/css/property.py", "Property._setCssText"), ("cssutils/css/property.py", "Property._setName")] := by
  rfl

/-- … and `Property.validate` stores nothing outside its locals, never raises, and logs with `neverraise=True` -/
theorem validate_body_pure : CssVerif.Gen.C02.validateBody = (0, 0, 0) := by decide

/-- **T2.2 + T2.3 in one statement.**  For every spelled sheet, under every configuration of the parser the DOM
projection of what is built from the tokens the tokenizer hands over is the abstract sheet — without its comments
when comment parsing is off — whatever the `validate` flag says. -/
theorem parse_render_cfg (O : Oracle) (M : List Cps) (hO : AtFaithful O) (s : SSheet) (cfg : Cfg)
    (V : List Rule → List Msg) (h : cfg.parseComments = true → s.WF O M)
    (hn : cfg.parseComments = false → s.noC.WF O M) :
    projSheet O M (parseWith cfg V O M (render s)).1 =
      if cfg.parseComments then s.erase else eraseCRules s.erase := by
  cases hc : cfg.parseComments with
  | true => simp only [parseWith, tokensFor, hc, ↓reduceIte]; exact parse_render O M hO s (h hc)
  | false =>
    simp only [parseWith, tokensFor, hc, Bool.false_eq_true, ↓reduceIte]
    exact comments_off O M hO s (hn hc)

/-- non-vacuity: the example sheet with comments on, a sheet with comments in every kind of place with comments off,
validation on or off -/
example (b : Bool) (V : List Rule → List Msg) :
    projSheet Ex2.O Ex2.M (parseWith ⟨true, b⟩ V Ex2.O Ex2.M (render Ex2.sheet)).1 = Ex2.sheet.erase :=
  parse_render_cfg _ _ (withAtRules_faithful _) _ ⟨true, b⟩ V (fun _ => Ex2.sheet_wf) (fun h => by simp at h)
example (b : Bool) (V : List Rule → List Msg) :
    projSheet Ex2.O Ex2.M (parseWith ⟨false, b⟩ V Ex2.O Ex2.M (render Ex2.sheetCm)).1 =
      eraseCRules Ex2.sheetCm.erase :=
  parse_render_cfg _ _ (withAtRules_faithful _) _ ⟨false, b⟩ V (fun h => by simp at h) (fun _ => Ex2.sheetCm_noC_wf)
/-- the hypothesis of `comments_off` is satisfiable -/
example : Ex2.sheetCm.noC.WF Ex2.O Ex2.M := Ex2.sheetCm_noC_wf
end Validate

/-! ## non-vacuity

`@charset "utf-8"; @IMPORT UrL( 'a.css') print ; @namespace p "urn:x"; a , /*c*/ b { COLOR /*c*/ : red ! IMPORTANT ;
; /*k*/ top : 0 1 }  @x y ; @Media print /*c*/ { a,b{…} /*in*/ } @font-face { … } @page cover/*m*/:first { top : 0 1 ;
@Top-left /*c*/ { top : 0 1 } }` (the pseudo-page name written `F\\irst`) -/

/-- the hypotheses of `parse_render` are satisfiable: a sheet with every rule kind, gaps with comments, upper case
and simple escapes, both quote styles -/
example : Ex2.sheet.WF Ex2.O Ex2.M := Ex2.sheet_wf
example : AtFaithful Ex2.O := withAtRules_faithful _

/-- hence the theorem applies to it -/
example : projSheet Ex2.O Ex2.M (parseSheet Ex2.O Ex2.M (render Ex2.sheet)) = Ex2.sheet.erase :=
  parse_render _ _ (withAtRules_faithful _) _ Ex2.sheet_wf

/-- a test (evaluation of the model on the rendered example), not a theorem: the parse has 10 rules -/
example : (parseSheet Ex2.O Ex2.M (render Ex2.sheet)).length = 10 := by decide +kernel

/-! ## the page selector (repaired: `fix: @page pseudo-page names :first, :left and :right are recognised in any
letter case`; the pseudo-page name now has a spelling mask in `SPageSel`, so `parse_render` covers it) -/

/-- the page selector alone: every spelling of `first` / `left` / `right` (case, simple escapes), white space and
comments around the selector, comments between page name and `:` give the abstract selector -/
theorem page_selector_recovered (g0 : Gap) (sel : SPageSel) (g1 : Gap) (h : PageSelWF sel) :
    pageSelector (Gap.toks g0 ++ (sel.toks ++ Gap.toks g1)) = some ⟨sel.name, sel.pseudo⟩ :=
  pageSelector_render g0 sel g1 h

example : pageSelector [colonTok, identTok (cps "FI\\rST")] = pageSelector [colonTok, identTok (cps "first")] := by
  decide +kernel

/-! ## known finding, shown on the model -/

/-- C02-margin-box-space-dropped: the declarations of a margin box are parsed without their white space
(`marginrule.py:150-172`), so the value that reaches the value parser is not the value that was written -/
example : Ex2.dTop.eraseSq ≠ Ex2.dTop.erase := by decide

end CssVerif.C02
