import CssVerif.Lemmas.Normalize
/-!
# C02 — the parsed DOM is the same for every way of writing a well-formed sheet

First layer: the normalisation that makes names insensitive to letter case and to CSS escapes of ordinary
name characters (`cssutils.helper.normalize`, used for property names, at-keywords, pseudo and function
names, units, `!important`). The structure-level theorem `parse (render σ a) = a` is stated over the
structure kernel and joins this file when that kernel is merged; until then that clause is decided by
exploration (tools/harness/c02.py: abstract sheets × spellings, metamorphic + AST expectations).
-/
namespace CssVerif.C02
open CssVerif.Normalize

/-- T2.2a spelling invariance of names: for EVERY plain name (lower case, no backslash; any length, any
characters incl. non-ASCII) and EVERY spelling of it (any subset of its letters in upper case, a backslash
before any subset of its non-hex characters) `normalize` gives back the name. -/
theorem normalize_spell (name : List Nat) (σ : List (Bool × Bool)) (h : Plain name) :
    normalize (spell σ name) = name :=
  normalize_spell_aux name σ h

/-- hence two spellings of one name are never told apart -/
theorem spellings_agree (name : List Nat) (σ₁ σ₂ : List (Bool × Bool)) (h : Plain name) :
    normalize (spell σ₁ name) = normalize (spell σ₂ name) := by
  rw [normalize_spell name σ₁ h, normalize_spell name σ₂ h]

/-- `normalize` is idempotent on what it produces from a spelling -/
theorem normalize_idem_on_names (name : List Nat) (σ : List (Bool × Bool)) (h : Plain name) :
    normalize (normalize (spell σ name)) = normalize (spell σ name) := by
  rw [normalize_spell name σ h]
  have := normalize_spell name [] h
  have e : spell [] name = name := by
    clear this
    induction name with
    | nil => rfl
    | cons c t ih => simp [spell, ih (fun x hx => h x (by simp [hx]))]
  rw [e] at this; exact this

/-- the guard of `normalize_spell` is needed: a backslash before a hex digit is NOT a simple escape
(`c\olor` is `color`, but `\color` keeps its backslash — the tokenizer would have read `\c` as a hex escape) -/
example : normalize [0x5C, 0x63, 0x6F] = [0x5C, 0x63, 0x6F] := by decide

/-! non-vacuity -/
example : Plain [0x63, 0x6F, 0x6C, 0x6F, 0x72] := by
  intro c hc; simp at hc; rcases hc with rfl | rfl | rfl | rfl | rfl <;> decide
example : normalize (spell [(true, false), (false, true), (true, true)] [0x63, 0x6F, 0x6C, 0x6F, 0x72])
    = [0x63, 0x6F, 0x6C, 0x6F, 0x72] := by decide

end CssVerif.C02
