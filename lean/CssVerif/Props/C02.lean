import CssVerif.Lemmas.Normalize
import CssVerif.Lemmas.SheetSpec
import CssVerif.Gen.C04Margins
/-!
# C02 — the parsed DOM is the same for every way of writing a well-formed sheet

First layer: the normalisation that makes names insensitive to letter case and to CSS escapes of ordinary
name characters (`cssutils.helper.normalize`, used for property names, at-keywords, pseudo and function
names, units, `!important`). The structure-level theorem `parse (render σ a) = a` is stated over the
structure kernel and joins this file when that kernel is merged; until then that clause is decided by
exploration (tools/harness/c02.py: abstract sheets × spellings, metamorphic + AST expectations).
-/
namespace CssVerif.C02
open CssVerif.Normalize

/-- T2.2a spelling invariance of names: for EVERY plain name (lower case, no backslash; any length, any
characters incl. non-ASCII) and EVERY spelling of it (any subset of its letters in upper case, a backslash
before any subset of its non-hex characters) `normalize` gives back the name. -/
theorem normalize_spell (name : List Nat) (σ : List (Bool × Bool)) (h : Plain name) :
    normalize (spell σ name) = name :=
  normalize_spell_aux name σ h

/-- hence two spellings of one name are never told apart -/
theorem spellings_agree (name : List Nat) (σ₁ σ₂ : List (Bool × Bool)) (h : Plain name) :
    normalize (spell σ₁ name) = normalize (spell σ₂ name) := by
  rw [normalize_spell name σ₁ h, normalize_spell name σ₂ h]

/-- `normalize` is idempotent on what it produces from a spelling -/
theorem normalize_idem_on_names (name : List Nat) (σ : List (Bool × Bool)) (h : Plain name) :
    normalize (normalize (spell σ name)) = normalize (spell σ name) := by
  rw [normalize_spell name σ h]
  have := normalize_spell name [] h
  have e : spell [] name = name := by
    clear this
    induction name with
    | nil => rfl
    | cons c t ih => simp [spell, ih (fun x hx => h x (by simp [hx]))]
  rw [e] at this; exact this

/-- the guard of `normalize_spell` is needed: a backslash before a hex digit is NOT a simple escape
(`c\olor` is `color`, but `\color` keeps its backslash — the tokenizer would have read `\c` as a hex escape) -/
example : normalize [0x5C, 0x63, 0x6F] = [0x5C, 0x63, 0x6F] := by decide

/-! non-vacuity -/
example : Plain [0x63, 0x6F, 0x6C, 0x6F, 0x72] := by
  intro c hc; simp at hc; rcases hc with rfl | rfl | rfl | rfl | rfl <;> decide
example : normalize (spell [(true, false), (false, true), (true, true)] [0x63, 0x6F, 0x6C, 0x6F, 0x72])
    = [0x63, 0x6F, 0x6C, 0x6F, 0x72] := by decide

/-! ## T2.2 `parse_render` — the structure level

Model: the structure kernel K2 (`Model/Struct.lean`: `_tokensupto2`, `_parse`, declaration block, property
split, style / unknown rule, sheet dispatcher), for EVERY oracle `O` of the selector / value sub-parsers and
every margin table `M`.  Specification: `Model/SheetSpec.lean` (abstract sheet `A…`, spelled sheet `S…`,
`erase`, `render`, DOM projection `projSheet`).  `SSheet.WF O M s` (Lemmas/SheetSpec.lean) says that the opaque
parts are what the abstract syntax means by them — names are names, a value is a well nested token list
without `;` `!` at depth 0 that neither starts nor ends with white space / a comment, a selector group likewise
without `,` `;` braces — and that `O` accepts the selector and value token lists as they are written. -/
open CssVerif.SheetSpec CssVerif.Struct
open CssVerif.Proto (Cps cps)

/-- **T2.2 parse_render.**  For every spelled sheet `s` — an abstract sheet together with any choice of
white-space / comment tokens at every gap of its statements, any letter case and simple escapes of property
names and of the priority ident, any placement of stand-alone `;` and the optional `;` after the last
declaration — the DOM projection of what the parser builds from the tokens of `s` is the abstract sheet. -/
theorem parse_render (O : Oracle) (M : List Cps) (s : SSheet) (h : s.WF O M) :
    projSheet (parseSheet O M (render s)) = s.erase := by
  rw [parseSheet_render O M s h]
  simp only [projSheet, SSheet.erase, List.map_map]
  apply List.map_congr_left
  intro p hp
  exact projRule_parsed O M [] p.1 (h p hp)

/-- corollary: all spellings of one abstract sheet give the same DOM -/
theorem spelling_invariance (O : Oracle) (M : List Cps) (s₁ s₂ : SSheet) (h₁ : s₁.WF O M) (h₂ : s₂.WF O M)
    (he : s₁.erase = s₂.erase) :
    projSheet (parseSheet O M (render s₁)) = projSheet (parseSheet O M (render s₂)) := by
  rw [parse_render O M s₁ h₁, parse_render O M s₂ h₂, he]

/-- the declaration block alone (`CSSStyleDeclaration.cssText = tokens`, also the body of `@page` /
`@font-face`): every spelled block gives back its abstract items -/
theorem block_recovered (O : Oracle) (b : SBlock) (h : b.WF O) :
    (parseDecls O b.toks).filterMap projItem = b.erase :=
  parseDecls_block O b h

/-- the selector list alone (`SelectorList._setSelectorText`): the groups are recovered -/
theorem selector_groups_recovered (s : SSel) (h : s.WF) : (selGroups s.toks).map clean = s.erase :=
  selGroups_render s h

/-! non-vacuity: `a , /*c*/ b { COLOR /*x*/ : red ! IMPORTANT ; ; /*k*/ top : 0 }  @x y ;` -/
namespace Ex2
open CssVerif.Struct.Ex
def sp1 : Ws := ⟨.space, []⟩
def dColor : SDecl :=
  { name := cps "color", nameSp := [(true, false), (true, true), (true, false)], g1 := [.ws sp1, .cm (cps "x"), .ws sp1],
    g2 := [.ws sp1], value := [idt "red" 7], g3 := [.ws sp1],
    prio := some ([.ws sp1], cps "important", [(true, false), (true, true)], [.ws sp1]) }
def dTop : SDecl := { name := cps "top", g1 := [.ws sp1], g2 := [.ws sp1], value := [num "0"], g3 := [.ws ⟨.lf, [.tab]⟩] }
def sheet : SSheet :=
  { lead := [sp1],
    rules := [
      (.style { first := [idt "a" 1], post := [.ws sp1], more := [([.ws sp1, .cm (cps "c"), .ws sp1], [idt "b" 2], [.ws sp1])] }
        { lead := [sp1], items := [(.decl dColor, [sp1]), (.semi, [sp1]), (.comment (cps "k"), [sp1])], last := some dTop },
       [sp1, sp1]),
      (.unknown [atk "@x", sp, idt "y", sp, semi], [])] }
end Ex2

example : Ex2.sheet.erase =
    [.style [[Ex.idt "a" 1], [Ex.idt "b" 2]]
       [.decl (cps "color") [Ex.idt "red" 7] (some (cps "important")), .comment (cps "k"),
        .decl (cps "top") [Ex.num "0"] none],
     .unknown [Ex.atk "@x", Ex.sp, Ex.idt "y", Ex.sp, Ex.semi]] := by decide

/-- a test (evaluation of the model on the rendered example), not a theorem -/
example : projSheet (parseSheet Ex.yes CssVerif.Gen.C04.margins (render Ex2.sheet)) = Ex2.sheet.erase := by
  decide +kernel

end CssVerif.C02
