import CssVerif.Lemmas.SheetNs
/-!
# C09 — a stylesheet stays structurally valid under any sequence of DOM edits

Property theorems only (helpers: `Lemmas/SheetEdit.lean`; specification: `Model/SheetValid.lean`; model:
`Model/SheetEdit.lean`, tied to the source by the lock-step correspondence of `tools/harness/c09.py` and by the
generated tables `Gen/C09RuleKinds.lean`).
-/
namespace CssVerif.C09
open CssVerif.SheetEdit CssVerif.SheetEdit.Wit

/-! ## T9.1a — order and @charset clause -/

/-- **T9.1a** FULL STATEMENT: `∀ st op, TopOK st.rules → TopOK (step st op).1.rules` — refuted for the code as it is by
the two witnesses `order_breaks_add_variables`, `order_breaks_inorder_index` below (known findings).

PROVED: every operation — accepted, refused, or interrupted by an exception — leaves the sheet's list ordered
(@charset only first, @import < @namespace < @variables < style/@media/@page/@font-face), for every state, rule kind,
index, string or object argument, raise or log-only mode, EXCEPT the operations of `OrderRegion`: `add(@variables)` /
`insertRule(…, inOrder=True)` in the two regions described there. -/
theorem step_order_partial (st : St) (op : Op) (h : TopOK st.rules) (hr : ¬ OrderRegion st op) :
    TopOK (step st op).1.rules := by
  cases op with
  | insert s i v => exact insertRule_topOK st s i false v _ h (by simp) (by simp)
  | add s v =>
    exact insertRule_topOK st s none true v _ h (by
      intro ⟨_, hk, hb⟩; exact hr ⟨hk, hb⟩) (by simp)
  | insertOrdered s i v =>
    apply insertRule_topOK st s (some i) true v _ h
    · intro ⟨_, hk, hb⟩; exact hr (Or.inl ⟨hk, hb⟩)
    · intro _ hf
      right
      by_cases hi : i = (st.rules.length : Int)
      · rw [hi]
      · exact absurd (Or.inr ⟨hf, hi⟩) hr
  | delete i => exact deleteRule_topOK st i h
  | setEncoding e v => exact setEncoding_topOK st e v h
  | setText specs => exact setText_topOK st specs h
  | nsSet p u => exact nsSet_topOK st p u h
  | nsDel p => exact nsDel_topOK st p h
  | nInsert path s i v => unfold TopOK; rw [step, nInsert_kinds]; exact h
  | nDelete path i => unfold TopOK; rw [step, nDelete_kinds]; exact h
  | nSetText path kids => unfold TopOK; rw [step, nSetText_kinds]; exact h
  | setMode b => exact h

/-! machine-checked witnesses of the two order findings (the model exhibits them; the harness replays them on the
implementation on every run) -/

/-- C09-add-variables-scan: `/*c*/ @import "x";` then `add(@variables{…})` puts @variables first -/
theorem order_breaks_add_variables :
    let st := run (St.empty) [.setText [commentS, importS]]
    TopOK st.rules ∧ ¬ TopOK (step st (.add varsS false)).1.rules := by
  decide

/-- C09-inorder-index-not-ignored: `@import "x";` then `insertRule(@namespace, 0, inOrder=True)` puts it first -/
theorem order_breaks_inorder_index :
    let st := run (St.empty) [.add importS false]
    TopOK st.rules ∧ ¬ TopOK (step st (.insertOrdered (nsS 0x70 0x75) 0 false)).1.rules := by
  decide

/-- non-vacuity: outside the region the same operations are covered, e.g. `add(@variables)` after `@import; /*c*/` -/
example : ¬ OrderRegion (run (St.empty) [.setText [importS, commentS]]) (.add varsS false) := by
  decide

/-! ## T9.1 — all clauses, every operation -/

/-- **T9.1** FULL STATEMENT: `∀ st op, Valid st → Valid (step st op).1` — refuted for the code as it is by the witnesses
`order_breaks_*` above and `valid_breaks_*` below (known findings).

PROVED: from a structurally valid state — ordered list, nested lists holding allowed kinds only, every rule in the
tree naming its container, every dropped object naming nothing — EVERY operation (insertRule at any index, add,
deleteRule, encoding, cssText of the sheet, namespaces[p]=u, del namespaces[p], and insertRule / deleteRule / cssText on
the nested list at any path; string or object argument; raise or log-only mode; accepted, refused or interrupted)
leads to a valid state, provided the operation is outside `Region` (the four regions of the listed known findings,
each a decidable predicate on state and operation) and rule objects handed in are themselves well nested (`OpOK`). -/
theorem step_valid_partial (st : St) (op : Op) (hv : Valid st) (hs : OpOK op) (hr : ¬ Region st op) :
    Valid (step st op).1 := by
  have hord : ¬ OrderRegion st op := fun h => hr (Or.inl h)
  have hadopt : ¬ AdoptRegion st op := fun h => hr (Or.inr (Or.inl h))
  have hnest : ¬ NestedRegion st op := fun h => hr (Or.inr (Or.inr (Or.inl h)))
  have hrepl : ¬ ReplaceRegion st op := fun h => hr (Or.inr (Or.inr (Or.inr h)))
  have htop := step_order_partial st op hv.top hord
  have hinv : Inv st := ⟨hv.kids, hv.links, hv.gone, hv.ids⟩
  suffices h : Inv (step st op).1 from ⟨htop, h.kids, h.links, h.gone, h.ids⟩
  cases op with
  | insert s i v =>
    exact insertRule_inv st s i false v _ hinv (by
      rcases hs with hs | hs
      · exact Or.inl hs
      · exact Or.inr hs) (by simp)
  | add s v =>
    apply insertRule_inv st s none true v _ hinv (by
      rcases hs with hs | hs
      · exact Or.inl hs
      · exact Or.inr hs)
    intro ⟨_, hv', hk, _, hf, _⟩
    exact hadopt ⟨hv', hk, hf⟩
  | insertOrdered s i v =>
    apply insertRule_inv st s (some i) true v _ hinv (by
      rcases hs with hs | hs
      · exact Or.inl hs
      · exact Or.inr hs)
    intro ⟨_, hv', hk, _, hf, hi⟩
    exact hadopt ⟨hv', hk, hf, hi⟩
  | delete i => exact deleteRule_inv st i hinv
  | setEncoding e v => exact setEncoding_inv st e v hinv
  | setText specs =>
    apply setText_inv st specs hinv
    intro ⟨hne, hok⟩
    apply hrepl
    simp only [ReplaceRegion, replaceRegionB, Bool.and_eq_true, Bool.not_eq_true', hok, and_true]
    cases hr' : st.rules with
    | nil => exact absurd hr' hne
    | cons a t => rfl
  | nsSet p u => exact nsSet_inv st p u hinv
  | nsDel p => exact nsDel_inv st p hinv
  | nInsert path s i v =>
    apply nInsert_inv st path s i v hinv (by
      rcases hs with hs | hs
      · exact Or.inl hs
      · exact Or.inr hs)
    intro c hc hrej
    cases hal : allowedIn c.kind s.kind with
    | true => rfl
    | false =>
      exfalso; apply hnest
      simp [NestedRegion, nestedRegionB, hc, hrej, hal]
  | nDelete path i => exact nDelete_inv st path i hinv
  | nSetText path kids =>
    apply nSetText_inv st path kids hinv
    intro c hc hcont hk hnone
    apply hrepl
    simp [ReplaceRegion, replaceRegionB, hc, hcont, hk, hnone]
  | setMode b => exact ⟨hinv.kids, hinv.links, hinv.gone, hinv.ids⟩

/-! machine-checked witnesses of the other findings: each history starts at the empty sheet, stays valid up to the last
operation, and the last operation (inside the region) produces an invalid state. The harness replays the same
histories on the implementation on every run (`known/C09.json`). -/

/-- C09-add-charset-adopts: `add(@charset "a")`, then `add(CSSCharsetRule("b"))`: the second object is not kept
but names the sheet -/
theorem valid_breaks_add_charset :
    let st := run St.empty [.add (charsetS 0x61) false]
    Valid st ∧ ¬ Valid (step st (.add (charsetS 0x62) false)).1 := by
  simp only [← validB_iff]; decide

/-- (fixed in the code by 3ec898a, formerly C09-clean-refused-halfway) `@namespace p "a"; p|x{}` then
`insertRule(@namespace p "b", 0)`: raises NoModificationAllowedErr and leaves a valid sheet of the same length —
an instance of `step_valid_partial`, kept as a regression witness -/
theorem valid_after_clean_refused :
    let st := run St.empty [.add (nsS 0x70 0x61) false, .add (styleUsing 0x61) false]
    (step st (.insert (nsS 0x70 0x62) (some 0) false)).2 = .err .noMod ∧
      Valid (step st (.insert (nsS 0x70 0x62) (some 0) false)).1 ∧
      (step st (.insert (nsS 0x70 0x62) (some 0) false)).1.rules.length = 2 := by
  simp only [← validB_iff]; decide

/-- C09-media-accepts-variables -/
theorem valid_breaks_media_variables :
    let st := run St.empty [.add (mediaS []) false]
    Valid st ∧ (step st (.nInsert [0] varsS none false)).2 = .ok 0 ∧
      ¬ Valid (step st (.nInsert [0] varsS none false)).1 := by
  simp only [← validB_iff]; decide

/-- C09-page-accepts-nonmargin -/
theorem valid_breaks_page_style :
    let st := run St.empty [.add (pageS []) false]
    Valid st ∧ (step st (.nInsert [0] styleS none false)).2 = .ok 0 ∧
      ¬ Valid (step st (.nInsert [0] styleS none false)).1 := by
  simp only [← validB_iff]; decide

/-- C09-text-replace-keeps-parent, sheet: the replaced rule still names the sheet -/
theorem valid_breaks_sheet_text :
    let st := run St.empty [.add styleS false]
    Valid st ∧ ¬ Valid (step st (.setText [fontfaceS])).1 := by
  simp only [← validB_iff]; decide

/-- C09-text-replace-keeps-parent, @media: the replaced child still names the @media rule -/
theorem valid_breaks_media_text :
    let st := run St.empty [.add (mediaS [styleS]) false]
    Valid st ∧ ¬ Valid (step st (.nSetText [0] [commentS])).1 := by
  simp only [← validB_iff]; decide

/-- C09-insert-stale-index: `@namespace p "a"; @namespace q "b"; x{}` then `insertRule(@namespace z "a", 2)` returns
2, but the clean-up removed the rule at index 0 and the new rule stands at 1 -/
theorem index_stale_after_clean :
    let st := run St.empty [.add (nsS 0x70 0x61) false, .add (nsS 0x71 0x62) false, .add styleS false]
    let r := step st (.insert (nsS 0x7A 0x61) (some 2) false)
    r.2 = .ok 2 ∧ (r.1.rules[2]?.map (·.kind)) = some .style ∧ (r.1.rules[1]?.map (·.pre)) = some [0x7A] := by
  decide

/-- **returned index** FULL STATEMENT: "an accepted insertRule/add returns the index at which the new rule stands" —
refuted by `index_stale_after_clean` above.
PROVED: whenever `insertRule` (any index, ordered or not, object or text) returns an index and the list became exactly
one longer — i.e. unless the namespace clean-up removed a rule, or the @charset rule was merged — the rule at the
returned index is the new object: of the kind handed in, created by this call, naming the sheet. -/
theorem insert_index_partial (st : St) (s : Spec) (index : Option Int) (inOrder viaStr : Bool) (n : Nat)
    (hok : (insertRule st s index inOrder viaStr (!viaStr)).2 = .ok n)
    (hlen : (insertRule st s index inOrder viaStr (!viaStr)).1.rules.length = st.rules.length + 1) :
    ∃ x, (insertRule st s index inOrder viaStr (!viaStr)).1.rules[n]? = some x ∧
      x.kind = s.kind ∧ x.pss = true ∧ x.id = st.next :=
  insertRule_index st s index inOrder viaStr _ n hok hlen

/-- C09-parentstylesheet-depth2: in a VALID state the getter answers the sheet down to depth 1 … -/
theorem parentStyleSheet_depth1 (st : St) (h : Valid st) :
    (∀ r ∈ st.rules, derivedPss none r = true) ∧
    (∀ c ∈ st.rules, ∀ k ∈ c.kids, derivedPss (some c) k = true) :=
  derivedPss_depth1 st h

/-- … and `None` at depth 2 (`@media{@media{a{}}}`, freshly parsed, valid) -/
theorem parentStyleSheet_depth2_none :
    let st := run St.empty [.setText [mediaS [mediaS [styleS]]]]
    Valid st ∧ (st.rules.all fun c => c.kids.all fun k => k.kids.all fun g => !derivedPss (some k) g) = true ∧
      (st.rules.all fun c => c.kids.all fun k => !k.kids.isEmpty) = true := by
  simp only [← validB_iff]; decide

/-! ## T9.2 — reachable states -/

/-- the empty sheet is valid -/
theorem empty_valid (raising : Bool) : Valid (St.empty raising) := by
  refine ⟨topOK_nil, ?_, ?_, ?_, ?_⟩ <;> intro r hr <;> cases hr

/-- **T9.2** every state reached from a valid state (in particular from the empty sheet, or from any parsed sheet: a
parse is the operation `setText` on the empty sheet) by a history of ANY length that stays outside the regions of the
listed findings is valid — by induction over the history. -/
theorem reachable_valid_partial (st : St) (ops : List Op) (hv : Valid st) (hc : Clean st ops) :
    Valid (run st ops) := by
  induction ops generalizing st with
  | nil => exact hv
  | cons op ops ih =>
    exact ih (step st op).1 (step_valid_partial st op hv hc.1 hc.2.1) hc.2.2

/-! ## T9.1t / T9.2t — the tree alone, with fewer exclusions -/

/-- **T9.1t** the two findings about dropped objects (an @charset object that is merged, rules replaced by a text)
do not touch the sheet's tree: order, nested kinds and the parent links of every rule IN the tree are kept by every
operation outside the two order regions and the two nested-kind regions — in particular by every `cssText = …` of the
sheet or of a nested rule, accepted or refused, whatever was there before. -/
theorem step_tree_partial (st : St) (op : Op) (hv : ValidTree st) (hs : OpOK op) (hr : ¬ TreeRegion st op) :
    ValidTree (step st op).1 := by
  have hord : ¬ OrderRegion st op := fun h => hr (Or.inl h)
  have hnest : ¬ NestedRegion st op := fun h => hr (Or.inr h)
  have htop := step_order_partial st op hv.top hord
  have hl : Live st := ⟨hv.kids, hv.links, hv.ids⟩
  suffices h : Live (step st op).1 from ⟨htop, h.kids, h.links, h.ids⟩
  cases op with
  | insert s i v => exact insertRule_live st s i false v _ hl (by rcases hs with hs | hs; exact Or.inl hs; exact Or.inr hs)
  | add s v => exact insertRule_live st s none true v _ hl (by rcases hs with hs | hs; exact Or.inl hs; exact Or.inr hs)
  | insertOrdered s i v =>
    exact insertRule_live st s (some i) true v _ hl (by rcases hs with hs | hs; exact Or.inl hs; exact Or.inr hs)
  | delete i => exact deleteRule_live st i hl
  | setEncoding e v => exact setEncoding_live st e v hl
  | setText specs => exact setText_live st specs hl
  | nsSet p u => exact nsSet_live st p u hl
  | nsDel p => exact nsDel_live st p hl
  | nInsert path s i v =>
    apply nInsert_live st path s i v hl (by rcases hs with hs | hs; exact Or.inl hs; exact Or.inr hs)
    intro c hc hrej
    cases hal : allowedIn c.kind s.kind with
    | true => rfl
    | false =>
      exfalso; apply hnest
      simp [NestedRegion, nestedRegionB, hc, hrej, hal]
  | nDelete path i => exact nDelete_live st path i hl
  | nSetText path kids => exact nSetText_live st path kids hl
  | setMode b => exact ⟨hl.kids, hl.links, hl.ids⟩

/-- **T9.2t** … for histories of any length -/
theorem reachable_tree_partial (st : St) (ops : List Op) (hv : ValidTree st) (hc : CleanTree st ops) :
    ValidTree (run st ops) := by
  induction ops generalizing st with
  | nil => exact hv
  | cons op ops ih =>
    exact ih (step st op).1 (step_tree_partial st op hv hc.1 hc.2.1) hc.2.2

/-- non-vacuity: a history with a text replace on a non-empty sheet, a merged @charset object and a text replace on
a non-empty @media rule (all three inside `Region`, outside `TreeRegion`) -/
example :
    let ops : List Op := [.add (charsetS 0x61) false, .add styleS false, .add (mediaS [styleS]) false,
      .add (charsetS 0x62) false, .nSetText [2] [commentS, styleS], .setText [importS, mediaS [pageS [marginS 1]], styleS],
      .nSetText [1, 0] [marginS 2]]
    CleanTree St.empty ops ∧ ¬ Clean St.empty ops ∧ (run St.empty ops).rules.length = 3 := by
  decide +kernel

/-! ## T9.3 — serialising and reparsing a valid sheet loses no rule -/

/-- **T9.3** for every sheet whose tree is structurally valid (`ValidTree`; every `Valid` state is) and whose rules each survive a round trip on their own (`roundTrips`:
selectors use declared namespaces, an @page rule holds each margin once, @namespace rules have a URI) and whose
@namespace rules are all effective (`NsClean`, the state `_cleanNamespaces` leaves): parsing the serialisation —
the dispatcher with its ordering levels 0..3 and the `S` bump, one `insertRule` per statement, the nested parsers of
@media and @page, the final `_cleanNamespaces`, all in log-only mode — gives back the same tree of rule kinds, at
every depth. No rule is lost to an ordering or nesting error. (Serialisation itself is the identity on rule
descriptions here; that a single rule's text parses back to that rule is C03 and is exercised by the oracle.) -/
theorem reparse_keeps_all (st : St) (hv : ValidTree st) (hns : NsClean st.rules)
    (hrt : ∀ r ∈ st.rules, r.roundTrips (nsUris st.rules) = true) :
    Rule.shapes (reparse st).rules = Rule.shapes st.rules :=
  (reparse_rules st hv.top hv.kids hns hrt).1

/-- … in particular the list of kinds of the sheet's own list -/
theorem reparse_keeps_kinds (st : St) (hv : ValidTree st) (hns : NsClean st.rules)
    (hrt : ∀ r ∈ st.rules, r.roundTrips (nsUris st.rules) = true) :
    kindsOf (reparse st).rules = kindsOf st.rules :=
  (reparse_rules st hv.top hv.kids hns hrt).2

/-- the hypothesis `Valid` is needed: in the state produced by the finding C09-add-variables-scan (@variables in
front of @import) every rule round-trips on its own and the namespaces are clean, but the reparse drops the @import -/
theorem reparse_loses_after_order_break :
    let st := (step (run St.empty [.setText [commentS, importS]]) (.add varsS false)).1
    (st.rules.all fun r => r.roundTrips (nsUris st.rules)) = true ∧
      kindsOf st.rules = [.vars, .comment, .imp] ∧ kindsOf (reparse st).rules = [.vars, .comment] := by
  decide

/-- … and so is the nested-kinds clause: the @variables rule that C09-media-accepts-variables lets into an @media
list is gone after a reparse -/
theorem reparse_loses_after_nested_break :
    let st := (step (run St.empty [.add (mediaS [styleS]) false]) (.nInsert [0] varsS none false)).1
    st.rules.map (fun r => kindsOf r.kids) = [[.style, .vars]] ∧
      (reparse st).rules.map (fun r => kindsOf r.kids) = [[.style]] := by
  decide

/-- non-vacuity of T9.3: a sheet with every kind, nested lists, a used namespace — all hypotheses hold -/
example :
    let st := run St.empty [.setText [charsetS 0x61, commentS, importS, nsS 0x70 0x75, nsS 0x71 0x76, varsS,
      styleUsing 0x75, mediaS [styleUsing 0x76, pageS [marginS 1, marginS 2], mediaS [commentS]], pageS [marginS 1],
      fontfaceS, unknownS]]
    Valid st ∧ st.rules.length = 11 ∧ (st.rules.all fun r => r.roundTrips (nsUris st.rules)) = true ∧
      ((nsPairs st.rules).map (·.1)).Nodup ∧ ((nsPairs st.rules).map (·.2)).Nodup := by
  simp only [← validB_iff]; decide +kernel

/-! ## T9.4 — the @namespace rules stay effective; T9.3 for reachable states -/

/-- **T9.4** EVERY operation (no exclusion) leaves the @namespace rules of the sheet clean — prefixes pairwise
distinct, URIs pairwise distinct, i.e. every @namespace rule effective: `_cleanNamespaces` does its job after
`insertRule` / `add` / `namespaces[p] = u` (where it may refuse, and then the list is put back) and after a text
replacement (where the same-prefix merging of the parser makes it impossible for the clean-up to refuse). -/
theorem step_nsClean (st : St) (op : Op) (h : NsClean st.rules) : NsClean (step st op).1.rules := by
  cases op with
  | insert s i v => exact insertRule_nsClean st s i false v _ h
  | add s v => exact insertRule_nsClean st s none true v _ h
  | insertOrdered s i v => exact insertRule_nsClean st s (some i) true v _ h
  | delete i => exact deleteRule_nsClean st i h
  | setEncoding e v => exact setEncoding_nsClean st e v h
  | setText specs => exact setText_nsClean st specs h
  | nsSet p u => exact nsSet_nsClean st p u h
  | nsDel p => exact nsDel_nsClean st p h
  | nInsert path s i v => exact nsClean_of_pairs h (nInsert_nsPairs st path s i v)
  | nDelete path i => exact nsClean_of_pairs h (nDelete_nsPairs st path i)
  | nSetText path kids => exact nsClean_of_pairs h (nSetText_nsPairs st path kids)
  | setMode b => exact h

theorem reachable_nsClean (st : St) (ops : List Op) (h : NsClean st.rules) : NsClean (run st ops).rules := by
  induction ops generalizing st with
  | nil => exact h
  | cons op ops ih => exact ih (step st op).1 (step_nsClean st op h)

/-- a text replacement is refused as a whole (exception, state untouched) or accepted without any exception: the
final `_cleanNamespaces` of an accepted text cannot raise -/
theorem setText_all_or_nothing (st : St) (specs : List Spec) :
    (∃ e, (step st (.setText specs)).2 = .err e ∧ (step st (.setText specs)).1 = st) ∨
      (step st (.setText specs)).2 = .none :=
  setText_outcome st specs

/-- **T9.3 for reachable states** after ANY history from the empty sheet that stays outside the four regions that
concern the tree, the sheet whose rules each round-trip on their own is reparsed without loss: the structural
hypotheses of T9.3 (`ValidTree`, `NsClean`) are invariants, not assumptions. -/
theorem reparse_after_history (raising : Bool) (ops : List Op) (hc : CleanTree (St.empty raising) ops)
    (hrt : ∀ r ∈ (run (St.empty raising) ops).rules,
      r.roundTrips (nsUris (run (St.empty raising) ops).rules) = true) :
    Rule.shapes (reparse (run (St.empty raising) ops)).rules = Rule.shapes (run (St.empty raising) ops).rules := by
  have hv : ValidTree (St.empty raising) := by
    refine ⟨topOK_nil, ?_, ?_, ?_⟩ <;> intro r hr <;> cases hr
  have hn : NsClean (St.empty raising).rules := by simp [St.empty, NsClean, nsPairs]
  exact reparse_keeps_all _ (reachable_tree_partial _ ops hv hc) (reachable_nsClean _ ops hn) hrt

/-- non-vacuity of T9.1 / T9.2: a history of fourteen operations of all families (object and string arguments,
refused and accepted ones, nested lists, text replace on the empty sheet, namespaces, encoding) lies outside every
region — so `reachable_valid_partial` applies to it — and ends in a non-trivial sheet -/
example :
    let ops : List Op := [
      .setText [charsetS 0x61, commentS, importS, nsS 0x70 0x75, varsS, styleUsing 0x75, mediaS [styleS, pageS [marginS 1]]],
      .insert importS (some 2) true, .insert importS (some 5) false, .add (nsS 0x71 0x76) false, .add varsS true,
      .add (mediaS [commentS]) false, .nInsert [6] styleS (some 0) true, .nInsert [6, 2] (marginS 2) none false,
      .nDelete [6] (-1), .nsSet [0x72] [0x77], .nsDel [0x70], .setEncoding [0x62] true, .delete 1, .setMode false,
      .insert (charsetS 0x63) (some 3) false]
    Clean St.empty ops ∧ (run St.empty ops).rules.length = 11 := by
  decide +kernel

end CssVerif.C09
