import CssVerif.Lemmas.SheetEdit
/-! # C09 — a stylesheet stays structurally valid under any sequence of DOM edits (work in progress) -/
namespace CssVerif.C09
open CssVerif.SheetEdit

/-- a refused `deleteRule` leaves the state untouched -/
theorem delete_refused_unchanged (st : St) (i : Int) (e : Err) (h : (deleteRule st i).2 = .err e) :
    (deleteRule st i).1 = st := by
  unfold deleteRule at *
  split <;> try rfl
  split <;> try rfl
  split <;> simp_all

end CssVerif.C09
