import CssVerif.Lemmas.SheetList
import CssVerif.Lemmas.SheetBlocks
/-!
# C09 — a stylesheet stays structurally valid under any sequence of DOM edits

Property theorems only (helpers: `Lemmas/Sheet*.lean`; specification: `Model/SheetValid.lean`; model:
`Model/SheetEdit.lean`, tied to the source by the lock-step correspondence of `tools/harness/c09.py` and by the
generated tables `Gen/C09RuleKinds.lean`).

The model mirrors the code AFTER the eight `fix:` commits that came out of this check (ordered insert scan, ignored
index, returned index, merged @charset object, @media/@page kind tests, detaching replaced rules, `parentStyleSheet`
at any depth): every theorem that used to carry a region guard (`…_partial`) is now stated and proved in full.
The operations: insertRule (any index, object or text, `inOrder` or not), add, insertRule(CSSRuleList), deleteRule,
encoding, cssText of the sheet, namespaces[p] = u, del namespaces[p], and insertRule / insertRule(CSSRuleList) /
deleteRule / cssText (complete texts, and texts with trailing content or an unclosed block) on the nested list at any
path; raise or log-only mode; accepted, refused or interrupted.

T9.5 (wave 3) extends the object graph to declaration blocks and properties (`Model/SheetBlocks.lean`, a heap with
object identities; helpers `Lemmas/SheetBlocks.lean`): `rule.style = …`, `rule.cssText`, `style.cssText`, `setProperty`,
item assignment, `removeProperty`. The last section states what survives and what breaks when objects that are already
contained are handed in again or the list objects are edited around the DOM methods (`Model/SheetRaw.lean`): these
are excluded by `DOpOK` and listed as known findings.
-/
namespace CssVerif.C09
open CssVerif.SheetEdit CssVerif.SheetEdit.Wit
open CssVerif.Proto (Cps)

/-! ## T9.1a — order and @charset clause -/

/-- **T9.1a** every operation — accepted, refused, or interrupted by an exception — leaves the sheet's list ordered
(@charset only first, @import < @namespace < @variables < style/@media/@page/@font-face; comments and unknown rules
anywhere), for every state, rule kind, index, argument form and mode. No exclusion. -/
theorem step_order (st : St) (op : Op) (h : TopOK st.rules) : TopOK (step st op).1.rules := by
  cases op with
  | insert s i v => exact insertRule_topOK st s i false v _ h
  | add s v => exact insertRule_topOK st s none true v _ h
  | insertOrdered s i v => exact insertRule_topOK st s (some i) true v _ h
  | insertList specs i => exact insertList_topOK st specs i h
  | delete i => exact deleteRule_topOK st i h
  | setEncoding e v => exact setEncoding_topOK st e v h
  | setText specs => exact setText_topOK st specs h
  | nsSet p u => exact nsSet_topOK st p u h
  | nsDel p => exact nsDel_topOK st p h
  | nInsert path s i v => unfold TopOK; rw [step, nInsert_kinds]; exact h
  | nInsertList path specs i => unfold TopOK; rw [step, (nInsertList_view st path specs i).1]; exact h
  | nDelete path i => unfold TopOK; rw [step, nDelete_kinds]; exact h
  | nSetText path kids => unfold TopOK; rw [step, nSetText_kinds]; exact h
  | nSetBroken path => rw [step, nSetBroken_state]; exact h
  | setMode b => exact h

/-- regression witnesses of the two order findings (fixed): `/*c*/ @import "x";` then `add(@variables)`, and
`@import "x";` then `insertRule(@namespace, 0, inOrder=True)` now put the new rule behind the @import -/
theorem order_kept_add_variables :
    kindsOf (run St.empty [.setText [commentS, importS], .add varsS false]).rules = [.comment, .imp, .vars] := by
  decide

theorem order_kept_inorder_index :
    kindsOf (run St.empty [.add importS false, .insertOrdered (nsS 0x70 0x75) 0 false]).rules = [.imp, .ns] := by
  decide

/-! ## T9.1 — all clauses, every operation -/

/-- **T9.1** from a structurally valid state — ordered list, nested lists holding allowed kinds only at every depth,
every rule in the tree naming its container, every dropped (removed, refused, replaced) object naming nothing —
EVERY operation leads to a valid state, provided rule objects handed in are themselves well nested (`OpOK`; texts
are parsed, which guarantees it). No region is excluded any more. -/
theorem step_valid (st : St) (op : Op) (hv : Valid st) (hs : OpOK op) : Valid (step st op).1 := by
  have htop := step_order st op hv.top
  have hinv : Inv st := ⟨hv.kids, hv.links, hv.gone, hv.ids⟩
  suffices h : Inv (step st op).1 from ⟨htop, h.kids, h.links, h.gone, h.ids⟩
  cases op with
  | insert s i v => exact insertRule_inv st s i false v _ hinv (by rcases hs with hs | hs; exact Or.inl hs; exact Or.inr hs)
  | add s v => exact insertRule_inv st s none true v _ hinv (by rcases hs with hs | hs; exact Or.inl hs; exact Or.inr hs)
  | insertOrdered s i v =>
    exact insertRule_inv st s (some i) true v _ hinv (by rcases hs with hs | hs; exact Or.inl hs; exact Or.inr hs)
  | insertList specs i => exact insertList_inv st specs i hinv hs
  | delete i => exact deleteRule_inv st i hinv
  | setEncoding e v => exact setEncoding_inv st e v hinv
  | setText specs => exact setText_inv st specs hinv
  | nsSet p u => exact nsSet_inv st p u hinv
  | nsDel p => exact nsDel_inv st p hinv
  | nInsert path s i v =>
    exact nInsert_inv st path s i v hinv (by rcases hs with hs | hs; exact Or.inl hs; exact Or.inr hs)
  | nInsertList path specs i => exact nInsertList_inv st path specs i hinv hs
  | nDelete path i => exact nDelete_inv st path i hinv
  | nSetText path kids => exact nSetText_inv st path kids hinv
  | nSetBroken path => rw [step, nSetBroken_state]; exact hinv
  | setMode b => exact ⟨hinv.kids, hinv.links, hinv.gone, hinv.ids⟩

/-- regression witnesses of the findings about dropped objects and nested kinds (all fixed): the operations that
used to break `Valid` now keep it, and are refused where they must be -/
theorem valid_after_add_charset :
    Valid (run St.empty [.add (charsetS 0x61) false, .add (charsetS 0x62) false]) := by
  simp only [← validB_iff]; decide

theorem valid_after_clean_refused :
    let st := run St.empty [.add (nsS 0x70 0x61) false, .add (styleUsing 0x61) false]
    (step st (.insert (nsS 0x70 0x62) (some 0) false)).2 = .err .noMod ∧
      Valid (step st (.insert (nsS 0x70 0x62) (some 0) false)).1 ∧
      (step st (.insert (nsS 0x70 0x62) (some 0) false)).1.rules.length = 2 := by
  simp only [← validB_iff]; decide

theorem media_refuses_variables :
    let st := run St.empty [.add (mediaS []) false]
    (step st (.nInsert [0] varsS none false)).2 = .err .hierarchy ∧ Valid (step st (.nInsert [0] varsS none false)).1 := by
  simp only [← validB_iff]; decide

theorem page_refuses_style :
    let st := run St.empty [.add (pageS []) false]
    (step st (.nInsert [0] styleS none false)).2 = .err .hierarchy ∧ Valid (step st (.nInsert [0] styleS none false)).1 := by
  simp only [← validB_iff]; decide

theorem valid_after_text_replace :
    Valid (run St.empty [.add styleS false, .add (mediaS [styleS]) false, .nSetText [1] [commentS], .setText [fontfaceS]]) := by
  simp only [← validB_iff]; decide

/-- a CSSRuleList is inserted as a whole or not at all: `@media{}` and `insertRule(CSSRuleList[style, @font-face])`
is refused and leaves the @media rule empty; the list `[style, comment]` is accepted -/
theorem list_all_or_nothing :
    let st := run St.empty [.add (mediaS []) false]
    (step st (.nInsertList [0] [styleS, fontfaceS] none)).2 = .err .hierarchy ∧
      (step st (.nInsertList [0] [styleS, fontfaceS] none)).1.rules.map (fun r => kindsOf r.kids) = [[]] ∧
      (step st (.nInsertList [0] [styleS, commentS] none)).1.rules.map (fun r => kindsOf r.kids) = [[.style, .comment]] ∧
      Valid (step st (.nInsertList [0] [styleS, fontfaceS] none)).1 := by
  simp only [← validB_iff]; decide

/-! ## T9.2 — reachable states -/

theorem empty_valid (raising : Bool) : Valid (St.empty raising) := by
  refine ⟨topOK_nil, ?_, ?_, ?_, ?_⟩ <;> intro r hr <;> cases hr

/-- **T9.2** every state reached from a valid state (in particular from the empty sheet; a parse is the operation
`setText` on the empty sheet) by a history of ANY length and of ANY operations is valid — by induction over the
history. The only hypothesis: rule objects handed in are well nested. -/
theorem reachable_valid (st : St) (ops : List Op) (hv : Valid st) (hc : AllOK ops) : Valid (run st ops) := by
  induction ops generalizing st with
  | nil => exact hv
  | cons op ops ih =>
    exact ih (step st op).1 (step_valid st op hv (hc op (by simp))) (fun o ho => hc o (by simp [ho]))

/-- the tree alone (no statement about dropped objects needed or made) -/
theorem step_tree (st : St) (op : Op) (hv : ValidTree st) (hs : OpOK op) : ValidTree (step st op).1 := by
  have htop := step_order st op hv.top
  have hl : Live st := ⟨hv.kids, hv.links, hv.ids⟩
  suffices h : Live (step st op).1 from ⟨htop, h.kids, h.links, h.ids⟩
  cases op with
  | insert s i v => exact insertRule_live st s i false v _ hl (by rcases hs with hs | hs; exact Or.inl hs; exact Or.inr hs)
  | add s v => exact insertRule_live st s none true v _ hl (by rcases hs with hs | hs; exact Or.inl hs; exact Or.inr hs)
  | insertOrdered s i v =>
    exact insertRule_live st s (some i) true v _ hl (by rcases hs with hs | hs; exact Or.inl hs; exact Or.inr hs)
  | insertList specs i => exact insertList_live st specs i hl hs
  | delete i => exact deleteRule_live st i hl
  | setEncoding e v => exact setEncoding_live st e v hl
  | setText specs => exact setText_live st specs hl
  | nsSet p u => exact nsSet_live st p u hl
  | nsDel p => exact nsDel_live st p hl
  | nInsert path s i v =>
    exact nInsert_live st path s i v hl (by rcases hs with hs | hs; exact Or.inl hs; exact Or.inr hs)
  | nInsertList path specs i => exact nInsertList_live st path specs i hl hs
  | nDelete path i => exact nDelete_live st path i hl
  | nSetText path kids => exact nSetText_live st path kids hl
  | nSetBroken path => rw [step, nSetBroken_state]; exact hl
  | setMode b => exact ⟨hl.kids, hl.links, hl.ids⟩

theorem reachable_tree (st : St) (ops : List Op) (hv : ValidTree st) (hc : AllOK ops) : ValidTree (run st ops) := by
  induction ops generalizing st with
  | nil => exact hv
  | cons op ops ih =>
    exact ih (step st op).1 (step_tree st op hv (hc op (by simp))) (fun o ho => hc o (by simp [ho]))

/-! ## the returned index; the public getter `parentStyleSheet` -/

/-- **returned index** whenever `insertRule` / `add` (any index, ordered or not, object or text) returns an index,
the rule at that index is the new object — of the kind handed in, created by this call, naming the sheet. The one
exception is by design: an ordered add of @charset onto an existing @charset rule copies the encoding and returns
index 0, the index of that rule. -/
theorem insert_index (st : St) (s : Spec) (index : Option Int) (inOrder viaStr : Bool) (n : Nat)
    (hids : ∀ x ∈ st.rules, x.id < st.next)
    (hnm : ¬ (inOrder = true ∧ s.kind = .charset ∧ firstIs [.charset] (kindsOf st.rules) = true))
    (hok : (insertRule st s index inOrder viaStr (!viaStr)).2 = .ok n) :
    ∃ x, (insertRule st s index inOrder viaStr (!viaStr)).1.rules[n]? = some x ∧
      x.kind = s.kind ∧ x.pss = true ∧ x.id = st.next :=
  insertRule_index st s index inOrder viaStr _ n hids hnm hok

/-- regression witness (fixed): `@namespace p "a"; @namespace q "b"; x{}` then `insertRule(@namespace z "a", 2)`
returns 1, where the new rule stands after the clean-up removed the rule at index 0 -/
theorem index_after_clean :
    let st := run St.empty [.add (nsS 0x70 0x61) false, .add (nsS 0x71 0x62) false, .add styleS false]
    let r := step st (.insert (nsS 0x7A 0x61) (some 2) false)
    r.2 = .ok 1 ∧ (r.1.rules[1]?.map (·.pre)) = some [0x7A] := by
  decide

/-- **parentStyleSheet** in a valid state the public getter (which walks up the parent rules) answers the sheet for
every rule of the tree, at every depth -/
theorem parentStyleSheet_all_depths (st : St) (h : Valid st) : ∀ r ∈ st.rules, r.pssOK [] = true :=
  derivedPss_all st h.links

/-- non-vacuity / regression witness: a freshly parsed `@media{@media{a{}}}` (depth 2) -/
example :
    let st := run St.empty [.setText [mediaS [mediaS [styleS]]]]
    Valid st ∧ (st.rules.all fun r => r.pssOK []) = true ∧
      (st.rules.all fun c => c.kids.all fun k => !k.kids.isEmpty) = true := by
  simp only [← validB_iff]; decide

/-! ## T9.3 — serialising and reparsing a valid sheet loses no rule -/

/-- **T9.3** for every sheet whose tree is structurally valid (`ValidTree`; every `Valid` state is) and whose rules
each survive a round trip on their own (`roundTrips`: selectors use declared namespaces, an @page rule holds each
margin once, @namespace rules have a URI) and whose @namespace rules are all effective (`NsClean`): parsing the
serialisation — the dispatcher with its ordering levels 0..3 and the `S` bump, one `insertRule` per statement, the
nested parsers of @media and @page, the final `_cleanNamespaces`, all in log-only mode — gives back the same tree of
rule kinds, at every depth. No rule is lost to an ordering or nesting error. (Serialisation itself is the identity on
rule descriptions here; that a single rule's text parses back to that rule is C03 and is exercised by the oracle.) -/
theorem reparse_keeps_all (st : St) (hv : ValidTree st) (hns : NsClean st.rules)
    (hrt : ∀ r ∈ st.rules, r.roundTrips (nsUris st.rules) = true) :
    Rule.shapes (reparse st).rules = Rule.shapes st.rules :=
  (reparse_rules st hv.top hv.kids hns hrt).1

theorem reparse_keeps_kinds (st : St) (hv : ValidTree st) (hns : NsClean st.rules)
    (hrt : ∀ r ∈ st.rules, r.roundTrips (nsUris st.rules) = true) :
    kindsOf (reparse st).rules = kindsOf st.rules :=
  (reparse_rules st hv.top hv.kids hns hrt).2

/-- the hypothesis `ValidTree` is needed: a list that is not ordered (here written down directly: @variables,
comment, @import — what `add` used to produce before the fix) loses its @import in the reparse although every rule
round-trips on its own -/
theorem reparse_loses_when_unordered :
    let st : St := { rules := [⟨0, .vars, [], [], [], [], true, none, []⟩, ⟨1, .comment, [], [], [], [], true, none, []⟩,
      ⟨2, .imp, [], [], [], [], true, none, []⟩], gone := [], next := 3, raising := true }
    ¬ TopOK st.rules ∧ (st.rules.all fun r => r.roundTrips (nsUris st.rules)) = true ∧
      kindsOf (reparse st).rules = [.vars, .comment] := by
  decide

/-- non-vacuity of T9.3: a sheet with every kind, nested lists, a used namespace — all hypotheses hold -/
example :
    let st := run St.empty [.setText [charsetS 0x61, commentS, importS, nsS 0x70 0x75, nsS 0x71 0x76, varsS,
      styleUsing 0x75, mediaS [styleUsing 0x76, pageS [marginS 1, marginS 2], mediaS [commentS]], pageS [marginS 1],
      fontfaceS, unknownS]]
    Valid st ∧ st.rules.length = 11 ∧ (st.rules.all fun r => r.roundTrips (nsUris st.rules)) = true ∧
      ((nsPairs st.rules).map (·.1)).Nodup ∧ ((nsPairs st.rules).map (·.2)).Nodup := by
  simp only [← validB_iff]; decide +kernel

/-! ## T9.4 — the @namespace rules stay effective; T9.3 for reachable states -/

/-- **T9.4** EVERY operation leaves the @namespace rules of the sheet clean — prefixes pairwise distinct, URIs
pairwise distinct, i.e. every @namespace rule effective -/
theorem step_nsClean (st : St) (op : Op) (h : NsClean st.rules) : NsClean (step st op).1.rules := by
  cases op with
  | insert s i v => exact insertRule_nsClean st s i false v _ h
  | add s v => exact insertRule_nsClean st s none true v _ h
  | insertOrdered s i v => exact insertRule_nsClean st s (some i) true v _ h
  | insertList specs i => exact insertList_nsClean st specs i h
  | delete i => exact deleteRule_nsClean st i h
  | setEncoding e v => exact setEncoding_nsClean st e v h
  | setText specs => exact setText_nsClean st specs h
  | nsSet p u => exact nsSet_nsClean st p u h
  | nsDel p => exact nsDel_nsClean st p h
  | nInsert path s i v => exact nsClean_of_pairs h (nInsert_nsPairs st path s i v)
  | nInsertList path specs i => exact nsClean_of_pairs h (nInsertList_view st path specs i).2
  | nDelete path i => exact nsClean_of_pairs h (nDelete_nsPairs st path i)
  | nSetText path kids => exact nsClean_of_pairs h (nSetText_nsPairs st path kids)
  | nSetBroken path => rw [step, nSetBroken_state]; exact h
  | setMode b => exact h

theorem reachable_nsClean (st : St) (ops : List Op) (h : NsClean st.rules) : NsClean (run st ops).rules := by
  induction ops generalizing st with
  | nil => exact h
  | cons op ops ih => exact ih (step st op).1 (step_nsClean st op h)

/-- a text replacement is refused as a whole (exception, state untouched) or accepted without any exception: the
final `_cleanNamespaces` of an accepted text cannot raise -/
theorem setText_all_or_nothing (st : St) (specs : List Spec) :
    (∃ e, (step st (.setText specs)).2 = .err e ∧ (step st (.setText specs)).1 = st) ∨
      (step st (.setText specs)).2 = .none :=
  setText_outcome st specs

/-- **T9.3 for reachable states** after ANY history of ANY operations from the empty sheet (rule objects handed in
well nested), the sheet whose rules each round-trip on their own is reparsed without loss: the structural
hypotheses of T9.3 (`ValidTree`, `NsClean`) are invariants, not assumptions. -/
theorem reparse_after_history (raising : Bool) (ops : List Op) (hc : AllOK ops)
    (hrt : ∀ r ∈ (run (St.empty raising) ops).rules,
      r.roundTrips (nsUris (run (St.empty raising) ops).rules) = true) :
    Rule.shapes (reparse (run (St.empty raising) ops)).rules = Rule.shapes (run (St.empty raising) ops).rules := by
  have hv : ValidTree (St.empty raising) := by
    refine ⟨topOK_nil, ?_, ?_, ?_⟩ <;> intro r hr <;> cases hr
  have hn : NsClean (St.empty raising).rules := by simp [St.empty, NsClean, nsPairs]
  exact reparse_keeps_all _ (reachable_tree _ ops hv hc) (reachable_nsClean _ ops hn) hrt

/-- non-vacuity of T9.1 / T9.2: a history of operations of all families (object and string arguments, refused and
accepted ones, rule lists, nested lists, text replaces on non-empty lists, namespaces, encoding, the formerly
excluded ordered adds) satisfies `AllOK` and ends in a non-trivial sheet -/
example :
    let ops : List Op := [
      .setText [charsetS 0x61, commentS, importS, nsS 0x70 0x75, varsS, styleUsing 0x75, mediaS [styleS, pageS [marginS 1]]],
      .insert importS (some 2) true, .insert importS (some 5) false, .add (nsS 0x71 0x76) false, .add varsS true,
      .add (mediaS [commentS]) false, .nInsert [6] styleS (some 0) true, .nInsert [6, 2] (marginS 2) none false,
      .nDelete [6] (-1), .nsSet [0x72] [0x77], .nsDel [0x70], .setEncoding [0x62] true, .delete 1, .setMode false,
      .insert (charsetS 0x63) (some 3) false, .add (charsetS 0x64) false, .insertList [styleS, fontfaceS] none,
      .insertList [styleS, importS] none, .nInsertList [6] [styleS, varsS] none, .nSetText [6] [styleS],
      .insertOrdered varsS 0 false]
    AllOK ops ∧ (run St.empty ops).rules.length = 15 := by
  decide +kernel

/-! ## T9.5 — declaration blocks and properties are objects of the model

`Model/SheetBlocks.lean`: every rule object with a `style` holds a `CSSStyleDeclaration` object, which holds
`Property` objects; `_parentRule` / `_parent` are raw back pointers in a heap. `DValid` = `Valid` for the rules and
`DLinks`: a block that is some rule's `style` names that rule and a block names only a rule that holds it; a property
in a block names that block and a property names only a block that holds it. -/

/-- **T9.5** every operation — all operations on rule lists (`DOp.sheet`), `rule.style = <new block object>` /
`rule.style = text` / `rule.cssText = …`, `style.cssText = …`, `setProperty` (string or Property object, replacing or
not, empty value), item assignment, `removeProperty` / `del style[name]`; accepted or refused, raise or log-only mode
— leads from a valid object graph to a valid object graph: every rule, declaration block and property names its
actual container, every removed / replaced / refused object names none. `DOpOK`: rule objects handed in are well
nested, and a block object handed to a rule is not held by another rule (see `share_style_breaks_links`). -/
theorem dstep_valid (ds : DSt) (op : DOp) (hv : DValid ds) (hs : DOpOK op) : DValid (dstep ds op).1 := by
  refine ⟨?_, dstep_links ds op hv.links hs⟩
  cases op with
  | sheet o => rw [dstep_sheet_st]; exact step_valid ds.st o hv.sheet hs
  | newStyle path items form => rw [dstep_st _ _ (by intro o h; cases h) (by rintro (⟨_, _, h⟩ | ⟨_, _, h⟩ | ⟨_, _, h⟩) <;> cases h)]; exact hv.sheet
  | shareStyle path src => rw [dstep_st _ _ (by intro o h; cases h) (by rintro (⟨_, _, h⟩ | ⟨_, _, h⟩ | ⟨_, _, h⟩) <;> cases h)]; exact hv.sheet
  | blockText path items => rw [dstep_st _ _ (by intro o h; cases h) (by rintro (⟨_, _, h⟩ | ⟨_, _, h⟩ | ⟨_, _, h⟩) <;> cases h)]; exact hv.sheet
  | setProp path name wf empty replace => rw [dstep_st _ _ (by intro o h; cases h) (by rintro (⟨_, _, h⟩ | ⟨_, _, h⟩ | ⟨_, _, h⟩) <;> cases h)]; exact hv.sheet
  | setPropObj path name => rw [dstep_st _ _ (by intro o h; cases h) (by rintro (⟨_, _, h⟩ | ⟨_, _, h⟩ | ⟨_, _, h⟩) <;> cases h)]; exact hv.sheet
  | removeProp path name => rw [dstep_st _ _ (by intro o h; cases h) (by rintro (⟨_, _, h⟩ | ⟨_, _, h⟩ | ⟨_, _, h⟩) <;> cases h)]; exact hv.sheet
  | sharePropObj path src i => rw [dstep_st _ _ (by intro o h; cases h) (by rintro (⟨_, _, h⟩ | ⟨_, _, h⟩ | ⟨_, _, h⟩) <;> cases h)]; exact hv.sheet
  | rawDelete path i => exact absurd hs (by simp [DOpOK])
  | rawInsert s i => exact absurd hs (by simp [DOpOK])
  | reinsert path index => exact absurd hs (by simp [DOpOK])

/-- the empty sheet, where every rule object yet to be made comes with its own block, is valid -/
theorem dempty_valid (raising : Bool) : DValid (DSt.init (St.empty raising)) :=
  ⟨empty_valid raising, init_links _⟩

/-- **T9.5 for histories** of any length and any operations on rules, blocks and properties -/
theorem dreachable_valid (ds : DSt) (ops : List DOp) (hv : DValid ds) (hc : ∀ op ∈ ops, DOpOK op) :
    DValid (drun ds ops) := by
  induction ops generalizing ds with
  | nil => exact hv
  | cons op ops ih =>
    exact ih (dstep ds op).1 (dstep_valid ds op hv (hc op (by simp))) (fun o ho => hc o (by simp [ho]))

/-- in a valid object graph the block of EVERY rule object — at any depth of the tree, or removed from it (a removed
rule keeps its block) — names that rule, and its properties name the block -/
theorem block_and_properties_name_container (ds : DSt) (hv : DValid ds) (rid : Nat) :
    ds.bprule (ds.style rid) = some rid ∧ ∀ p ∈ ds.bprops (ds.style rid), ds.ph.parent p = some (ds.style rid) :=
  ⟨hv.links.blockUp rid, fun p hp => hv.links.propUp _ p hp⟩

/-- a block object that is no rule's `style` (replaced by an edit) names no rule; a property object that is in no
block (removed, replaced, or handed in and not taken) names no block -/
theorem removed_objects_name_none (ds : DSt) (hv : DValid ds) :
    (∀ b, (∀ rid, ds.style rid ≠ b) → ds.bprule b = none) ∧
    (∀ p, (∀ b, p ∉ ds.bprops b) → ds.ph.parent p = none) := by
  constructor
  · intro b h
    cases hb : ds.bprule b with
    | none => rfl
    | some r => exact absurd (hv.links.blockOnly b r hb) (h r)
  · intro p h
    cases hp : ds.ph.parent p with
    | none => rfl
    | some b => exact absurd (hv.links.propOnly p b hp) (h b)

/-- no object is held twice: a block is the `style` of one rule, a property is in one block -/
theorem containers_unique (ds : DSt) (hv : DValid ds) :
    (∀ r1 r2, ds.style r1 = ds.style r2 → r1 = r2) ∧
    (∀ p b1 b2, p ∈ ds.bprops b1 → p ∈ ds.bprops b2 → b1 = b2) := by
  refine ⟨fun r1 r2 h => hv.links.style_inj h, fun p b1 b2 h1 h2 => ?_⟩
  have e1 := hv.links.propUp b1 p h1
  rw [hv.links.propUp b2 p h2] at e1
  exact (Option.some.inj e1).symm

/-- what the accepted edits do (so that T9.5 is not about an idle model): a new block replaces the old one, which is
recorded and names nothing, the new one names the rule and has one property per well-formed declaration;
`removeProperty` leaves no property of that name, the removed objects name nothing and are recorded -/
theorem newStyle_effect (ds : DSt) (path : List Nat) (items : List (Cps × Bool)) (form rid : Nat) (names : List Cps)
    (hv : DValid ds) (hr : styledAt ds.st path = some rid) (hp : parseItems ds.st.raising items = some names) :
    let ds' := (dstep ds (.newStyle path items form)).1
    ds'.style rid ≠ ds.style rid ∧ ds'.bprule (ds.style rid) = none ∧ ds'.bprule (ds'.style rid) = some rid ∧
      (ds'.bprops (ds'.style rid)).length = names.length ∧ ds.style rid ∈ ds'.goneB := by
  simp only [dstep, hr, hp]
  exact newStyleAt_effect ds rid names hv.links

theorem removeProp_effect (ds : DSt) (path : List Nat) (name : Cps) (rid : Nat) (hne : name ≠ [])
    (hr : styledAt ds.st path = some rid) :
    let ds' := (dstep ds (.removeProp path name)).1
    (∀ p ∈ ds'.bprops (ds'.style rid), ds'.ph.name p ≠ name) ∧
      (∀ p ∈ ds.bprops (ds.style rid), ds.ph.name p = name → ds'.ph.parent p = none ∧ p ∈ ds'.goneP) := by
  have : name.isEmpty = false := by cases name with
    | nil => exact absurd rfl hne
    | cons a l => rfl
  simp only [dstep, hr, this]
  exact removePropAt_effect ds rid name

/-- a refused text leaves everything as it was: `style.cssText = 'top: ; x'` in raise mode -/
theorem blockText_refused (ds : DSt) (path : List Nat) (items : List (Cps × Bool)) (rid : Nat)
    (hr : styledAt ds.st path = some rid) (hm : ds.st.raising = true) (hbad : items.any (fun i => !i.2) = true) :
    dstep ds (.blockText path items) = (ds, .err .syntaxErr) := by
  simp [dstep, hr, parseItems, hm, hbad]

/-- **re-inserting a contained object breaks the links** (why `DOpOK` asks for it not to happen):
`a{} b{}` then `rule0.style = rule1.style` — the block is held by two rules and names only the second of them.
Recorded as known finding `C09-shared-declaration-block`. -/
theorem share_style_breaks_links :
    let ds := drun (DSt.init St.empty) [.sheet (.add styleS false), .sheet (.add styleS false), .shareStyle [0] [1]]
    ds.style 0 = ds.style 1 ∧ ds.bprule (ds.style 1) = some 0 ∧ ¬ DLinks ds := by
  refine ⟨by decide, by decide, fun h => ?_⟩
  have := h.blockUp 1
  revert this
  decide

/-- the same one level down: `a{} b{}`, `rule1.style.setProperty('top', …)`, then
`rule0.style.setProperty(<that Property object>)` — the property is in two blocks and names only the first rule's.
Recorded as known finding `C09-shared-property`. -/
theorem share_property_breaks_links :
    let ds := drun (DSt.init St.empty) [.sheet (.add styleS false), .sheet (.add styleS false),
      .setProp [1] [0x74] true false true, .sharePropObj [0] [1] 1]
    (∃ p, p ∈ ds.bprops (ds.style 0) ∧ p ∈ ds.bprops (ds.style 1) ∧ ds.ph.parent p = some (ds.style 0)) ∧
      ¬ DLinks ds := by
  refine ⟨⟨PId.made 0, by decide, by decide, by decide⟩, fun h => ?_⟩
  have := h.propUp (BId.init 1) (PId.made 0) (by decide)
  revert this
  decide

/-! ## edits that go around the DOM methods (`Model/SheetRaw.lean`): what survives, what breaks -/

/-- `del sheet.cssRules[i]` / `del rule.cssRules[i]` (the live list object; the package's own tests do it) keeps the
TREE valid — order, nested kinds, parent links of every rule that stays — and keeps blocks and properties linked.
FULL statement (`Valid → Valid`) is false: the removed object still names its container, see
`raw_delete_breaks_valid`. -/
theorem raw_delete_keeps_tree_partial (ds : DSt) (path : List Nat) (i : Int) (hv : ValidTree ds.st) (hl : DLinks ds) :
    ValidTree (dstep ds (.rawDelete path i)).1.st ∧ DLinks (dstep ds (.rawDelete path i)).1 := by
  refine ⟨?_, dstep_raw_links ds _ hl (Or.inl ⟨path, i, rfl⟩)⟩
  have hlive : Live ds.st := ⟨hv.kids, hv.links, hv.ids⟩
  show ValidTree (if path.isEmpty then rawDelete ds.st i else nRawDelete ds.st path i).1
  split
  · have := rawDelete_live ds.st i hlive
    exact ⟨rawDelete_topOK ds.st i hv.top, this.kids, this.links, this.ids⟩
  · have := nRawDelete_live ds.st path i hlive
    exact ⟨nRawDelete_topOK ds.st path i hv.top, this.kids, this.links, this.ids⟩

/-- `a{}` then `del sheet.cssRules[0]`: the removed rule object still names the sheet — `Valid` is lost (known finding
`C09-raw-list-edit`); the same one level down: the removed rule still names the @media rule -/
theorem raw_delete_breaks_valid :
    let ds := drun (DSt.init St.empty) [.sheet (.add styleS false)]
    Valid ds.st ∧ ¬ Valid (dstep ds (.rawDelete [] 0)).1.st ∧
      ¬ Valid (drun (DSt.init St.empty) [.sheet (.add (mediaS [styleS]) false), .rawDelete [0] 0]).st := by
  simp only [← validB_iff]; decide

/-- `@import "x";` then `sheet.cssRules.insert(0, <style rule>)`: no position check, no back pointer — the order and
the links are lost -/
theorem raw_insert_breaks_order_and_links :
    let ds := drun (DSt.init St.empty) [.sheet (.add importS false), .rawInsert styleS 0]
    ¬ TopOK ds.st.rules ∧ ¬ (∀ r ∈ ds.st.rules, r.linksOK none true = true) := by
  decide

/-- a contained rule object handed to `sheet.insertRule` goes through the position checks: the ORDER is kept — -/
theorem reinsert_keeps_order (ds : DSt) (path : List Nat) (index : Option Int) (h : TopOK ds.st.rules) :
    TopOK (dstep ds (.reinsert path index)).1.st.rules :=
  reinsert_topOK ds.st path index h

/-- — but it is not taken out of its old place: `@media{a{}}` then `sheet.insertRule(media.cssRules[0], 1)` returns 1,
the object stands in both lists, names the @media rule as parent rule and the sheet as parent sheet (known finding
`C09-rule-reinserted`; the package's own `resolveImports` moves rule objects this way) -/
theorem reinsert_breaks_links :
    let r := dstep (drun (DSt.init St.empty) [.sheet (.add (mediaS [styleS]) false)]) (.reinsert [0, 0] (some 1))
    r.2 = .ok 1 ∧ kindsOf r.1.st.rules = [.media, .style] ∧ ¬ (∀ x ∈ r.1.st.rules, x.linksOK none true = true) := by
  decide

/-- non-vacuity of T9.5: a history over rules, blocks and properties of all forms satisfies `DOpOK`, and ends with
two replaced blocks and six loose property objects recorded -/
example :
    let t : Cps := [0x74]
    let c : Cps := [0x63]
    let ops : List DOp := [
      .sheet (.setText [styleS, mediaS [styleS, pageS [marginS 1]], fontfaceS]),
      .newStyle [0] [(t, true), (c, true)] 0, .blockText [0] [(t, true)], .setProp [0] c true false true,
      .setProp [0] c true false true, .setProp [0] c true false false, .setPropObj [0] t, .setPropObj [1, 1, 0] t,
      .removeProp [0] c, .newStyle [1, 1] [(t, false)] 1, .sheet (.setMode false), .newStyle [1, 1] [(t, false)] 2,
      .blockText [2] [(t, false), (c, true)], .shareStyle [2] [2], .sheet (.delete 0), .setProp [0, 0] t true true true]
    (∀ op ∈ ops, DOpOK op) ∧ (drun (DSt.init St.empty) ops).goneB.length = 2 ∧
      (drun (DSt.init St.empty) ops).goneP.length = 6 := by
  decide +kernel

end CssVerif.C09
