import CssVerif.Lemmas.SheetEdit
/-!
# C09 — a stylesheet stays structurally valid under any sequence of DOM edits

Property theorems only (helpers: `Lemmas/SheetEdit.lean`; specification: `Model/SheetValid.lean`; model:
`Model/SheetEdit.lean`, tied to the source by the lock-step correspondence of `tools/harness/c09.py` and by the
generated tables `Gen/C09RuleKinds.lean`).
-/
namespace CssVerif.C09
open CssVerif.SheetEdit CssVerif.SheetEdit.Wit

/-! ## T9.1a — order and @charset clause -/

/-- **T9.1a** FULL STATEMENT: `∀ st op, TopOK st.rules → TopOK (step st op).1.rules` — refuted for the code as it is by
the two witnesses `order_breaks_add_variables`, `order_breaks_inorder_index` below (known findings).

PROVED: every operation — accepted, refused, or interrupted by an exception — leaves the sheet's list ordered
(@charset only first, @import < @namespace < @variables < style/@media/@page/@font-face), for every state, rule kind,
index, string or object argument, raise or log-only mode, EXCEPT the operations of `OrderRegion`: `add(@variables)` /
`insertRule(…, inOrder=True)` in the two regions described there. -/
theorem step_order_partial (st : St) (op : Op) (h : TopOK st.rules) (hr : ¬ OrderRegion st op) :
    TopOK (step st op).1.rules := by
  cases op with
  | insert s i v => exact insertRule_topOK st s i false v _ h (by simp) (by simp)
  | add s v =>
    exact insertRule_topOK st s none true v _ h (by
      intro ⟨_, hk, hb⟩; exact hr ⟨hk, hb⟩) (by simp)
  | insertOrdered s i v =>
    apply insertRule_topOK st s (some i) true v _ h
    · intro ⟨_, hk, hb⟩; exact hr (Or.inl ⟨hk, hb⟩)
    · intro _ hf
      right
      by_cases hi : i = (st.rules.length : Int)
      · rw [hi]
      · exact absurd (Or.inr ⟨hf, hi⟩) hr
  | delete i => exact deleteRule_topOK st i h
  | setEncoding e v => exact setEncoding_topOK st e v h
  | setText specs => exact setText_topOK st specs h
  | nsSet p u => exact nsSet_topOK st p u h
  | nsDel p => exact nsDel_topOK st p h
  | nInsert path s i v => unfold TopOK; rw [step, nInsert_kinds]; exact h
  | nDelete path i => unfold TopOK; rw [step, nDelete_kinds]; exact h
  | nSetText path kids => unfold TopOK; rw [step, nSetText_kinds]; exact h
  | setMode b => exact h

/-! machine-checked witnesses of the two order findings (the model exhibits them; the harness replays them on the
implementation on every run) -/

/-- C09-add-variables-scan: `/*c*/ @import "x";` then `add(@variables{…})` puts @variables first -/
theorem order_breaks_add_variables :
    let st := run (St.empty) [.setText [commentS, importS]]
    TopOK st.rules ∧ ¬ TopOK (step st (.add varsS false)).1.rules := by
  decide

/-- C09-inorder-index-not-ignored: `@import "x";` then `insertRule(@namespace, 0, inOrder=True)` puts it first -/
theorem order_breaks_inorder_index :
    let st := run (St.empty) [.add importS false]
    TopOK st.rules ∧ ¬ TopOK (step st (.insertOrdered (nsS 0x70 0x75) 0 false)).1.rules := by
  decide

/-- non-vacuity: outside the region the same operations are covered, e.g. `add(@variables)` after `@import; /*c*/` -/
example : ¬ OrderRegion (run (St.empty) [.setText [importS, commentS]]) (.add varsS false) := by
  decide

end CssVerif.C09
