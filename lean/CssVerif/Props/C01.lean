import CssVerif.Lemmas.SerCost
import CssVerif.Props.C05
import CssVerif.Props.C04
/-!
# C01 — parsing any input returns a DOM: never raises, never hangs

Three layers are proved here: (1) the tokenizer model never spins, never raises and needs no fuel, for every
text (from the generated productions being non-nullable with CHAR / INVALID as catch-all); (2) the structure
kernel's token collector `_tokensupto2` and the nested-@media recursion always terminate and neither lose nor
invent tokens; (3) the cost of serialising a value is linear in its size. The never-raises clause of the WHOLE
parser (selectors, values, DOM construction) is decided by exploration of the implementation, see
tools/harness/c01.py and DESIGN.md.
-/
namespace CssVerif.C01
open CssVerif.SerCost

/-- T1.1 the tokenizer terminates regularly on EVERY text, in both modes, with comments kept or dropped: it never
finds itself without a matching production, never makes an empty step, never raises (`found[0]`, `int()`), and the
model's fuel is never used up. (Model: `Model/Tok.lean`, tied to `tokenize2.py` by the C05 correspondence; productions
regenerated from `cssproductions.py` on every run.) -/
theorem tokenizer_total (text : Proto.Cps) (fullsheet doComments : Bool) :
    ∃ line col, (Tok.tokenize text fullsheet doComments).stop = .done line col :=
  C05.tokenize_total text fullsheet doComments

/-- … because no production can match the empty string -/
theorem tokenizer_always_advances : ∀ p ∈ Gen.C05.productions, p.2.nonNullable = true :=
  C05.productions_nonNullable

/-- … and what it reads is exactly the input: nothing is skipped, nothing is read twice -/
theorem tokenizer_reads_everything_once (text : Proto.Cps) (fullsheet doComments : Bool) :
    Tok.spans (Tok.tokenize text fullsheet doComments).items = text :=
  C05.spans_tile text fullsheet doComments

/-- T1.2 `_tokensupto2` (the collector every statement / declaration / value parser is built on) is total and
hands back every token exactly once: collected ++ left-over = input, for every mode and every token list. Every
parser loop of the structure kernel is therefore a recursion on a strictly shorter list (the Lean definitions are
accepted without fuel). -/
theorem upto_total_consumes (m : Struct.Mode) (ts : List Struct.Tok) :
    (Struct.upto m none ts).1 ++ (Struct.upto m none ts).2 = ts :=
  Props.C04.upto_splits m ts

/-- the only fuelled recursion of the structure kernel, `@media` nested in `@media`, never runs out of fuel and
its result does not depend on the amount -/
theorem nested_media_needs_no_fuel (O : Struct.Oracle) (ns : List (Proto.Cps × Proto.Cps)) (f₁ f₂ : Nat)
    (ts : List Struct.Tok) (h1 : ts.length < f₁) (h2 : ts.length < f₂) :
    Struct.mediaRule O ns f₁ ts = Struct.mediaRule O ns f₂ ts ∧ Struct.mediaRule O ns f₁ ts ≠ none :=
  Props.C04.media_fuel_irrelevant O ns f₁ f₂ ts h1 h2

/-- T1.6 with the repaired serializer (one evaluation of a child's `cssText` per append) the number of
serializer entries equals the number of function nodes of the value — linear, for EVERY value tree. -/
theorem serialize_visits_linear (v : V) : visits 1 v = fnCount v := visits_one v

/-- … whereas evaluating the child's `cssText` twice per append (the pinned tree: `hasattr` then the attribute)
costs `2^d - 1` entries on the chain `f(f(…f(1)…))` of depth `d`, whose size is `d`: exponential. This is the
behaviour the check must report if it ever comes back. -/
theorem double_evaluation_is_exponential (d : Nat) :
    visits 2 (chain d) + 1 = 2 ^ d ∧ fnCount (chain d) = d :=
  ⟨visits_chain_two d, fnCount_chain d⟩

/-! non-vacuity / concrete instances -/
example : visits 1 (.fn [.fn [.leaf, .fn [.leaf]], .leaf]) = 3 := by decide
example : visits 2 (chain 10) = 1023 := by decide

end CssVerif.C01
