import CssVerif.Lemmas.SerCost
/-!
# C01 — parsing any input returns a DOM: never raises, never hangs

Cost clause for serialisation. (The totality theorems of the tokenizer and of the structure kernel are added
to this file as those kernels are merged; the never-raises clause of the whole parser is decided by
exploration of the implementation, see tools/harness/c01.py and DESIGN.md.)
-/
namespace CssVerif.C01
open CssVerif.SerCost

/-- T1.6 with the repaired serializer (one evaluation of a child's `cssText` per append) the number of
serializer entries equals the number of function nodes of the value — linear, for EVERY value tree. -/
theorem serialize_visits_linear (v : V) : visits 1 v = fnCount v := visits_one v

/-- … whereas evaluating the child's `cssText` twice per append (the pinned tree: `hasattr` then the attribute)
costs `2^d - 1` entries on the chain `f(f(…f(1)…))` of depth `d`, whose size is `d`: exponential. This is the
behaviour the check must report if it ever comes back. -/
theorem double_evaluation_is_exponential (d : Nat) :
    visits 2 (chain d) + 1 = 2 ^ d ∧ fnCount (chain d) = d :=
  ⟨visits_chain_two d, fnCount_chain d⟩

/-! non-vacuity / concrete instances -/
example : visits 1 (.fn [.fn [.leaf, .fn [.leaf]], .leaf]) = 3 := by decide
example : visits 2 (chain 10) = 1023 := by decide

end CssVerif.C01
