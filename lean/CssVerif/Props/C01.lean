import CssVerif.Lemmas.SerCost
import CssVerif.Lemmas.SelTotal
import CssVerif.Lemmas.MediaTotal
import CssVerif.Lemmas.TokDom
import CssVerif.Lemmas.ParseSteps
import CssVerif.Lemmas.StructLocal
import CssVerif.Lemmas.ParseAllDom
import CssVerif.Lemmas.MediaPrelude
import CssVerif.Props.C05
import CssVerif.Props.C04
/-!
# C01 — parsing any input returns a DOM: never raises, never hangs

Layers proved here: (1) the tokenizer model never spins, never raises and needs no fuel, for every text (from the
generated productions being non-nullable with CHAR / INVALID as catch-all); (2) the structure kernel's token
collector `_tokensupto2` and the nested-@media recursion always terminate and neither lose nor invent tokens;
(3) the parser kernels COMPOSED (`Model/ParseAll.lean`: text → tokens → sheet dispatcher → selector machine on every
ruleset prelude / declaration-block parser on every block / media engine on every `@media` prelude) return on every
text without an exception value and without running out of fuel (`parse_kernels_total`; the media engine on the
token domain of its model, `media_engine_total_partial`), with one loop iteration per token in every loop
(`parse_steps_bound_partial`); (4) the cost of serialising a value is linear in its size. The never-raises clause for
what stays opaque in the composition (property values, the bodies of the other at-rules, DOM construction, imports) is
decided by exploration of the implementation, see tools/harness/c01.py.
-/
namespace CssVerif.C01
open CssVerif.SerCost

/-- T1.1 the tokenizer terminates regularly on EVERY text, in both modes, with comments kept or dropped: it never
finds itself without a matching production, never makes an empty step, never raises (`found[0]`, `int()`), and the
model's fuel is never used up. (Model: `Model/Tok.lean`, tied to `tokenize2.py` by the C05 correspondence; productions
regenerated from `cssproductions.py` on every run.) -/
theorem tokenizer_total (text : Proto.Cps) (fullsheet doComments : Bool) :
    ∃ line col, (Tok.tokenize text fullsheet doComments).stop = .done line col :=
  C05.tokenize_total text fullsheet doComments

/-- … because no production can match the empty string -/
theorem tokenizer_always_advances : ∀ p ∈ Gen.C05.productions, p.2.nonNullable = true :=
  C05.productions_nonNullable

/-- … and what it reads is exactly the input: nothing is skipped, nothing is read twice -/
theorem tokenizer_reads_everything_once (text : Proto.Cps) (fullsheet doComments : Bool) :
    Tok.spans (Tok.tokenize text fullsheet doComments).items = text :=
  C05.spans_tile text fullsheet doComments

/-- T1.2 `_tokensupto2` (the collector every statement / declaration / value parser is built on) is total and
hands back every token exactly once: collected ++ left-over = input, for every mode and every token list. Every
parser loop of the structure kernel is therefore a recursion on a strictly shorter list (the Lean definitions are
accepted without fuel). -/
theorem upto_total_consumes (m : Struct.Mode) (ts : List Struct.Tok) :
    (Struct.upto m none ts).1 ++ (Struct.upto m none ts).2 = ts :=
  Props.C04.upto_splits m ts

/-- the only fuelled recursion of the structure kernel, `@media` nested in `@media`, never runs out of fuel and
its result does not depend on the amount -/
theorem nested_media_needs_no_fuel (O : Struct.Oracle) (ns : List (Proto.Cps × Proto.Cps)) (f₁ f₂ : Nat)
    (ts : List Struct.Tok) (h1 : ts.length < f₁) (h2 : ts.length < f₂) :
    Struct.mediaRule O ns f₁ ts = Struct.mediaRule O ns f₂ ts ∧ Struct.mediaRule O ns f₁ ts ≠ none :=
  Props.C04.media_fuel_irrelevant O ns f₁ f₂ ts h1 h2

/-! ## T1.3 the kernels composed -/

/-- the selector machine (`_prepare_tokens`, the `New` state machine, the post-conditions and the commit, the
comma loop of `SelectorList`) returns on EVERY list of tokens of the tokenizer's domain: none of its partial Python
operations (`self.context[-1]`, `prefix, val = val.split('|')`, `value[0]`, `_names[val]`) produces an exception
value, whatever the namespaces are. -/
theorem selector_machine_total (ns : Sel.NsMap) (l : List Sel.Tok) (h : ∀ t ∈ l, ParseAll.selDom t = true) :
    ∃ r, Sel.parseList ns l = .ok r :=
  SelTotal.parseList_total ns l h

/-- … and every token of every sheet IS in that domain: a CHAR is one character, a STRING keeps its quote, and the
type names are the tokenizer's own (theorems about the tokenizer model over the regenerated productions). -/
theorem token_stream_in_selector_domain (text : Proto.Cps) (doC : Bool) :
    ∀ it ∈ ParseAll.stream text doC, ParseAll.selDom (ParseAll.selTok it) = true :=
  TokDom.stream_selDom text doC

/-- FULL statement wanted: for every token list `l`, `Media.parseL strict fromText {} l ≠ .unsupported`.
It is FALSE for the model as it stands: `Model/Media.lean` answers `unsupported` (never a guess) at a colour
FUNCTION in feature-value position (`@media (color: rgb(1,2,3))`, the nested `ColorValue` parser is not part of that
model) and at one of the values `( ) : ,` carried by a token that is not a CHAR (`@media \28 {…}`: an IDENT whose
value is `(`); both can be written in a sheet. Proved: on the token domain `mediaDom` the media engine (query
automaton + list automaton with the two hand-back channels) always answers `ok` or `bad`; it has no fuel.
The correspondence counts how often a generated prelude is outside `mediaDom` and skips those texts. -/
theorem media_engine_total_partial (strict fromText : Bool) (l : List Media.Tok)
    (h : ∀ t ∈ l, ParseAll.mediaDom t = true) :
    Media.parseL strict fromText {} l ≠ .unsupported ∧ Media.parseQ {} l ≠ .unsupported :=
  ⟨MediaTotal.parseL_supported strict fromText l {} h, MediaTotal.parseQ_supported l {} h⟩

/-- T1.3 (main). On EVERY text, with comments kept or dropped:
(a) the tokenizer returns;
(b) the sheet dispatcher, for every answer of the sub-parsers it treats as opaque, never leaves a `_parse` loop
    because an iterator grew (the guard of `parseLoop`) and always has fuel left for `@media` inside `@media`;
(c) the selector machine returns a value — no exception — on EVERY list of tokens drawn from the stream, under
    every namespace map: in particular on every prelude the dispatcher collects;
(d) the media engine returns `ok` or `bad` on every such list that lies in the domain of its model.
The declaration-block parser is part of the dispatcher model (`Struct.parseDecls`, total by construction, its
sub-loops covered by (b)). -/
theorem parse_kernels_total (text : Proto.Cps) (doC : Bool) :
    (∃ line col, (Tok.tokenize text true doC).stop = .done line col)
    ∧ (∀ (O : Struct.Oracle) (ns : List (Proto.Cps × Proto.Cps)) (stmt : List Struct.Tok),
        Struct.mediaRule O ns (stmt.length + 1) stmt ≠ none)
    ∧ (∀ (ns : List (Proto.Cps × Proto.Cps)) (l : List Struct.Tok),
        ∃ wf, ParseAll.selCall (ParseAll.stream text doC) ns l = .ok wf)
    ∧ (∀ l : List Struct.Tok,
        (∀ it ∈ ParseAll.lookup (ParseAll.stream text doC) l, ParseAll.mediaDom (ParseAll.mediaTok it) = true) →
        ∃ wf, ParseAll.mediaCall (ParseAll.stream text doC) l = .ok wf) := by
  refine ⟨C05.tokenize_total text true doC, ?_, ?_, ?_⟩
  · intro O ns stmt
    exact (Props.C04.media_fuel_irrelevant O ns (stmt.length + 1) (stmt.length + 1) stmt (by omega) (by omega)).2
  · intro ns l
    have hdom : ∀ t ∈ (ParseAll.lookup (ParseAll.stream text doC) l).map ParseAll.selTok,
        ParseAll.selDom t = true := by
      intro t ht
      obtain ⟨it, hit, rfl⟩ := List.mem_map.mp ht
      simp only [ParseAll.lookup, List.mem_filterMap] at hit
      obtain ⟨st, _, hst⟩ := hit
      exact TokDom.stream_selDom text doC it (List.mem_of_getElem? hst)
    obtain ⟨r, hr⟩ := SelTotal.parseList_total ns _ hdom
    unfold ParseAll.selCall ParseAll.selRun
    rw [hr]
    cases r with
    | some s => exact ⟨true, rfl⟩
    | none => exact ⟨false, rfl⟩
  · intro l hl
    have hdom : ∀ t ∈ (ParseAll.lookup (ParseAll.stream text doC) l).map ParseAll.mediaTok,
        ParseAll.mediaDom t = true := by
      intro t ht
      obtain ⟨it, hit, rfl⟩ := List.mem_map.mp ht
      exact hl it hit
    have hs := MediaTotal.parseL_supported true false _ {} hdom
    unfold ParseAll.mediaCall ParseAll.mediaRun
    split
    · exact ⟨_, rfl⟩
    · exact ⟨_, rfl⟩
    · rename_i hu; exact absurd hu hs

/-- T1.3' locality: the dispatcher hands its sub-parsers (selector list, media list, property value, the other
at-rules, `@namespace`) only lists of tokens drawn from the token list it is parsing — two oracles that agree on all
such lists give the same `cssRules`, at every nesting depth of `@media`. So the quantification "every list of tokens
drawn from the stream" in `parse_kernels_total` (c), (d) covers every call the dispatcher makes, and what a sub-parser
would do on any other list (raise, hang, answer differently) cannot reach the result. -/
theorem dispatcher_consults_stream_only (O₁ O₂ : Struct.Oracle) (M : List Proto.Cps) (ts : List Struct.Tok)
    (h : StructLocal.AgreeOn O₁ O₂ ts) : Struct.parseSheet O₁ M ts = Struct.parseSheet O₂ M ts :=
  StructLocal.parseSheet_local O₁ O₂ M ts h

/-- … in particular the composed parse of a text does not depend on how the opaque sub-parsers behave off the
stream: `ext₁`, `ext₂` need to agree only on lists of stream tokens -/
theorem composed_parse_local (ext₁ ext₂ : Struct.Oracle) (M : List Proto.Cps) (text : Proto.Cps) (doC : Bool)
    (h : StructLocal.AgreeOn ext₁ ext₂ (ParseAll.structToks (ParseAll.stream text doC))) :
    ParseAll.parseText ext₁ M text doC = ParseAll.parseText ext₂ M text doC := by
  unfold ParseAll.parseText
  apply StructLocal.parseSheet_local
  intro l hl
  obtain ⟨h1, _, _, h4, h5⟩ := h l hl
  exact ⟨h1, fun _ => rfl, rfl, h4, h5⟩

/-- the token stream of every text is in the domain `tokWF` of the dispatcher model (an EOF token only as the last
token, a CHAR is one character): the domain on which the drivers run `Struct` and C04's containment theorems speak -/
theorem token_stream_in_dispatcher_domain (text : Proto.Cps) (doC : Bool) :
    Struct.tokWF (ParseAll.structToks (ParseAll.stream text doC)) = true :=
  ParseAllDom.stream_tokWF text doC

/-- a list of dispatcher tokens drawn from the stream is looked up, position by position, to exactly the tuples it was
made from: the sub-parsers of the composition receive what the dispatcher collected, nothing lost or replaced -/
theorem prelude_lookup_faithful (items : List Tok.Item) (l : List Struct.Tok)
    (h : StructLocal.Sub l (ParseAll.structToks items)) :
    (ParseAll.lookup items l).length = l.length ∧
    ∀ (i : Nat) (t : Struct.Tok), l[i]? = some t →
      ∃ it, (ParseAll.lookup items l)[i]? = some it ∧ t = ParseAll.structTok t.pos it :=
  ParseAllDom.lookup_list items l h

/-- the EOF conjunct of `mediaDom` holds for every prelude the dispatcher hands to the media engine: `_tokensupto2`
stops at the first EOF and `separateEnd` takes the last token off (`cssmediarule.py:104-106`) -/
theorem media_prelude_never_holds_eof (rest0 : List Struct.Tok) :
    ∀ t ∈ (Struct.sepEnd (Struct.upto .mq none rest0).1).1, t.typ ≠ .eof :=
  MediaPrelude.media_prelude_noEof rest0

/-- T1.4 FULL statement wanted: one cost function of the text that counts every token taken from an iterator by any
loop of the composed kernels, with a bound quadratic in the number of tokens (quadratic because each level of
`@media` inside `@media` collects its block again). Proved — the pieces such a bound is made of:
(a) the tokenizer's loop runs at most once per code point (+ BOM, `@charset `, EOF), hence so many tokens at most;
(b) every production of every `_parse` loop of the dispatcher (sheet, `@media` block, declaration block, unknown
    rule, property name, priority) leaves the shared iterator no longer than it found it: at most one iteration per
    token in each loop, and the nesting of `@media` is bounded by the statement's length (`parse_kernels_total` (b));
(c) `_prepare_tokens` does not lengthen a prelude, the state machine makes one step per prepared token, and the
    comma loop of the selector list takes at least one token per round — its fuel `len + 1` is never used up;
(d) the media engine is a structural recursion over the prelude: one step per token by definition.
Missing: the sum over the nested `_tokensupto2` calls as one number (needs a cost-instrumented copy of `Struct`). -/
theorem parse_steps_bound_partial (text : Proto.Cps) (doC : Bool) :
    (Tok.tokenize text true doC).items.length ≤ text.length + 3
    ∧ (ParseAll.stream text doC).length ≤ text.length + 3
    ∧ (∀ (O : Struct.Oracle) (M : List Proto.Cps) (st : Struct.SheetSt) (t : Struct.Tok) (rest : List Struct.Tok),
        (Struct.sheetStep O M st t rest).2.length ≤ rest.length)
    ∧ (∀ (O : Struct.Oracle) (ns : List (Proto.Cps × Proto.Cps)) (nested : List Struct.Tok → Option Struct.Rule)
        (acc : List Struct.Rule) (t : Struct.Tok) (rest : List Struct.Tok),
        (Struct.mediaStep O ns nested acc t rest).2.length ≤ rest.length)
    ∧ (∀ (O : Struct.Oracle) (acc : List Struct.Item) (t : Struct.Tok) (rest : List Struct.Tok),
        (Struct.declStep O acc t rest).2.length ≤ rest.length)
    ∧ (∀ (s : Struct.UnkSt) (t : Struct.Tok) (rest : List Struct.Tok), (Struct.unkStep s t rest).2.length ≤ rest.length)
    ∧ (∀ (s : Struct.NameSt) (t : Struct.Tok) (rest : List Struct.Tok), (Struct.nameStep s t rest).2.length ≤ rest.length)
    ∧ (∀ (s : Struct.PrioSt) (t : Struct.Tok) (rest : List Struct.Tok), (Struct.prioStep s t rest).2.length ≤ rest.length)
    ∧ (∀ l : List Sel.Tok, (Sel.prepare l).length ≤ l.length)
    ∧ (∀ (ns : Sel.NsMap) (f : Nat) (l : List Sel.Tok) (e : Sel.ListExp) (wf : Bool) (acc : List Sel.SelRec),
        l.length < f → Sel.listLoop ns f l e wf acc = Sel.listLoop ns (l.length + 1) l e wf acc) := by
  refine ⟨TokDom.items_le text true doC, ?_, Struct.sheetStep_rest_le, ParseSteps.mediaStep_rest_le,
    Struct.declStep_rest_le, ParseSteps.unkStep_rest_le, ParseSteps.nameStep_rest_le, ParseSteps.prioStep_rest_le,
    ParseSteps.prepare_length, ?_⟩
  · have h1 := TokDom.items_le text true doC
    have h2 : (ParseAll.stream text doC).length ≤ (Tok.tokenize text true doC).items.length := by
      simp only [ParseAll.stream, Tok.Res.tokens]
      exact List.length_filter_le _ _
    omega
  · intro ns f l e wf acc h
    exact ParseSteps.listLoop_fuel ns f (l.length + 1) l e wf acc h (by omega)

/-- T1.6 with the repaired serializer (one evaluation of a child's `cssText` per append) the number of
serializer entries equals the number of function nodes of the value — linear, for EVERY value tree. -/
theorem serialize_visits_linear (v : V) : visits 1 v = fnCount v := visits_one v

/-- … whereas evaluating the child's `cssText` twice per append (the pinned tree: `hasattr` then the attribute)
costs `2^d - 1` entries on the chain `f(f(…f(1)…))` of depth `d`, whose size is `d`: exponential. This is the
behaviour the check must report if it ever comes back. -/
theorem double_evaluation_is_exponential (d : Nat) :
    visits 2 (chain d) + 1 = 2 ^ d ∧ fnCount (chain d) = d :=
  ⟨visits_chain_two d, fnCount_chain d⟩

/-! non-vacuity / concrete instances -/
-- `AgreeOn` is satisfiable: by the same oracle, and by two oracles that differ only off the token list
example (O : Struct.Oracle) (ts : List Struct.Tok) : StructLocal.AgreeOn O O ts :=
  fun _ _ => ⟨rfl, fun _ => rfl, rfl, fun _ _ => rfl, rfl⟩
example (O : Struct.Oracle) (ts : List Struct.Tok) :
    StructLocal.AgreeOn O { O with valueOk := fun l => if l.all (· ∈ ts) then O.valueOk l else !O.valueOk l } ts := by
  intro l hl
  have : l.all (· ∈ ts) = true := by simpa [StructLocal.Sub] using hl
  exact ⟨by simp [this], fun _ => rfl, rfl, fun _ _ => rfl, rfl⟩
-- a `Sub` list exists for `prelude_lookup_faithful`, and `tokWF` on a concrete sheet (test)
example (items : List Tok.Item) : StructLocal.Sub [] (ParseAll.structToks items) := fun _ h => by cases h
example : Struct.tokWF (ParseAll.structToks (ParseAll.stream (Proto.cps "a{b:c}") true)) = true := by decide
-- the domains are inhabited by ordinary tokens, and the machines do answer both ways on them
example : ParseAll.selDom ⟨.ident, [97]⟩ = true ∧ ParseAll.selDom ⟨.char, [62]⟩ = true := by decide
example : ParseAll.selRun [] [⟨.ident, [97]⟩, ⟨.char, [62]⟩, ⟨.ident, [98]⟩] = .ok true := by decide
example : ParseAll.selRun [] [⟨.char, [62]⟩] = .ok false := by decide
example : ParseAll.mediaDom { typ := .ident, val := Proto.cps "screen" } = true := by decide
example : ParseAll.mediaRun [{ typ := .ident, val := Proto.cps "screen" }] = .ok true := by decide
example : ParseAll.mediaRun [{ typ := .char, val := [44] }] = .ok false := by decide
-- the guard of `media_engine_total_partial` is needed: an IDENT spelled `\28` leaves the media model (test)
example : ParseAll.mediaRun [{ typ := .ident, val := [40] }] = .unsupported := by decide
-- outside `selDom` the selector model does raise: a CHAR token of two characters `+>` (`_names[val]`) (test)
example : ParseAll.selRun [] [⟨.ident, [97]⟩, ⟨.char, [43, 62]⟩] = .raised := by decide
example : visits 1 (.fn [.fn [.leaf, .fn [.leaf]], .leaf]) = 3 := by decide
example : visits 2 (chain 10) = 1023 := by decide

end CssVerif.C01
