import CssVerif.Lemmas.Ns
/-!
# C15 — namespace declarations and namespaced selectors stay consistent

Property theorems only (helpers: `Lemmas/Ns.lean`). Model: `Model/Ns.lean`, tied to `cssutils/util.py`,
`css/cssstylesheet.py`, `css/cssnamespacerule.py`, `css/selector.py`, `serialize.py` by the correspondence of
`tools/harness/c15.py` (outcome and full canonical state after every operation of generated histories).

`Good s` — one @namespace rule per prefix and per URI, every URI a selector refers to is declared — is the
invariant; `OpOk` / `AllOk` spell out the guards that the findings in `known/C15.json` make necessary.
-/
namespace CssVerif.C15
open CssVerif.Ns CssVerif.Proto

/-! ## T15.1 the mapping is the effective @namespace rules -/

/-- "one prefix per URI", and a mapping: in the view no URI and no prefix occurs twice — for every sheet -/
theorem view_one_prefix_per_uri (s : Sheet) : (view s).values.Nodup ∧ (view s).keys.Nodup :=
  ⟨viewOfPairs_values_nodup _, viewOfPairs_keys_nodup _⟩

/-- "the last declaration of a URI wins": every entry of the view is an @namespace rule of the sheet after which
no rule declares the same URI — for every sheet -/
theorem view_entry_is_last_declaration (s : Sheet) {p u : Cps} (h : (p, u) ∈ view s) :
    ∃ pre post, nsPairs s = pre ++ (p, u) :: post ∧ u ∉ post.map (·.2) :=
  viewOfPairs_mem_last h

/-- T15.1 `view_spec`: on the consistent sheets the view is exactly the @namespace rules (latest first) … -/
theorem view_spec (s : Sheet) (h : Good s) : view s = (nsPairs s).reverse := h.view_eq

/-- … so a prefix is bound to a URI iff a rule says so -/
theorem view_get_spec (s : Sheet) (h : Good s) (p u : Cps) : (view s).get p = some u ↔ (p, u) ∈ nsPairs s :=
  h.get_iff p u

/-- Outside `Good`: one prefix declared for two URIs. Both rules are effective; the code keeps the EARLIER one
(`reversed` + dict comprehension, `util.py:821-835`) although the docstring says "the latest set" and CSS says a
later declaration of a prefix wins. Since `rule.prefix = …` refuses a prefix that is in use (fix of
C15-prefix-setter-collision) no modelled operation leads from a consistent sheet to such a state
(`good_step_partial`). (A sample, not a theorem.) -/
example : view [.ns (mkNs [0x70] [0x31]), .ns (mkNs [0x70] [0x32])] = [([0x70], [0x31])] := by decide

/-! ## T15.2 every used URI stays declared -/

/-- T15.2 (one step): every operation that is outside the known findings (`OpOk`) keeps the sheet consistent —
whether the call succeeds or is rejected.
`OpOk` is `True` for every namespace operation (declare, re-bind, delete, change a prefix, any URI) and for
selector changes; it only restricts foreign style rule objects, two forms of `parse`, `rule.cssText =` with a
prefix that is in use and the raw list deletion of a used declaration.
Full statement (FAILS on the current code, see `foreign_style_rule_breaks`,
`parse_time_prefix_without_rule_breaks`, `csstext_prefix_collision_breaks`, `rulelist_bypass_breaks`):
`Good s → Good (step s op).1` for every `op`. -/
theorem good_step_partial (s : Sheet) (op : Op) (h : Good s) (hok : OpOk s op) : Good (step s op).1 := by
  cases op with
  | parse init src =>
    obtain ⟨rfl, hsrc⟩ := hok
    simp only [step]
    exact good_parseSheet src hsrc (parse_no_raise src hsrc)
  | insNs p u idx io =>
    simp only [step]
    split
    · exact h
    · split
      · exact h
      · cases hr : (insertNs s (mkNs p u) idx io true).2 with
        | ok r => exact good_insertNs h hr
        | err e => rw [insertNs_err hr]; exact h
  | insNsText p u c0 c1 c2 idx io =>
    simp only [step]
    split
    · exact h
    · split
      · exact h
      · cases hr : (insertNs s (mkNsText p u c0 c1 c2) idx io true).2 with
        | ok r => exact good_insertNs h hr
        | err e => rw [insertNs_err hr]; exact h
  | setNs p u =>
    simp only [step]
    cases hr : (setNs s p u).2 with
    | ok r => exact good_setNs h hr
    | err e => rw [setNs_err hr]; exact h
  | delNs p => exact good_delNs h
  | delRule i =>
    simp only [step]
    cases hd : deleteRule s i with
    | error e => exact h
    | ok s' => exact good_deleteRule h hd
  | setPrefix i q =>
    simp only [step]
    split
    · rename_i n hi
      obtain ⟨pre, post, rfl, rfl⟩ := split_at hi
      split
      · exact h
      · rename_i ht
        rw [set_split]
        simp only [prefixTaken, Bool.or_eq_true, not_or, Bool.not_eq_true] at ht
        have h1 : List.take pre.length (pre ++ Rule.ns n :: post) = pre := by simp
        have h2 : List.drop (pre.length + 1) (pre ++ Rule.ns n :: post) = post := by simp
        rw [h1, h2] at ht
        exact good_setPrefix h (anyNsPfx_false ht.1) (anyNsPfx_false ht.2)
    · exact h
  | setSelText i sels =>
    simp only [step]
    split
    · rename_i old hi
      obtain ⟨pre, post, rfl, rfl⟩ := split_at hi
      split
      · exact h
      · cases hr : resolveSels (view (pre ++ Rule.style old :: post)) sels with
        | error e => exact h
        | ok x =>
          simp only
          rw [set_split]
          apply good_set_style rfl h
          intro u hu
          exact (h.values u).mp (resolveSels_uris hr u hu)
    · exact h
  | insStyleText sels idx io =>
    simp only [step]
    split
    · exact h
    · split
      · exact h
      · cases hr : resolveSels (view s) sels with
        | error e => exact h
        | ok x =>
          simp only
          apply good_insertStyle h
          intro u hu
          exact (h.values u).mp (resolveSels_uris hr u hu)
  | insStyleObj sels idx io =>
    simp only [step]
    exact good_insertStyle h hok
  | setNsText i p u c0 c1 c2 =>
    simp only [step]
    split
    · rename_i n hi
      obtain ⟨pre, post, rfl, rfl⟩ := split_at hi
      split
      · exact h
      · rename_i hcol
        split
        · exact h
        · rename_i hu
          rw [set_split]
          have h1 : List.take pre.length (pre ++ Rule.ns n :: post) = pre := by simp
          have h2 : List.drop (pre.length + 1) (pre ++ Rule.ns n :: post) = post := by simp
          have hu' : u = n.uri := by
            by_cases e : n.uri = u
            · exact e.symm
            · exact absurd e hu
          have hfree : p ∉ (nsPairs pre).map (·.1) ∧ p ∉ (nsPairs post).map (·.1) := by
            by_cases hp : p = n.pfx
            · -- the rule keeps its prefix: no other rule of a consistent sheet has it
              subst hp
              have := h.pfxNodup
              simp only [nsPairs_append, nsPairs_cons_ns, List.map_append, List.map_cons] at this
              rw [List.nodup_append] at this
              obtain ⟨_, h2', h3⟩ := this
              exact ⟨fun hm => h3 _ hm _ (List.mem_cons_self ..) rfl, (List.nodup_cons.mp h2').1⟩
            · have ht : prefixTaken (pre ++ Rule.ns n :: post) pre.length p = false := by
                cases hpt : prefixTaken (pre ++ Rule.ns n :: post) pre.length p with
                | false => rfl
                | true => exact absurd ⟨hp, hpt⟩ hcol
              simp only [prefixTaken, Bool.or_eq_false_iff] at ht
              rw [h1, h2] at ht
              exact ⟨anyNsPfx_false ht.1, anyNsPfx_false ht.2⟩
          exact good_replace_ns (m := mkNsText p u c0 c1 c2) h hu' hfree.1 hfree.2
    · exact h
  | rawDel i =>
    simp only [step]
    split
    · rename_i r hi
      obtain ⟨pre, post, rfl, rfl⟩ := split_at hi
      rw [eraseIdx_split]
      exact good_rawDel h (fun n e => hok n (by rw [hi, e]))
    · exact h

/-- T15.2 (parsing): a sheet parsed from a text without @variables rules (finding
C15-namespace-after-variables) is consistent: one @namespace rule per prefix and URI is left, every URI a kept
selector refers to is declared, and the final clean-up does not raise — for every such text, in or out of order,
with declared and undeclared prefixes. -/
theorem parse_good_partial (src : List SrcRule) (hsrc : ∀ r ∈ src, SrcOk r) :
    (parseSheet [] src).2 = false ∧ Good (parseSheet [] src).1 :=
  ⟨parse_no_raise src hsrc, good_parseSheet src hsrc (parse_no_raise src hsrc)⟩

/-- T15.2 (histories): `usedURIs ⊆ declaredURIs` — with one rule per prefix and per URI — holds after every
history whose steps are outside the known findings, for all sheets and all such histories -/
theorem good_run_partial (ops : List Op) : ∀ (s : Sheet), Good s → AllOk s ops → Good (run s ops) := by
  induction ops with
  | nil => intro s h _; exact h
  | cons op t ih =>
    intro s h hall
    exact ih _ (good_step_partial s op h hall.1) hall.2

/-- the guards are satisfiable: the empty sheet is consistent and a typical history is admissible
(declare `p`, use it, re-bind its URI to `q`, try to delete it) -/
example : Good [] := ⟨by simp, by simp [nsUris], by simp [usedUris]⟩

/-- T15.2 (deletion): in a consistent sheet, deleting the @namespace rule of a URI that a selector still uses is
rejected with NoModificationAllowedErr and changes nothing — by index … -/
theorem delete_used_last_rejected (s : Sheet) (h : Good s) (i : Nat) (n : NsRule) (hi : s[i]? = some (.ns n))
    (hu : n.uri ∈ usedUris s) : step s (.delRule i) = (s, .err .noModificationAllowedErr) := by
  simp [step, deleteRule, hi, h.blocked hu]

/-- … and through the mapping interface (`del sheet.namespaces[p]`) -/
theorem delete_used_prefix_rejected (s : Sheet) (h : Good s) (p u : Cps) (hp : (view s).get p = some u)
    (hu : u ∈ usedUris s) : step s (.delNs p) = (s, .err .noModificationAllowedErr) := by
  have hm := (h.get_iff p u).mp hp
  cases hf : findLastNs p s with
  | none =>
    exfalso
    -- a rule with prefix `p` exists, so the search cannot fail
    have : ∀ (t : Sheet), (p, u) ∈ nsPairs t → findLastNs p t ≠ none := by
      intro t
      induction t with
      | nil => simp
      | cons r t ih =>
        intro hm
        simp only [findLastNs]
        cases ht : findLastNs p t with
        | some x => simp
        | none =>
          cases r with
          | ns m =>
            simp only [nsPairs_cons_ns, List.mem_cons] at hm
            rcases hm with hm | hm
            · have : m.pfx = p := by rw [Prod.mk.injEq] at hm; exact hm.1.symm
              simp [this]
            · exact absurd ht (ih hm)
          | style x => exact absurd ht (ih (by simpa [nsPairs] using hm))
          | media x => exact absurd ht (ih (by simpa [nsPairs] using hm))
          | other x => exact absurd ht (ih (by simpa [nsPairs] using hm))
    exact this s hm hf
  | some x =>
    obtain ⟨i, n⟩ := x
    obtain ⟨pre, post, rfl, rfl, hn⟩ := findLastNs_some hf
    -- the rule found is the rule of `u`, because prefixes are unique
    have hmem : (n.pfx, n.uri) ∈ nsPairs (pre ++ Rule.ns n :: post) := by simp [nsPairs_append]
    have : n.uri = u := by
      have h1 := (h.get_iff n.pfx n.uri).mpr hmem
      rw [hn, hp] at h1
      exact (Option.some.inj h1).symm
    subst this
    simp [step, delNs, hf, deleteRule, h.blocked hu]

/-- a rejected operation leaves the sheet as it was: mapping, rules, selectors — for every sheet and every
operation of the model except `parse` (which replaces the sheet) -/
theorem rejected_unchanged (s : Sheet) (op : Op) (e : Err) (hp : ∀ i src, op ≠ .parse i src)
    (h : (step s op).2 = .err e) : (step s op).1 = s := by
  cases op with
  | parse init src => exact absurd rfl (hp init src)
  | insNs p u idx io =>
    simp only [step] at h ⊢
    split
    · rfl
    · split
      · rfl
      · rename_i h2 h3
        simp only [h2, h3, if_false] at h
        exact insertNs_err h
  | insNsText p u c0 c1 c2 idx io =>
    simp only [step] at h ⊢
    split
    · rfl
    · split
      · rfl
      · rename_i h2 h3
        simp only [h2, h3, if_false] at h
        exact insertNs_err h
  | setNs p u =>
    simp only [step] at h ⊢
    exact setNs_err h
  | delNs p =>
    simp only [step, delNs] at h ⊢
    cases hf : findLastNs p s with
    | none => rfl
    | some x =>
      obtain ⟨i, n⟩ := x
      simp only [hf] at h ⊢
      cases hd : deleteRule s i with
      | error e' => rfl
      | ok s' => simp [hd] at h
  | delRule i =>
    simp only [step] at h ⊢
    cases hd : deleteRule s i with
    | error e' => rfl
    | ok s' => simp [hd] at h
  | setPrefix i q =>
    simp only [step] at h ⊢
    cases hi : s[i]? with
    | none => rfl
    | some r =>
      cases r with
      | ns n =>
        simp only [hi] at h ⊢
        by_cases ht : prefixTaken s i q = true
        · simp [ht]
        · simp [ht] at h
      | style x => rfl
      | media x => rfl
      | other x => rfl
  | setSelText i sels =>
    simp only [step] at h ⊢
    cases hi : s[i]? with
    | none => rfl
    | some r =>
      cases r with
      | style old =>
        simp only [hi] at h ⊢
        by_cases he : sels.isEmpty = true
        · simp [he]
        · simp only [he, Bool.false_eq_true, if_false] at h ⊢
          cases hr : resolveSels (view s) sels with
          | error e' => rfl
          | ok x => simp [hr] at h
      | ns n => rfl
      | media x => rfl
      | other x => rfl
  | insStyleText sels idx io =>
    simp only [step] at h ⊢
    by_cases h1 : idx.getD s.length > s.length
    · simp [h1]
    · simp only [h1, if_false] at h ⊢
      by_cases h2 : sels.isEmpty = true
      · simp [h2]
      · simp only [h2, Bool.false_eq_true, if_false] at h ⊢
        cases hr : resolveSels (view s) sels with
        | error e' => rfl
        | ok x =>
          simp only [hr] at h ⊢
          unfold insertStyle at h ⊢
          simp only [h1, if_false] at h ⊢
          by_cases h3 : io = true
          · simp [h3] at h
          · simp only [h3, Bool.false_eq_true, if_false] at h ⊢
            by_cases h4 : (s.drop (idx.getD s.length)).any Rule.isHead = true
            · simp [h4]
            · simp [h4] at h
  | insStyleObj sels idx io =>
    simp only [step] at h ⊢
    unfold insertStyle at h ⊢
    simp only at h ⊢
    by_cases h1 : idx.getD s.length > s.length
    · simp [h1]
    · simp only [h1, if_false] at h ⊢
      by_cases h3 : io = true
      · simp [h3] at h
      · simp only [h3, Bool.false_eq_true, if_false] at h ⊢
        by_cases h4 : (s.drop (idx.getD s.length)).any Rule.isHead = true
        · simp [h4]
        · simp [h4] at h
  | setNsText i p u c0 c1 c2 =>
    simp only [step] at h ⊢
    cases hi : s[i]? with
    | none => rfl
    | some r =>
      cases r with
      | ns n =>
        simp only [hi] at h ⊢
        by_cases hcol : p ≠ n.pfx ∧ prefixTaken s i p = true
        · simp [hcol]
        · simp only [hcol, if_false] at h ⊢
          by_cases hu : n.uri ≠ u
          · simp [hu]
          · simp [hu] at h
      | style x => rfl
      | media x => rfl
      | other x => rfl
  | rawDel i =>
    simp only [step] at h ⊢
    cases hi : s[i]? with
    | none => rfl
    | some r => simp [hi] at h

/-! ## T15.3 selector items keep their denotation -/

/-- T15.3 `denotation_stable`: no namespace operation — declare, re-bind, delete, change a prefix, accepted or
rejected, inside or outside the known findings — changes any rule other than @namespace rules: every selector
keeps exactly its `(URI, local name)` items. For every sheet. -/
theorem denotation_stable (s : Sheet) (op : Op)
    (hop : (∃ p u i o, op = .insNs p u i o) ∨ (∃ p u a b c i o, op = .insNsText p u a b c i o) ∨
      (∃ p u, op = .setNs p u) ∨ (∃ p, op = .delNs p) ∨ (∃ i q, op = .setPrefix i q) ∨
      (∃ i n, op = .delRule i ∧ s[i]? = some (.ns n)) ∨ (∃ i p u a b c, op = .setNsText i p u a b c) ∨
      (∃ i n, op = .rawDel i ∧ s[i]? = some (.ns n))) :
    bodyRules (step s op).1 = bodyRules s := by
  rcases hop with ⟨p, u, i, o, rfl⟩ | ⟨p, u, a, b, c, i, o, rfl⟩ | ⟨p, u, rfl⟩ | ⟨p, rfl⟩ | ⟨i, q, rfl⟩ |
    ⟨i, n, rfl, hi⟩ | ⟨i, p, u, a, b, c, rfl⟩ | ⟨i, n, rfl, hi⟩
  · simp only [step]
    split
    · rfl
    · split
      · rfl
      · exact body_insertNs _ _ _ _ _
  · simp only [step]
    split
    · rfl
    · split
      · rfl
      · exact body_insertNs _ _ _ _ _
  · exact body_setNs s p u
  · exact body_delNs s p
  · simp only [step]
    split
    · rename_i n hi
      obtain ⟨pre, post, rfl, rfl⟩ := split_at hi
      split
      · rfl
      · rw [set_split]; exact body_set_ns
    · rfl
  · simp only [step]
    cases hd : deleteRule s i with
    | error e => rfl
    | ok s' => exact body_deleteRule_ns hi hd
  · simp only [step]
    split
    · rename_i n hi
      obtain ⟨pre, post, rfl, rfl⟩ := split_at hi
      split
      · rfl
      · split
        · rfl
        · rw [set_split]; exact body_set_ns
    · rfl
  · simp only [step, hi]
    exact bodyRules_eraseIdx_ns hi

/-- the surface form used in `reresolve` is what the serializer writes (`do_css_Selector`) -/
theorem serialised_form (d : Dict) (it : Item) : renderSItem (unparseItem d it) = serItem d it :=
  render_unparse d it

/-- T15.3 re-resolution `resolve (nsView s) (serSel (nsView s) sel) = sel`, item by item: in a consistent
sheet the text the serializer writes for a stored item resolves, against the same sheet, to that item again —
provided the item is outside two findings:
* C15-default-added-later: the item was stored with `None` (no default namespace at the time) and the sheet has
  a default namespace now,
* C15-attribute-in-default-namespace: an attribute name whose namespace is the sheet's default namespace now.
Full statement (FAILS, see the two `example`s below): without `h1`, `h2`. -/
theorem reresolve_partial (s : Sheet) (h : Good s) (k : QKind) (ns : NsVal) (name : Cps)
    (hi : Item.q k ns name ∈ sheetItems s)
    (hshape : k = .attrSel → ns ≠ .none ∧ ns ≠ .uri [])
    (h1 : ns = .none → (view s).get [] = none)
    (h2 : k = .attrSel → ∀ u, ns = .uri u → (view s).get [] ≠ some u) :
    resolveItem (view s) (unparseItem (view s) (.q k ns name)) = .ok (.q k ns name) := by
  apply reresolve_item _ (viewOfPairs_keys_nodup _)
  refine ⟨fun hk => ⟨(hshape hk).1, (hshape hk).2, h2 hk⟩, h1, ?_⟩
  intro u hu hne
  apply (h.values u).mpr
  apply h.declared
  apply mem_usedUris_of_item hi
  simp [itemUris, hu, hne]

/-- items that are not qualified names are written and read back verbatim, always -/
theorem reresolve_other (d : Dict) (v t n : Cps) :
    resolveItem d (unparseItem d (.other v t)) = .ok (.other v t) ∧
    resolveItem d (unparseItem d (.bareAttr n)) = .ok (.bareAttr n) := by
  simp [unparseItem, resolveItem]

/-- finding C15-default-added-later, machine-checked on the model: `a` parsed without default namespace is
stored as `(None, a)`; after `sheet.namespaces[''] = 'u'` it is written `|a`, which reads back as `('', a)` -/
example :
    sheetItems (step (step [] (.parse [] [.style [[.q .typeSel .noPfx [0x61]]]])).1 (.setNs [] [0x75])).1
      = [.q .typeSel .none [0x61]] ∧
    view (step (step [] (.parse [] [.style [[.q .typeSel .noPfx [0x61]]]])).1 (.setNs [] [0x75])).1
      = [([], [0x75])] ∧
    serItem [([], [0x75])] (.q .typeSel .none [0x61]) = [0x7C, 0x61] ∧
    resolveItem [([], [0x75])] (unparseItem [([], [0x75])] (.q .typeSel .none [0x61]))
      = .ok (.q .typeSel (.uri []) [0x61]) := by
  refine ⟨by decide, by decide, by decide, rfl⟩

/-- finding C15-attribute-in-default-namespace: `[p|b]` with `p` bound to `u`; after `sheet.namespaces[''] = 'u'`
(the URI moves to the default namespace) it is written `[b]`, an attribute in NO namespace -/
example :
    view (step (step [] (.parse [] [.ns [0x70] [0x75] false false false,
      .style [[.other [0x5B] [0x5B], .q .attrSel (.named [0x70]) [0x62], .other [0x5D] [0x5D]]]])).1
      (.setNs [] [0x75])).1 = [([], [0x75])] ∧
    sheetItems (step (step [] (.parse [] [.ns [0x70] [0x75] false false false,
      .style [[.other [0x5B] [0x5B], .q .attrSel (.named [0x70]) [0x62], .other [0x5D] [0x5D]]]])).1
      (.setNs [] [0x75])).1 = [.other [0x5B] [0x5B], .q .attrSel (.uri [0x75]) [0x62], .other [0x5D] [0x5D]] ∧
    serItem [([], [0x75])] (.q .attrSel (.uri [0x75]) [0x62]) = [0x62] ∧
    resolveItem [([], [0x75])] (unparseItem [([], [0x75])] (.q .attrSel (.uri [0x75]) [0x62]))
      = .ok (.bareAttr [0x62]) := by
  refine ⟨by decide, by decide, by decide, rfl⟩

/-- the default namespace applies to unprefixed type selectors (and universal, and `:not(x)`) only, never to
attribute names: `[a]` is stored as a bare string whatever the mapping is -/
theorem default_namespace_not_for_attributes (d : Dict) (name : Cps) :
    resolveItem d (.q .attrSel .noPfx name) = .ok (.bareAttr name) ∧
    resolveItem d (.q .attrSel .emptyPfx name) = .ok (.bareAttr name) := by
  simp [resolveItem]

/-- … and does apply to unprefixed type selectors -/
theorem default_namespace_for_type_selectors (d : Dict) (u name : Cps) (h : d.get [] = some u) :
    resolveItem d (.q .typeSel .noPfx name) = .ok (.q .typeSel (.uri u) name) := by
  simp [resolveItem, h]

/-! ## T15.4 an undeclared prefix is rejected -/

/-- T15.4 (item level) an undeclared prefix is NamespaceErr -/
theorem undeclared_prefix_rejected (d : Dict) (k : QKind) (p name : Cps) (h : d.get p = none) :
    resolveItem d (.q k (.named p) name) = .error .namespaceErr := by
  cases k <;> simp [resolveItem, h]

/-- T15.4 (operation level) `rule.selectorText = …` and `insertRule('sel {…}')` with a selector that uses a
prefix the sheet does not declare are rejected and change nothing — for every sheet -/
theorem undeclared_prefix_op_rejected (s : Sheet) (sels : List SSel) (sel : SSel) (k : QKind) (p name : Cps)
    (hs : sel ∈ sels) (hi : SItem.q k (.named p) name ∈ sel) (hp : (view s).get p = none) :
    (∀ i, ∃ e, step s (.setSelText i sels) = (s, .err e)) ∧
    (∀ idx io, ∃ e, step s (.insStyleText sels idx io) = (s, .err e)) := by
  obtain ⟨e1, h1⟩ := resolveSel_error_of_mem hi (undeclared_prefix_rejected (view s) k p name hp)
  obtain ⟨e2, h2⟩ := resolveSels_error_of_mem hs h1
  have hne : sels.isEmpty = false := by cases sels with
    | nil => simp at hs
    | cons a t => rfl
  constructor
  · intro i
    simp only [step]
    split
    · simp [hne, h2]
    · exact ⟨_, rfl⟩
  · intro idx io
    simp only [step]
    split
    · exact ⟨_, rfl⟩
    · simp [hne, h2]


/-! ## the serialised @namespace rules stay well-formed -/

/-- every @namespace rule keeps the shape `@namespace [comments] [prefix] [comments] URI [comments];` for its own
prefix and URI under EVERY operation of the model, `parse` included, for all sheets — no guard
(was `wf_step_partial` with a guard on `rule.prefix = …` before the fix of C15-prefix-setter-seq). -/
theorem wf_step (s : Sheet) (op : Op) (h : AllGoodNs s) : AllGoodNs (step s op).1 := by
  cases op with
  | parse init src => exact allGood_parseSheet init src
  | insNs p u idx io =>
    simp only [step]
    split
    · exact h
    · split
      · exact h
      · exact allGood_insertNs _ _ _ h (mkNs_good p u)
  | insNsText p u c0 c1 c2 idx io =>
    simp only [step]
    split
    · exact h
    · split
      · exact h
      · exact allGood_insertNs _ _ _ h (mkNsText_good p u c0 c1 c2)
  | setNs p u =>
    simp only [step, setNs]
    cases hf : findLastNs p s with
    | none =>
      simp only
      split
      · exact h
      · exact allGood_insertNs _ _ _ h (mkNs_good p u)
    | some x =>
      obtain ⟨i, n⟩ := x
      obtain ⟨pre, post, rfl, rfl, hn⟩ := findLastNs_some hf
      simp only
      split
      · exact h
      · split
        · split
          · exact h
          · rw [set_split]
            exact allGood_set h (setPrefix_good p (h n (by simp)))
        · exact h
  | delNs p =>
    simp only [step, delNs]
    cases hf : findLastNs p s with
    | none => exact h
    | some x =>
      obtain ⟨i, n⟩ := x
      simp only
      cases hd : deleteRule s i with
      | error e => exact h
      | ok s' => exact allGood_sub h (deleteRule_sub hd)
  | delRule i =>
    simp only [step]
    cases hd : deleteRule s i with
    | error e => exact h
    | ok s' => exact allGood_sub h (deleteRule_sub hd)
  | setPrefix i q =>
    simp only [step]
    cases hi : s[i]? with
    | none => exact h
    | some r =>
      cases r with
      | ns n =>
        obtain ⟨pre, post, rfl, rfl⟩ := split_at hi
        simp only
        split
        · exact h
        · rw [set_split]
          exact allGood_set h (setPrefix_good q (h n (by simp)))
      | style x => exact h
      | media x => exact h
      | other x => exact h
  | setSelText i sels =>
    simp only [step]
    cases hi : s[i]? with
    | none => exact h
    | some r =>
      cases r with
      | style old =>
        obtain ⟨pre, post, rfl, rfl⟩ := split_at hi
        simp only
        split
        · exact h
        · cases hr : resolveSels (view (pre ++ Rule.style old :: post)) sels with
          | error e => exact h
          | ok x =>
            simp only
            rw [set_split]
            intro n hn
            simp only [List.mem_append, List.mem_cons] at hn
            rcases hn with hn | hn | hn
            · exact h n (by simp [hn])
            · cases hn
            · exact h n (by simp [hn])
      | ns n => exact h
      | media x => exact h
      | other x => exact h
  | insStyleText sels idx io =>
    simp only [step]
    split
    · exact h
    · split
      · exact h
      · cases hr : resolveSels (view s) sels with
        | error e => exact h
        | ok x => exact allGood_insertStyle _ _ h
  | insStyleObj sels idx io => exact allGood_insertStyle _ _ h
  | setNsText i p u c0 c1 c2 =>
    simp only [step]
    cases hi : s[i]? with
    | none => exact h
    | some r =>
      cases r with
      | ns n =>
        obtain ⟨pre, post, rfl, rfl⟩ := split_at hi
        simp only
        split
        · exact h
        · split
          · exact h
          · rw [set_split]
            exact allGood_set h (mkNsText_good p u c0 c1 c2)
      | style x => exact h
      | media x => exact h
      | other x => exact h
  | rawDel i =>
    simp only [step]
    cases hi : s[i]? with
    | none => exact h
    | some r => exact allGood_sub h (fun x hx => (List.eraseIdx_sublist _ _).subset hx)

/-- … hence after every history, starting from the empty sheet or any sheet in shape -/
theorem wf_run (ops : List Op) : ∀ (s : Sheet), AllGoodNs s → AllGoodNs (run s ops) := by
  induction ops with
  | nil => intro s h; exact h
  | cons op t ih => intro s h; exact ih _ (wf_step s op h)

/-- what the shape means for the serialised text: the non-comment, non-empty items are `[prefix] URI`, i.e.
`NsRule.wf`: the text parses back to a rule for the same prefix and URI -/
theorem good_rule_text (s : Sheet) (h : AllGoodNs s) (n : NsRule) (hn : Rule.ns n ∈ s) :
    seqCore n.seq = (if n.pfx = [] then [] else [.pfx n.pfx]) ++ [.uri n.uri] := by
  have := NsRule.good_wf (h n hn)
  simpa [NsRule.wf] using this

example : AllGoodNs [] := fun n hn => by simp at hn

/-! ## the findings of known/C15.json on the model (each is a closed computation, checked by the kernel) -/

/-- C15-insert-before-same-prefix (FIXED by 3ec898a + 2293ec0): the two histories that used to corrupt the
sheet are rejected and leave it exactly as it was -/
example :
    step W.base (.insNs W.p W.u2 (some 0) false) = (W.base, .err .noModificationAllowedErr) ∧
    step W.two (.insNs W.q W.u1 none true) = (W.two, .err .noModificationAllowedErr) := by
  decide

/-- C15-prefix-setter-collision (FIXED): `rule.prefix = 'q'` on the rule of `u1` while `q` is bound to `u2` is
rejected and changes nothing; a fresh prefix is accepted and the selectors follow -/
example :
    step W.two (.setPrefix 0 W.q) = (W.two, .err .noModificationAllowedErr) ∧
    (step W.two (.setPrefix 0 W.z)).2 = .ok none ∧
    view (step W.two (.setPrefix 0 W.z)).1 = [(W.q, W.u2), (W.z, W.u1)] ∧
    serItem (view (step W.two (.setPrefix 0 W.z)).1) (.q .typeSel (.uri W.u1) W.a) = W.z ++ bar ++ W.a := by
  decide

/-- C15-prefix-setter-seq (FIXED): a rule parsed from `@namespace "d";` gets its prefix item in front of the URI;
re-binding the same value through the mapping leaves the text alone -/
example :
    allWf W.dflt = true ∧
    allWf (step W.dflt (.setPrefix 0 W.z)).1 = true ∧
    allWf (step W.dflt (.setNs [] W.d)).1 = true := by
  decide

/-- C15-star-uri (FIXED): the namespace `*` used by `p|*` cannot be deleted any more -/
example :
    step (step [] (.parse [] [.ns W.p star false false false, .style [[.q .universal (.named W.p) star]]])).1
      (.delNs W.p) =
    ((step [] (.parse [] [.ns W.p star false false false, .style [[.q .universal (.named W.p) star]]])).1,
      .err .noModificationAllowedErr) := by
  decide

/-- C15-csstext-prefix-collision (FIXED, 525b582): `rules[0].cssText = '@namespace q "u1";'` on the rule of `u1`
while `q` is bound to `u2` is rejected and changes nothing, as `rule.prefix = 'q'` is; a free prefix is taken
over and the selectors follow; writing the rule's own prefix again is accepted -/
theorem csstext_prefix_collision_rejected :
    step W.two (.setNsText 0 W.q W.u1 false false false) = (W.two, .err .noModificationAllowedErr) ∧
    (step W.two (.setNsText 0 W.z W.u1 false false false)).2 = .ok none ∧
    view (step W.two (.setNsText 0 W.z W.u1 false false false)).1 = [(W.q, W.u2), (W.z, W.u1)] ∧
    (step W.two (.setNsText 0 W.p W.u1 true false true)).2 = .ok none := by
  decide

/-- C15-rulelist-bypass (open): `del sheet.cssRules[0]` removes the declaration of `u1` although `p|a` uses it -/
theorem rulelist_bypass_breaks :
    (step W.base (.rawDel 0)).2 = .ok none ∧
    usedUris (step W.base (.rawDel 0)).1 = [W.u1] ∧
    nsUris (step W.base (.rawDel 0)).1 = [] ∧
    step W.base (.delRule 0) = (W.base, .err .noModificationAllowedErr) := by
  decide

/-- C15-foreign-style-rule (open): a rule object whose selector refers to `u9` is accepted by a sheet that declares
only `u1` -/
theorem foreign_style_rule_breaks :
    (step W.base (.insStyleObj [[.q .typeSel (.uri W.u9) W.a]] none true)).2 = .ok (some 2) ∧
    usedUris (step W.base (.insStyleObj [[.q .typeSel (.uri W.u9) W.a]] none true)).1 = [W.u1, W.u9] ∧
    nsUris (step W.base (.insStyleObj [[.q .typeSel (.uri W.u9) W.a]] none true)).1 = [W.u1] := by
  decide

/-- C15-tuple-namespaces and C15-namespace-after-variables (open): the prefix resolves, no rule declares the URI -/
theorem parse_time_prefix_without_rule_breaks :
    usedUris (step [] (.parse [(W.p, W.u)] [.style [[.q .typeSel (.named W.p) W.a]]])).1 = [W.u] ∧
    nsUris (step [] (.parse [(W.p, W.u)] [.style [[.q .typeSel (.named W.p) W.a]]])).1 = [] ∧
    usedUris (step [] (.parse [] [.other .variables, .ns W.p W.u false false false,
      .style [[.q .typeSel (.named W.p) W.a]]])).1 = [W.u] ∧
    nsUris (step [] (.parse [] [.other .variables, .ns W.p W.u false false false,
      .style [[.q .typeSel (.named W.p) W.a]]])).1 = [] := by
  decide

/-- non-vacuity of T15.2: the witness start sheets are consistent, and an admissible history exists
(re-bind `u1` to `q`, then deleting `q` is rejected because `p|a` — now `q|a` — uses it) -/
example : Good W.base ∧ Good W.two :=
  ⟨⟨by decide, by decide, by decide⟩, ⟨by decide, by decide, by decide⟩⟩

example : AllOk W.base [.setNs W.q W.u1, .setPrefix 0 W.z, .delNs W.z] ∧
    view (run W.base [.setNs W.q W.u1, .setPrefix 0 W.z, .delNs W.z]) = [(W.z, W.u1)] ∧
    (step (run W.base [.setNs W.q W.u1, .setPrefix 0 W.z]) (.delNs W.z)).2 = .err .noModificationAllowedErr := by
  refine ⟨⟨trivial, trivial, trivial, trivial⟩, by decide, by decide⟩

/-- … and a history that starts with parsing is admissible as well -/
example : AllOk [] [.parse [] [.ns W.p W.u1 false false false, .style [[.q .typeSel (.named W.p) W.a]]],
    .setNs W.q W.u1] := by
  refine ⟨⟨rfl, ?_⟩, trivial, trivial⟩
  intro r hr
  simp only [List.mem_cons, List.not_mem_nil, or_false] at hr
  rcases hr with rfl | rfl <;> trivial

end CssVerif.C15
