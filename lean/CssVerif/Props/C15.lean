import CssVerif.Lemmas.Ns
import CssVerif.Lemmas.NsShare
import CssVerif.Lemmas.NsCalls
import CssVerif.Lemmas.NsStray
import CssVerif.Lemmas.NsSync
/-!
# C15 — namespace declarations and namespaced selectors stay consistent

Property theorems only (helpers: `Lemmas/Ns.lean`). Model: `Model/Ns.lean`, tied to `cssutils/util.py`,
`css/cssstylesheet.py`, `css/cssnamespacerule.py`, `css/selector.py`, `serialize.py` by the correspondence of
`tools/harness/c15.py` (outcome and full canonical state after every operation of generated histories).

`Good s` — one @namespace rule per prefix and per URI, every URI a selector refers to is declared — is the
invariant; `OpOk` / `AllOk` spell out the guards that the findings in `known/C15.json` make necessary.
-/
namespace CssVerif.C15
open CssVerif.Ns CssVerif.Proto

/-! ## T15.1 the mapping is the effective @namespace rules -/

/-- "one prefix per URI", and a mapping: in the view no URI and no prefix occurs twice — for every sheet -/
theorem view_one_prefix_per_uri (s : Sheet) : (view s).values.Nodup ∧ (view s).keys.Nodup :=
  ⟨viewOfPairs_values_nodup _, viewOfPairs_keys_nodup _⟩

/-- "the last declaration of a URI wins": every entry of the view is an @namespace rule of the sheet after which
no rule declares the same URI — for every sheet -/
theorem view_entry_is_last_declaration (s : Sheet) {p u : Cps} (h : (p, u) ∈ view s) :
    ∃ pre post, nsPairs s = pre ++ (p, u) :: post ∧ u ∉ post.map (·.2) :=
  viewOfPairs_mem_last h

/-- T15.1 `view_spec`: on the consistent sheets the view is exactly the @namespace rules (latest first) … -/
theorem view_spec (s : Sheet) (h : Good s) : view s = (nsPairs s).reverse := h.view_eq

/-- … so a prefix is bound to a URI iff a rule says so -/
theorem view_get_spec (s : Sheet) (h : Good s) (p u : Cps) : (view s).get p = some u ↔ (p, u) ∈ nsPairs s :=
  h.get_iff p u

/-- Outside `Good`: one prefix declared for two URIs. Both rules are effective; the code keeps the EARLIER one
(`reversed` + dict comprehension, `util.py:821-835`) although the docstring says "the latest set" and CSS says a
later declaration of a prefix wins. Since `rule.prefix = …` refuses a prefix that is in use (fix of
C15-prefix-setter-collision) no modelled operation leads from a consistent sheet to such a state
(`good_step_partial`). (A sample, not a theorem.) -/
example : view [.ns (mkNs [0x70] [0x31]), .ns (mkNs [0x70] [0x32])] = [([0x70], [0x31])] := by decide

/-! ## T15.2 every used URI stays declared -/

/-- T15.2 (one step): every operation that is outside the known findings (`OpOk`) keeps the sheet consistent —
whether the call succeeds or is rejected.
`OpOk` is `True` for every namespace operation (declare, re-bind, delete, change a prefix, any URI) and for
selector changes; it only restricts foreign style rule objects, two forms of `parse`, `rule.cssText =` with a
prefix that is in use and the raw list deletion of a used declaration.
Full statement (FAILS on the current code, see `foreign_style_rule_breaks`,
`parse_time_prefix_without_rule_breaks`, `csstext_prefix_collision_breaks`, `rulelist_bypass_breaks`):
`Good s → Good (step s op).1` for every `op`. -/
theorem good_step_partial (s : Sheet) (op : Op) (h : Good s) (hok : OpOk s op) : Good (step s op).1 := by
  cases op with
  | parse init src =>
    obtain ⟨rfl, hsrc⟩ := hok
    simp only [step]
    exact good_parseSheet src hsrc (parse_no_raise src hsrc)
  | insNs p u idx io =>
    simp only [step]
    split
    · exact h
    · split
      · exact h
      · cases hr : (insertNs s (mkNs p u) idx io true).2 with
        | ok r => exact good_insertNs h hr
        | err e => rw [insertNs_err hr]; exact h
  | insNsText p u c0 c1 c2 idx io =>
    simp only [step]
    split
    · exact h
    · split
      · exact h
      · cases hr : (insertNs s (mkNsText p u c0 c1 c2) idx io true).2 with
        | ok r => exact good_insertNs h hr
        | err e => rw [insertNs_err hr]; exact h
  | setNs p u =>
    simp only [step]
    cases hr : (setNs s p u).2 with
    | ok r => exact good_setNs h hr
    | err e => rw [setNs_err hr]; exact h
  | delNs p => exact good_delNs h
  | delRule i =>
    simp only [step]
    cases hd : deleteRule s i with
    | error e => exact h
    | ok s' => exact good_deleteRule h hd
  | setPrefix i q =>
    simp only [step]
    split
    · rename_i n hi
      obtain ⟨pre, post, rfl, rfl⟩ := split_at hi
      split
      · exact h
      · rename_i ht
        rw [set_split]
        simp only [prefixTaken, Bool.or_eq_true, not_or, Bool.not_eq_true] at ht
        have h1 : List.take pre.length (pre ++ Rule.ns n :: post) = pre := by simp
        have h2 : List.drop (pre.length + 1) (pre ++ Rule.ns n :: post) = post := by simp
        rw [h1, h2] at ht
        exact good_setPrefix h (anyNsPfx_false ht.1) (anyNsPfx_false ht.2)
    · exact h
  | setSelText i sels =>
    simp only [step]
    split
    · rename_i old hi
      obtain ⟨pre, post, rfl, rfl⟩ := split_at hi
      split
      · exact h
      · cases hr : resolveSels (view (pre ++ Rule.style old :: post)) sels with
        | error e => exact h
        | ok x =>
          simp only
          rw [set_split]
          apply good_set_style rfl h
          intro u hu
          exact (h.values u).mp (resolveSels_uris hr u hu)
    · exact h
  | insStyleText sels idx io =>
    simp only [step]
    split
    · exact h
    · split
      · exact h
      · cases hr : resolveSels (view s) sels with
        | error e => exact h
        | ok x =>
          simp only
          apply good_insertStyle h
          intro u hu
          exact (h.values u).mp (resolveSels_uris hr u hu)
  | insStyleObj sels idx io =>
    simp only [step]
    exact good_insertStyle h hok
  | setNsText i p u c0 c1 c2 =>
    simp only [step]
    split
    · rename_i n hi
      obtain ⟨pre, post, rfl, rfl⟩ := split_at hi
      split
      · exact h
      · rename_i hcol
        split
        · exact h
        · rename_i hu
          rw [set_split]
          have h1 : List.take pre.length (pre ++ Rule.ns n :: post) = pre := by simp
          have h2 : List.drop (pre.length + 1) (pre ++ Rule.ns n :: post) = post := by simp
          have hu' : u = n.uri := by
            by_cases e : n.uri = u
            · exact e.symm
            · exact absurd e hu
          have hfree : p ∉ (nsPairs pre).map (·.1) ∧ p ∉ (nsPairs post).map (·.1) := by
            by_cases hp : p = n.pfx
            · -- the rule keeps its prefix: no other rule of a consistent sheet has it
              subst hp
              have := h.pfxNodup
              simp only [nsPairs_append, nsPairs_cons_ns, List.map_append, List.map_cons] at this
              rw [List.nodup_append] at this
              obtain ⟨_, h2', h3⟩ := this
              exact ⟨fun hm => h3 _ hm _ (List.mem_cons_self ..) rfl, (List.nodup_cons.mp h2').1⟩
            · have ht : prefixTaken (pre ++ Rule.ns n :: post) pre.length p = false := by
                cases hpt : prefixTaken (pre ++ Rule.ns n :: post) pre.length p with
                | false => rfl
                | true => exact absurd ⟨hp, hpt⟩ hcol
              simp only [prefixTaken, Bool.or_eq_false_iff] at ht
              rw [h1, h2] at ht
              exact ⟨anyNsPfx_false ht.1, anyNsPfx_false ht.2⟩
          exact good_replace_ns (m := mkNsText p u c0 c1 c2) h hu' hfree.1 hfree.2
    · exact h
  | rawDel i =>
    simp only [step]
    split
    · rename_i r hi
      obtain ⟨pre, post, rfl, rfl⟩ := split_at hi
      rw [eraseIdx_split]
      exact good_rawDel h (fun n e => hok n (by rw [hi, e]))
    · exact h

  | insMediaText i sels idx =>
    simp only [step]
    cases hi : s[i]? with
    | none => exact h
    | some r =>
      cases r with
      | media rs =>
        simp only
        split
        · exact h
        · split
          · exact h
          · cases hr : resolveSels (view s) sels with
            | error e => exact h
            | ok x =>
              simp only
              obtain ⟨pre, post, rfl, rfl⟩ := split_at hi
              rw [set_split]
              apply good_set_media h
              intro u hu
              rw [usedUris_media] at hu
              obtain ⟨l, hl, hul⟩ := List.mem_flatten.mp hu
              obtain ⟨y, hy, rfl⟩ := List.mem_map.mp hl
              have old : ∀ y ∈ rs, u ∈ selsUris y → u ∈ nsUris (pre ++ Rule.media rs :: post) := by
                intro y hy hu
                apply h.declared
                rw [usedUris_append, usedUris_cons, usedUris_media]
                exact List.mem_append.mpr (Or.inr (List.mem_append.mpr (Or.inl
                  (List.mem_flatten.mpr ⟨_, List.mem_map.mpr ⟨y, hy, rfl⟩, hu⟩))))
              simp only [List.mem_append, List.mem_cons] at hy
              rcases hy with hy | hy | hy
              · exact old y (List.mem_of_mem_take hy) hul
              · subst hy
                exact (h.values u).mp (resolveSels_uris hr u hul)
              · exact old y (List.mem_of_mem_drop hy) hul
      | ns n => exact h
      | style x => exact h
      | other x => exact h

/-- T15.2 (parsing): a sheet parsed from a text without @variables rules (finding
C15-namespace-after-variables) is consistent: one @namespace rule per prefix and URI is left, every URI a kept
selector refers to is declared, and the final clean-up does not raise — for every such text, in or out of order,
with declared and undeclared prefixes. -/
theorem parse_good_partial (src : List SrcRule) (hsrc : ∀ r ∈ src, SrcOk r) :
    (parseSheet [] src).2 = false ∧ Good (parseSheet [] src).1 :=
  ⟨parse_no_raise src hsrc, good_parseSheet src hsrc (parse_no_raise src hsrc)⟩

/-- T15.2 (histories): `usedURIs ⊆ declaredURIs` — with one rule per prefix and per URI — holds after every
history whose steps are outside the known findings, for all sheets and all such histories -/
theorem good_run_partial (ops : List Op) : ∀ (s : Sheet), Good s → AllOk s ops → Good (run s ops) := by
  induction ops with
  | nil => intro s h _; exact h
  | cons op t ih =>
    intro s h hall
    exact ih _ (good_step_partial s op h hall.1) hall.2

/-- the guards are satisfiable: the empty sheet is consistent and a typical history is admissible
(declare `p`, use it, re-bind its URI to `q`, try to delete it) -/
example : Good [] := ⟨by simp, by simp [nsUris], by simp [usedUris]⟩

/-- T15.2 (deletion): in a consistent sheet, deleting the @namespace rule of a URI that a selector still uses is
rejected with NoModificationAllowedErr and changes nothing — by index … -/
theorem delete_used_last_rejected (s : Sheet) (h : Good s) (i : Nat) (n : NsRule) (hi : s[i]? = some (.ns n))
    (hu : n.uri ∈ usedUris s) : step s (.delRule i) = (s, .err .noModificationAllowedErr) := by
  simp [step, deleteRule, hi, h.blocked hu]

/-- … and through the mapping interface (`del sheet.namespaces[p]`) -/
theorem delete_used_prefix_rejected (s : Sheet) (h : Good s) (p u : Cps) (hp : (view s).get p = some u)
    (hu : u ∈ usedUris s) : step s (.delNs p) = (s, .err .noModificationAllowedErr) := by
  have hm := (h.get_iff p u).mp hp
  cases hf : findLastNs p s with
  | none =>
    exfalso
    -- a rule with prefix `p` exists, so the search cannot fail
    have : ∀ (t : Sheet), (p, u) ∈ nsPairs t → findLastNs p t ≠ none := by
      intro t
      induction t with
      | nil => simp
      | cons r t ih =>
        intro hm
        simp only [findLastNs]
        cases ht : findLastNs p t with
        | some x => simp
        | none =>
          cases r with
          | ns m =>
            simp only [nsPairs_cons_ns, List.mem_cons] at hm
            rcases hm with hm | hm
            · have : m.pfx = p := by rw [Prod.mk.injEq] at hm; exact hm.1.symm
              simp [this]
            · exact absurd ht (ih hm)
          | style x => exact absurd ht (ih (by simpa [nsPairs] using hm))
          | media x => exact absurd ht (ih (by simpa [nsPairs] using hm))
          | other x => exact absurd ht (ih (by simpa [nsPairs] using hm))
    exact this s hm hf
  | some x =>
    obtain ⟨i, n⟩ := x
    obtain ⟨pre, post, rfl, rfl, hn⟩ := findLastNs_some hf
    -- the rule found is the rule of `u`, because prefixes are unique
    have hmem : (n.pfx, n.uri) ∈ nsPairs (pre ++ Rule.ns n :: post) := by simp [nsPairs_append]
    have : n.uri = u := by
      have h1 := (h.get_iff n.pfx n.uri).mpr hmem
      rw [hn, hp] at h1
      exact (Option.some.inj h1).symm
    subst this
    simp [step, delNs, hf, deleteRule, h.blocked hu]

/-- a rejected operation leaves the sheet as it was: mapping, rules, selectors — for every sheet and every
operation of the model except `parse` (which replaces the sheet) -/
theorem rejected_unchanged (s : Sheet) (op : Op) (e : Err) (hp : ∀ i src, op ≠ .parse i src)
    (h : (step s op).2 = .err e) : (step s op).1 = s := by
  cases op with
  | parse init src => exact absurd rfl (hp init src)
  | insNs p u idx io =>
    simp only [step] at h ⊢
    split
    · rfl
    · split
      · rfl
      · rename_i h2 h3
        simp only [h2, h3, if_false] at h
        exact insertNs_err h
  | insNsText p u c0 c1 c2 idx io =>
    simp only [step] at h ⊢
    split
    · rfl
    · split
      · rfl
      · rename_i h2 h3
        simp only [h2, h3, if_false] at h
        exact insertNs_err h
  | setNs p u =>
    simp only [step] at h ⊢
    exact setNs_err h
  | delNs p =>
    simp only [step, delNs] at h ⊢
    cases hf : findLastNs p s with
    | none => rfl
    | some x =>
      obtain ⟨i, n⟩ := x
      simp only [hf] at h ⊢
      cases hd : deleteRule s i with
      | error e' => rfl
      | ok s' => simp [hd] at h
  | delRule i =>
    simp only [step] at h ⊢
    cases hd : deleteRule s i with
    | error e' => rfl
    | ok s' => simp [hd] at h
  | setPrefix i q =>
    simp only [step] at h ⊢
    cases hi : s[i]? with
    | none => rfl
    | some r =>
      cases r with
      | ns n =>
        simp only [hi] at h ⊢
        by_cases ht : prefixTaken s i q = true
        · simp [ht]
        · simp [ht] at h
      | style x => rfl
      | media x => rfl
      | other x => rfl
  | setSelText i sels =>
    simp only [step] at h ⊢
    cases hi : s[i]? with
    | none => rfl
    | some r =>
      cases r with
      | style old =>
        simp only [hi] at h ⊢
        by_cases he : sels.isEmpty = true
        · simp [he]
        · simp only [he, Bool.false_eq_true, if_false] at h ⊢
          cases hr : resolveSels (view s) sels with
          | error e' => rfl
          | ok x => simp [hr] at h
      | ns n => rfl
      | media x => rfl
      | other x => rfl
  | insStyleText sels idx io =>
    simp only [step] at h ⊢
    by_cases h1 : idx.getD s.length > s.length
    · simp [h1]
    · simp only [h1, if_false] at h ⊢
      by_cases h2 : sels.isEmpty = true
      · simp [h2]
      · simp only [h2, Bool.false_eq_true, if_false] at h ⊢
        cases hr : resolveSels (view s) sels with
        | error e' => rfl
        | ok x =>
          simp only [hr] at h ⊢
          unfold insertStyle at h ⊢
          simp only [h1, if_false] at h ⊢
          by_cases h3 : io = true
          · simp [h3] at h
          · simp only [h3, Bool.false_eq_true, if_false] at h ⊢
            by_cases h4 : (s.drop (idx.getD s.length)).any Rule.isHead = true
            · simp [h4]
            · simp [h4] at h
  | insStyleObj sels idx io =>
    simp only [step] at h ⊢
    unfold insertStyle at h ⊢
    simp only at h ⊢
    by_cases h1 : idx.getD s.length > s.length
    · simp [h1]
    · simp only [h1, if_false] at h ⊢
      by_cases h3 : io = true
      · simp [h3] at h
      · simp only [h3, Bool.false_eq_true, if_false] at h ⊢
        by_cases h4 : (s.drop (idx.getD s.length)).any Rule.isHead = true
        · simp [h4]
        · simp [h4] at h
  | setNsText i p u c0 c1 c2 =>
    simp only [step] at h ⊢
    cases hi : s[i]? with
    | none => rfl
    | some r =>
      cases r with
      | ns n =>
        simp only [hi] at h ⊢
        by_cases hcol : p ≠ n.pfx ∧ prefixTaken s i p = true
        · simp [hcol]
        · simp only [hcol, if_false] at h ⊢
          by_cases hu : n.uri ≠ u
          · simp [hu]
          · simp [hu] at h
      | style x => rfl
      | media x => rfl
      | other x => rfl
  | rawDel i =>
    simp only [step] at h ⊢
    cases hi : s[i]? with
    | none => rfl
    | some r => simp [hi] at h

  | insMediaText i sels idx =>
    simp only [step] at h ⊢
    cases hi : s[i]? with
    | none => rfl
    | some r =>
      cases r with
      | media rs =>
        simp only [hi] at h ⊢
        by_cases h1 : idx.getD rs.length > rs.length
        · simp [h1]
        · simp only [h1, if_false] at h ⊢
          by_cases h2 : sels.isEmpty = true
          · simp [h2]
          · simp only [h2, Bool.false_eq_true, if_false] at h ⊢
            cases hr : resolveSels (view s) sels with
            | error e' => rfl
            | ok x => simp [hr] at h
      | ns n => rfl
      | style x => rfl
      | other x => rfl

/-! ## T15.3 selector items keep their denotation -/

/-- T15.3 `denotation_stable`: no namespace operation — declare, re-bind, delete, change a prefix, accepted or
rejected, inside or outside the known findings — changes any rule other than @namespace rules: every selector
keeps exactly its `(URI, local name)` items. For every sheet. -/
theorem denotation_stable (s : Sheet) (op : Op)
    (hop : (∃ p u i o, op = .insNs p u i o) ∨ (∃ p u a b c i o, op = .insNsText p u a b c i o) ∨
      (∃ p u, op = .setNs p u) ∨ (∃ p, op = .delNs p) ∨ (∃ i q, op = .setPrefix i q) ∨
      (∃ i n, op = .delRule i ∧ s[i]? = some (.ns n)) ∨ (∃ i p u a b c, op = .setNsText i p u a b c) ∨
      (∃ i n, op = .rawDel i ∧ s[i]? = some (.ns n))) :
    bodyRules (step s op).1 = bodyRules s := by
  rcases hop with ⟨p, u, i, o, rfl⟩ | ⟨p, u, a, b, c, i, o, rfl⟩ | ⟨p, u, rfl⟩ | ⟨p, rfl⟩ | ⟨i, q, rfl⟩ |
    ⟨i, n, rfl, hi⟩ | ⟨i, p, u, a, b, c, rfl⟩ | ⟨i, n, rfl, hi⟩
  · simp only [step]
    split
    · rfl
    · split
      · rfl
      · exact body_insertNs _ _ _ _ _
  · simp only [step]
    split
    · rfl
    · split
      · rfl
      · exact body_insertNs _ _ _ _ _
  · exact body_setNs s p u
  · exact body_delNs s p
  · simp only [step]
    split
    · rename_i n hi
      obtain ⟨pre, post, rfl, rfl⟩ := split_at hi
      split
      · rfl
      · rw [set_split]; exact body_set_ns
    · rfl
  · simp only [step]
    cases hd : deleteRule s i with
    | error e => rfl
    | ok s' => exact body_deleteRule_ns hi hd
  · simp only [step]
    split
    · rename_i n hi
      obtain ⟨pre, post, rfl, rfl⟩ := split_at hi
      split
      · rfl
      · split
        · rfl
        · rw [set_split]; exact body_set_ns
    · rfl
  · simp only [step, hi]
    exact bodyRules_eraseIdx_ns hi

/-- the surface form used in `reresolve` is what the serializer writes (`do_css_Selector`) -/
theorem serialised_form (d : Dict) (it : Item) : renderSItem (unparseItem d it) = serItem d it :=
  render_unparse d it

/-- T15.3 re-resolution `resolve (nsView s) (serSel (nsView s) sel) = sel`, item by item: in a consistent
sheet the text the serializer writes for a stored item resolves, against the same sheet, to that item again —
provided the item is outside two findings:
* C15-default-added-later: the item was stored with `None` (no default namespace at the time) and the sheet has
  a default namespace now,
* C15-attribute-in-default-namespace: an attribute name whose namespace is the sheet's default namespace now.
Full statement (FAILS, see the two `example`s below): without `h1`, `h2`. -/
theorem reresolve_partial (s : Sheet) (h : Good s) (k : QKind) (ns : NsVal) (name : Cps)
    (hi : Item.q k ns name ∈ sheetItems s)
    (hshape : k = .attrSel → ns ≠ .none ∧ ns ≠ .uri [])
    (h1 : ns = .none → (view s).get [] = none)
    (h2 : k = .attrSel → ∀ u, ns = .uri u → (view s).get [] ≠ some u) :
    resolveItem (view s) (unparseItem (view s) (.q k ns name)) = .ok (.q k ns name) := by
  apply reresolve_item _ (viewOfPairs_keys_nodup _)
  refine ⟨fun hk => ⟨(hshape hk).1, (hshape hk).2, h2 hk⟩, h1, ?_⟩
  intro u hu hne
  apply (h.values u).mpr
  apply h.declared
  apply mem_usedUris_of_item hi
  simp [itemUris, hu, hne]

/-- items that are not qualified names are written and read back verbatim, always -/
theorem reresolve_other (d : Dict) (v t n : Cps) :
    resolveItem d (unparseItem d (.other v t)) = .ok (.other v t) ∧
    resolveItem d (unparseItem d (.bareAttr n)) = .ok (.bareAttr n) := by
  simp [unparseItem, resolveItem]

/-- finding C15-default-added-later, machine-checked on the model: `a` parsed without default namespace is
stored as `(None, a)`; after `sheet.namespaces[''] = 'u'` it is written `|a`, which reads back as `('', a)` -/
example :
    sheetItems (step (step [] (.parse [] [.style [[.q .typeSel .noPfx [0x61]]]])).1 (.setNs [] [0x75])).1
      = [.q .typeSel .none [0x61]] ∧
    view (step (step [] (.parse [] [.style [[.q .typeSel .noPfx [0x61]]]])).1 (.setNs [] [0x75])).1
      = [([], [0x75])] ∧
    serItem [([], [0x75])] (.q .typeSel .none [0x61]) = [0x7C, 0x61] ∧
    resolveItem [([], [0x75])] (unparseItem [([], [0x75])] (.q .typeSel .none [0x61]))
      = .ok (.q .typeSel (.uri []) [0x61]) := by
  refine ⟨by decide, by decide, by decide, rfl⟩

/-- finding C15-attribute-in-default-namespace: `[p|b]` with `p` bound to `u`; after `sheet.namespaces[''] = 'u'`
(the URI moves to the default namespace) it is written `[b]`, an attribute in NO namespace -/
example :
    view (step (step [] (.parse [] [.ns [0x70] [0x75] false false false,
      .style [[.other [0x5B] [0x5B], .q .attrSel (.named [0x70]) [0x62], .other [0x5D] [0x5D]]]])).1
      (.setNs [] [0x75])).1 = [([], [0x75])] ∧
    sheetItems (step (step [] (.parse [] [.ns [0x70] [0x75] false false false,
      .style [[.other [0x5B] [0x5B], .q .attrSel (.named [0x70]) [0x62], .other [0x5D] [0x5D]]]])).1
      (.setNs [] [0x75])).1 = [.other [0x5B] [0x5B], .q .attrSel (.uri [0x75]) [0x62], .other [0x5D] [0x5D]] ∧
    serItem [([], [0x75])] (.q .attrSel (.uri [0x75]) [0x62]) = [0x62] ∧
    resolveItem [([], [0x75])] (unparseItem [([], [0x75])] (.q .attrSel (.uri [0x75]) [0x62]))
      = .ok (.bareAttr [0x62]) := by
  refine ⟨by decide, by decide, by decide, rfl⟩

/-- the default namespace applies to unprefixed type selectors (and universal, and `:not(x)`) only, never to
attribute names: `[a]` is stored as a bare string whatever the mapping is -/
theorem default_namespace_not_for_attributes (d : Dict) (name : Cps) :
    resolveItem d (.q .attrSel .noPfx name) = .ok (.bareAttr name) ∧
    resolveItem d (.q .attrSel .emptyPfx name) = .ok (.bareAttr name) := by
  simp [resolveItem]

/-- … and does apply to unprefixed type selectors -/
theorem default_namespace_for_type_selectors (d : Dict) (u name : Cps) (h : d.get [] = some u) :
    resolveItem d (.q .typeSel .noPfx name) = .ok (.q .typeSel (.uri u) name) := by
  simp [resolveItem, h]

/-! ## T15.4 an undeclared prefix is rejected -/

/-- T15.4 (item level) an undeclared prefix is NamespaceErr -/
theorem undeclared_prefix_rejected (d : Dict) (k : QKind) (p name : Cps) (h : d.get p = none) :
    resolveItem d (.q k (.named p) name) = .error .namespaceErr := by
  cases k <;> simp [resolveItem, h]

/-- T15.4 (operation level) `rule.selectorText = …` and `insertRule('sel {…}')` with a selector that uses a
prefix the sheet does not declare are rejected and change nothing — for every sheet -/
theorem undeclared_prefix_op_rejected (s : Sheet) (sels : List SSel) (sel : SSel) (k : QKind) (p name : Cps)
    (hs : sel ∈ sels) (hi : SItem.q k (.named p) name ∈ sel) (hp : (view s).get p = none) :
    (∀ i, ∃ e, step s (.setSelText i sels) = (s, .err e)) ∧
    (∀ idx io, ∃ e, step s (.insStyleText sels idx io) = (s, .err e)) := by
  obtain ⟨e1, h1⟩ := resolveSel_error_of_mem hi (undeclared_prefix_rejected (view s) k p name hp)
  obtain ⟨e2, h2⟩ := resolveSels_error_of_mem hs h1
  have hne : sels.isEmpty = false := by cases sels with
    | nil => simp at hs
    | cons a t => rfl
  constructor
  · intro i
    simp only [step]
    split
    · simp [hne, h2]
    · exact ⟨_, rfl⟩
  · intro idx io
    simp only [step]
    split
    · exact ⟨_, rfl⟩
    · simp [hne, h2]


/-- T15.4 inside @media (fix cfe1126): a selector text given to `insertRule` of an @media rule of the sheet resolves
its prefixes and the default namespace exactly as the same text inserted at the top level — the same items are
stored, or both calls are rejected with the same error and change nothing. For every sheet. -/
theorem media_insert_resolves_like_top_level (s : Sheet) (i : Nat) (rs : List (List Sel)) (sels : List SSel)
    (hi : s[i]? = some (.media rs)) (hne : sels.isEmpty = false) :
    (∀ x, resolveSels (view s) sels = .ok x →
      step s (.insMediaText i sels none) = (s.set i (.media (rs ++ [x])), .ok (some rs.length)) ∧
      step s (.insStyleText sels none true) = (s ++ [.style x], .ok (some s.length))) ∧
    (∀ e, resolveSels (view s) sels = .error e →
      step s (.insMediaText i sels none) = (s, .err e) ∧
      step s (.insStyleText sels none true) = (s, .err e)) := by
  constructor
  · intro x hx
    constructor
    · simp [step, hi, hne, hx]
    · simp [step, hne, hx, insertStyle]
  · intro e he
    constructor
    · simp [step, hi, hne, he]
    · simp [step, hne, he]

/-- non-vacuity, and the former witness of C15-media-insert-string: in `@namespace "d"; @namespace p "u1"; @media {…}`
the text `b` is stored as `(d, b)` and `p|c` is accepted -/
example :
    (step [.ns (mkNs [] W.d), .ns (mkNs W.p W.u1), .media []]
      (.insMediaText 2 [[.q .typeSel .noPfx W.b], [.q .typeSel (.named W.p) W.a]] none)).1 =
    [.ns (mkNs [] W.d), .ns (mkNs W.p W.u1),
      .media [[[.q .typeSel (.uri W.d) W.b], [.q .typeSel (.uri W.u1) W.a]]]] := by
  decide

/-! ## T15.3 at the level of the calls of `New.append`: comments (fix 3495bab, `Model/NsCalls.lean`) -/

/-- on a selector without comments the call-by-call model (prefix saved in `_PREFIX`, combined with the next name)
resolves exactly as the item-level model does -/
theorem calls_agree_with_items (d : Dict) (sel : SSel) :
    runCalls d none (callsOf sel) =
      match resolveSel d sel with
      | .ok x => .ok (x.map .item)
      | .error e => .error e := by
  induction sel with
  | nil => rfl
  | cons i t ih =>
    have e : callsOf (i :: t) = callsOfItem i ++ callsOf t := by simp [callsOf]
    rw [e, runCalls_append_item, ih]
    simp only [resolveSel]
    cases resolveItem d i with
    | error e => rfl
    | ok x =>
      simp only
      cases resolveSel d t with
      | error e => rfl
      | ok xs => rfl

/-- comments are transparent: wherever comments are placed among the calls — between a prefix and its name in
particular — what is appended apart from the comments, and whether the selector is accepted, is what the same calls
without the comments give. For every mapping, every saved prefix, every call sequence. -/
theorem comments_transparent (d : Dict) (calls : List Call) : ∀ (st : Option PfxSpec),
    (match runCalls d st calls with
      | .ok ys => Except.ok (ys.filter fun y => !y.isComment)
      | .error e => .error e) = runCalls d st (calls.filter fun c => !c.isComment) := by
  induction calls with
  | nil => intro st; rfl
  | cons c t ih =>
    intro st
    cases c with
    | comment x =>
      have hf : (Call.comment x :: t).filter (fun c => !c.isComment) = t.filter (fun c => !c.isComment) :=
        List.filter_cons_of_neg (by simp [Call.isComment])
      rw [hf, ← ih st]
      simp only [runCalls, appendCall]
      cases runCalls d st t with
      | error e => rfl
      | ok ys => simp [Emit.isComment]
    | pfx p =>
      have hf : (Call.pfx p :: t).filter (fun c => !c.isComment) = Call.pfx p :: t.filter (fun c => !c.isComment) :=
        List.filter_cons_of_pos (by simp [Call.isComment])
      rw [hf]
      simp only [runCalls, appendCall]
      rw [← ih (some p)]
      cases runCalls d (some p) t with
      | error e => rfl
      | ok ys => simp
    | name k n =>
      have hf : (Call.name k n :: t).filter (fun c => !c.isComment) =
          Call.name k n :: t.filter (fun c => !c.isComment) :=
        List.filter_cons_of_pos (by simp [Call.isComment])
      rw [hf]
      simp only [runCalls, appendCall]
      cases resolveItem d (.q k (st.getD .noPfx) n) with
      | error e => rfl
      | ok x =>
        simp only
        rw [← ih none]
        cases runCalls d none t with
        | error e => rfl
        | ok ys => simp [Emit.isComment]
    | other v s' =>
      have hf : (Call.other v s' :: t).filter (fun c => !c.isComment) =
          Call.other v s' :: t.filter (fun c => !c.isComment) :=
        List.filter_cons_of_pos (by simp [Call.isComment])
      rw [hf]
      simp only [runCalls, appendCall]
      rw [← ih none]
      cases runCalls d none t with
      | error e => rfl
      | ok ys => simp [Emit.isComment]
    | bad =>
      have hf : (Call.bad :: t).filter (fun c => !c.isComment) = Call.bad :: t.filter (fun c => !c.isComment) :=
        List.filter_cons_of_pos (by simp [Call.isComment])
      rw [hf]
      simp [runCalls, appendCall]

/-- … hence a selector written with comments anywhere between its parts denotes what it denotes without them:
the names resolve to the same `(URI, name)` items -/
theorem commented_selector_same_items (d : Dict) (sel : SSel) (calls : List Call)
    (h : (calls.filter fun c => !c.isComment) = callsOf sel) :
    (match runCalls d none calls with
      | .ok ys => Except.ok (ys.filter fun (y : Emit) => !y.isComment)
      | .error e => .error e) =
    match resolveSel d sel with
      | .ok x => .ok (x.map .item)
      | .error e => .error e := by
  rw [comments_transparent, h, calls_agree_with_items]

/-- non-vacuity, and the former witness of C15-comment-after-prefix: `p|/**/a` with `p` bound to `u1` -/
example :
    runCalls [(W.p, W.u1)] none [.pfx (.named W.p), .comment [0x2F, 0x2A, 0x2A, 0x2F], .name .typeSel W.a] =
      .ok [.comment [0x2F, 0x2A, 0x2A, 0x2F], .item (.q .typeSel (.uri W.u1) W.a)] := by
  rfl

/-! ## the serialised @namespace rules stay well-formed -/

/-- every @namespace rule keeps the shape `@namespace [comments] [prefix] [comments] URI [comments];` for its own
prefix and URI under EVERY operation of the model, `parse` included, for all sheets — no guard
(was `wf_step_partial` with a guard on `rule.prefix = …` before the fix of C15-prefix-setter-seq). -/
theorem wf_step (s : Sheet) (op : Op) (h : AllGoodNs s) : AllGoodNs (step s op).1 := by
  cases op with
  | parse init src => exact allGood_parseSheet init src
  | insNs p u idx io =>
    simp only [step]
    split
    · exact h
    · split
      · exact h
      · exact allGood_insertNs _ _ _ h (mkNs_good p u)
  | insNsText p u c0 c1 c2 idx io =>
    simp only [step]
    split
    · exact h
    · split
      · exact h
      · exact allGood_insertNs _ _ _ h (mkNsText_good p u c0 c1 c2)
  | setNs p u =>
    simp only [step, setNs]
    cases hf : findLastNs p s with
    | none =>
      simp only
      split
      · exact h
      · exact allGood_insertNs _ _ _ h (mkNs_good p u)
    | some x =>
      obtain ⟨i, n⟩ := x
      obtain ⟨pre, post, rfl, rfl, hn⟩ := findLastNs_some hf
      simp only
      split
      · exact h
      · split
        · split
          · exact h
          · rw [set_split]
            exact allGood_set h (setPrefix_good p (h n (by simp)))
        · exact h
  | delNs p =>
    simp only [step, delNs]
    cases hf : findLastNs p s with
    | none => exact h
    | some x =>
      obtain ⟨i, n⟩ := x
      simp only
      cases hd : deleteRule s i with
      | error e => exact h
      | ok s' => exact allGood_sub h (deleteRule_sub hd)
  | delRule i =>
    simp only [step]
    cases hd : deleteRule s i with
    | error e => exact h
    | ok s' => exact allGood_sub h (deleteRule_sub hd)
  | setPrefix i q =>
    simp only [step]
    cases hi : s[i]? with
    | none => exact h
    | some r =>
      cases r with
      | ns n =>
        obtain ⟨pre, post, rfl, rfl⟩ := split_at hi
        simp only
        split
        · exact h
        · rw [set_split]
          exact allGood_set h (setPrefix_good q (h n (by simp)))
      | style x => exact h
      | media x => exact h
      | other x => exact h
  | setSelText i sels =>
    simp only [step]
    cases hi : s[i]? with
    | none => exact h
    | some r =>
      cases r with
      | style old =>
        obtain ⟨pre, post, rfl, rfl⟩ := split_at hi
        simp only
        split
        · exact h
        · cases hr : resolveSels (view (pre ++ Rule.style old :: post)) sels with
          | error e => exact h
          | ok x =>
            simp only
            rw [set_split]
            intro n hn
            simp only [List.mem_append, List.mem_cons] at hn
            rcases hn with hn | hn | hn
            · exact h n (by simp [hn])
            · cases hn
            · exact h n (by simp [hn])
      | ns n => exact h
      | media x => exact h
      | other x => exact h
  | insStyleText sels idx io =>
    simp only [step]
    split
    · exact h
    · split
      · exact h
      · cases hr : resolveSels (view s) sels with
        | error e => exact h
        | ok x => exact allGood_insertStyle _ _ h
  | insStyleObj sels idx io => exact allGood_insertStyle _ _ h
  | setNsText i p u c0 c1 c2 =>
    simp only [step]
    cases hi : s[i]? with
    | none => exact h
    | some r =>
      cases r with
      | ns n =>
        obtain ⟨pre, post, rfl, rfl⟩ := split_at hi
        simp only
        split
        · exact h
        · split
          · exact h
          · rw [set_split]
            exact allGood_set h (mkNsText_good p u c0 c1 c2)
      | style x => exact h
      | media x => exact h
      | other x => exact h
  | rawDel i =>
    simp only [step]
    cases hi : s[i]? with
    | none => exact h
    | some r => exact allGood_sub h (fun x hx => (List.eraseIdx_sublist _ _).subset hx)

  | insMediaText i sels idx =>
    simp only [step]
    cases hi : s[i]? with
    | none => exact h
    | some r =>
      cases r with
      | media rs =>
        simp only
        split
        · exact h
        · split
          · exact h
          · cases hr : resolveSels (view s) sels with
            | error e => exact h
            | ok x =>
              simp only
              intro n hn
              rcases List.mem_or_eq_of_mem_set hn with hn | hn
              · exact h n hn
              · cases hn
      | ns n => exact h
      | style x => exact h
      | other x => exact h

/-- … hence after every history, starting from the empty sheet or any sheet in shape -/
theorem wf_run (ops : List Op) : ∀ (s : Sheet), AllGoodNs s → AllGoodNs (run s ops) := by
  induction ops with
  | nil => intro s h; exact h
  | cons op t ih => intro s h; exact ih _ (wf_step s op h)

/-- what the shape means for the serialised text: the non-comment, non-empty items are `[prefix] URI`, i.e.
`NsRule.wf`: the text parses back to a rule for the same prefix and URI -/
theorem good_rule_text (s : Sheet) (h : AllGoodNs s) (n : NsRule) (hn : Rule.ns n ∈ s) :
    seqCore n.seq = (if n.pfx = [] then [] else [.pfx n.pfx]) ++ [.uri n.uri] := by
  have := NsRule.good_wf (h n hn)
  simpa [NsRule.wf] using this

example : AllGoodNs [] := fun n hn => by simp at hn

/-! ## the findings of known/C15.json on the model (each is a closed computation, checked by the kernel) -/

/-- C15-insert-before-same-prefix (FIXED by 3ec898a + 2293ec0): the two histories that used to corrupt the
sheet are rejected and leave it exactly as it was -/
example :
    step W.base (.insNs W.p W.u2 (some 0) false) = (W.base, .err .noModificationAllowedErr) ∧
    step W.two (.insNs W.q W.u1 none true) = (W.two, .err .noModificationAllowedErr) := by
  decide

/-- C15-prefix-setter-collision (FIXED): `rule.prefix = 'q'` on the rule of `u1` while `q` is bound to `u2` is
rejected and changes nothing; a fresh prefix is accepted and the selectors follow -/
example :
    step W.two (.setPrefix 0 W.q) = (W.two, .err .noModificationAllowedErr) ∧
    (step W.two (.setPrefix 0 W.z)).2 = .ok none ∧
    view (step W.two (.setPrefix 0 W.z)).1 = [(W.q, W.u2), (W.z, W.u1)] ∧
    serItem (view (step W.two (.setPrefix 0 W.z)).1) (.q .typeSel (.uri W.u1) W.a) = W.z ++ bar ++ W.a := by
  decide

/-- C15-prefix-setter-seq (FIXED): a rule parsed from `@namespace "d";` gets its prefix item in front of the URI;
re-binding the same value through the mapping leaves the text alone -/
example :
    allWf W.dflt = true ∧
    allWf (step W.dflt (.setPrefix 0 W.z)).1 = true ∧
    allWf (step W.dflt (.setNs [] W.d)).1 = true := by
  decide

/-- C15-star-uri (FIXED): the namespace `*` used by `p|*` cannot be deleted any more -/
example :
    step (step [] (.parse [] [.ns W.p star false false false, .style [[.q .universal (.named W.p) star]]])).1
      (.delNs W.p) =
    ((step [] (.parse [] [.ns W.p star false false false, .style [[.q .universal (.named W.p) star]]])).1,
      .err .noModificationAllowedErr) := by
  decide

/-- C15-csstext-prefix-collision (FIXED, 525b582): `rules[0].cssText = '@namespace q "u1";'` on the rule of `u1`
while `q` is bound to `u2` is rejected and changes nothing, as `rule.prefix = 'q'` is; a free prefix is taken
over and the selectors follow; writing the rule's own prefix again is accepted -/
theorem csstext_prefix_collision_rejected :
    step W.two (.setNsText 0 W.q W.u1 false false false) = (W.two, .err .noModificationAllowedErr) ∧
    (step W.two (.setNsText 0 W.z W.u1 false false false)).2 = .ok none ∧
    view (step W.two (.setNsText 0 W.z W.u1 false false false)).1 = [(W.q, W.u2), (W.z, W.u1)] ∧
    (step W.two (.setNsText 0 W.p W.u1 true false true)).2 = .ok none := by
  decide

/-- C15-rulelist-bypass (open): `del sheet.cssRules[0]` removes the declaration of `u1` although `p|a` uses it -/
theorem rulelist_bypass_breaks :
    (step W.base (.rawDel 0)).2 = .ok none ∧
    usedUris (step W.base (.rawDel 0)).1 = [W.u1] ∧
    nsUris (step W.base (.rawDel 0)).1 = [] ∧
    step W.base (.delRule 0) = (W.base, .err .noModificationAllowedErr) := by
  decide

/-- C15-foreign-style-rule (open): a rule object whose selector refers to `u9` is accepted by a sheet that declares
only `u1` -/
theorem foreign_style_rule_breaks :
    (step W.base (.insStyleObj [[.q .typeSel (.uri W.u9) W.a]] none true)).2 = .ok (some 2) ∧
    usedUris (step W.base (.insStyleObj [[.q .typeSel (.uri W.u9) W.a]] none true)).1 = [W.u1, W.u9] ∧
    nsUris (step W.base (.insStyleObj [[.q .typeSel (.uri W.u9) W.a]] none true)).1 = [W.u1] := by
  decide

/-- C15-tuple-namespaces and C15-namespace-after-variables (open): the prefix resolves, no rule declares the URI -/
theorem parse_time_prefix_without_rule_breaks :
    usedUris (step [] (.parse [(W.p, W.u)] [.style [[.q .typeSel (.named W.p) W.a]]])).1 = [W.u] ∧
    nsUris (step [] (.parse [(W.p, W.u)] [.style [[.q .typeSel (.named W.p) W.a]]])).1 = [] ∧
    usedUris (step [] (.parse [] [.other .variables, .ns W.p W.u false false false,
      .style [[.q .typeSel (.named W.p) W.a]]])).1 = [W.u] ∧
    nsUris (step [] (.parse [] [.other .variables, .ns W.p W.u false false false,
      .style [[.q .typeSel (.named W.p) W.a]]])).1 = [] := by
  decide

/-- non-vacuity of T15.2: the witness start sheets are consistent, and an admissible history exists
(re-bind `u1` to `q`, then deleting `q` is rejected because `p|a` — now `q|a` — uses it) -/
example : Good W.base ∧ Good W.two :=
  ⟨⟨by decide, by decide, by decide⟩, ⟨by decide, by decide, by decide⟩⟩

example : AllOk W.base [.setNs W.q W.u1, .setPrefix 0 W.z, .delNs W.z] ∧
    view (run W.base [.setNs W.q W.u1, .setPrefix 0 W.z, .delNs W.z]) = [(W.z, W.u1)] ∧
    (step (run W.base [.setNs W.q W.u1, .setPrefix 0 W.z]) (.delNs W.z)).2 = .err .noModificationAllowedErr := by
  refine ⟨⟨trivial, trivial, trivial, trivial⟩, by decide, by decide⟩

/-- … and a history that starts with parsing is admissible as well -/
example : AllOk [] [.parse [] [.ns W.p W.u1 false false false, .style [[.q .typeSel (.named W.p) W.a]]],
    .setNs W.q W.u1] := by
  refine ⟨⟨rfl, ?_⟩, trivial, trivial⟩
  intro r hr
  simp only [List.mem_cons, List.not_mem_nil, or_false] at hr
  rcases hr with rfl | rfl <;> trivial

/-! ## T15.5 one style rule object in the rule lists of two sheets (`Model/NsShare.lean`)

`B.insertRule(A.cssRules[i])` leaves the object in `A`'s list; it resolves and writes its selectors with the
namespaces of the sheet it was inserted into last, and `deleteRule` of either sheet detaches it. -/

/-- T15.5 (one step): both sheets stay consistent under every operation on either sheet and on the followed
object — whether accepted or rejected — outside the known findings: the guards are those of the one-sheet
model (`OpOk`), "the receiving sheet declares the URIs of the object" (C15-foreign-style-rule), and
"`selectorText =` on the object only while no sheet other than its parent has it in its list"
(C15-rule-in-two-sheets).
Full statement (FAILS on the current code, see `rule_in_two_sheets_retarget_breaks`):
`WGood w → WGood (wstep w op).1` for every `op`. -/
theorem wgood_step_partial (w : World) (op : WOp) (h : WGood w) (hok : WOpOk w op) : WGood (wstep w op).1 := by
  cases op with
  | on side op =>
    obtain ⟨hop, hsel⟩ := hok
    by_cases hhit : ∃ i sels, op = .setSelText i sels ∧ w.objIndex side = some i
    · obtain ⟨i, sels, rfl, hi⟩ := hhit
      simp only [wstep, hi, if_true]
      cases ho : w.obj with
      | none => exact h
      | some o => exact wgood_objSetSel sels h (hsel i sels rfl hi o ho)
    · have hno : ∀ i sels, op = .setSelText i sels → w.objIndex side ≠ some i :=
        fun i sels e hi => hhit ⟨i, sels, e, hi⟩
      obtain ⟨h1, h2⟩ := wstep_on_sheets w side op hno
      intro sd
      by_cases e : sd = side
      · subst e
        rcases h1 with h1 | h1
        · rw [h1]; exact good_step_partial _ op (h sd) hop
        · rw [h1]; exact h sd
      · have e' : sd = !side := by cases sd <;> cases side <;> simp_all
        subst e'
        rw [h2]; exact h _
  | grab side i sels =>
    simp only [wstep]
    split
    · rename_i x ho hi
      split
      · exact h
      · cases hr : resolveSels (view (w.sheet side)) sels with
        | error e => exact h
        | ok y =>
          simp only
          intro sd
          rw [World.sheet_with_obj]
          by_cases e : sd = side
          · subst e
            rw [World.sheet_setSheet_same]
            obtain ⟨pre, post, hs, rfl⟩ := split_at hi
            rw [hs, set_split]
            have hg := h sd
            rw [hs] at hg
            apply good_set_style rfl hg
            intro u hu
            have := resolveSels_uris hr u hu
            rw [hs] at this
            exact (hg.values u).mp this
          · have e' : sd = !side := by cases sd <;> cases side <;> simp_all
            subst e'
            rw [World.sheet_setSheet_other]; exact h _
    · exact h
  | share to idx io =>
    simp only [wstep]
    cases ho : w.obj with
    | none => exact h
    | some o =>
      simp only
      cases hp : o.pos to with
      | some k => exact h
      | none =>
        simp only
        split
        · rename_i j hj
          intro sd
          rw [World.sheet_with_obj]
          by_cases e : sd = to
          · subst e
            rw [World.sheet_setSheet_same]
            exact good_insertStyle (h sd) (hok o ho)
          · have e' : sd = !to := by cases sd <;> cases to <;> simp_all
            subst e'
            rw [World.sheet_setSheet_other]; exact h _
        · exact h
  | objSel sels =>
    simp only [wstep]
    cases ho : w.obj with
    | none => exact h
    | some o => exact wgood_objSetSel sels h (hok o ho)

/-- T15.5 (histories) -/
theorem wgood_run_partial (ops : List WOp) : ∀ (w : World), WGood w → WAllOk w ops → WGood (wrun w ops) := by
  induction ops with
  | nil => intro w h _; exact h
  | cons op t ih =>
    intro w h hall
    exact ih _ (wgood_step_partial w op h hall.1) hall.2

/-- T15.5: putting the followed object into a sheet is, for that sheet, the one-sheet operation "insert a style
rule object built elsewhere" (`insStyleObj`): every one-sheet theorem applies to the receiving sheet, and the
other sheet's list does not change -/
theorem share_is_insert_obj (w : World) (o : Obj) (to : Bool) (idx : Option Nat) (io : Bool)
    (ho : w.obj = some o) (hp : o.pos to = none) :
    (wstep w (.share to idx io)).1.sheet to = (step (w.sheet to) (.insStyleObj o.sels idx io)).1 ∧
    (wstep w (.share to idx io)).2 = (step (w.sheet to) (.insStyleObj o.sels idx io)).2 ∧
    (wstep w (.share to idx io)).1.sheet (!to) = w.sheet (!to) := by
  simp only [wstep, ho, hp, step]
  rcases insertStyle_cases (w.sheet to) (.style o.sels) idx io with ⟨j, hj⟩ | ⟨e, he⟩
  · simp [hj]
  · simp [he]

namespace W2
/-- `@namespace p "u1"; p|a {…}` -/
def a : Sheet := W.base
/-- `@namespace q "u1"; @namespace z "u2"; q|b {…}` -/
def b : Sheet := (step [] (.parse [] [.ns W.q W.u1 false false false, .ns W.z W.u2 false false false,
  .style [[.q .typeSel (.named W.q) W.b]]])).1
def w0 : World := { a := a, b := b, obj := none }
def pa : List SSel := [[.q .typeSel (.named W.p) W.a]]
/-- `r = A.cssRules[1]; r.selectorText = 'p|a'; B.add(r)` -/
def shared : World := wrun w0 [.grab false 1 pa, .share true none true]
end W2

/-- non-vacuity: the witness world is consistent, and the sharing step is admissible (B declares `u1`) -/
example : WGood W2.w0 ∧ WAllOk W2.w0 [.grab false 1 W2.pa, .share true none true] ∧ WGood W2.shared := by
  have h0 : WGood W2.w0 := by
    intro sd
    cases sd
    · exact ⟨by decide, by decide, by decide⟩
    · exact ⟨by decide, by decide, by decide⟩
  have hok : WAllOk W2.w0 [.grab false 1 W2.pa, .share true none true] := by
    refine ⟨trivial, ?_, trivial⟩
    intro o ho u hu
    have e : (wstep W2.w0 (.grab false 1 W2.pa)).1.obj =
        some { sels := [[.q .typeSel (.uri W.u1) W.a]], owner := some false, own := [[(W.p, W.u1)]],
               posA := some 0, posB := none } := by decide
    rw [e] at ho
    cases ho
    have : u = W.u1 := by simpa [selsUris, itemUris, W.u1] using hu
    subst this
    decide
  exact ⟨h0, hok, wgood_run_partial _ _ h0 hok⟩

/-- C15-rule-in-two-sheets (open), writing: the object is in both lists (A index 1, B index 3) and belongs to B.
Both sheets are consistent and both declare `u1` — but A writes the rule with B's prefix, `q|a`, which A does not
declare: the serialisation of A does not re-resolve in A -/
theorem rule_in_two_sheets_breaks :
    W2.shared.objIndex false = some 1 ∧ W2.shared.objIndex true = some 3 ∧
    W2.shared.obj.map (·.owner) = some (some true) ∧
    W2.shared.obj.map W2.shared.objTexts = some [W.q ++ bar ++ W.a] ∧
    resolveItem (view W2.shared.a) (.q .typeSel (.named W.q) W.a) = .error .namespaceErr := by
  refine ⟨by decide, by decide, by decide, by decide, rfl⟩

/-- C15-rule-in-two-sheets (open), re-targeting: `r.selectorText = 'z|c'` resolves against B (`z` → `u2`) and
changes the rule in A's list as well, where no rule declares `u2` -/
theorem rule_in_two_sheets_retarget_breaks :
    (wstep W2.shared (.objSel [[.q .typeSel (.named W.z) W.a]])).2 = .ok none ∧
    usedUris (wstep W2.shared (.objSel [[.q .typeSel (.named W.z) W.a]])).1.a = [W.u2] ∧
    nsUris (wstep W2.shared (.objSel [[.q .typeSel (.named W.z) W.a]])).1.a = [W.u1] := by
  decide

/-- C15-rule-in-two-sheets (open), detaching: `A.deleteRule(1)` takes the object out of A and leaves it in B's
list WITHOUT parent; it then writes its selectors with the private copy of A's mapping taken when its text was
set (`p|a`), which B does not declare, and no later re-binding in B reaches it -/
theorem rule_in_two_sheets_detach_breaks :
    (wstep W2.shared (.on false (.delRule 1))).2 = .ok none ∧
    (wstep W2.shared (.on false (.delRule 1))).1.objIndex true = some 3 ∧
    (wstep W2.shared (.on false (.delRule 1))).1.obj.map (·.owner) = some none ∧
    (wstep W2.shared (.on false (.delRule 1))).1.obj.map (wstep W2.shared (.on false (.delRule 1))).1.objTexts =
      some [W.p ++ bar ++ W.a] ∧
    resolveItem (view (wstep W2.shared (.on false (.delRule 1))).1.b) (.q .typeSel (.named W.p) W.a) =
      .error .namespaceErr := by
  refine ⟨by decide, by decide, by decide, by decide, rfl⟩

/-- the proper move — out of A first, then into B — ends with the object in B's list only, B its parent, written
with B's prefix, and A free to drop the declaration -/
example :
    (wrun W2.w0 [.grab false 1 W2.pa, .on false (.delRule 1), .share true none true]).objIndex false = none ∧
    (wrun W2.w0 [.grab false 1 W2.pa, .on false (.delRule 1), .share true none true]).objIndex true = some 3 ∧
    (wrun W2.w0 [.grab false 1 W2.pa, .on false (.delRule 1), .share true none true]).obj.map (·.owner) =
      some (some true) ∧
    (wstep (wrun W2.w0 [.grab false 1 W2.pa, .on false (.delRule 1), .share true none true])
      (.on false (.delNs W.p))).2 = .ok none := by
  decide

/-- T15.5: the region of C15-rule-in-two-sheets — the followed object sits in the list of a sheet that is not its
parent (`Stray`) — is entered by `to.insertRule(obj)` while the other sheet still lists the object (`EntersStray`)
and by NOTHING else: no operation on either sheet (namespace operations with their roll-backs, deletions,
insertions, `selectorText =`), no `grab`, no insertion of an object that is in no other list. For every world. -/
theorem stray_only_by_sharing (w : World) (op : WOp) (h : ¬ Stray w) (hne : ¬ EntersStray w op) :
    ¬ Stray (wstep w op).1 :=
  not_stray_iff.mpr (owned_wstep w op (not_stray_iff.mp h) hne)

/-- T15.5 (invariant form): "both sheets consistent and no rule in a foreign list" is preserved by EVERY operation
of the two-sheet model whose guard is just the region of an open finding — `OpOk` of the one-sheet model, the
receiving sheet declares the object's URIs (C15-foreign-style-rule), the object is in no other list when it is
inserted (C15-rule-in-two-sheets); `selectorText =` on the object needs no guard here. -/
theorem wgood_unshared_step (w : World) (op : WOp) (h : WGood w) (hs : ¬ Stray w) (hok : WOpOkUnshared w op) :
    WGood (wstep w op).1 ∧ ¬ Stray (wstep w op).1 := by
  obtain ⟨h1, h2⟩ := wopOk_of_unshared hs hok
  exact ⟨wgood_step_partial w op h h1, stray_only_by_sharing w op hs h2⟩

/-- … along every history: in particular the proper move (out of one sheet, then into the other) and any number of
namespace operations on both sheets never lose consistency -/
theorem wgood_unshared_run (ops : List WOp) : ∀ (w : World), WGood w → ¬ Stray w → WAllOkUnshared w ops →
    WGood (wrun w ops) ∧ ¬ Stray (wrun w ops) := by
  induction ops with
  | nil => intro w h hs _; exact ⟨h, hs⟩
  | cons op t ih =>
    intro w h hs hall
    obtain ⟨h1, h2⟩ := wgood_unshared_step w op h hs hall.1
    exact ih _ h1 h2 hall.2

/-- T15.5 / T15.3: outside the region, every list that has the followed object writes it with its own sheet's
mapping — the object is written like any other rule of that sheet, so `serialised_form` / `reresolve_partial`
apply to it unchanged -/
theorem unshared_object_written_with_its_sheet (w : World) (o : Obj) (side : Bool) (k : Nat)
    (ho : w.obj = some o) (hs : ¬ Stray w) (hp : o.pos side ≠ none) :
    w.objSerDict o k = view (w.sheet side) := by
  have := not_stray_iff.mp hs o ho side hp
  simp [World.objSerDict, this]

/-- non-vacuity: the proper move is admissible from the witness world, the sharing step is not -/
example : ¬ Stray W2.w0 ∧
    WAllOkUnshared W2.w0 [.grab false 1 W2.pa, .on false (.delRule 1), .share true none true,
      .objSel [[.q .typeSel (.named W.z) W.a]], .on false (.delNs W.p)] ∧
    EntersStray (wstep W2.w0 (.grab false 1 W2.pa)).1 (.share true none true) := by
  refine ⟨?_, ⟨trivial, trivial, ⟨?_, ?_⟩, trivial, trivial, trivial⟩, ?_⟩
  · intro hs
    obtain ⟨o, sd, ho, _, _⟩ := hs
    simp [W2.w0] at ho
  · intro o ho u hu
    have e : (wstep (wstep W2.w0 (.grab false 1 W2.pa)).1 (.on false (.delRule 1))).1.obj =
        some { sels := [[.q .typeSel (.uri W.u1) W.a]], owner := none, own := [[(W.p, W.u1)]],
               posA := none, posB := none } := by decide
    rw [e] at ho
    cases ho
    have : u = W.u1 := by simpa [selsUris, itemUris, W.u1] using hu
    subst this
    decide
  · intro hs
    obtain ⟨o, ho, hp⟩ := hs
    have e : (wstep (wstep W2.w0 (.grab false 1 W2.pa)).1 (.on false (.delRule 1))).1.obj =
        some { sels := [[.q .typeSel (.uri W.u1) W.a]], owner := none, own := [[(W.p, W.u1)]],
               posA := none, posB := none } := by decide
    rw [e] at ho
    cases ho
    simp [Obj.pos] at hp
  · exact ⟨{ sels := [[.q .typeSel (.uri W.u1) W.a]], owner := some false, own := [[(W.p, W.u1)]],
             posA := some 0, posB := none }, by decide, by decide⟩

/-- the re-parenting roll-back of `insertRule` (`rolledBack`, the only way a call on ONE sheet changes the parent of a
rule that sits in its list) happens only inside calls that are rejected with NoModificationAllowedErr and leave the
rule list as it was -/
theorem rolled_back_only_when_rejected (s : Sheet) (op : Op) (h : rolledBack s op = true) :
    step s op = (s, .err .noModificationAllowedErr) := by
  have key : ∀ (r : NsRule) (idx : Option Nat) (io : Bool), insertNsRolledBack s r idx io = true →
      insertNs s r idx io true = (s, .err .noModificationAllowedErr) := by
    intro r idx io hr
    unfold insertNsRolledBack at hr
    unfold insertNs
    cases hp : nsPosition s idx io with
    | error e => simp [hp] at hr
    | ok index =>
      simp only [hp] at hr ⊢
      unfold insertNsAt
      split at hr
      · simp at hr
      · rename_i hd
        simp [hd, hr]
  cases op with
  | insNs p u idx io =>
    simp only [rolledBack] at h
    simp only [step]
    split at h
    · simp at h
    · rename_i h1
      split at h
      · simp at h
      · rename_i h2
        simp only [h1, h2, if_false]
        exact key _ _ _ h
  | insNsText p u c0 c1 c2 idx io =>
    simp only [rolledBack] at h
    simp only [step]
    split at h
    · simp at h
    · rename_i h1
      split at h
      · simp at h
      · rename_i h2
        simp only [h1, h2, if_false]
        exact key _ _ _ h
  | setNs p u =>
    simp only [rolledBack] at h
    simp only [step, setNs]
    cases hf : findLastNs p s with
    | some x => simp [hf] at h
    | none =>
      simp only [hf] at h ⊢
      split at h
      · simp at h
      · rename_i h2
        simp only [h2, if_false]
        rw [key _ _ _ h]
  | parse init src => simp [rolledBack] at h
  | delNs p => simp [rolledBack] at h
  | delRule i => simp [rolledBack] at h
  | setPrefix i q => simp [rolledBack] at h
  | setSelText i sels => simp [rolledBack] at h
  | insStyleText sels idx io => simp [rolledBack] at h
  | insStyleObj sels idx io => simp [rolledBack] at h
  | setNsText i p u c0 c1 c2 => simp [rolledBack] at h
  | rawDel i => simp [rolledBack] at h
  | insMediaText i sels idx => simp [rolledBack] at h

/-- non-vacuity: `@namespace q "u1"; @namespace p "u2"; q|a {…}` and `add(CSSNamespaceRule(p, u1))` — the clean-up
removes the rule of `q`, is then refused, and the roll-back runs -/
example : rolledBack (step [] (.parse [] [.ns W.q W.u1 false false false, .ns W.p W.u2 false false false,
    .style [[.q .typeSel (.named W.q) W.a]]])).1 (.insNs W.p W.u1 none true) = true := by
  decide

/-- the serialised @namespace rules of BOTH sheets stay well-formed under every operation of the two-sheet model,
no guard (`wf_step` for two sheets) -/
theorem wf_wstep (w : World) (op : WOp) (h : ∀ side, AllGoodNs (w.sheet side)) :
    ∀ side, AllGoodNs ((wstep w op).1.sheet side) := by
  have hset : ∀ (s : Sheet) (k : Option Nat) (x : List Sel), AllGoodNs s → AllGoodNs (setAtRank s k (.style x)) := by
    intro s k x hs
    unfold setAtRank
    cases k with
    | none => exact hs
    | some k =>
      simp only
      cases bodyIndex s k with
      | none => exact hs
      | some i =>
        intro n hn
        rcases List.mem_or_eq_of_mem_set hn with hn | hn
        · exact hs n hn
        · cases hn
  have hobj : ∀ (o : Obj) (sels : List SSel), ∀ side, AllGoodNs ((objSetSel w o sels).1.sheet side) := by
    intro o sels side
    unfold objSetSel
    split
    · exact h side
    · cases resolveSels (w.objDict o) sels with
      | error e => exact h side
      | ok x =>
        cases side with
        | false => exact hset _ _ _ (h false)
        | true => exact hset _ _ _ (h true)
  cases op with
  | objSel sels =>
    simp only [wstep]
    cases ho : w.obj with
    | none => exact h
    | some o => exact hobj o sels
  | share to idx io =>
    simp only [wstep]
    cases ho : w.obj with
    | none => exact h
    | some o =>
      simp only
      cases hp : o.pos to with
      | some k => exact h
      | none =>
        simp only
        split
        · intro sd
          rw [World.sheet_with_obj]
          rcases eq_or_not sd to with e | e
          · subst e; rw [World.sheet_setSheet_same]; exact allGood_insertStyle _ _ (h sd)
          · subst e; rw [World.sheet_setSheet_other]; exact h _
        · exact h
  | grab side i sels =>
    simp only [wstep]
    split
    · split
      · exact h
      · cases hr : resolveSels (view (w.sheet side)) sels with
        | error e => exact h
        | ok x =>
          simp only
          intro sd
          rw [World.sheet_with_obj]
          rcases eq_or_not sd side with e | e
          · subst e
            rw [World.sheet_setSheet_same]
            intro n hn
            rcases List.mem_or_eq_of_mem_set hn with hn | hn
            · exact h sd n hn
            · cases hn
          · subst e; rw [World.sheet_setSheet_other]; exact h _
    · exact h
  | on side op =>
    by_cases hhit : ∃ i sels, op = .setSelText i sels ∧ w.objIndex side = some i
    · obtain ⟨i, sels, rfl, hi⟩ := hhit
      simp only [wstep, hi, if_true]
      cases ho : w.obj with
      | none => exact h
      | some o => exact hobj o sels
    · have hno : ∀ i sels, op = .setSelText i sels → w.objIndex side ≠ some i :=
        fun i sels e hi => hhit ⟨i, sels, e, hi⟩
      obtain ⟨h1, h2⟩ := wstep_on_sheets w side op hno
      intro sd
      rcases eq_or_not sd side with e | e
      · subst e
        rcases h1 with h1 | h1
        · rw [h1]; exact wf_step _ op (h sd)
        · rw [h1]; exact h sd
      · subst e; rw [h2]; exact h _

/-- T15.5 (coherence of the two-sheet model): the rank recorded for the followed object is where BOTH rule lists
show its selectors (`Sync`), and EVERY operation of the model keeps it so: namespace operations on either sheet
(with their roll-backs), `parse`, `selectorText =` on the object and on other rules, insertion into @media,
`deleteRule` / `insertRule` of other rules in front of or behind the object (the rank shifts), deletion of the object
through one list, `grab`, `share`. For every world, no guard. -/
theorem sync_step (w : World) (op : WOp) (h : Sync w) : Sync (wstep w op).1 := by
  cases op with
  | objSel sels =>
    simp only [wstep]
    cases ho : w.obj with
    | none => exact h
    | some o => exact sync_objSetSel sels h ho
  | share to idx io =>
    simp only [wstep]
    cases ho : w.obj with
    | none => exact h
    | some o =>
      simp only
      cases hp : o.pos to with
      | some k => exact h
      | none =>
        simp only
        split
        · rename_i j hj
          obtain ⟨e1, e2⟩ := insertStyle_ok hj
          rw [e1]
          exact sync_share h ho e2
        · exact h
  | grab side i sels =>
    simp only [wstep]
    split
    · rename_i y hn hi
      split
      · exact h
      · cases hr : resolveSels (view (w.sheet side)) sels with
        | error e => exact h
        | ok x => exact sync_grab hn hi rfl rfl rfl
    · exact h
  | on side op =>
    cases op with
    | parse init src =>
      simp only [wstep]
      cases ho : w.obj with
      | none =>
        simp only
        apply sync_of_no_obj
        rw [World.setSheet_obj]; exact ho
      | some o => exact h
    | insStyleObj x idx io => exact h
    | rawDel i => exact h
    | insStyleText x idx io =>
      simp only [wstep]
      split
      · rename_i j hj
        -- the step went through `insertStyle`
        have hstep : ∃ y, step (w.sheet side) (.insStyleText x idx io) =
            insertStyle (w.sheet side) (.style y) idx io := by
          simp only [step] at hj ⊢
          split at hj
          · simp at hj
          · split at hj
            · simp at hj
            · rename_i h1 h2
              cases hr : resolveSels (view (w.sheet side)) x with
              | error e => simp [hr] at hj
              | ok y => exact ⟨y, by rw [if_neg h1, if_neg h2]⟩
        obtain ⟨y, hy⟩ := hstep
        rw [hy] at hj ⊢
        obtain ⟨e1, e2⟩ := insertStyle_ok hj
        rw [e1]
        cases ho : w.obj with
        | none => simp only; exact sync_of_no_obj (by rw [World.setSheet_obj]; exact ho)
        | some o => exact sync_insert_other h ho rfl e2
      · rename_i hne
        -- refused: the list is unchanged
        have : (step (w.sheet side) (.insStyleText x idx io)).1 = w.sheet side := by
          cases hr : (step (w.sheet side) (.insStyleText x idx io)).2 with
          | err e => exact rejected_unchanged _ _ e (by intro i src hh; cases hh) hr
          | ok ret =>
            cases ret with
            | some j => exact absurd hr (hne j)
            | none =>
              exfalso
              simp only [step] at hr
              split at hr
              · simp at hr
              · split at hr
                · simp at hr
                · cases hres : resolveSels (view (w.sheet side)) x with
                  | error e => simp [hres] at hr
                  | ok y =>
                    simp only [hres] at hr
                    rcases insertStyle_cases (w.sheet side) (.style y) idx io with ⟨j, hj⟩ | ⟨e, he⟩
                    · rw [hj] at hr; cases hr
                    · rw [he] at hr; cases hr
        rw [this, World.setSheet_self]; exact h
    | insMediaText i x idx =>
      have hb : Sync (w.setSheet side (step (w.sheet side) (.insMediaText i x idx)).1) := by
        simp only [step]
        cases hi : (w.sheet side)[i]? with
        | none => simp only; rw [World.setSheet_self]; exact h
        | some r =>
          cases r with
          | media rs =>
            simp only
            split
            · rw [World.setSheet_self]; exact h
            · split
              · rw [World.setSheet_self]; exact h
              · cases hr : resolveSels (view (w.sheet side)) x with
                | error e => simp only; rw [World.setSheet_self]; exact h
                | ok y => exact sync_set_other h hi rfl rfl (objIndex_ne_of_media h hi)
          | ns n => simp only; rw [World.setSheet_self]; exact h
          | style y => simp only; rw [World.setSheet_self]; exact h
          | other y => simp only; rw [World.setSheet_self]; exact h
      simp only [wstep]
      cases ho : w.obj with
      | none => exact hb
      | some o =>
        simp only
        split
        · exact sync_with_owner (some side) hb (by rw [World.setSheet_obj]; exact ho)
        · exact hb
    | setSelText i sels =>
      simp only [wstep]
      split
      · cases ho : w.obj with
        | none => exact h
        | some o => exact sync_objSetSel sels h ho
      · rename_i hne
        simp only [step]
        split
        · rename_i y hi
          split
          · rw [World.setSheet_self]; exact h
          · cases hr : resolveSels (view (w.sheet side)) sels with
            | error e => simp only; rw [World.setSheet_self]; exact h
            | ok x => exact sync_set_other h hi rfl rfl hne
        · rw [World.setSheet_self]; exact h
    | delRule i =>
      cases hd : deleteRule (w.sheet side) i with
      | error e =>
        have : step (w.sheet side) (.delRule i) = (w.sheet side, .err e) := by simp [step, hd]
        simp only [wstep, this]
        rw [World.setSheet_self]; exact h
      | ok s' =>
        obtain ⟨x, hx, rfl⟩ := deleteRule_ok hd
        have hstep : step (w.sheet side) (.delRule i) = ((w.sheet side).eraseIdx i, .ok none) := by
          simp [step, hd]
        simp only [wstep, hstep, hx]
        cases hns : x.isNs with
        | true =>
          simp only [if_true]
          have : ∃ n, x = .ns n := by cases x <;> simp_all [Rule.isNs]
          obtain ⟨n, rfl⟩ := this
          have hb := denotation_stable (w.sheet side) (.delRule i)
            (Or.inr (Or.inr (Or.inr (Or.inr (Or.inr (Or.inl ⟨i, n, rfl, hx⟩))))))
          rw [hstep] at hb
          exact sync_of_body_eq side _ h hb
        | false =>
          simp only [Bool.false_eq_true, if_false]
          cases ho : w.obj with
          | none => simp only; exact sync_of_no_obj (by rw [World.setSheet_obj]; exact ho)
          | some o =>
            simp only
            split
            · exact sync_del_self h ho
            · rename_i hne; exact sync_del_other h ho hx hns hne
    | insNs p u idx io =>
      exact sync_ns_op side _ h (denotation_stable _ _ (Or.inl ⟨p, u, idx, io, rfl⟩))
    | insNsText p u c0 c1 c2 idx io =>
      exact sync_ns_op side _ h (denotation_stable _ _ (Or.inr (Or.inl ⟨p, u, c0, c1, c2, idx, io, rfl⟩)))
    | setNs p u =>
      exact sync_ns_op side _ h (denotation_stable _ _ (Or.inr (Or.inr (Or.inl ⟨p, u, rfl⟩))))
    | delNs p =>
      exact sync_ns_op side _ h (denotation_stable _ _ (Or.inr (Or.inr (Or.inr (Or.inl ⟨p, rfl⟩)))))
    | setPrefix i q =>
      exact sync_ns_op side _ h (denotation_stable _ _ (Or.inr (Or.inr (Or.inr (Or.inr (Or.inl ⟨i, q, rfl⟩))))))
    | setNsText i p u c0 c1 c2 =>
      exact sync_ns_op side _ h (denotation_stable _ _
        (Or.inr (Or.inr (Or.inr (Or.inr (Or.inr (Or.inr (Or.inl ⟨i, p, u, c0, c1, c2, rfl⟩))))))))

/-- … hence along every history from two parsed sheets -/
theorem sync_run (ops : List WOp) : ∀ (w : World), Sync w → Sync (wrun w ops) := by
  induction ops with
  | nil => intro w h; exact h
  | cons op t ih => intro w h; exact ih _ (sync_step w op h)

/-- non-vacuity: a world without followed object is coherent, hence so is every world reached from it -/
example : Sync W2.w0 ∧ Sync W2.shared :=
  ⟨sync_of_no_obj rfl, sync_run _ _ (sync_of_no_obj rfl)⟩

end CssVerif.C15
