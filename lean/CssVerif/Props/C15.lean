import CssVerif.Lemmas.Ns
/-!
# C15 — namespace declarations and namespaced selectors stay consistent
-/
namespace CssVerif.C15
open CssVerif.Ns CssVerif.Proto

/-- T15.4 (item level) an undeclared prefix is rejected with NamespaceErr -/
theorem undeclared_prefix_rejected (d : Dict) (k : QKind) (p name : Cps) (h : d.get p = none) :
    resolveItem d (.q k (.named p) name) = .error .namespaceErr := by
  simp [resolveItem, h]

end CssVerif.C15
