import CssVerif.Lemmas.StrCodec
import CssVerif.Lemmas.StrExact
import CssVerif.Gen.C03Productions
import CssVerif.Gen.C05Productions
import CssVerif.Lemmas.SheetCanonPrune
import CssVerif.Lemmas.SheetCanonBlind
import CssVerif.Props.C02
/-!
# C03 — serialise-then-parse is lossless; serialisation is a fixpoint (content codecs)

Property theorems only (helpers: `Lemmas/StrCodec.lean`). Models: `Model/StrCodec.lean` (tokenizer unescaping,
`helper.string/stringvalue/uri/urivalue`, token recognisers), `Model/StrSafe.lean` (the decidable `Safe` predicates),
tied to the source by `tools/harness/c03.py`.

`strE v` is what the serializer writes for a stored STRING value `v` (`helper.string`), `strD t` is what the DOM
stores for a STRING token text `t` (`stringsub`/`_repl`: escapes decoded and line continuations removed in one
pass, then `stringvalue`).
-/
namespace CssVerif.C03
open CssVerif.StrCodec CssVerif.Proto

/-- T3.1 (strings, lossless): for EVERY safe stored value, what `helper.string` writes is read back as that value. -/
theorem string_roundtrip (v : List Nat) (h : SafeStr v) : strD (strE v) = some v :=
  strD_strE_of_scan .quoted rfl v h

/-- T3.1 (strings, one token): for every safe stored value and every following text, the STRING production matches
exactly the written text — the value does not end the string early and does not swallow what follows. -/
theorem string_single_token (v rest : List Nat) (h : SafeStr v) :
    lexString (strE v ++ rest) = some (strE v).length := by
  have := lex_encTail .quoted rfl v rest h
  simp only [strE, helperString_eq .quoted rfl v h, lexString, List.cons_append, true_or, if_true, this]
  simp

/-- T3.1 (strings, fixpoint): writing what was read back from the written form gives the same text. -/
theorem string_fixpoint (v : List Nat) (h : SafeStr v) : (strD (strE v)).map strE = some (strE v) := by
  rw [string_roundtrip v h]; rfl

/-! `uriE v` is what the serializer writes for a stored URL (`helper.uri`: quoted with `helper.string` iff the value
contains `( ) , ; ' "` or white space); `uriD` / `uriDTok` are the two readers (`helper.urivalue` for URI tokens in
property values, `Base._uritokenvalue` for @import / @namespace / unknown rules) after `unicodesub`. -/

/-- T3.1 (URLs, lossless): for EVERY safe stored URL, both readers give the value back from the written form,
whether `helper.uri` chose the quoted or the unquoted form. -/
theorem uri_roundtrip (v : List Nat) (h : SafeUri v) : uriD (uriE v) = some v ∧ uriDTok (uriE v) = some v :=
  uriD_uriE_of_class v h

/-- T3.1 (URLs, one token): the written form of a safe URL is exactly one URI token, whatever text follows. -/
theorem uri_single_token (v rest : List Nat) (h : SafeUri v) :
    lexUriPlain (uriE v ++ rest) = some (uriE v).length :=
  lexUri_uriE_of_class v rest h

/-- T3.1 (URLs, fixpoint) -/
theorem uri_fixpoint (v : List Nat) (h : SafeUri v) : (uriD (uriE v)).map uriE = some (uriE v) := by
  rw [(uri_roundtrip v h).1]; rfl

/-! ## tokens that are written back verbatim: identifiers, comments, function names, hash names, units

The tokenizer stores `unicodesub(found)` for these token types and the serializer writes the stored text as it is
(the full statement of the property would need the serializer to re-escape; it does not — see the findings below).
What holds for EVERY token text: unescaping is a projection, so whenever the written text is read as a token of
the same kind again, its value is the value that was written. -/

/-- T3.4/T3.5: `unicodesub` is idempotent — for all texts, all escapes, all terminators. -/
theorem unescape_idempotent (s : List Nat) : usub (usub s) = usub s := usub_usub s

/-- the stored value of an unescaped-only token is a fixpoint of the tokenizer's value computation -/
theorem token_value_stable (found : List Nat) :
    tokValue .other (tokValue .other found) = tokValue .other found := usub_usub found

/-- T3.4 (comments, identifiers without a backslash are kept verbatim, whatever else they contain) -/
theorem verbatim_without_backslash (k : TokKind) (s : List Nat) (h : ∀ x ∈ s, x ≠ 0x5C) : tokValue k s = s := by
  cases k with
  | string => exact ssub_no_bs s h
  | other => exact usub_no_bs s h
  | raw => rfl

/-- T3.4 comments: the tokenizer keeps a COMMENT token as found (no escape decoding inside comments), whatever it
contains -/
theorem comment_verbatim (c : List Nat) : tokValue .raw c = c := rfl

/-- a stored value without a backslash is always safe, as a string and as a URL, whatever else it contains —
quotes, line breaks, parentheses, control characters, non-ASCII (T3.1 non-vacuity for the content classes the
property names) -/
theorem safe_without_backslash (v : List Nat) (h : ∀ x ∈ v, x ≠ 0x5C) : SafeStr v ∧ SafeUri v := by
  refine ⟨scan_no_bs .quoted v h, ?_⟩
  simp only [SafeUri, uriClass]
  split
  · exact scan_no_bs .quoted v h
  · exact scan_no_bs .unquoted v h

/-- T3.3 for string content parsed from a source without backslashes (either quote style, any other character):
the stored value is the text between the quotes, it is safe, and serialise-parse gives it back.
(The full statement — for every STRING token text — is FALSE on the current code: see `finding_*` below.) -/
theorem parsed_string_roundtrip_partial (q : Nat) (body : List Nat) (hq : q ≠ 0x5C)
    (h : ∀ x ∈ body, x ≠ 0x5C) :
    strD (q :: body ++ [q]) = some body ∧ SafeStr body ∧ strD (strE body) = some body := by
  have hall : ∀ x ∈ q :: (body ++ [q]), x ≠ 0x5C := by
    intro x hx
    simp only [List.mem_cons, List.mem_append, List.not_mem_nil, or_false] at hx
    rcases hx with rfl | hx | rfl
    · exact hq
    · exact h x hx
    · exact hq
  have hs : SafeStr body := scan_no_bs .quoted body h
  refine ⟨?_, hs, string_roundtrip body hs⟩
  have e1 : tokValue .string (q :: (body ++ [q])) = q :: (body ++ [q]) := by
    simp only [tokValue]; rw [ssub_no_bs _ hall]
  simp only [strD, List.cons_append, e1, stringvalue]
  rw [replace2_no_a _ hall]
  simp [inner]

/-- `helper.normalize` on a name without backslash is ASCII lower-casing, nothing else (names written in normalised
form — property names, units, function names, pseudo names, at-keywords — are fixpoints when they are plain) -/
theorem normalize_without_backslash (x : List Nat) (h : ∀ c ∈ x, c ≠ 0x5C) : normalize x = x.map lowerA := by
  unfold normalize
  split
  · rename_i he; simp at he; subst he; rfl
  · have := reSub_plain_append simpleEscMatch_needsBs x [] h
    simp only [List.append_nil, reSub_nil] at this
    rw [this]

/-- `helper.uri` quotes exactly the values that contain `( ) , ; ' "` or white space (the lazy `.*?` of
`_match_forbidden_in_uri` never has to cross a line feed, because a line feed is itself white space) -/
theorem uri_quoted_iff (v : List Nat) : forbMatch v = v.any isForb := forbMatch_eq_any v

/-! ## non-vacuity: the hypotheses are satisfiable by the content the property talks about
(code points are written out: evaluating `String` literals in the kernel is slow) -/

/-- `a "b" 'c' (d) \\e \g é` -/
example : SafeStr [0x61, 0x20, 0x22, 0x62, 0x22, 0x20, 0x27, 0x63, 0x27, 0x20, 0x28, 0x64, 0x29, 0x20, 0x5C, 0x5C, 0x65, 0x20, 0x5C, 0x67, 0x20, 0xE9] := by decide
/-- a, LF, CR, FF, ", ', U+1F600, \ -/
example : SafeStr [0x61, 10, 13, 12, 0x22, 0x27, 0x1F600, 0x5C] := by decide
/-- `img/x.png?v=1#f`, `a b(1),'"`, `a\\\\b` -/
example : SafeUri [0x69, 0x6D, 0x67, 0x2F, 0x78, 0x2E, 0x70, 0x6E, 0x67, 0x3F, 0x76, 0x3D, 0x31, 0x23, 0x66] ∧ SafeUri [0x61, 0x20, 0x62, 0x28, 0x31, 0x29, 0x2C, 0x27, 0x22] ∧ SafeUri [0x61, 0x5C, 0x5C, 0x5C, 0x5C, 0x62] := by decide
example : strD (strE [0x61, 10, 0x22, 0x5C]) = some [0x61, 10, 0x22, 0x5C] := by decide

/-! ## exactness of `Safe` — a TEST over a small scope, not a theorem

The theorems above show that `Safe` is sufficient. That it is also necessary (a value outside `Safe` does not read back)
is checked here for every value of length ≤ 3 (strings) / ≤ 2 (URLs) over `\\ " a g LF SP ) U+0001`, and by the harness
against the implementation for all values of ≤ 4–5 pieces over an 11-piece alphabet plus a random stream. -/
example : ((allLists [0x5C, 0x22, 0x61, 0x67, 10, 0x20, 0x29, 1] 3).all strExact) = true := by decide +kernel
example : ((allLists [0x5C, 0x22, 0x61, 0x67, 10, 0x20, 0x29, 1] 2).all uriExact) = true := by decide +kernel

/-! ## known findings, machine-checked at their witnesses (the model exhibits what the implementation does) -/

/-- `C03-escaped-dquote`: `'a\"b'` is stored as `a\"b`; `helper.string` writes `"a\\"b"`, whose STRING token ends
after 5 of its 7 characters. -/
theorem finding_escaped_dquote :
    strD [0x27, 0x61, 0x5C, 0x22, 0x62, 0x27] = some [0x61, 0x5C, 0x22, 0x62] ∧ ¬ SafeStr [0x61, 0x5C, 0x22, 0x62] ∧
    lexString (strE [0x61, 0x5C, 0x22, 0x62]) = some 5 ∧ (strE [0x61, 0x5C, 0x22, 0x62]).length = 7 := by decide

/-! findings that were fixed in the tree (12a90a6, be395e5, 975ab00, 1fb8b63): their witnesses now round trip -/

/-- `"\\\\\\a 41"` (escaped backslash, escaped line feed, `41`) is stored as `\\\\`, LF, `41` — no longer `\\41` — and that
value is safe -/
theorem fixed_escaped_linebreak_after_backslash :
    strD [0x22, 0x5C, 0x5C, 0x5C, 0x61, 0x20, 0x34, 0x31, 0x22] = some [0x5C, 0x5C, 10, 0x34, 0x31] ∧ SafeStr [0x5C, 0x5C, 10, 0x34, 0x31] ∧
    strD (strE [0x5C, 0x5C, 10, 0x34, 0x31]) = some [0x5C, 0x5C, 10, 0x34, 0x31] := by decide

/-- `url("a\\<LF>b")`: the line continuation is removed as in any other string -/
theorem fixed_uri_line_continuation :
    uriD [0x75, 0x72, 0x6C, 0x28, 0x22, 0x61, 0x5C, 0xA, 0x62, 0x22, 0x29] = some [0x61, 0x62] ∧ SafeUri [0x61, 0x62] := by decide

/-- a URL with a control character is quoted: U+0001 is written `url("<U+0001>")`, one URI token, read back as U+0001 -/
theorem fixed_url_control_char :
    uriE [1] = [0x75, 0x72, 0x6C, 0x28, 0x22, 1, 0x22, 0x29] ∧ SafeUri [1] ∧
    Gen.C03.uriRe.first (uriE [1]) = some 8 ∧ uriD (uriE [1]) = some [1] := by decide

/-- `C03-uri-trailing-backslash`: `url(\,\\)` is stored as `\,\\`; the comma forces quotes. Since 61e31a0 the written form
`url("\,\\")` closes and is one URI token (before: `"\,\\\"` never closed), but it is read back as `\,\` — one backslash
less: `stringvalue` takes the last backslash and the closing quote for an escaped quote. The text is a fixpoint, the
stored value is not. -/
theorem finding_uri_trailing_backslash :
    uriD [0x75, 0x72, 0x6C, 0x28, 0x5C, 0x2C, 0x5C, 0x5C, 0x29] = some [0x5C, 0x2C, 0x5C, 0x5C] ∧ ¬ SafeUri [0x5C, 0x2C, 0x5C, 0x5C] ∧
    Gen.C03.uriRe.first (uriE [0x5C, 0x2C, 0x5C, 0x5C]) = some (uriE [0x5C, 0x2C, 0x5C, 0x5C]).length ∧
    uriD (uriE [0x5C, 0x2C, 0x5C, 0x5C]) = some [0x5C, 0x2C, 0x5C] ∧
    uriE [0x5C, 0x2C, 0x5C] = uriE [0x5C, 0x2C, 0x5C, 0x5C] := by decide

/-- `C03-ident-not-reescaped`: `\31 a` is stored and written as `1a`, which is no identifier. -/
theorem finding_ident_not_reescaped :
    tokValue .other [0x5C, 0x33, 0x31, 0x20, 0x61] = [0x31, 0x61] ∧ lexIdent [0x31, 0x61] = none ∧
    Gen.C03.identRe.first [0x31, 0x61] = none := by decide

/-! the two translators (this check's and C05's) read the same productions from the source -/
example : Gen.C03.stringRe = Gen.C05.reSTRING ∧ Gen.C03.uriRe = Gen.C05.reURI ∧ Gen.C03.identRe = Gen.C05.reIDENT ∧
    Gen.C03.commentRe = Gen.C05.reCOMMENT ∧ Gen.C03.unicodesubRe = Gen.C05.unicodesubRe ∧
    Gen.C03.stringsubRe = Gen.C05.stringsubRe := by decide

/-! ## sheet level (structure): parse ∘ serialise is the identity, serialise is a fixpoint

Models: `Model/SheetCanon.lean` — `canon s`, the spelling `CSSSerializer` (default preferences) gives to the sheet parsed
from the spelled sheet `s`: the rules that serialise to nothing are left out (`prune`: `keepEmptyRules = False`), the
others are laid out (line separators, indentation, `;` placement, declarations before margin boxes, keyword and name
case, quote style of targets); `serialise s = render (canon s)`, the tokens of `sheet.cssText` — on top of C02's
structure kernel (`Model/Struct.lean`, `Model/AtRules.lean`, `Model/SheetSpec.lean`) and C02's theorem `parse_render`.
Every abstract sheet is `s.erase` of its spellings `s`, so `∀ s` below is `∀ abstract sheet, ∀ source spelling of it`.
Hypotheses: `s.WF O M` (C02: the source is a well-formed sheet in the sense of `parse_render`); `HrefSafe s` (targets
without a backslash: the content-level `Safe` of the first part of this file); `Accepts O (canon s)` (the selector /
value / media-query parsers accept these parts with the blanks and comments the serializer puts around them: C16 / C17 /
C18); `TidyL (render s)` (tokens typed S or COMMENT are no brackets: a tokenizer invariant that the abstract token type
does not enforce).  Tie: `tools/harness/c03_canon.py` — `serialise s` = the real tokenizer on the real `cssText`, token
by token, for generated spelled sheets of every rule kind, empty rules included. -/
open CssVerif.SheetSpec CssVerif.Struct CssVerif.AtRules CssVerif.SheetCanon

/-- T3.S0: what the serializer writes denotes the abstract sheet of the source without the rules that are not written —
every other rule in order with its selector groups, declarations (name, value, priority), media queries, import target,
namespace binding, comments. -/
theorem canon_erase (s : SSheet) : (canon s).erase = (prune s).erase := canon_erase_aux s

/-- T3.S1: what the serializer writes is again a well-formed sheet in the sense of `parse_render`. -/
theorem canon_wf (O : Oracle) (M : List Cps) (s : SSheet) (h : s.WF O M) (hs : HrefSafe s)
    (ha : Accepts O (canon s)) (ht : TidyL (render s)) : (canon s).WF O M :=
  canon_wf_aux O M s h hs ha ht

/-- **T3.S2 parse_serialise** (`parse (serialise s) = s` at structure level): the DOM projection of what the parser
builds from the serialisation is the abstract sheet (without the rules that serialise to nothing) — the same rules in
the same order, selectors, declarations, values, priorities, media, import targets, namespace bindings, comments at rule
and declaration level. -/
theorem parse_serialise (O : Oracle) (M : List Cps) (hO : AtFaithful O) (s : SSheet) (h : s.WF O M) (hs : HrefSafe s)
    (ha : Accepts O (canon s)) (ht : TidyL (render s)) :
    projSheet O M (parseSheet O M (serialise s)) = (prune s).erase := by
  unfold serialise
  rw [C02.parse_render O M hO (canon s) (canon_wf_aux O M s h hs ha ht), canon_erase_aux]

/-- when every rule of the sheet is written (`prune s = s`: no empty block, no `@media` without a written rule), the
reparsed sheet has exactly the abstract sheet of the source … -/
theorem parse_serialise_visible (O : Oracle) (M : List Cps) (hO : AtFaithful O) (s : SSheet) (h : s.WF O M)
    (hs : HrefSafe s) (ha : Accepts O (canon s)) (ht : TidyL (render s)) (hv : prune s = s) :
    projSheet O M (parseSheet O M (serialise s)) = s.erase := by
  rw [parse_serialise O M hO s h hs ha ht, hv]

/-- … which is the DOM projection of the sheet parsed from the source -/
theorem reparse_same_dom (O : Oracle) (M : List Cps) (hO : AtFaithful O) (s : SSheet) (h : s.WF O M) (hs : HrefSafe s)
    (ha : Accepts O (canon s)) (ht : TidyL (render s)) (hv : prune s = s) :
    projSheet O M (parseSheet O M (serialise s)) = projSheet O M (parseSheet O M (render s)) := by
  rw [parse_serialise_visible O M hO s h hs ha ht hv, C02.parse_render O M hO s h]

/-- all spellings of one abstract sheet are serialised to texts that parse to the same abstract sheet -/
theorem serialise_spelling_invariant (O : Oracle) (M : List Cps) (hO : AtFaithful O) (s₁ s₂ : SSheet)
    (h₁ : s₁.WF O M) (h₂ : s₂.WF O M) (hs₁ : HrefSafe s₁) (hs₂ : HrefSafe s₂)
    (ha₁ : Accepts O (canon s₁)) (ha₂ : Accepts O (canon s₂)) (ht₁ : TidyL (render s₁)) (ht₂ : TidyL (render s₂))
    (he : (prune s₁).erase = (prune s₂).erase) :
    projSheet O M (parseSheet O M (serialise s₁)) = projSheet O M (parseSheet O M (serialise s₂)) := by
  rw [parse_serialise O M hO s₁ h₁ hs₁ ha₁ ht₁, parse_serialise O M hO s₂ h₂ hs₂ ha₂ ht₂, he]

/-- the acceptance hypothesis is not needed for a sub-parser oracle that does not look at the white space of the gaps
around selectors / values / media queries nor at the quote style of `@charset` (`GapBlind O`, a property of the oracle
alone; the real sub-parsers skip S tokens there): acceptance of the source (part of `s.WF O M`) carries over -/
theorem accepts_serialised (O : Oracle) (M : List Cps) (hB : GapBlind O) (s : SSheet) (h : s.WF O M) :
    Accepts O (canon s) :=
  accepts_of_blind O hB M s h

/-- **parse_serialise for gap-blind oracles**: no per-sheet hypothesis beyond well-formedness of the source, backslash-free
targets and the tokenizer invariant -/
theorem parse_serialise_blind (O : Oracle) (M : List Cps) (hO : AtFaithful O) (hB : GapBlind O) (s : SSheet)
    (h : s.WF O M) (hs : HrefSafe s) (ht : TidyL (render s)) :
    projSheet O M (parseSheet O M (serialise s)) = (prune s).erase :=
  parse_serialise O M hO s h hs (accepts_of_blind O hB M s h) ht

/-- T3.S3: writing what was written changes nothing (no hypothesis): nothing more is left out, the layout is the same -/
theorem canon_idem (s : SSheet) : canon (canon s) = canon s := canon_idem_aux s

/-- **T3.S3 serialise_fixpoint** (`serialise (parse (serialise s)) = serialise s`): the sheet parsed from the
serialisation is the sheet of the spelled sheet `canon s` (`parse_of_serialise` below), and serialising that gives the
same tokens again. -/
theorem serialise_fixpoint (s : SSheet) : serialise (canon s) = serialise s := by
  unfold serialise; rw [canon_idem_aux]

/-- the parse of the serialisation IS the parse of the spelled sheet `canon s`, rule by rule (not only its projection) -/
theorem parse_of_serialise (O : Oracle) (M : List Cps) (hO : AtFaithful O) (s : SSheet) (h : s.WF O M) (hs : HrefSafe s)
    (ha : Accepts O (canon s)) (ht : TidyL (render s)) :
    parseSheet O M (serialise s) = (canon s).parsed O :=
  parseSheet_render O M hO (canon s) (canon_wf_aux O M s h hs ha ht)

/-- second round: the second serialisation reparses to the same abstract sheet as the first -/
theorem parse_second_serialisation (O : Oracle) (M : List Cps) (hO : AtFaithful O) (s : SSheet) (h : s.WF O M)
    (hs : HrefSafe s) (ha : Accepts O (canon s)) (ht : TidyL (render s)) :
    projSheet O M (parseSheet O M (serialise (canon s))) = (prune s).erase := by
  rw [serialise_fixpoint, parse_serialise O M hO s h hs ha ht]

/-- nothing that is written is left out the second time -/
theorem prune_canon (s : SSheet) : prune (canon s) = canon s :=
  prune_canonV _ (prune_idem s)

/-! non-vacuity: the example sheet of C02 (every rule kind, comments in gaps, upper case, escapes, both quote styles) -/
example : HrefSafe C02.Ex2.sheet := by
  refine ⟨?_, ?_⟩ <;> intro p hp <;> simp [C02.Ex2.sheet] at hp <;> subst hp <;>
    simp [impSafe, nsSafe, C02.Ex2.href, SHref.value] <;> decide
example : Accepts C02.Ex2.O (canon C02.Ex2.sheet) :=
  accepts_of_yes _ (fun _ => rfl) (fun _ _ => rfl) (fun _ => rfl) (fun _ => rfl) _
example : TidyL (render C02.Ex2.sheet) := by unfold TidyL; decide +kernel
/-- every rule of the example sheet is written -/
example : prune C02.Ex2.sheet = C02.Ex2.sheet := by simp only [prune]; rfl
example : GapBlind C02.Ex2.O :=
  ⟨fun _ _ _ _ _ _ _ => rfl, fun _ _ _ _ => rfl, fun _ _ _ _ _ _ _ => rfl, fun _ _ _ => rfl, fun _ _ => rfl⟩

/-- tests (evaluation), not theorems: every rule of the example sheet is written; its serialisation has 10 rules again;
an empty style rule and an `@media` rule around it are left out -/
example : (pruneRules C02.Ex2.sheet.rules).toks = C02.Ex2.sheet.rules.toks := by decide +kernel
example : (parseSheet C02.Ex2.O C02.Ex2.M (serialise C02.Ex2.sheet)).length = 10 := by decide +kernel
example : serialise { rules := .cons (.media [] [] [identTok [0x61]] [] none []
    (.cons (.style { first := [identTok [0x62]] } {}) [] .nil)) [] .nil } = [eofTok] := by decide +kernel

end CssVerif.C03