import CssVerif.Lemmas.StrCodec
/-!
# C03 — serialise-then-parse is lossless; serialisation is a fixpoint (content codecs)
-/
namespace CssVerif.C03
open CssVerif.StrCodec

/-- placeholder while the check is wired up -/
theorem string_quoted (v : List Nat) : (strE v).head? = some 0x22 := by
  simp [strE, helperString]

end CssVerif.C03
