import CssVerif.Lemmas.StrCodec
/-!
# C03 — serialise-then-parse is lossless; serialisation is a fixpoint (content codecs)

Property theorems only (helpers: `Lemmas/StrCodec.lean`). Models: `Model/StrCodec.lean` (tokenizer unescaping,
`helper.string/stringvalue/uri/urivalue`, token recognisers), `Model/StrSafe.lean` (the decidable `Safe` predicates),
tied to the source by `tools/harness/c03.py`.

`strE v` is what the serializer writes for a stored STRING value `v` (`helper.string`), `strD t` is what the DOM
stores for a STRING token text `t` (`unicodesub`/`_repl`, `cleanstring`, `stringvalue`).
-/
namespace CssVerif.C03
open CssVerif.StrCodec

/-- T3.1 (strings, lossless): for EVERY safe stored value, what `helper.string` writes is read back as that value. -/
theorem string_roundtrip (v : List Nat) (h : SafeStr v) : strD (strE v) = some v :=
  strD_strE_of_scan .str rfl v h

/-- T3.1 (strings, one token): for every safe stored value and every following text, the STRING production matches
exactly the written text — the value does not end the string early and does not swallow what follows. -/
theorem string_single_token (v rest : List Nat) (h : SafeStr v) :
    lexString (strE v ++ rest) = some (strE v).length := by
  have := lex_encTail .str rfl v rest h
  simp only [strE, helperString_eq, lexString, List.cons_append, true_or, if_true, this]
  simp

/-- T3.1 (strings, fixpoint): writing what was read back from the written form gives the same text. -/
theorem string_fixpoint (v : List Nat) (h : SafeStr v) : (strD (strE v)).map strE = some (strE v) := by
  rw [string_roundtrip v h]; rfl

/-! `uriE v` is what the serializer writes for a stored URL (`helper.uri`: quoted with `helper.string` iff the value
contains `( ) , ; ' "` or white space); `uriD` / `uriDTok` are the two readers (`helper.urivalue` for URI tokens in
property values, `Base._uritokenvalue` for @import / @namespace / unknown rules) after `unicodesub`. -/

/-- T3.1 (URLs, lossless): for EVERY safe stored URL, both readers give the value back from the written form,
whether `helper.uri` chose the quoted or the unquoted form. -/
theorem uri_roundtrip (v : List Nat) (h : SafeUri v) : uriD (uriE v) = some v ∧ uriDTok (uriE v) = some v :=
  uriD_uriE_of_class v h

/-- T3.1 (URLs, one token): the written form of a safe URL is exactly one URI token, whatever text follows. -/
theorem uri_single_token (v rest : List Nat) (h : SafeUri v) :
    lexUriPlain (uriE v ++ rest) = some (uriE v).length :=
  lexUri_uriE_of_class v rest h

/-- T3.1 (URLs, fixpoint) -/
theorem uri_fixpoint (v : List Nat) (h : SafeUri v) : (uriD (uriE v)).map uriE = some (uriE v) := by
  rw [(uri_roundtrip v h).1]; rfl

end CssVerif.C03
