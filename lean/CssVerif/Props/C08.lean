import CssVerif.Lemmas.EncLadder
import CssVerif.Lemmas.EncEscape
import CssVerif.Lemmas.EncSheet
/-!
# C08 — sheet/import encoding precedence; serialised bytes decodable and lossless

Property theorems only (helpers: `Lemmas/EncLadder.lean`, `Lemmas/EncEscape.lean`, `Lemmas/EncSheet.lean`).
Models: `Model/EncLadder.lean` (`_readUrl`, `_setHref`, `_resolveImport`, `_setCssTextWithEncodingOverride`,
`parseString`, `parseUrl`), `Model/EncSheet.lean` (`encoding`, `insertRule`, `deleteRule`), `Model/EncEscape.lean`
(`_escapecss`, the tokenizer's `unicodesub`), tied to the source by the correspondences of `tools/harness/c08.py`.
The codecs of the Python runtime, the fetcher and the sheet parser are parameters (`World`), so every theorem below
holds for all of them.
-/
namespace CssVerif.C08
open CssVerif.Codec CssVerif.EncLadder

/-! ## T8.1 the ladder of `_readUrl` -/

/-- a candidate of the ladder: does it apply, what it says, its tag (`enctype`) -/
structure Cand where
  applies : Bool
  encoding : Name
  tag : Nat

/-- what the content itself declares explicitly (BOM or `@charset`), as `_readUrl` sees it -/
def explicitOf (c : Content) : Option Name :=
  match contentDetect c with
  | some (e, true) => some (encName e)
  | _ => none

/-- the candidates in precedence order -/
def ladder (override http parent : Option Name) (c : Content) : List Cand :=
  [⟨truthy override, override.getD [], 0⟩, ⟨truthy http, http.getD [], 1⟩,
   ⟨(explicitOf c).isSome, (explicitOf c).getD [], 2⟩, ⟨truthy parent, parent.getD [], 4⟩, ⟨true, utf8N, 5⟩]

/-- T8.1 `readUrl_ladder`: the chosen `(encoding, enctype)` is the FIRST APPLICABLE of
override / HTTP / explicit BOM-or-@charset / parent / UTF-8 — for content given as bytes or as text -/
theorem readUrl_ladder (override http parent : Option Name) (c : Content) :
    ((ladder override http parent c).find? (·.applies)).map (fun k => (⟨k.encoding, k.tag⟩ : Choice))
      = some (choose override http parent c) := by
  unfold ladder choose explicitOf
  cases ho : truthy override <;> cases hh : truthy http <;> cases hp : truthy parent <;>
    rcases hd : contentDetect c with _ | ⟨e, _ | _⟩ <;> simp [List.find?]

/-- … and `_readUrl` returns exactly that choice, for EVERY fetcher result shape: no sheet unless the fetcher
returned a pair with content; text content is handed on untouched; bytes are decoded with the chosen encoding (the
`@charset` name rewritten to it), an undecodable content gives `text = None`, an unknown encoding name raises -/
theorem readUrl_result (w : World) (r : FetchRes) (override parent : Option Name) :
    readUrl w r override parent =
      match r with
      | .pair http (.text t) =>
        .ok (some ⟨(choose override http parent (.text t)).encoding, (choose override http parent (.text t)).enctype, some t⟩)
      | .pair http (.bytes b) =>
        (match w.dec (choose override http parent (.bytes b)).encoding b with
         | .ok t => .ok (some ⟨(choose override http parent (.bytes b)).encoding,
                               (choose override http parent (.bytes b)).enctype,
                               some (fixFinal t (choose override http parent (.bytes b)).encoding)⟩)
         | .unicodeError => .ok (some ⟨(choose override http parent (.bytes b)).encoding,
                                       (choose override http parent (.bytes b)).enctype, none⟩)
         | .lookupError => .error .lookupError)
      | _ => .ok none := by
  cases r with
  | none => rfl
  | badLen => rfl
  | noContent h => rfl
  | pair http c =>
    cases c with
    | text t => rfl
    | bytes b =>
      rw [readUrl_pair]
      simp only [decodeContent]
      cases w.dec (choose override http parent (Content.bytes b)).encoding b <;> rfl

/-- the `@charset` rewriter applied to the decoded bytes always answers (no silent default in `fixFinal`) -/
theorem fixFinal_total (t enc : List Nat) : ∃ r, fixEncoding t enc true = some r ∧ fixFinal t enc = r := by
  cases h : fixEncoding t enc true with
  | none => exact absurd h (fix_final t enc)
  | some r => exact ⟨r, rfl, fixFinal_eq t enc r h⟩

/-- the tag tells which rung was taken -/
theorem enctype_meaning (override http parent : Option Name) (c : Content) :
    let ch := choose override http parent c
    (ch.enctype = 0 ↔ truthy override = true) ∧
    (ch.enctype = 1 ↔ truthy override = false ∧ truthy http = true) ∧
    (ch.enctype = 2 ↔ truthy override = false ∧ truthy http = false ∧ (explicitOf c).isSome = true) ∧
    (ch.enctype = 4 ↔ truthy override = false ∧ truthy http = false ∧ (explicitOf c).isSome = false ∧ truthy parent = true) ∧
    (ch.enctype = 5 ↔ truthy override = false ∧ truthy http = false ∧ (explicitOf c).isSome = false ∧ truthy parent = false) := by
  unfold choose explicitOf
  cases ho : truthy override <;> cases hh : truthy http <;> cases hp : truthy parent <;>
    rcases hd : contentDetect c with _ | ⟨e, _ | _⟩ <;> simp

/-! "BOM/@charset in the content" as `_readUrl` sees it is the detector run WITHOUT `final`
(`util.py:938,940`). Against CSS 2.1 §4.4 on complete data (the detector WITH `final`, C07) this differs on exactly
one family of inputs, the UTF-16 LE BOM followed by fewer than two bytes — known finding C08-short-bom:

  FULL STATEMENT (not provable for the code as it is):
    explicitOf (.bytes b) = (match detect b true with | some (e, true) => some (encName e) | _ => none)

  proved: `explicit_is_final_partial` under the guard `4 ≤ b.length`; and the negation at the witness. -/
theorem explicit_is_final_partial (b : List Nat) (h4 : 4 ≤ b.length) :
    explicitOf (.bytes b) = (match detect b true with | some (e, true) => some (encName e) | _ => none) := by
  have hcore : core b false = core b true := by
    have := core_ge4 b [] false true h4
    simpa using this
  simp only [explicitOf, contentDetect, detect, hcore]
  cases core b true with
  | dflt => simp
  | ans e x => rfl
  | scan => cases charsetName b <;> simp

/-- … and that family is the ONLY place where the two differ: if `_readUrl`'s idea of "explicit" is not the
CSS 2.1 answer for the complete data, the data is shorter than four bytes and starts with `FF FE` -/
theorem explicit_differs_only_at_short_bom (b : List Nat)
    (h : explicitOf (.bytes b) ≠ (match detect b true with | some (e, true) => some (encName e) | _ => none)) :
    b.length < 4 ∧ b.take 2 = [0xFF, 0xFE] := by
  by_cases h4 : 4 ≤ b.length
  · exact absurd (explicit_is_final_partial b h4) h
  · have hl : b.length < 4 := by omega
    refine ⟨hl, ?_⟩
    have e1 : explicitOf (.bytes b) = (exAns (detect b false)).map encName := by
      simp only [explicitOf, contentDetect]
      rcases hd : detect b false with _ | ⟨e, _ | _⟩ <;> simp [exAns]
    have e2 : (match detect b true with | some (e, true) => some (encName e) | _ => none)
        = (exAns (detect b true)).map encName := by
      rcases hd : detect b true with _ | ⟨e, _ | _⟩ <;> simp [exAns]
    rcases explicit_short b hl with heq | hbom
    · rw [e1, e2, heq] at h; exact absurd rfl h
    · exact hbom

/-- the witness: content `FF FE` (an empty UTF-16 sheet) is explicit by CSS 2.1, but `_readUrl` falls through to
the parent's encoding / UTF-8 -/
example : explicitOf (.bytes [0xFF, 0xFE]) = none ∧
    (match detect [0xFF, 0xFE] true with | some (e, true) => some (encName e) | _ => none) = some utf16N ∧
    choose none none none (.bytes [0xFF, 0xFE]) = ⟨utf8N, 5⟩ := by decide

/-! ## T8.2 the hand-over to imported sheets -/

/-- T8.2 `override_propagates`: when `parseString` is given an override, then in an import tree of ANY depth every
import that is loaded was read with exactly that encoding as an override (`enctype = 0`), and — the name being one
`CSSCharsetRule` accepts — reports it as its `encoding`; so does the root sheet -/
theorem override_propagates (w : World) (fuel : Nat) (input : Content) (e : Name) (href : Option Url) (p : Parsed)
    (he : e ≠ []) (h : parseString w fuel input (some e) href = .ok p) :
    (∀ x ∈ p.out.recs, x.found = true → x.enctype = 0 ∧ x.used = e ∧ (validName w e = true → x.reported = lower e)) ∧
    (validName w e = true → p.encoding = lower e) := by
  have hte : truthy (some e) = true := (truthy_some_iff e).mpr he
  unfold parseString at h
  split at h
  · cases h
  · rename_i t _
    split at h
    · cases h
    · rename_i st hst
      split at h
      · cases h
      · rename_i st' hfin
        simp only [Except.ok.injEq] at h; subst h
        have hq0 : (beginEO ⟨href, [], none, none, []⟩ (some e) none).override = some e := beginEO_override _ _ hte
        obtain ⟨hq, hall⟩ := parseItems_all w (loadChild w fuel 1) (OvRec w e) (fun s => s.override = some e)
          (fun s rs h => h) (fun s u r hq hr => loadChild_override w e he fuel 1 s u r hq hr) _ _ _ _ hst hq0
          (by intro x hx; simp at hx)
        have hout := finishEO_out w st st' _ _ hfin
        refine ⟨?_, ?_⟩
        · intro x hx; simp only at hx; rw [hout] at hx; exact hall x hx
        · intro hv
          unfold finishEO at hfin
          simp only [hte, if_true] at hfin
          rw [hq] at hfin
          cases hs : setEncodingRule w st.sheet.rules ((some e).getD []) with
          | error x => rw [hs] at hfin; cases hfin
          | ok rs =>
            rw [hs] at hfin
            simp only [Except.ok.injEq] at hfin; subst hfin
            exact setEncodingRule_reported w _ _ _ hv hs

/-- T8.2 (second half) without an override every import, at any depth, is read by the ladder from ITS OWN HTTP
charset, ITS OWN content and the `parentEncoding` handed down to it; its content is decoded accordingly -/
theorem no_override_ladder (w : World) (fuel : Nat) (input : Content) (enc : Option Name) (href : Option Url)
    (p : Parsed) (hne : truthy enc = false) (h : parseString w fuel input enc href = .ok p) :
    ∀ x ∈ p.out.recs, x.found = true → ∃ http c, w.fetch x.url = .pair http c ∧
      choose none http x.parentArg c = ⟨x.used, x.enctype⟩ ∧ decodeContent w c x.used = .ok (some x.text) := by
  unfold parseString at h
  split at h
  · cases h
  · rename_i t _
    split at h
    · cases h
    · rename_i st hst
      split at h
      · cases h
      · rename_i st' hfin
        simp only [Except.ok.injEq] at h; subst h
        have hq0 : (beginEO ⟨href, [], none, none, []⟩ enc none).override = none :=
          beginEO_no_override _ _ _ rfl hne
        obtain ⟨_, hall⟩ := parseItems_all w (loadChild w fuel 1) (LadderRec w) (fun s => s.override = none)
          (fun s rs h => h) (fun s u r hq hr => loadChild_ladder w fuel 1 s u r hq hr) _ _ _ _ hst hq0
          (by intro x hx; simp at hx)
        have hout := finishEO_out w st st' _ _ hfin
        intro x hx; simp only at hx; rw [hout] at hx; exact hall x hx

/-- … and what is handed down to the direct imports of the root sheet is the root's own `@charset` (if it has one):
the referring sheet's encoding -/
theorem root_hands_down_its_charset (w : World) (fuel : Nat) (input : Content) (enc : Option Name)
    (href : Option Url) (p : Parsed) (h : parseString w fuel input enc href = .ok p) :
    ∀ x ∈ p.out.recs, 1 ≤ x.depth ∧ (x.depth = 1 → x.parentArg = p.ownCharset) := by
  unfold parseString at h
  split at h
  · cases h
  · rename_i t _
    split at h
    · cases h
    · rename_i st hst
      split at h
      · cases h
      · rename_i st' hfin
        simp only [Except.ok.injEq] at h; subst h
        have hall := parseItems_handed w (loadChild w fuel 1) 1 (loadChild_depth w fuel 1) _ _ _ _ hst
          (by intro _; exact ⟨by simp [beginEO], rfl⟩) (by intro x hx; simp at hx)
        have hout := finishEO_out w st st' _ _ hfin
        have hnew : st.sheet.newEnc = none := by
          have := (parseItems_all w (loadChild w fuel 1) (fun _ => True) (fun s => s.newEnc = none)
            (fun s rs h => h) (fun _ _ _ _ _ _ _ => trivial) _ _ _ _ hst
            (by simp [beginEO, truthy]; split <;> rfl) (by intro x hx; simp at hx)).1
          exact this
        intro x hx
        simp only at hx; rw [hout] at hx
        have := hall x hx
        unfold Handed at this
        have hp : parentEncodingOf st.sheet = ownCharsetOf st.sheet.rules := by
          unfold parentEncodingOf ownCharsetOf
          rw [hnew]
        rw [hp] at this
        exact this

/-- the same one level down, at any depth: the direct imports of an imported sheet get the encoding that sheet was
read in when it came from HTTP / BOM-@charset / its own parent (`enctype` 1–4), and the sheet's own `@charset` when
it was read as UTF-8 by default (`enctype` 5). Stated on `_setHref` for an arbitrary referring sheet `s`. -/
theorem imported_sheet_hands_down (w : World) (fuel d : Nat) (s : Sheet) (u : Url) (r : ImpRes)
    (h : loadChild w fuel d s u = .ok r) :
    match r.out.recs with
    | [] => True
    | hd :: tl =>
      hd.depth = d ∧ hd.parentArg = parentEncodingOf s ∧
      ∀ x ∈ tl, d + 1 ≤ x.depth ∧
        (x.depth = d + 1 → hd.found = true → s.override = none →
          x.parentArg = (if 0 < hd.enctype ∧ hd.enctype < 5 ∧ hd.used ≠ [] then some hd.used else hd.ownCharset)) := by
  cases fuel with
  | zero => simp [loadChild] at h
  | succ f =>
    simp only [loadChild] at h
    split at h
    · simp only [Except.ok.injEq] at h; subst h; simp [failedRec]
    · split at h
      · simp only [Except.ok.injEq] at h; subst h; simp [failedRec]
      · split at h
        · cases h
        · simp only [Except.ok.injEq] at h; subst h; simp [failedRec]
        · rename_i rd hrd
          split at h
          · simp only [Except.ok.injEq] at h; subst h; simp [failedRec]
          · split at h
            · cases h
            · rename_i st hst
              split at h
              · cases h
              · rename_i st' hfin
                simp only [Except.ok.injEq] at h; subst h
                simp only
                have hall := parseItems_handed w (loadChild w f (d + 1)) (d + 1) (loadChild_depth w f (d + 1)) _ _ _ _ hst
                  (by intro _; exact ⟨by simp [beginEO], rfl⟩) (by intro x hx; simp at hx)
                have hout := finishEO_out w st st' _ _ hfin
                refine ⟨trivial, trivial, ?_⟩
                intro x hx
                rw [hout] at hx
                obtain ⟨hd1, hd2⟩ := hall x hx
                refine ⟨hd1, ?_⟩
                intro hdep _ hov
                rw [hd2 hdep]
                -- the sheet the token loop ran on keeps `newEnc` of `beginEO`
                have hnew : st.sheet.newEnc = (beginEO ⟨some u, s.href :: s.ancestors, none, none, []⟩
                    (if rd.enctype = 0 then some rd.encoding else none)
                    (if 0 < rd.enctype ∧ rd.enctype < 5 then some rd.encoding else none)).newEnc := by
                  have := (parseItems_all w (loadChild w f (d + 1)) (fun _ => True)
                    (fun s' => s'.newEnc = (beginEO ⟨some u, s.href :: s.ancestors, none, none, []⟩
                      (if rd.enctype = 0 then some rd.encoding else none)
                      (if 0 < rd.enctype ∧ rd.enctype < 5 then some rd.encoding else none)).newEnc)
                    (fun s rs h => h) (fun _ _ _ _ _ _ _ => trivial) _ _ _ _ hst rfl
                    (by intro x hx; simp at hx)).1
                  exact this
                have hty : rd.enctype ≠ 0 := by
                  rw [hov] at hrd
                  obtain ⟨http, c, _, hch, _⟩ := readUrl_some w _ _ _ rd hrd
                  have := congrArg Choice.enctype hch
                  simp only at this
                  rw [this]
                  exact choose_enctype_ne0 none http (parentEncodingOf s) c rfl
                unfold parentEncodingOf
                rw [hnew]
                unfold beginEO
                simp only [hty, if_false, show truthy (none : Option (List Nat)) = false from rfl, Bool.false_eq_true]
                by_cases hr : 0 < rd.enctype ∧ rd.enctype < 5
                · by_cases hu : rd.encoding = []
                  · simp [hr, hu, truthy, ownCharsetOf]
                  · have : truthy (some rd.encoding) = true := (truthy_some_iff _).mpr hu
                    simp [hr, hu, this]
                · have hr' : ¬ (0 < rd.enctype ∧ rd.enctype < 5 ∧ rd.encoding ≠ []) := fun hx => hr ⟨hx.1, hx.2.1⟩
                  simp [hr, hr', truthy, ownCharsetOf]

/-- the reported encoding of every imported sheet is the encoding it was read in (lower-cased, for a name
`CSSCharsetRule` accepts) when that came from an override, HTTP, BOM/@charset or the referring sheet; a sheet read as
UTF-8 by default reports its own `@charset` rule if the parser kept one, else utf-8 -/
theorem reported_is_used (w : World) (fuel : Nat) (input : Content) (enc : Option Name) (href : Option Url)
    (p : Parsed) (h : parseString w fuel input enc href = .ok p) :
    ∀ x ∈ p.out.recs, x.found = true →
      (x.enctype < 5 → x.used ≠ [] → validName w x.used = true → x.reported = lower x.used) ∧
      (x.enctype = 5 → x.reported = x.ownCharset.getD utf8N) := by
  unfold parseString at h
  split at h
  · cases h
  · split at h
    · cases h
    · rename_i st hst
      split at h
      · cases h
      · rename_i st' hfin
        simp only [Except.ok.injEq] at h; subst h
        obtain ⟨_, hall⟩ := parseItems_all w (loadChild w fuel 1) (RepRec w) (fun _ => True)
          (fun _ _ _ => trivial) (fun s u r _ hr => loadChild_reported w fuel 1 s u r hr) _ _ _ _ hst trivial
          (by intro x hx; simp at hx)
        have hout := finishEO_out w st st' _ _ hfin
        intro x hx; simp only at hx; rw [hout] at hx; exact hall x hx

/-- the fuel of the model is only a bound on the depth of the import tree: a result obtained with some fuel is the
result for every larger fuel (so no theorem above depends on the fuel chosen) -/
theorem fuel_irrelevant (w : World) (fuel k : Nat) (input : Content) (enc : Option Name) (href : Option Url)
    (p : Parsed) (h : parseString w fuel input enc href = .ok p) :
    parseString w (fuel + k) input enc href = .ok p := by
  unfold parseString at h ⊢
  cases hd : decodeRoot w input enc with
  | error e => rw [hd] at h; cases h
  | ok t =>
    rw [hd] at h
    simp only at h ⊢
    cases hp : parseItems w (loadChild w fuel 1) (w.view t) 0
        ⟨beginEO ⟨href, [], none, none, []⟩ enc none, ⟨[], []⟩⟩ with
    | error e => rw [hp] at h; cases h
    | ok st =>
      rw [hp] at h
      rw [parseItems_mono w (loadChild w fuel 1) (loadChild w (fuel + k) 1)
        (fun s u r hr => loadChild_fuel_mono w k fuel 1 s u r hr) _ _ _ _ hp]
      exact h

/-- a sheet is never fetched while it is being loaded further up: the recursion guard of `_setHref` (fix bfd81fb) -/
theorem recursive_import_not_followed (w : World) (fuel d : Nat) (s : Sheet) (u : Url)
    (hu : u ≠ []) (hanc : (s.href :: s.ancestors).contains (some u) = true) :
    loadChild w (fuel + 1) d s u = .ok ⟨false, ⟨[], [failedRec d u (parentEncodingOf s)]⟩⟩ := by
  simp only [loadChild, if_neg hu, if_pos hanc]

/-! `parseUrl` turns whatever the ladder found for the ROOT sheet (HTTP, BOM/@charset) into an override for the
whole tree (`parse.py:214-219`: only `enctype == 5` is dropped) — known finding C08-parseurl-override:

  FULL STATEMENT (fails): without an override given by the caller, the imports of a sheet loaded through `parseUrl`
  are read by the ladder from their own HTTP charset / content / the referring sheet, as in `no_override_ladder`.

  proved: `parseUrl_partial` (the statement holds when the ladder for the root ends at UTF-8 by default), and the
  exact behaviour otherwise (`parseUrl_forces_root_encoding`: every import is read in the ROOT's encoding). -/
theorem parseUrl_forces_root_encoding (w : World) (fuel : Nat) (href : Url) (p : Parsed) (rd : ReadOk) (t : Text)
    (hr : readUrl w (w.fetch href) none none = .ok (some rd)) (ht : rd.text = some t) (h5 : rd.enctype ≠ 5)
    (hne : rd.encoding ≠ [])
    (h : parseUrl w fuel href none = .ok (some p)) :
    ∀ x ∈ p.out.recs, x.found = true → x.enctype = 0 ∧ x.used = rd.encoding := by
  unfold parseUrl at h
  rw [hr] at h
  simp only [ht, h5, if_false] at h
  cases hp : parseString w fuel (.text t) (some rd.encoding) (some href) with
  | error e => rw [hp] at h; cases h
  | ok q =>
    rw [hp] at h
    simp only [Except.ok.injEq, Option.some.injEq] at h; subst h
    intro x hx hf
    have := (override_propagates w fuel (.text t) rd.encoding (some href) q hne hp).1 x hx hf
    exact ⟨this.1, this.2.1⟩

theorem parseUrl_partial (w : World) (fuel : Nat) (href : Url) (p : Parsed) (rd : ReadOk) (t : Text)
    (hr : readUrl w (w.fetch href) none none = .ok (some rd)) (ht : rd.text = some t) (h5 : rd.enctype = 5)
    (h : parseUrl w fuel href none = .ok (some p)) :
    ∀ x ∈ p.out.recs, x.found = true → ∃ http c, w.fetch x.url = .pair http c ∧
      choose none http x.parentArg c = ⟨x.used, x.enctype⟩ ∧ decodeContent w c x.used = .ok (some x.text) := by
  unfold parseUrl at h
  rw [hr] at h
  simp only [ht, h5, if_true] at h
  cases hp : parseString w fuel (.text t) none (some href) with
  | error e => rw [hp] at h; cases h
  | ok q =>
    rw [hp] at h
    simp only [Except.ok.injEq, Option.some.injEq] at h; subst h
    exact no_override_ladder w fuel (.text t) none (some href) q rfl hp

/-- an override given to `parseUrl` governs the whole tree as well -/
theorem parseUrl_override_propagates (w : World) (fuel : Nat) (href : Url) (e : Name) (p : Parsed) (he : e ≠ [])
    (h : parseUrl w fuel href (some e) = .ok (some p)) :
    (∀ x ∈ p.out.recs, x.found = true → x.enctype = 0 ∧ x.used = e ∧ (validName w e = true → x.reported = lower e)) ∧
    (validName w e = true → p.encoding = lower e) := by
  have hte : truthy (some e) = true := (truthy_some_iff e).mpr he
  unfold parseUrl at h
  cases hr : readUrl w (w.fetch href) (some e) none with
  | error x => rw [hr] at h; cases h
  | ok o =>
    rw [hr] at h
    cases o with
    | none => simp at h
    | some rd =>
      obtain ⟨henc, hty⟩ := readUrl_override w _ _ _ rd hte hr
      simp only [Option.getD_some] at henc
      simp only at h
      cases ht : rd.text with
      | none => rw [ht] at h; simp at h
      | some t =>
        rw [ht] at h
        simp only [hty, henc, show ((0 : Nat) = 5) = False from by simp, if_false] at h
        cases hp : parseString w fuel (.text t) (some e) (some href) with
        | error x => rw [hp] at h; simp at h
        | ok q =>
          rw [hp] at h
          simp only [Except.ok.injEq, Option.some.injEq] at h
          subst h
          exact override_propagates w fuel (.text t) e (some href) q he hp

/-! ## T8.3 `sheet.encoding` mirrors the `@charset` rule under edits -/
open CssVerif.EncSheet in
/-- T8.3 `encoding_mirrors_charset`: after ANY history of public edits (`encoding =`, `insertRule`/`add` of every
rule kind at every index, `deleteRule`, `rule.encoding =`, `cssText =`; rejected ones change nothing) an `@charset`
rule can only be the first rule, `sheet.encoding` is the encoding of THE `@charset` rule wherever the sheet has one
and `utf-8` when it has none, and the serializer encodes with the same name.

  FULL STATEMENT: for all histories. It fails for one call shape — `insertRule(<@variables>, <explicit index>,
  inOrder=True)` puts the rule at the given index, also in front of `@charset` (known finding C08-inorder-index;
  the same holds for `@namespace`, which this model leaves to C09) — hence `_partial` with the guard `OpGuard`. -/
theorem encoding_mirrors_charset_partial (valid : EncSheet.Name → Bool) (ops : List Op)
    (hg : ∀ op ∈ ops, OpGuard op) :
    Valid (runOps valid [] ops) ∧
    EncSheet.encoding (runOps valid [] ops) =
      (match (runOps valid [] ops).find? Rule.isCharset with | some (.charset e) => e | _ => EncSheet.utf8N) ∧
    serEncoding (runOps valid [] ops) = EncSheet.encoding (runOps valid [] ops) := by
  have aux : ∀ rs, Valid rs → EncSheet.encoding rs =
      (match rs.find? Rule.isCharset with | some (.charset e) => e | _ => EncSheet.utf8N) := by
    intro rs hv
    rw [find_charset_of_valid rs hv]
    cases rs with
    | nil => rfl
    | cons a t => cases a <;> rfl
  have hv := runOps_valid valid ops [] hg (by simp [Valid, noCharset])
  exact ⟨hv, aux _ hv, rfl⟩

open CssVerif.EncSheet in
/-- the witness of C08-inorder-index, in the model: after it the sheet has an `@charset` rule and reports utf-8 -/
example : runOps (fun _ => true) [] [.setEncoding (some [0x78]), .insert .variables (some 0) true]
      = [.variables, .charset [0x78]] ∧
    EncSheet.encoding [.variables, .charset [0x78]] = EncSheet.utf8N ∧ ¬ Valid [.variables, .charset [0x78]] := by
  decide

open CssVerif.EncSheet in
/-- setting then getting: an accepted name is reported (lower-cased) -/
theorem set_then_get (valid : EncSheet.Name → Bool) (rules rs : List Rule) (n : EncSheet.Name) (hn : n ≠ [])
    (h : setEncoding valid rules (some n) = .ok rs) : EncSheet.encoding rs = EncSheet.lower n := by
  have ht : EncSheet.truthy (some n) = true := by cases n <;> simp_all [EncSheet.truthy]
  unfold setEncoding at h
  simp only [Option.getD_some] at h
  split at h
  · rw [if_pos ht] at h
    split at h
    · simp only [Except.ok.injEq] at h; subst h; rfl
    · cases h
  · rename_i hne
    rw [if_pos ht] at h
    split at h
    · split at h
      · rename_i r hr
        simp only [Except.ok.injEq] at h; subst h
        unfold insertRule at hr
        simp only [Option.getD_some, Bool.false_eq_true, if_false] at hr
        split at hr
        · cases hr
        · split at hr
          · cases hr
          · simp only [Except.ok.injEq] at hr; subst hr
            simp [insertAt, EncSheet.encoding]
      · cases h
    · cases h

open CssVerif.EncSheet in
/-- a name `CSSCharsetRule` does not accept is rejected and the sheet keeps its encoding -/
theorem set_invalid_rejected (valid : EncSheet.Name → Bool) (rules : List Rule) (n : EncSheet.Name) (hn : n ≠ [])
    (hv : valid n = false) : setEncoding valid rules (some n) = .error .syntaxErr := by
  have ht : EncSheet.truthy (some n) = true := by cases n <;> simp_all [EncSheet.truthy]
  unfold setEncoding
  simp only [Option.getD_some]
  split <;> simp [ht, hv]

open CssVerif.EncSheet in
/-- `encoding = None` removes the rule: the sheet then has no `@charset` at all and reports utf-8 -/
theorem set_none_then_get (valid : EncSheet.Name → Bool) (rules rs : List Rule) (hv : Valid rules)
    (h : setEncoding valid rules none = .ok rs) :
    EncSheet.encoding rs = EncSheet.utf8N ∧ rs.find? Rule.isCharset = none := by
  have hv' := setEncoding_valid valid rules rs none hv h
  unfold setEncoding at h
  simp only [EncSheet.truthy, Bool.false_eq_true, if_false] at h
  split at h
  · rename_i old rest
    simp only [deleteRule, List.length_cons, Nat.zero_lt_succ, if_true, List.eraseIdx_cons_zero,
      Except.ok.injEq] at h
    have hnc : noCharset rest = true := by unfold Valid at hv; simpa using hv
    rw [← h]
    refine ⟨?_, find_noCharset rest hnc⟩
    cases rest with
    | nil => rfl
    | cons a t => cases a with
      | charset e => simp [noCharset, Rule.isCharset] at hnc
      | _ => rfl
  · rename_i hne
    simp only [Except.ok.injEq] at h
    rw [← h] at hv' ⊢
    rw [find_charset_of_valid _ hv']
    cases rules with
    | nil => exact ⟨rfl, rfl⟩
    | cons a t => cases a with
      | charset e => exact absurd rfl (hne e t)
      | _ => exact ⟨rfl, rfl⟩

/-! ## T8.4 `escapecss`: decodable and lossless -/
open CssVerif.EncEscape

/-- T8.4a decodability: for EVERY target encoding, given by its representability predicate `rep` (which has to
contain the characters escapes are written with), what `escapecss` writes consists of representable characters only -/
theorem escapecss_decodable (rep : Nat → Bool) (hr : SyntaxRep rep) (text : List Nat) :
    ∀ x ∈ escape rep text, rep x = true := escape_representable rep hr text

/-- T8.4b `escapecss_lossless`, token by token: for every token text `t` (any piece of the serialisation:
`escape` distributes over concatenation), the tokenizer's unescaping reads the same value from the escaped text as
from the original one — for every `rep` and every text of Python characters.

  FULL STATEMENT (fails since fix 907f5b2 made `\\` a unit in `unicodesub`, see the known finding
  C08-escaped-unrepresentable):   unescape (escape rep t) = unescape t   for all `t`.

  proved: under the guard `ok rep t` — no character that has to be escaped comes directly after a backslash which
  is not itself escaped (`"\ä"` in an ASCII sheet). The guard is computed by the same scanner. -/
theorem escapecss_lossless_partial (rep : Nat → Bool) (hr : SyntaxRep rep) (t : List Nat)
    (hchars : ∀ c ∈ t, c ≤ maxUnicode) (hok : ok rep t = true) :
    unescape (escape rep t) = unescape t :=
  roundtrip_from rep hr t .norm hchars hok

/-- the guard is exact: the escaped text reads the same as the original IF AND ONLY IF no character that has to be
escaped directly follows an unescaped backslash -/
theorem escapecss_lossless_iff (rep : Nat → Bool) (hr : SyntaxRep rep) (t : List Nat)
    (hchars : ∀ c ∈ t, c ≤ maxUnicode) :
    unescape (escape rep t) = unescape t ↔ ok rep t = true := by
  constructor
  · intro h
    cases hk : ok rep t with
    | true => rfl
    | false => exact absurd h (roundtrip_fails_from rep hr t .norm hchars hk)
  · exact escapecss_lossless_partial rep hr t hchars

/-- `escape` works character by character, so it can be read token by token -/
theorem escapecss_tokenwise (rep : Nat → Bool) (a b : List Nat) :
    escape rep (a ++ b) = escape rep a ++ escape rep b := escape_append rep a b

/-- nothing is touched when the encoding can represent everything (UTF-8 and friends) -/
theorem escapecss_identity (rep : Nat → Bool) (t : List Nat) (h : ∀ c ∈ t, rep c = true) : escape rep t = t :=
  escape_id rep t h

/-- the predicate of an ASCII-only encoding -/
def repAscii (c : Nat) : Bool := decide (c < 128)

theorem repAscii_syntax : SyntaxRep repAscii := by
  refine ⟨by decide, by decide, ?_, ?_, by decide⟩
  · intro c h
    simp only [isUpperHex, Bool.or_eq_true, Bool.and_eq_true, decide_eq_true_eq] at h
    simp only [repAscii, decide_eq_true_eq]; omega
  · intro c h
    unfold hexVal? at h
    simp only [repAscii, decide_eq_true_eq]
    split at h
    · omega
    · split at h
      · omega
      · split at h
        · omega
        · simp at h

/-- the witness of C08-escaped-unrepresentable, in the model: `\ä` written for ASCII is `\\E4 `, which the tokenizer
reads as an escaped backslash followed by the text `E4 ` — the character is gone -/
example : escape repAscii [0x5C, 0xE4] = [0x5C, 0x5C, 0x45, 0x34, 0x20] ∧
    unescape (escape repAscii [0x5C, 0xE4]) = [0x5C, 0x5C, 0x45, 0x34, 0x20] ∧
    unescape [0x5C, 0xE4] = [0x5C, 0xE4] ∧ ok repAscii [0x5C, 0xE4] = false := by decide

/-! non-vacuity: the hypotheses above are satisfiable, and the models compute what the implementation shows -/
example : ok repAscii [0x61, 0xE4, 0x5C, 0x5C, 0xE4] = true ∧
    unescape (escape repAscii [0x61, 0xE4, 0x5C, 0x5C, 0xE4]) = [0x61, 0xE4, 0x5C, 0x5C, 0xE4] := by decide
example : unescape [0x5C, 0x34, 0x31, 0x20, 0x62] = [0x41, 0x62] := by decide            -- `\41 b` reads `Ab`
example : unescape [0x5C, 0x5C, 0x34, 0x31] = [0x5C, 0x5C, 0x34, 0x31] := by decide      -- `\\41` stays

/-- a two-level import tree on which both halves of T8.2 say something: root `@charset "x"` imports `u1`, which is
served with HTTP charset `h` and imports `u2`, which has neither -/
def demoWorld : World where
  fetch := fun u => if u = [1] then .pair (some [0x68]) (.text [10]) else if u = [2] then .pair none (.text [20]) else .none
  dec := fun _ _ => .lookupError
  known := fun _ => true
  view := fun t => if t = [0] then [.charset [0x78], .imp [1]] else if t = [10] then [.imp [2]] else []

def summary (r : Except Err Parsed) : Option (Name × List (Nat × Nat × Name × Option Name × Name)) :=
  match r with
  | .ok p => some (p.encoding, p.out.recs.map (fun r => (r.depth, r.enctype, r.used, r.parentArg, r.reported)))
  | .error _ => none


example : summary (parseString demoWorld 5 (.text [0]) none none)
    = some ([0x78], [(1, 1, [0x68], some [0x78], [0x68]), (2, 4, [0x68], some [0x68], [0x68])]) := by rfl
example : summary (parseString demoWorld 5 (.text [0]) (some [0x6F]) none)
    = some ([0x6F], [(1, 0, [0x6F], some [0x78], [0x6F]), (2, 0, [0x6F], none, [0x6F])]) := by rfl

end CssVerif.C08
