import CssVerif.Lemmas.EncLadder
/-!
# C08 — sheet/import encoding precedence; serialised bytes decodable and lossless
-/
namespace CssVerif.C08
open CssVerif.Codec CssVerif.EncLadder

/-- the candidates of the ladder in precedence order: does it apply, what it says, its tag -/
structure Cand where
  applies : Bool
  encoding : Name
  tag : Nat

/-- what the content itself declares explicitly (BOM or `@charset`), as `_readUrl` sees it -/
def explicitOf (c : Content) : Option Name :=
  match contentDetect c with
  | some (e, true) => some (encName e)
  | _ => none

def ladder (override http parent : Option Name) (c : Content) : List Cand :=
  [⟨truthy override, override.getD [], 0⟩, ⟨truthy http, http.getD [], 1⟩,
   ⟨(explicitOf c).isSome, (explicitOf c).getD [], 2⟩, ⟨truthy parent, parent.getD [], 4⟩, ⟨true, utf8N, 5⟩]

/-- T8.1 the chosen `(encoding, enctype)` is the FIRST APPLICABLE of
override / HTTP / explicit BOM-or-@charset / parent / UTF-8 — for content given as bytes or text -/
theorem readUrl_ladder (override http parent : Option Name) (c : Content) :
    ((ladder override http parent c).find? (·.applies)).map (fun k => (⟨k.encoding, k.tag⟩ : Choice))
      = some (choose override http parent c) := by
  unfold ladder choose explicitOf
  cases ho : truthy override <;> cases hh : truthy http <;> cases hp : truthy parent <;>
    rcases hd : contentDetect c with _ | ⟨e, _ | _⟩ <;> simp [List.find?]

end CssVerif.C08
