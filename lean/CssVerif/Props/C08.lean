import CssVerif.Lemmas.EncLadder
import CssVerif.Lemmas.EncEscape
import CssVerif.Lemmas.EncSheet
import CssVerif.Lemmas.EncTok
import CssVerif.Props.C07
/-!
# C08 — sheet/import encoding precedence; serialised bytes decodable and lossless

Property theorems only (helpers: `Lemmas/EncLadder.lean`, `Lemmas/EncEscape.lean`, `Lemmas/EncSheet.lean`).
Models: `Model/EncLadder.lean` (`_readUrl`, `_setHref`, `_resolveImport`, `_setCssTextWithEncodingOverride`,
`parseString`, `parseUrl`), `Model/EncSheet.lean` (`encoding`, `insertRule`, `deleteRule`), `Model/EncEscape.lean`
(`_escapecss`, the tokenizer's `unicodesub`), `Model/EncTok.lean` with C05's tokenizer model `Model/Tok.lean` over the
regenerated production table (T8.4c), tied to the source by the correspondences of `tools/harness/c08.py` / `c08_tok.py`.
The codecs of the Python runtime, the fetcher and the sheet parser are parameters (`World`), so every theorem below
holds for all of them.
-/
namespace CssVerif.C08
open CssVerif.Codec hiding Name fixFinal
open CssVerif.EncLadder

/-! ## T8.1 the ladder of `_readUrl` -/

/-- a candidate of the ladder: does it apply, what it says, its tag (`enctype`) -/
structure Cand where
  applies : Bool
  encoding : Name
  tag : Nat

/-- what the content itself declares explicitly (BOM or `@charset`), as `_readUrl` sees it -/
def explicitOf (c : Content) : Option Name :=
  match contentDetect c with
  | some (e, true) => some (encName e)
  | _ => none

/-- the candidates in precedence order -/
def ladder (override http parent : Option Name) (c : Content) : List Cand :=
  [⟨truthy override, override.getD [], 0⟩, ⟨truthy http, http.getD [], 1⟩,
   ⟨(explicitOf c).isSome, (explicitOf c).getD [], 2⟩, ⟨truthy parent, parent.getD [], 4⟩, ⟨true, utf8N, 5⟩]

/-- T8.1 `readUrl_ladder`: the chosen `(encoding, enctype)` is the FIRST APPLICABLE of
override / HTTP / explicit BOM-or-@charset / parent / UTF-8 — for content given as bytes or as text -/
theorem readUrl_ladder (override http parent : Option Name) (c : Content) :
    ((ladder override http parent c).find? (·.applies)).map (fun k => (⟨k.encoding, k.tag⟩ : Choice))
      = some (choose override http parent c) := by
  unfold ladder choose explicitOf
  cases ho : truthy override <;> cases hh : truthy http <;> cases hp : truthy parent <;>
    rcases hd : contentDetect c with _ | ⟨e, _ | _⟩ <;> simp [List.find?]

/-- … and `_readUrl` returns exactly that choice, for EVERY fetcher result shape: no sheet unless the fetcher
returned a pair with content; text content is handed on untouched; bytes are decoded with the chosen encoding (the
`@charset` name rewritten to it); content that does not decode, and — since the repair — an encoding name the
runtime does not know, give `text = None`. `_readUrl` cannot raise (its model is a total function). -/
theorem readUrl_result (w : World) (r : FetchRes) (override parent : Option Name) :
    readUrl w r override parent =
      match r with
      | .pair http (.text t) =>
        some ⟨(choose override http parent (.text t)).encoding, (choose override http parent (.text t)).enctype, some t⟩
      | .pair http (.bytes b) =>
        some ⟨(choose override http parent (.bytes b)).encoding, (choose override http parent (.bytes b)).enctype,
          (match w.dec (choose override http parent (.bytes b)).encoding b with
           | .ok t => some (fixFinal t (choose override http parent (.bytes b)).encoding)
           | .unicodeError => none
           | .lookupError => none)⟩
      | _ => none := by
  cases r with
  | none => rfl
  | badLen => rfl
  | noContent h => rfl
  | pair http c =>
    cases c with
    | text t => rfl
    | bytes b =>
      simp only [readUrl, decodeContent]
      cases w.dec (choose override http parent (Content.bytes b)).encoding b <;> rfl

/-- the `@charset` rewriter applied to the decoded bytes always answers (no silent default in `fixFinal`) -/
theorem fixFinal_total (t enc : List Nat) : ∃ r, fixEncoding t enc true = some r ∧ fixFinal t enc = r := by
  cases h : fixEncoding t enc true with
  | none => exact absurd h (fix_final t enc)
  | some r => exact ⟨r, rfl, fixFinal_eq t enc r h⟩

/-- the tag tells which rung was taken -/
theorem enctype_meaning (override http parent : Option Name) (c : Content) :
    let ch := choose override http parent c
    (ch.enctype = 0 ↔ truthy override = true) ∧
    (ch.enctype = 1 ↔ truthy override = false ∧ truthy http = true) ∧
    (ch.enctype = 2 ↔ truthy override = false ∧ truthy http = false ∧ (explicitOf c).isSome = true) ∧
    (ch.enctype = 4 ↔ truthy override = false ∧ truthy http = false ∧ (explicitOf c).isSome = false ∧ truthy parent = true) ∧
    (ch.enctype = 5 ↔ truthy override = false ∧ truthy http = false ∧ (explicitOf c).isSome = false ∧ truthy parent = false) := by
  unfold choose explicitOf
  cases ho : truthy override <;> cases hh : truthy http <;> cases hp : truthy parent <;>
    rcases hd : contentDetect c with _ | ⟨e, _ | _⟩ <;> simp

/-! "BOM/@charset in the content". Since the repair of C08-short-bom `_readUrl` runs the detectors WITH `final`
(`util.py:938-944`), so its notion of "explicit" IS the CSS 2.1 §4.4 answer of the detector on complete data (C07) —
`explicit_is_final`, promoted from `explicit_is_final_partial` (which needed `4 ≤ b.length`) — and the CSS 2.1 rows
proved for the detector in C07 carry over to the ladder for every continuation of the data. -/
theorem explicit_is_final (b : List Nat) :
    explicitOf (.bytes b) = (match detect b true with | some (e, true) => some (encName e) | _ => none) := rfl

/-- each BOM, for every continuation — also the UTF-16 LE BOM followed by nothing or one byte (the former finding) -/
theorem explicit_bom (t : List Nat) (c d : Nat) :
    explicitOf (.bytes (0xEF :: 0xBB :: 0xBF :: t)) = some utf8sigN ∧
    explicitOf (.bytes (0xFE :: 0xFF :: t)) = some utf16N ∧
    explicitOf (.bytes (0xFF :: 0xFE :: 0 :: 0 :: t)) = some utf32N ∧
    explicitOf (.bytes (0 :: 0 :: 0xFE :: 0xFF :: t)) = some utf32N ∧
    (¬ (c = 0 ∧ d = 0) → explicitOf (.bytes (0xFF :: 0xFE :: c :: d :: t)) = some utf16N) ∧
    explicitOf (.bytes [0xFF, 0xFE]) = some utf16N ∧ explicitOf (.bytes [0xFF, 0xFE, c]) = some utf16N := by
  simp only [explicitOf, contentDetect]
  refine ⟨?_, ?_, ?_, ?_, ?_, ?_, ?_⟩
  · rw [C07.bom_utf8 t true]; rfl
  · rw [C07.bom_utf16_be t true]; rfl
  · rw [C07.bom_utf32_le t true]; rfl
  · rw [C07.bom_utf32_be t true]; rfl
  · intro h; rw [C07.bom_utf16_le c d t true h]; rfl
  · rw [C07.bom_utf16_le_short.1]; rfl
  · rw [C07.bom_utf16_le_short.2 c]; rfl

/-- `@charset "name"` at the very start names the encoding explicitly — in bytes and in text, for every name without
a quote and every continuation -/
theorem explicit_charset (name t : List Nat) (hn : ∀ c ∈ name, c ≠ 0x22) :
    explicitOf (.bytes (prefix10 ++ name ++ 0x22 :: t)) = some name ∧
    explicitOf (.text (prefix10 ++ name ++ 0x22 :: t)) = some name := by
  constructor
  · simp only [explicitOf, contentDetect]
    rw [C07.charset_rule name t true hn]; rfl
  · have hq : ∀ (n : List Nat), (∀ c ∈ n, c ≠ 0x22) → ∀ t, findQuote (n ++ 0x22 :: t) = some n.length := by
      intro n
      induction n with
      | nil => intro _ t; simp [findQuote]
      | cons c r ih =>
        intro h t
        have hc : c ≠ 0x22 := h c (by simp)
        have := ih (fun x hx => h x (by simp [hx])) t
        simp [findQuote, hc, this]
    have hp : prefix10.isPrefixOf (prefix10 ++ name ++ 0x22 :: t) = true := by
      rw [List.isPrefixOf_iff_prefix, List.append_assoc]; exact List.prefix_append _ _
    have d10 : (prefix10 ++ name ++ 0x22 :: t).drop 10 = name ++ 0x22 :: t := by simp [prefix10]
    simp only [explicitOf, contentDetect, detectUnicode, hp, if_true, d10, hq name hn t]
    simp [encName]

/-! ## T8.2 the hand-over to imported sheets

`parseText w fuel t eo en href` is what `parseString` (`eo` = its `encoding` argument, `en = None`) and `parseUrl`
(`eo` / `en` from the ladder for the root sheet) have in common after decoding. -/

/-- T8.2 `override_propagates` (general form): when a sheet is parsed with an override `e`, then in an import tree
of ANY depth every import that is loaded was read with exactly that encoding as an override (`enctype = 0`), and —
the name being one `CSSCharsetRule` accepts — reports it as its `encoding`; so does the root sheet -/
theorem override_propagates_text (w : World) (fuel : Nat) (t : Text) (e : Name) (en : Option Name)
    (href : Option Url) (p : Parsed) (he : e ≠ []) (h : parseText w fuel t (some e) en href = .ok p) :
    (∀ x ∈ p.out.recs, x.found = true → x.enctype = 0 ∧ x.used = e ∧ (validName w e = true → x.reported = lower e)) ∧
    (validName w e = true → p.encoding = lower e) := by
  have hte : truthy (some e) = true := (truthy_some_iff e).mpr he
  unfold parseText at h
  split at h
  · cases h
  · rename_i st hst
    split at h
    · cases h
    · rename_i st' hfin
      simp only [Except.ok.injEq] at h; subst h
      have hq0 : (beginEO ⟨href, [], none, none, []⟩ (some e) en).override = some e := beginEO_override_eq _ _ _ hte
      obtain ⟨hq, hall⟩ := parseItems_all w (loadChild w fuel 1) (OvRec w e) (fun s => s.override = some e)
        (fun s rs h => h) (fun s u r hq hr => loadChild_override w e he fuel 1 s u r hq hr) _ _ _ _ hst hq0
        (by intro x hx; simp at hx)
      have hout := finishEO_out w st st' _ _ hfin
      refine ⟨?_, ?_⟩
      · intro x hx; simp only at hx; rw [hout] at hx; exact hall x hx
      · intro hv
        unfold finishEO at hfin
        simp only [hte, if_true] at hfin
        rw [hq] at hfin
        cases hs : setEncodingRule w st.sheet.rules ((some e).getD []) with
        | error x => rw [hs] at hfin; cases hfin
        | ok rs =>
          rw [hs] at hfin
          simp only [Except.ok.injEq] at hfin; subst hfin
          exact setEncodingRule_reported w _ _ _ hv hs

/-- T8.2 `override_propagates` for `parseString(…, encoding=e)` -/
theorem override_propagates (w : World) (fuel : Nat) (input : Content) (e : Name) (href : Option Url) (p : Parsed)
    (he : e ≠ []) (h : parseString w fuel input (some e) href = .ok p) :
    (∀ x ∈ p.out.recs, x.found = true → x.enctype = 0 ∧ x.used = e ∧ (validName w e = true → x.reported = lower e)) ∧
    (validName w e = true → p.encoding = lower e) := by
  unfold parseString at h
  split at h
  · cases h
  · exact override_propagates_text w fuel _ e none href p he h

/-- T8.2 (second half, general form) without an override every import, at any depth, is read by the ladder from ITS
OWN HTTP charset, ITS OWN content and the `parentEncoding` handed down to it; its content is decoded accordingly -/
theorem no_override_ladder_text (w : World) (fuel : Nat) (t : Text) (eo en : Option Name) (href : Option Url)
    (p : Parsed) (hne : truthy eo = false) (h : parseText w fuel t eo en href = .ok p) :
    ∀ x ∈ p.out.recs, x.found = true → ∃ http c, w.fetch x.url = .pair http c ∧
      choose none http x.parentArg c = ⟨x.used, x.enctype⟩ ∧ decodeContent w c x.used = some x.text := by
  unfold parseText at h
  split at h
  · cases h
  · rename_i st hst
    split at h
    · cases h
    · rename_i st' hfin
      simp only [Except.ok.injEq] at h; subst h
      have hq0 : (beginEO ⟨href, [], none, none, []⟩ eo en).override = none :=
        beginEO_no_override _ _ _ rfl hne
      obtain ⟨_, hall⟩ := parseItems_all w (loadChild w fuel 1) (LadderRec w) (fun s => s.override = none)
        (fun s rs h => h) (fun s u r hq hr => loadChild_ladder w fuel 1 s u r hq hr) _ _ _ _ hst hq0
        (by intro x hx; simp at hx)
      have hout := finishEO_out w st st' _ _ hfin
      intro x hx; simp only at hx; rw [hout] at hx; exact hall x hx

/-- … for `parseString` without (or with an empty) `encoding=` -/
theorem no_override_ladder (w : World) (fuel : Nat) (input : Content) (enc : Option Name) (href : Option Url)
    (p : Parsed) (hne : truthy enc = false) (h : parseString w fuel input enc href = .ok p) :
    ∀ x ∈ p.out.recs, x.found = true → ∃ http c, w.fetch x.url = .pair http c ∧
      choose none http x.parentArg c = ⟨x.used, x.enctype⟩ ∧ decodeContent w c x.used = some x.text := by
  unfold parseString at h
  split at h
  · cases h
  · exact no_override_ladder_text w fuel _ enc none href p hne h

/-- what the root hands down to its direct imports: the encoding found for it (`en`, when there is one), else its own
`@charset` (if it has one): the referring sheet's encoding -/
theorem root_hands_down_text (w : World) (fuel : Nat) (t : Text) (eo en : Option Name)
    (href : Option Url) (p : Parsed) (h : parseText w fuel t eo en href = .ok p) :
    ∀ x ∈ p.out.recs, 1 ≤ x.depth ∧
      (x.depth = 1 → x.parentArg = if truthy en = true then en else p.ownCharset) := by
  unfold parseText at h
  split at h
  · cases h
  · rename_i st hst
    split at h
    · cases h
    · rename_i st' hfin
      simp only [Except.ok.injEq] at h; subst h
      have hall := parseItems_handed w (loadChild w fuel 1) 1 (loadChild_depth w fuel 1) _ _ _ _ hst
        (by intro _; exact ⟨by simp [beginEO], rfl⟩) (by intro x hx; simp at hx)
      have hout := finishEO_out w st st' _ _ hfin
      have hnew : st.sheet.newEnc = (beginEO ⟨href, [], none, none, []⟩ eo en).newEnc := by
        have := (parseItems_all w (loadChild w fuel 1) (fun _ => True)
          (fun s' => s'.newEnc = (beginEO ⟨href, [], none, none, []⟩ eo en).newEnc)
          (fun s rs h => h) (fun _ _ _ _ _ _ _ => trivial) _ _ _ _ hst rfl (by intro x hx; simp at hx)).1
        exact this
      intro x hx
      simp only at hx; rw [hout] at hx
      have := hall x hx
      unfold Handed at this
      refine ⟨this.1, ?_⟩
      intro hd
      rw [this.2 hd]
      unfold parentEncodingOf
      rw [hnew]
      unfold beginEO
      by_cases hen : truthy en = true
      · have hs : ∃ e, en = some e := by
          cases en with
          | none => simp [truthy] at hen
          | some e => exact ⟨e, rfl⟩
        obtain ⟨e, rfl⟩ := hs
        simp only [hen, if_true]
      · simp only [hen, Bool.false_eq_true, if_false]
        have : (if truthy eo = true then ({ href := href, ancestors := [], override := eo, newEnc := none, rules := [] } : Sheet)
            else { href := href, ancestors := [], override := none, newEnc := none, rules := [] }).newEnc = none := by
          split <;> rfl
        simp only [this]
        rfl

/-- for `parseString`: the root's own `@charset` -/
theorem root_hands_down_its_charset (w : World) (fuel : Nat) (input : Content) (enc : Option Name)
    (href : Option Url) (p : Parsed) (h : parseString w fuel input enc href = .ok p) :
    ∀ x ∈ p.out.recs, 1 ≤ x.depth ∧ (x.depth = 1 → x.parentArg = p.ownCharset) := by
  unfold parseString at h
  split at h
  · cases h
  · have := root_hands_down_text w fuel _ enc none href p h
    simpa [truthy] using this

/-- the same one level down, at any depth: the direct imports of an imported sheet get the encoding that sheet was
read in when it came from HTTP / BOM-@charset / its own parent (`enctype` 1–4), and the sheet's own `@charset` when
it was read as UTF-8 by default (`enctype` 5). Stated on `_setHref` for an arbitrary referring sheet `s`. -/
theorem imported_sheet_hands_down (w : World) (fuel d : Nat) (s : Sheet) (u : Url) (r : ImpRes)
    (h : loadChild w fuel d s u = .ok r) :
    match r.out.recs with
    | [] => True
    | hd :: tl =>
      hd.depth = d ∧ hd.parentArg = parentEncodingOf s ∧
      ∀ x ∈ tl, d + 1 ≤ x.depth ∧
        (x.depth = d + 1 → hd.found = true → s.override = none →
          x.parentArg = (if 0 < hd.enctype ∧ hd.enctype < 5 ∧ hd.used ≠ [] then some hd.used else hd.ownCharset)) := by
  cases fuel with
  | zero => simp [loadChild] at h
  | succ f =>
    simp only [loadChild] at h
    split at h
    · simp only [Except.ok.injEq] at h; subst h; simp [failedRec]
    · split at h
      · simp only [Except.ok.injEq] at h; subst h; simp [failedRec]
      · split at h
        · simp only [Except.ok.injEq] at h; subst h; simp [failedRec]
        · rename_i rd hrd
          split at h
          · simp only [Except.ok.injEq] at h; subst h; simp [failedRec]
          · split at h
            · cases h
            · rename_i st hst
              split at h
              · cases h
              · rename_i st' hfin
                simp only [Except.ok.injEq] at h; subst h
                simp only
                have hall := parseItems_handed w (loadChild w f (d + 1)) (d + 1) (loadChild_depth w f (d + 1)) _ _ _ _ hst
                  (by intro _; exact ⟨by simp [beginEO], rfl⟩) (by intro x hx; simp at hx)
                have hout := finishEO_out w st st' _ _ hfin
                refine ⟨trivial, trivial, ?_⟩
                intro x hx
                rw [hout] at hx
                obtain ⟨hd1, hd2⟩ := hall x hx
                refine ⟨hd1, ?_⟩
                intro hdep _ hov
                rw [hd2 hdep]
                -- the sheet the token loop ran on keeps `newEnc` of `beginEO`
                have hnew : st.sheet.newEnc = (beginEO ⟨some u, s.href :: s.ancestors, none, none, []⟩
                    (if rd.enctype = 0 then some rd.encoding else none)
                    (if 0 < rd.enctype ∧ rd.enctype < 5 then some rd.encoding else none)).newEnc := by
                  have := (parseItems_all w (loadChild w f (d + 1)) (fun _ => True)
                    (fun s' => s'.newEnc = (beginEO ⟨some u, s.href :: s.ancestors, none, none, []⟩
                      (if rd.enctype = 0 then some rd.encoding else none)
                      (if 0 < rd.enctype ∧ rd.enctype < 5 then some rd.encoding else none)).newEnc)
                    (fun s rs h => h) (fun _ _ _ _ _ _ _ => trivial) _ _ _ _ hst rfl
                    (by intro x hx; simp at hx)).1
                  exact this
                have hty : rd.enctype ≠ 0 := by
                  rw [hov] at hrd
                  obtain ⟨http, c, _, hch, _⟩ := readUrl_some w _ _ _ rd hrd
                  have := congrArg Choice.enctype hch
                  simp only at this
                  rw [this]
                  exact choose_enctype_ne0 none http (parentEncodingOf s) c rfl
                unfold parentEncodingOf
                rw [hnew]
                unfold beginEO
                simp only [hty, if_false, show truthy (none : Option (List Nat)) = false from rfl, Bool.false_eq_true]
                by_cases hr : 0 < rd.enctype ∧ rd.enctype < 5
                · by_cases hu : rd.encoding = []
                  · simp [hr, hu, truthy, ownCharsetOf]
                  · have : truthy (some rd.encoding) = true := (truthy_some_iff _).mpr hu
                    simp [hr, hu, this]
                · have hr' : ¬ (0 < rd.enctype ∧ rd.enctype < 5 ∧ rd.encoding ≠ []) := fun hx => hr ⟨hx.1, hx.2.1⟩
                  simp [hr, hr', truthy, ownCharsetOf]

/-- the reported encoding of every imported sheet is the encoding it was read in (lower-cased, for a name
`CSSCharsetRule` accepts) when that came from an override, HTTP, BOM/@charset or the referring sheet; a sheet read as
UTF-8 by default reports its own `@charset` rule if the parser kept one, else utf-8 -/
theorem reported_is_used (w : World) (fuel : Nat) (t : Text) (eo en : Option Name) (href : Option Url)
    (p : Parsed) (h : parseText w fuel t eo en href = .ok p) :
    ∀ x ∈ p.out.recs, x.found = true →
      (x.enctype < 5 → x.used ≠ [] → validName w x.used = true → x.reported = lower x.used) ∧
      (x.enctype = 5 → x.reported = x.ownCharset.getD utf8N) := by
  unfold parseText at h
  split at h
  · cases h
  · rename_i st hst
    split at h
    · cases h
    · rename_i st' hfin
      simp only [Except.ok.injEq] at h; subst h
      obtain ⟨_, hall⟩ := parseItems_all w (loadChild w fuel 1) (RepRec w) (fun _ => True)
        (fun _ _ _ => trivial) (fun s u r _ hr => loadChild_reported w fuel 1 s u r hr) _ _ _ _ hst trivial
        (by intro x hx; simp at hx)
      have hout := finishEO_out w st st' _ _ hfin
      intro x hx; simp only at hx; rw [hout] at hx; exact hall x hx

/-- the fuel of the model is only a bound on the depth of the import tree: a result obtained with some fuel is the
result for every larger fuel (so no theorem above depends on the fuel chosen) -/
theorem fuel_irrelevant (w : World) (fuel k : Nat) (t : Text) (eo en : Option Name) (href : Option Url)
    (p : Parsed) (h : parseText w fuel t eo en href = .ok p) :
    parseText w (fuel + k) t eo en href = .ok p := by
  unfold parseText at h ⊢
  cases hp : parseItems w (loadChild w fuel 1) (w.view t) 0
      ⟨beginEO ⟨href, [], none, none, []⟩ eo en, ⟨[], []⟩⟩ with
  | error e => rw [hp] at h; cases h
  | ok st =>
    rw [hp] at h
    rw [parseItems_mono w (loadChild w fuel 1) (loadChild w (fuel + k) 1)
      (fun s u r hr => loadChild_fuel_mono w k fuel 1 s u r hr) _ _ _ _ hp]
    exact h

/-- loading never raises: whatever the fetcher serves (wrong shapes, undecodable bytes, encoding names the runtime
does not know, names `CSSCharsetRule` rejects, recursive imports), parsing a text, and `parseUrl`, end normally; the
only other outcome of the MODEL is its own fuel bound. (`parseString` of BYTES may raise `UnicodeDecodeError` /
`LookupError` for the root sheet itself, as documented.) -/
theorem loading_never_raises (w : World) (fuel : Nat) (t : Text) (eo en : Option Name) (href : Option Url) (e : Err)
    (h : parseText w fuel t eo en href = .error e) : e = .outOfFuel := by
  unfold parseText at h
  split at h
  · rename_i e1 h1
    simp only [Except.error.injEq] at h; subst h
    exact parseItems_err w _ (fun s u e he => loadChild_err w fuel 1 s u e he) _ _ _ _ h1
  · rename_i st _
    obtain ⟨st', hf⟩ := finishEO_ok w st eo en
    rw [hf] at h
    cases h

theorem parseUrl_never_raises (w : World) (fuel : Nat) (href : Url) (enc : Option Name) (e : Err)
    (h : parseUrl w fuel href enc = .error e) : e = .outOfFuel := by
  unfold parseUrl at h
  cases hr : readUrl w (w.fetch href) enc none with
  | none => rw [hr] at h; cases h
  | some rd =>
    rw [hr] at h
    simp only at h
    cases ht : rd.text with
    | none => rw [ht] at h; cases h
    | some t =>
      rw [ht] at h
      simp only at h
      cases hp : parseText w fuel t (if rd.enctype = 0 then some rd.encoding else none)
          (if 0 < rd.enctype ∧ rd.enctype < 5 then some rd.encoding else none) (some href) with
      | error x =>
        rw [hp] at h
        simp only [Except.error.injEq] at h; subst h
        exact loading_never_raises w fuel _ _ _ _ _ hp
      | ok q => rw [hp] at h; cases h

/-- a sheet is never fetched while it is being loaded further up: the recursion guard of `_setHref` (fix bfd81fb) -/
theorem recursive_import_not_followed (w : World) (fuel d : Nat) (s : Sheet) (u : Url)
    (hu : u ≠ []) (hanc : (s.href :: s.ancestors).contains (some u) = true) :
    loadChild w (fuel + 1) d s u = .ok ⟨false, ⟨[], [failedRec d u (parentEncodingOf s)]⟩⟩ := by
  simp only [loadChild, if_neg hu, if_pos hanc]

/-! `parseUrl`. Since the repair of C08-parseurl-override only an encoding GIVEN BY THE CALLER is an override; what
the ladder finds for the root sheet itself (HTTP, BOM, @charset) is the root's own encoding, which imports inherit
exactly as they inherit the encoding of an imported sheet. `parseUrl_ladder` is the former `parseUrl_partial` without
its guard `enctype = 5`; `parseUrl_forces_root_encoding` (the old behaviour) is gone. -/

/-- an override given to `parseUrl` governs the whole tree -/
theorem parseUrl_override_propagates (w : World) (fuel : Nat) (href : Url) (e : Name) (p : Parsed) (he : e ≠ [])
    (h : parseUrl w fuel href (some e) = .ok (some p)) :
    (∀ x ∈ p.out.recs, x.found = true → x.enctype = 0 ∧ x.used = e ∧ (validName w e = true → x.reported = lower e)) ∧
    (validName w e = true → p.encoding = lower e) := by
  have hte : truthy (some e) = true := (truthy_some_iff e).mpr he
  unfold parseUrl at h
  cases hr : readUrl w (w.fetch href) (some e) none with
  | none => rw [hr] at h; simp at h
  | some rd =>
    rw [hr] at h
    obtain ⟨henc, hty⟩ := readUrl_override w _ _ _ rd hte hr
    simp only [Option.getD_some] at henc
    simp only at h
    cases ht : rd.text with
    | none => rw [ht] at h; simp at h
    | some t =>
      rw [ht] at h
      simp only [hty, henc, if_true] at h
      cases hp : parseText w fuel t (some e) (if 0 < 0 ∧ 0 < 5 then some e else none) (some href) with
      | error x => rw [hp] at h; simp at h
      | ok q =>
        rw [hp] at h
        simp only [Except.ok.injEq, Option.some.injEq] at h
        subst h
        exact override_propagates_text w fuel t e _ (some href) q he hp

/-- `parseUrl` WITHOUT an override: every import, at any depth, is read by the ladder from its own HTTP charset, its
own content and the `parentEncoding` handed down — whatever the ladder found for the root sheet -/
theorem parseUrl_ladder (w : World) (fuel : Nat) (href : Url) (enc : Option Name) (p : Parsed)
    (hne : truthy enc = false) (h : parseUrl w fuel href enc = .ok (some p)) :
    ∀ x ∈ p.out.recs, x.found = true → ∃ http c, w.fetch x.url = .pair http c ∧
      choose none http x.parentArg c = ⟨x.used, x.enctype⟩ ∧ decodeContent w c x.used = some x.text := by
  unfold parseUrl at h
  cases hr : readUrl w (w.fetch href) enc none with
  | none => rw [hr] at h; simp at h
  | some rd =>
    rw [hr] at h
    simp only at h
    obtain ⟨http, c, _, hch, _⟩ := readUrl_some w _ _ _ rd hr
    have hty : rd.enctype ≠ 0 := by
      have := congrArg Choice.enctype hch
      simp only at this
      rw [this]
      exact choose_enctype_ne0 enc http none c hne
    cases ht : rd.text with
    | none => rw [ht] at h; simp at h
    | some t =>
      rw [ht] at h
      simp only [hty, if_false] at h
      cases hp : parseText w fuel t none (if 0 < rd.enctype ∧ rd.enctype < 5 then some rd.encoding else none)
          (some href) with
      | error x => rw [hp] at h; simp at h
      | ok q =>
        rw [hp] at h
        simp only [Except.ok.injEq, Option.some.injEq] at h
        subst h
        exact no_override_ladder_text w fuel t none _ (some href) q rfl hp

/-- … and the direct imports of the root inherit the encoding the ladder found for the root (HTTP, BOM/@charset),
or the root's own `@charset` rule when the root was read as UTF-8 by default — the same rule as for an imported sheet -/
theorem parseUrl_root_hands_down (w : World) (fuel : Nat) (href : Url) (enc : Option Name) (p : Parsed) (rd : ReadOk)
    (hr : readUrl w (w.fetch href) enc none = some rd) (hne : truthy enc = false)
    (h : parseUrl w fuel href enc = .ok (some p)) :
    ∀ x ∈ p.out.recs, 1 ≤ x.depth ∧ (x.depth = 1 →
      x.parentArg = if rd.enctype < 5 ∧ rd.encoding ≠ [] then some rd.encoding else p.ownCharset) := by
  unfold parseUrl at h
  rw [hr] at h
  simp only at h
  obtain ⟨http, c, _, hch, _⟩ := readUrl_some w _ _ _ rd hr
  have hty : rd.enctype ≠ 0 := by
    have := congrArg Choice.enctype hch
    simp only at this
    rw [this]
    exact choose_enctype_ne0 enc http none c hne
  cases ht : rd.text with
  | none => rw [ht] at h; simp at h
  | some t =>
    rw [ht] at h
    simp only [hty, if_false] at h
    cases hp : parseText w fuel t none (if 0 < rd.enctype ∧ rd.enctype < 5 then some rd.encoding else none)
        (some href) with
    | error x => rw [hp] at h; simp at h
    | ok q =>
      rw [hp] at h
      simp only [Except.ok.injEq, Option.some.injEq] at h
      subst h
      have := root_hands_down_text w fuel t none _ (some href) q hp
      intro x hx
      obtain ⟨h1, h2⟩ := this x hx
      refine ⟨h1, ?_⟩
      intro hd
      rw [h2 hd]
      by_cases hlt : rd.enctype < 5
      · have h05 : 0 < rd.enctype ∧ rd.enctype < 5 := ⟨by omega, hlt⟩
        by_cases hu : rd.encoding = []
        · simp [h05, hu, truthy]
        · have : truthy (some rd.encoding) = true := (truthy_some_iff _).mpr hu
          simp [h05, hu, this]
      · have h05 : ¬ (0 < rd.enctype ∧ rd.enctype < 5) := fun hx => hlt hx.2
        simp [hlt, truthy]

/-! ## T8.3 `sheet.encoding` mirrors the `@charset` rule under edits -/
open CssVerif.EncSheet in
/-- T8.3 `encoding_mirrors_charset`: after ANY history of public edits (`encoding =`, `insertRule`/`add` of every
rule kind at every index, with and without `inOrder`, `deleteRule`, `rule.encoding =`, `cssText =`; rejected ones
change nothing) an `@charset` rule can only be the first rule, `sheet.encoding` is the encoding of THE `@charset` rule
wherever the sheet has one and `utf-8` when it has none, and the serializer encodes with the same name.

PROMOTED from `encoding_mirrors_charset_partial`: the guard `OpGuard` (no `insertRule(<@variables>, <explicit index>,
inOrder=True)`) is gone since fix e727728 makes `inOrder=True` ignore the index (finding C08-inorder-index fixed). -/
theorem encoding_mirrors_charset (valid : EncSheet.Name → Bool) (ops : List Op) :
    Valid (runOps valid [] ops) ∧
    EncSheet.encoding (runOps valid [] ops) =
      (match (runOps valid [] ops).find? Rule.isCharset with | some (.charset e) => e | _ => EncSheet.utf8N) ∧
    serEncoding (runOps valid [] ops) = EncSheet.encoding (runOps valid [] ops) := by
  have aux : ∀ rs, Valid rs → EncSheet.encoding rs =
      (match rs.find? Rule.isCharset with | some (.charset e) => e | _ => EncSheet.utf8N) := by
    intro rs hv
    rw [find_charset_of_valid rs hv]
    cases rs with
    | nil => rfl
    | cons a t => cases a <;> rfl
  have hv := runOps_valid valid ops [] (by simp [Valid, noCharset])
  exact ⟨hv, aux _ hv, rfl⟩

open CssVerif.EncSheet in
/-- the former witness of C08-inorder-index: the `@variables` rule now goes behind `@charset` -/
example : runOps (fun _ => true) [] [.setEncoding (some [0x78]), .insert .variables (some 0) true]
      = [.charset [0x78], .variables] := by decide

open CssVerif.EncSheet in
/-- setting then getting: an accepted name is reported (lower-cased) -/
theorem set_then_get (valid : EncSheet.Name → Bool) (rules rs : List Rule) (n : EncSheet.Name) (hn : n ≠ [])
    (h : setEncoding valid rules (some n) = .ok rs) : EncSheet.encoding rs = EncSheet.lower n := by
  have ht : EncSheet.truthy (some n) = true := by cases n <;> simp_all [EncSheet.truthy]
  unfold setEncoding at h
  simp only [Option.getD_some] at h
  split at h
  · rw [if_pos ht] at h
    split at h
    · simp only [Except.ok.injEq] at h; subst h; rfl
    · cases h
  · rename_i hne
    rw [if_pos ht] at h
    split at h
    · split at h
      · rename_i r hr
        simp only [Except.ok.injEq] at h; subst h
        unfold insertRule at hr
        simp only [Option.getD_some, Bool.false_eq_true, if_false] at hr
        split at hr
        · cases hr
        · split at hr
          · cases hr
          · simp only [Except.ok.injEq] at hr; subst hr
            simp [insertAt, EncSheet.encoding]
      · cases h
    · cases h

open CssVerif.EncSheet in
/-- a name `CSSCharsetRule` does not accept is rejected and the sheet keeps its encoding -/
theorem set_invalid_rejected (valid : EncSheet.Name → Bool) (rules : List Rule) (n : EncSheet.Name) (hn : n ≠ [])
    (hv : valid n = false) : setEncoding valid rules (some n) = .error .syntaxErr := by
  have ht : EncSheet.truthy (some n) = true := by cases n <;> simp_all [EncSheet.truthy]
  unfold setEncoding
  simp only [Option.getD_some]
  split <;> simp [ht, hv]

open CssVerif.EncSheet in
/-- `encoding = None` removes the rule: the sheet then has no `@charset` at all and reports utf-8 -/
theorem set_none_then_get (valid : EncSheet.Name → Bool) (rules rs : List Rule) (hv : Valid rules)
    (h : setEncoding valid rules none = .ok rs) :
    EncSheet.encoding rs = EncSheet.utf8N ∧ rs.find? Rule.isCharset = none := by
  have hv' := setEncoding_valid valid rules rs none hv h
  unfold setEncoding at h
  simp only [EncSheet.truthy, Bool.false_eq_true, if_false] at h
  split at h
  · rename_i old rest
    simp only [deleteRule, List.length_cons, Nat.zero_lt_succ, if_true, List.eraseIdx_cons_zero,
      Except.ok.injEq] at h
    have hnc : noCharset rest = true := by unfold Valid at hv; simpa using hv
    rw [← h]
    refine ⟨?_, find_noCharset rest hnc⟩
    cases rest with
    | nil => rfl
    | cons a t => cases a with
      | charset e => simp [noCharset, Rule.isCharset] at hnc
      | _ => rfl
  · rename_i hne
    simp only [Except.ok.injEq] at h
    rw [← h] at hv' ⊢
    rw [find_charset_of_valid _ hv']
    cases rules with
    | nil => exact ⟨rfl, rfl⟩
    | cons a t => cases a with
      | charset e => exact absurd rfl (hne e t)
      | _ => exact ⟨rfl, rfl⟩

/-! ## T8.4 `escapecss`: decodable and lossless -/
open CssVerif.EncEscape

/-- T8.4a decodability: for EVERY target encoding, given by its representability predicate `rep` (which has to
contain the characters escapes are written with), what `escapecss` writes consists of representable characters only -/
theorem escapecss_decodable (rep : Nat → Bool) (hr : SyntaxRep rep) (text : List Nat) :
    ∀ x ∈ escape rep text, rep x = true := escape_representable rep hr text

/-- T8.4b `escapecss_lossless`, token by token: for every token text `t` (any piece of the serialisation:
`escape` distributes over concatenation), the tokenizer's unescaping reads the same value from the escaped text as
from the original one — for every `rep` and every text of Python characters.

  FULL STATEMENT (fails since fix 907f5b2 made `\\` a unit in `unicodesub`, see the known finding
  C08-escaped-unrepresentable):   unescape (escape rep t) = unescape t   for all `t`.

  proved: under the guard `ok rep t` — no character that has to be escaped comes directly after a backslash which
  is not itself escaped (`"\ä"` in an ASCII sheet). The guard is computed by the same scanner. -/
theorem escapecss_lossless_partial (rep : Nat → Bool) (hr : SyntaxRep rep) (t : List Nat)
    (hchars : ∀ c ∈ t, c ≤ maxUnicode) (hok : ok rep t = true) :
    unescape (escape rep t) = unescape t :=
  roundtrip_from false rep hr t .norm hchars hok

/-- the guard is exact: the escaped text reads the same as the original IF AND ONLY IF no character that has to be
escaped directly follows an unescaped backslash -/
theorem escapecss_lossless_iff (rep : Nat → Bool) (hr : SyntaxRep rep) (t : List Nat)
    (hchars : ∀ c ∈ t, c ≤ maxUnicode) :
    unescape (escape rep t) = unescape t ↔ ok rep t = true := by
  constructor
  · intro h
    cases hk : ok rep t with
    | true => rfl
    | false => exact absurd h (roundtrip_fails_from false rep hr t .norm hchars hk)
  · exact escapecss_lossless_partial rep hr t hchars

/-- the same for the tokens read with `stringsub` (STRING, INVALID, URI — since the tokenizer round be395e5/12a90a6
a line continuation is removed in the same pass as escapes are resolved): the value read from the escaped text is
the value read from the original IF AND ONLY IF no character that has to be escaped directly follows an unescaped
backslash -/
theorem escapecss_lossless_str_iff (rep : Nat → Bool) (hr : SyntaxRep rep) (t : List Nat)
    (hchars : ∀ c ∈ t, c ≤ maxUnicode) :
    unescapeStr (escape rep t) = unescapeStr t ↔ okStr rep t = true := by
  constructor
  · intro h
    cases hk : okStr rep t with
    | true => rfl
    | false => exact absurd h (roundtrip_fails_from true rep hr t .norm hchars hk)
  · exact roundtrip_from true rep hr t .norm hchars

/-- COMMENT and ATKEYWORD tokens are read VERBATIM (comments since fix 975ab00): there the text survives IF AND
ONLY IF nothing had to be escaped — an unrepresentable character in a comment or in the keyword of an unknown
at-rule comes back as the text of its escape (known findings C08-comment-unencodable, C08-atkeyword-escape) -/
theorem escapecss_verbatim_iff (rep : Nat → Bool) (hr : SyntaxRep rep) (t : List Nat) :
    escape rep t = t ↔ ∀ c ∈ t, rep c = true := by
  constructor
  · intro h c hc
    have := escape_representable rep hr t c (by rw [h]; exact hc)
    exact this
  · exact escape_id rep t

/-- `escape` works character by character, so it can be read token by token -/
theorem escapecss_tokenwise (rep : Nat → Bool) (a b : List Nat) :
    escape rep (a ++ b) = escape rep a ++ escape rep b := escape_append rep a b

/-- nothing is touched when the encoding can represent everything (UTF-8 and friends) -/
theorem escapecss_identity (rep : Nat → Bool) (t : List Nat) (h : ∀ c ∈ t, rep c = true) : escape rep t = t :=
  escape_id rep t h

/-- the predicate of an ASCII-only encoding -/
def repAscii (c : Nat) : Bool := decide (c < 128)

theorem repAscii_syntax : SyntaxRep repAscii := by
  refine ⟨by decide, by decide, ?_, ?_, by decide⟩
  · intro c h
    simp only [isUpperHex, Bool.or_eq_true, Bool.and_eq_true, decide_eq_true_eq] at h
    simp only [repAscii, decide_eq_true_eq]; omega
  · intro c h
    unfold hexVal? at h
    simp only [repAscii, decide_eq_true_eq]
    split at h
    · omega
    · split at h
      · omega
      · split at h
        · omega
        · simp at h

/-- the witness of C08-escaped-unrepresentable, in the model: `\ä` written for ASCII is `\\E4 `, which the tokenizer
reads as an escaped backslash followed by the text `E4 ` — the character is gone -/
example : escape repAscii [0x5C, 0xE4] = [0x5C, 0x5C, 0x45, 0x34, 0x20] ∧
    unescape (escape repAscii [0x5C, 0xE4]) = [0x5C, 0x5C, 0x45, 0x34, 0x20] ∧
    unescape [0x5C, 0xE4] = [0x5C, 0xE4] ∧ ok repAscii [0x5C, 0xE4] = false := by decide

/-- T8.4b for EVERY token kind, the kind made explicit: escaping keeps the value the tokenizer reads from a token of
kind `k` IF AND ONLY IF `lossless rep k t` — for names and strings: no character to be escaped directly follows an
unescaped backslash; for COMMENT / ATKEYWORD tokens, which are read verbatim: nothing at all had to be escaped. So the
lossless statement holds OUTSIDE comments (and at-keywords) up to the backslash guard, and inside comments only when
every character is representable (known findings C08-comment-unencodable, C08-atkeyword-escape). -/
theorem escapecss_lossless_by_kind (rep : Nat → Bool) (hr : SyntaxRep rep) (k : TokKind) (t : List Nat)
    (hchars : ∀ c ∈ t, c ≤ maxUnicode) :
    reads k (escape rep t) = reads k t ↔ lossless rep k t = true := by
  cases k with
  | name => exact escapecss_lossless_iff rep hr t hchars
  | str => exact escapecss_lossless_str_iff rep hr t hchars
  | verbatim =>
    simp only [reads, lossless, List.all_eq_true]
    exact escapecss_verbatim_iff rep hr t

/-- the witness of C08-comment-unencodable: the comment text `ä` written for ASCII is `\E4 `, and that is what a comment
token then holds -/
example : escape repAscii [0xE4] = [0x5C, 0x45, 0x34, 0x20] ∧ escape repAscii [0xE4] ≠ [0xE4] := by decide

/-- a line continuation in a string is removed, an escaped line feed is kept (fix 12a90a6) -/
example : unescapeStr [0x61, 0x5C, 0x0A, 0x62] = [0x61, 0x62] ∧ unescapeStr [0x61, 0x5C, 0x0D, 0x0A, 0x62] = [0x61, 0x62] ∧
    unescapeStr [0x5C, 0x35, 0x63, 0x5C, 0x61, 0x20] = [0x5C, 0x5C, 0x0A] ∧
    unescape [0x61, 0x5C, 0x0A, 0x62] = [0x61, 0x5C, 0x0A, 0x62] := by decide

/-! non-vacuity: the hypotheses above are satisfiable, and the models compute what the implementation shows -/
example : ok repAscii [0x61, 0xE4, 0x5C, 0x5C, 0xE4] = true ∧
    unescape (escape repAscii [0x61, 0xE4, 0x5C, 0x5C, 0xE4]) = [0x61, 0xE4, 0x5C, 0x5C, 0xE4] := by decide
example : unescape [0x5C, 0x34, 0x31, 0x20, 0x62] = [0x41, 0x62] := by decide            -- `\41 b` reads `Ab`
example : unescape [0x5C, 0x5C, 0x34, 0x31] = [0x5C, 0x5C, 0x34, 0x31] := by decide      -- `\\41` stays

/-- a two-level import tree on which both halves of T8.2 say something: root `@charset "x"` imports `u1`, which is
served with HTTP charset `h` and imports `u2`, which has neither -/
def demoWorld : World where
  fetch := fun u => if u = [1] then .pair (some [0x68]) (.text [10]) else if u = [2] then .pair none (.text [20]) else .none
  dec := fun _ _ => .lookupError
  known := fun _ => true
  view := fun t => if t = [0] then [.charset [0x78], .imp [1]] else if t = [10] then [.imp [2]] else []

def summary (r : Except Err Parsed) : Option (Name × List (Nat × Nat × Name × Option Name × Name)) :=
  match r with
  | .ok p => some (p.encoding, p.out.recs.map (fun r => (r.depth, r.enctype, r.used, r.parentArg, r.reported)))
  | .error _ => none


example : summary (parseString demoWorld 5 (.text [0]) none none)
    = some ([0x78], [(1, 1, [0x68], some [0x78], [0x68]), (2, 4, [0x68], some [0x68], [0x68])]) := by rfl
example : summary (parseString demoWorld 5 (.text [0]) (some [0x6F]) none)
    = some ([0x6F], [(1, 0, [0x6F], some [0x78], [0x6F]), (2, 0, [0x6F], none, [0x6F])]) := by rfl

/-- `parseUrl` on a root served with HTTP charset `r` that imports `u1` (no information of its own), which imports
`u2` served as `h`: the root's encoding is inherited by `u1`, NOT forced on `u2` -/
def demoWorldUrl : World where
  fetch := fun u => if u = [9] then .pair (some [0x72]) (.text [0]) else if u = [1] then .pair none (.text [10])
    else if u = [2] then .pair (some [0x68]) (.text [20]) else .none
  dec := fun _ _ => .lookupError
  known := fun _ => true
  view := fun t => if t = [0] then [.imp [1]] else if t = [10] then [.imp [2]] else []

example : (match parseUrl demoWorldUrl 5 [9] none with
    | .ok (some p) => some (p.encoding, p.out.recs.map (fun r => (r.depth, r.enctype, r.used, r.parentArg, r.reported)))
    | _ => none)
    = some ([0x72], [(1, 4, [0x72], some [0x72], [0x72]), (2, 1, [0x68], some [0x72], [0x68])]) := by rfl


/-! ## T8.4c token boundaries: `escapecss` against the regenerated tokenizer productions

`Gen/C05Productions.lean` is regenerated from `cssproductions.py` / `tokenize2.py` on every run; `Tok.scan` tries the
productions in order with `Re.first` (= `pattern.match`). The theorems say that the match a production finds on the
text from `pos` on is found, at the mapped position `elen`, on the escaped text — and that there is none if there was
none — so the escaped text is cut into the same tokens. Guard: no character to be escaped directly after a backslash
(the region of the known finding C08-escaped-unrepresentable, as a property of the text). -/
section boundaries
open CssVerif.EncTok
open CssVerif.Gen.C05 (productions reIDENT reFUNCTION reDIMENSION reHASH reATKEYWORD reSTRING reINVALID reCHAR reS
  rePERCENTAGE reNUMBER)

/-- the productions whose first match is proved to be kept on EVERY guarded text: all but FUNCTION (kept wherever the
tokenizer tries it: `escapecss_keeps_function`) and CHAR (kept wherever it is reached: `escapecss_keeps_char`) -/
def keptProductions : List String :=
  ["S", "URI", "UNICODE-RANGE", "IDENT", "DIMENSION", "PERCENTAGE", "NUMBER", "HASH", "COMMENT", "STRING", "INVALID",
   "ATKEYWORD", "INCLUDES", "DASHMATCH", "PREFIXMATCH", "SUFFIXMATCH", "SUBSTRINGMATCH", "CDO", "CDC"]

/-- every ASCII-compatible encoding gives a `SyntaxRep` -/
theorem asciiRep_syntax (rep : Nat → Bool) (ha : AsciiRep rep) : SyntaxRep rep := by
  refine ⟨ha _ (by decide), ha _ (by decide), ?_, ?_, ⟨ha _ (by decide), ha _ (by decide), ha _ (by decide),
    ha _ (by decide)⟩⟩
  · intro c h
    simp only [isUpperHex, Bool.or_eq_true, Bool.and_eq_true, decide_eq_true_eq] at h
    exact ha c (by omega)
  · intro c h
    unfold hexVal? at h
    apply ha
    split at h
    · omega
    · split at h
      · omega
      · split at h
        · omega
        · simp at h

/-- T8.4c `escapecss_keeps_first_match_partial`: for every production of the regenerated table except FUNCTION and
CHAR — S, URI, UNICODE-RANGE, IDENT, DIMENSION, PERCENTAGE, NUMBER, HASH, COMMENT, STRING, INVALID, ATKEYWORD and the
fixed lexemes — every target encoding that can represent ASCII, and every guarded text `s` (the text from the
tokenizer's `pos` on): `pattern.match` on the escaped text finds the image of what it found on the original, and
nothing if it found nothing. So a non-ASCII character replaced by `\HEX␠` inside a token keeps the token's boundaries,
and no token appears where there was none. (IDENT … ATKEYWORD and the ASCII-only productions through the syntactic
checker `firstPres`; STRING, INVALID, COMMENT, URI, UNICODE-RANGE by the hand proofs of `Lemmas/EncTok.lean`.)

`_partial`: the guard is "no character to be escaped directly after ANY backslash"; the FULL statement has the guard
of `escapecss_lossless_by_kind` (after an UNESCAPED backslash), which is not a property of the text alone but of where
the tokens start. Texts with `\\ä` (an even run of backslashes before a character to be escaped) are the gap; the
harness explores them (`E:escaped:even`). -/
theorem escapecss_keeps_first_match_partial (rep : Nat → Bool) (ha : AsciiRep rep) :
    ∀ p ∈ productions, p.1 ∈ keptProductions → ∀ s : List Nat, guard rep s = true → (∀ c ∈ s, c ≤ maxUnicode) →
      p.2.first (escape rep s) = (p.2.first s).map (elen rep s) := by
  intro p hp hk s hg hm
  have hne : ∀ n ∈ keptProductions, n ≠ "FUNCTION" ∧ n ≠ "CHAR" := by decide
  exact productions_firstPres rep ha p hp (hne p.1 hk).1 (hne p.1 hk).2 s ⟨hg, hm⟩

/-- T8.4c `escapecss_keeps_token_type_partial`: the production scan of the tokenizer (`tokenize2.py:174-202`: the
productions in order, `pattern.match`, IDENT skipped in front of `(` unless it is `and`, the unterminated comment of
full-sheet mode) on the escaped text answers with the SAME production and the mapped length — the token that starts at
`pos` has the same type and the same (escaped) source on both texts; in full-sheet mode an unterminated comment is
completed on both. For every guarded text from `pos` on, both modes, comments on or off.

`_partial` for the same reason as above (guard "after any backslash"). What the tokenizer does with the hit afterwards
— the full-sheet completions of INVALID / `url(` (`complete`), the value and the at-keyword symbol (`valueOf`; values:
T8.4b), line and column — is not part of this statement; the main loop as a whole is compared differentially
(harness part E) and by the reparse oracle. -/
theorem escapecss_keeps_token_type_partial (rep : Nat → Bool) (ha : AsciiRep rep) (full doC : Bool) (s : List Nat)
    (hg : guard rep s = true) (hm : ∀ c ∈ s, c ≤ maxUnicode) :
    Tok.scan full doC (escape rep s) productions = mapScan rep s (Tok.scan full doC s productions) :=
  scan_escape rep ha full doC s ⟨hg, hm⟩

/-- FUNCTION is IDENT followed by `(` (`tokenize2.py:196-202` skips an IDENT that is directly followed by `(`): it is
kept where the identifier in front of the parenthesis is, and absent where there is no identifier -/
theorem escapecss_keeps_function (rep : Nat → Bool) (ha : AsciiRep rep) (s : List Nat) (hg : guard rep s = true)
    (hm : ∀ c ∈ s, c ≤ maxUnicode) :
    (∀ l, reIDENT.first s = some l → s[l]? = some 40 →
      reFUNCTION.first s = some (l + 1) ∧ reFUNCTION.first (escape rep s) = some (elen rep s (l + 1))) ∧
    (reIDENT.first s = none → reFUNCTION.first s = none ∧ reFUNCTION.first (escape rep s) = none) := by
  have hI := firstPres_sound rep ha reIDENT (by decide) s ⟨hg, hm⟩
  constructor
  · intro l hl hp
    refine ⟨function_first_some hl hp, ?_⟩
    rw [hl] at hI
    have hlt : l < s.length := by
      rcases Nat.lt_or_ge l s.length with h | h
      · exact h
      · rw [List.getElem?_eq_none h] at hp; cases hp
    have hd : s.drop l = 40 :: s.drop (l + 1) := by
      rw [List.drop_eq_getElem_cons hlt]
      congr 1
      rw [List.getElem?_eq_getElem hlt] at hp
      exact Option.some.inj hp
    have h40 : rep 40 = true := ha 40 (by decide)
    have hp' : (escape rep s)[elen rep s l]? = some 40 := by
      have := drop_elen rep s l
      rw [hd, escape_cons_rep _ h40] at this
      rw [← List.head?_drop, this]; rfl
    rw [function_first_some hI hp', elen_add, hd, elen_one_rep _ h40]
  · intro hn
    rw [hn] at hI
    exact ⟨function_first_none hn, function_first_none hI⟩

/-- CHAR (`[^"']`, the last production) is only reached when the text does not start with a character that has to be
escaped (such a character is `nonascii`, which starts an IDENT): there it is kept -/
theorem escapecss_keeps_char (rep : Nat → Bool) (s : List Nat) (hg : guard rep s = true) (hm : ∀ c ∈ s, c ≤ maxUnicode)
    (hh : ∀ c t, s = c :: t → rep c = true) :
    reCHAR.first (escape rep s) = (reCHAR.first s).map (elen rep s) :=
  firstPresH_cls rep _ _ s ⟨hg, hm⟩ hh

/-- a character that has to be escaped always starts an identifier: IDENT matches there, on both texts -/
theorem unrepresentable_starts_ident (rep : Nat → Bool) (ha : AsciiRep rep) (c : Nat) (t : List Nat)
    (hc : rep c = false) (hg : guard rep (c :: t) = true) (hm : ∀ x ∈ c :: t, x ≤ maxUnicode) :
    ∃ l, 0 < l ∧ reIDENT.first (c :: t) = some l ∧
      reIDENT.first (escape rep (c :: t)) = some (elen rep (c :: t) l) := by
  have hI := firstPres_sound rep ha reIDENT (by decide) (c :: t) ⟨hg, hm⟩
  have h128 := unrep_ge ha hc
  have hcm : c ≤ maxUnicode := hm c List.mem_cons_self
  have hne : reIDENT.ms (c :: t) ≠ [] := by
    have hin : Tok.inR [(128, 0x10FFFF)] c = true := by
      simp only [Tok.inR, List.any_cons, List.any_nil, Bool.or_false, Bool.and_eq_true, decide_eq_true_eq]
      exact ⟨h128, hcm⟩
    have h1 : Tok.nmstartRe.ms (c :: t) = [1] :=
      Tok.exactlyOne_sound [(128, 0x10FFFF)] c hin Tok.nmstartRe (by decide) t
    rw [Tok.reIDENT_eq, Tok.seq_ms_left_zero (Tok.dashOpt_ms c t (by omega))]
    exact Tok.seq_ne_nil (by rw [h1]; simp) (fun s' => Tok.starMs_ne_nil _ _ _ _)
  cases hf : reIDENT.first (c :: t) with
  | none =>
    unfold Re.first at hf
    cases hm' : reIDENT.ms (c :: t) with
    | nil => exact absurd hm' hne
    | cons y ys => rw [hm'] at hf; cases hf
  | some l =>
    rw [hf] at hI
    exact ⟨l, Re.first_pos reIDENT (by decide) _ l hf, rfl, hI⟩

/-- the text guard implies the value guards of T8.4b: on guarded token texts the value read is the same, whatever the
kind of the token (outside comments / at-keywords) -/
theorem guard_lossless (rep : Nat → Bool) (t : List Nat) (hg : guard rep t = true) :
    lossless rep .name t = true ∧ lossless rep .str t = true := guard_ok rep t hg

/-- T8.4b + T8.4c for one identifier: a text that is one IDENT (the production matches all of it) is, escaped, again
one IDENT, and the tokenizer reads the same name from it -/
theorem ident_token_roundtrip (rep : Nat → Bool) (ha : AsciiRep rep) (t : List Nat) (hg : guard rep t = true)
    (hm : ∀ c ∈ t, c ≤ maxUnicode) (hI : reIDENT.first t = some t.length) :
    reIDENT.first (escape rep t) = some (escape rep t).length ∧ unescape (escape rep t) = unescape t :=
  ⟨firstPres_whole (firstPres_sound rep ha reIDENT (by decide)) t ⟨hg, hm⟩ hI,
   (escapecss_lossless_iff rep (asciiRep_syntax rep ha) t hm).mpr (guard_ok rep t hg).1⟩

/-- the same for a string token -/
theorem string_token_roundtrip (rep : Nat → Bool) (ha : AsciiRep rep) (t : List Nat) (hg : guard rep t = true)
    (hm : ∀ c ∈ t, c ≤ maxUnicode) (hI : reSTRING.first t = some t.length) :
    reSTRING.first (escape rep t) = some (escape rep t).length ∧ unescapeStr (escape rep t) = unescapeStr t :=
  ⟨firstPres_whole (string_firstPres rep ha) t ⟨hg, hm⟩ hI,
   (escapecss_lossless_str_iff rep (asciiRep_syntax rep ha) t hm).mpr (guard_ok rep t hg).2⟩

theorem repAscii_ascii : AsciiRep repAscii := by intro c h; simp [repAscii, h]

/-! non-vacuity and witnesses (evaluated by the kernel on the regenerated productions) -/
/-- `äb ` (guarded): IDENT takes 2 characters; escaped `\E4 b `: IDENT takes 5 = `elen 2` -/
example : guard repAscii [0xE4, 0x62, 0x20] = true ∧ reIDENT.first [0xE4, 0x62, 0x20] = some 2 ∧
    reIDENT.first (escape repAscii [0xE4, 0x62, 0x20]) = some 5 ∧ elen repAscii [0xE4, 0x62, 0x20] 2 = 5 := by decide
/-- `"ä"x`: STRING takes 3; escaped `"\E4 "x`: 6 -/
example : guard repAscii [0x22, 0xE4, 0x22, 0x78] = true ∧ reSTRING.first [0x22, 0xE4, 0x22, 0x78] = some 3 ∧
    reSTRING.first (escape repAscii [0x22, 0xE4, 0x22, 0x78]) = some 6 := by decide
/-- `/*ä**/x`: COMMENT takes 6; escaped `/*\E4 **/x`: 9 -/
example : Gen.C05.reCOMMENT.first [0x2F, 0x2A, 0xE4, 0x2A, 0x2A, 0x2F, 0x78] = some 6 ∧
    Gen.C05.reCOMMENT.first (escape repAscii [0x2F, 0x2A, 0xE4, 0x2A, 0x2A, 0x2F, 0x78]) = some 9 := by decide
/-- the guard is needed (C08-escaped-unrepresentable at token level): `\ä;` is one IDENT of 2 characters, written
`\\E4 ;` it is the IDENT `\\E4` of 4 characters followed by white space — the token boundary moved -/
example : guard repAscii [0x5C, 0xE4, 0x3B] = false ∧ reIDENT.first [0x5C, 0xE4, 0x3B] = some 2 ∧
    elen repAscii [0x5C, 0xE4, 0x3B] 2 = 5 ∧ reIDENT.first (escape repAscii [0x5C, 0xE4, 0x3B]) = some 4 := by decide
/-- `url(ä)x`: URI takes 6; escaped `url(\E4 )x`: 9 -/
example : Gen.C05.reURI.first [0x75, 0x72, 0x6C, 0x28, 0xE4, 0x29, 0x78] = some 6 ∧
    Gen.C05.reURI.first (escape repAscii [0x75, 0x72, 0x6C, 0x28, 0xE4, 0x29, 0x78]) = some 9 := by decide
/-- `ä(1)`: IDENT is skipped, FUNCTION hits with 2 characters; escaped `\E4 (1)`: FUNCTION with 5 -/
example : Tok.scan false true [0xE4, 0x28, 0x31, 0x29] productions = .hit "FUNCTION" 2 ∧
    Tok.scan false true (escape repAscii [0xE4, 0x28, 0x31, 0x29]) productions = .hit "FUNCTION" 5 := by decide
/-- a sub-pattern is not kept although URI is: `{U}` (`u|\\0{0,4}(55|75)…`) does not match `ա` (U+0561 is fine, U+0550
is not) but matches the head `\55` of its escape `\550 ` -/
example : escape repAscii [0x550] = [0x5C, 0x35, 0x35, 0x30, 0x20] ∧
    Gen.C05.reURI.first [0x550] = none ∧ Gen.C05.reURI.first (escape repAscii [0x550]) = none := by decide
end boundaries

end CssVerif.C08
