import CssVerif.Lemmas.Encutils
import CssVerif.Lemmas.EncutilsDoc
import CssVerif.Lemmas.EncutilsXml
import CssVerif.Lemmas.EncutilsXmlReader
import CssVerif.Lemmas.EncutilsTry
/-!
# C20 — encutils reports the document encoding by the documented precedence

Property theorems only (definitions of the specification side — `MClass`, `specClass`, `specDefault`, `specBom`,
`specSniff`, `docClass`, `metaCharset`, the guards — and all helper lemmas are in `Lemmas/Encutils.lean`).
Model: `Model/Encutils.lean`; its tables (`Gen/C20Tables.lean`) are regenerated from `encutils/__init__.py`
on every run, so every theorem below is re-checked against what the source says now. The model is tied to the
code by the correspondence of `tools/harness/c20.py` (full cross-product table + generated documents).

Literal strings in the statements (`"utf-8"`, `"ascii"`, `"iso-8859-1"`, the media-type names, the BOM names) are
typed here by hand from the documentation; the tables of the model come from the source.
-/
set_option linter.unusedSimpArgs false
set_option linter.unusedVariables false

namespace CssVerif.C20
open CssVerif CssVerif.Proto CssVerif.Encutils CssVerif.Gen

/-! ## T20.3 — media-type classification: total and as documented -/

/-- the six integer constants of the source are pairwise different (the code compares them with `==`) -/
theorem type_codes_distinct (a b : MClass) (h : a.code = b.code) : a = b := code_injective a b h

/-- T20.3: for every media type string (and `None`) the class computed by the ladder of the code — lists, the two
regexes under `re.I|re.S|re.X`, the literals — is the documented one: the three application/xml names or
`application/…+xml…`; the two text/xml names or `text/…+xml…`; `text/html`; `text/css`; any other `text/…`;
otherwise (and for an absent / empty media type) other — after `strip().lower()`. No guard (full strength since
the fix "do not take the media-type pattern text for a media type"). -/
theorem classification_spec (mt : Option Cps) : textTypeByMediaType mt = (specClass mt).code :=
  classify_spec mt

/-- the former finding C20-regex-literal-media-type, now the other way round: the regex source string
`text\/.*?\+xml` used as a media type is not a text type at all -/
theorem classification_regex_literal :
    textTypeByMediaType (some textRegexLiteral) = MClass.other.code ∧ specClass (some textRegexLiteral) = .other := by
  decide

/-- T20.3 totality: every media type gets one of the six classes -/
theorem classification_total (mt : Option Cps) : ∃ c : MClass, textTypeByMediaType mt = c.code :=
  ⟨_, classify_spec mt⟩

/-- the default encoding of a media type is the documented one of its class: UTF-8 for the application/xml family,
ASCII for the text/xml family, ISO-8859-1 for text/html and other text types, UTF-8 for text/css, none otherwise -/
theorem default_encoding_spec (mt : Option Cps) : encodingByMediaType mt = specDefault (specClass mt) := by
  unfold encodingByMediaType
  rw [classify_spec mt, defaults_spec]

/-- the classes are all inhabited by documented names (tests, not theorems) -/
example : textTypeByMediaType (some (cps " Application/RSS+XML ")) = MClass.appXml.code := by decide
example : textTypeByMediaType (some (cps "text/xml-external-parsed-entity")) = MClass.textXml.code := by decide
example : textTypeByMediaType (some (cps "TEXT/html")) = MClass.html.code := by decide
example : textTypeByMediaType (some (cps "text/css")) = MClass.css.code := by decide
example : textTypeByMediaType (some (cps "text/plain")) = MClass.text.code := by decide
example : textTypeByMediaType (some (cps "image/png")) = MClass.other.code := by decide

/-! ## T20.1 — the reported encoding is the documented first-match table -/

/-- T20.1 `encoding_spec`: whenever `getEncodingInfo` returns, the reported encoding is
the transport charset if that is known; otherwise, by the class of the document (`docClass`: the class of the
transport media type, or — without a response — XML iff `<?xml version=` is in the first 30 characters):
the XML encoding for the application/xml family; the meta charset and then ISO-8859-1 for text/html;
ASCII for the text/xml family (the XML declaration plays no role); ISO-8859-1 for other text types; UTF-8 for text/css;
nothing otherwise. For every response, document (text or bytes, or read from the response), meta-sniffer result
and `tryEncodings` answer. -/
theorem encoding_spec (resp : Option Resp) (text : Option Cps) (m : MetaRaw) (t : Option Cps) (i : Info)
    (h : getEncodingInfo resp text m t = .ok i) :
    ∃ txt, effText resp text = .ok txt ∧
      i.encoding =
        if truthy i.httpEncoding = true then i.httpEncoding else
          match docClass resp txt with
          | .appXml => i.xmlEncoding
          | .html => if truthy i.metaEncoding = true then i.metaEncoding else some (cps "iso-8859-1")
          | .textXml => some (cps "ascii")
          | .text => some (cps "iso-8859-1")
          | .css => some (cps "utf-8")
          | .other => i.httpEncoding := by
  obtain ⟨txt, xml, metaI, h1, _, _, rfl⟩ := getEncodingInfo_ok h
  refine ⟨txt, h1, ?_⟩
  simp only [assemble]
  rw [typeOf_spec resp txt]
  exact chain_spec _ _ _ _ _ _ (fun hc ho => byMediaType_spec resp txt hc ho)

/-- T20.1 (sources): what the three sources contribute. Transport: the charset of the message object, lower-cased.
XML sniffing: consulted for the application/xml family (with the UTF-8 default) and for text/html (without), NOT for
the text/xml family or anything else; its answer is `specSniff` (see T20.4). HTML meta: consulted for text/html and
other text types only. A source that is not consulted is "not known". -/
theorem sources_spec (resp : Option Resp) (text : Option Cps) (m : MetaRaw) (t : Option Cps) (i : Info)
    (h : getEncodingInfo resp text m t = .ok i) :
    ∃ txt, effText resp text = .ok txt ∧
      i.httpEncoding = (match resp with
        | some r => if truthy r.charset = true then r.charset.map lower else r.charset
        | none => none) ∧
      i.xmlEncoding = (match docClass resp txt with
        | .appXml => specSniff txt true
        | .html => specSniff txt false
        | _ => none) ∧
      i.metaEncoding = (match docClass resp txt with
        | .html => metaCharset m
        | .text => metaCharset m
        | _ => none) := by
  obtain ⟨txt, xml, metaI, h1, h2, h3, rfl⟩ := getEncodingInfo_ok h
  refine ⟨txt, h1, ?_, ?_, ?_⟩
  · cases resp <;> simp [assemble, httpOf, getHTTPInfo]
  · rw [typeOf_spec resp txt, xmlOf_spec] at h2
    simp only [assemble]
    injection h2 with h2
    exact h2.symm
  · rw [typeOf_spec resp txt, metaOf_spec] at h3
    simp only [assemble]
    cases hc : docClass resp txt <;> simp only [hc] at h3 ⊢
    case html => exact getMetaInfo_charset h3
    case text => exact getMetaInfo_charset h3
    all_goals (injection h3 with h3; rw [← h3])

/-- the answer of `tryEncodings` can never reach the result (the call at `:628` is dead for the current defaults table) -/
theorem tryEncodings_unreachable (resp : Option Resp) (text : Option Cps) (m : MetaRaw) (t1 t2 : Option Cps) : getEncodingInfo resp text m t1 = getEncodingInfo resp text m t2 := by
  unfold getEncodingInfo
  cases effText resp text with
  | error e => rfl
  | ok txt =>
    simp only
    cases xmlOf (typeOf resp txt) txt with
    | error e => rfl
    | ok xml =>
      simp only
      cases metaOf (typeOf resp txt) m with
      | error e => rfl
      | ok metaI =>
        simp only [assemble, Except.ok.injEq, Info.mk.injEq, and_true, true_and]
        rw [typeOf_spec resp txt, chain_spec _ _ _ _ _ t1 (fun hc ho => byMediaType_spec resp txt hc ho),
          chain_spec _ _ _ _ _ t2 (fun hc ho => byMediaType_spec resp txt hc ho)]

/-! ## T20.2 — the mismatch flag -/

/-- T20.2 `mismatch_iff`: the flag is set exactly when two of the encodings determined from transport, XML sniffing
and HTML meta are both known (not `None`, not empty) and differ — for every input on which the function returns. -/
theorem mismatch_iff (resp : Option Resp) (text : Option Cps) (m : MetaRaw) (t : Option Cps) (i : Info)
    (h : getEncodingInfo resp text m t = .ok i) :
    i.mismatch = true ↔
      (truthy i.httpEncoding = true ∧ truthy i.xmlEncoding = true ∧ i.httpEncoding ≠ i.xmlEncoding) ∨
      (truthy i.httpEncoding = true ∧ truthy i.metaEncoding = true ∧ i.httpEncoding ≠ i.metaEncoding) ∨
      (truthy i.xmlEncoding = true ∧ truthy i.metaEncoding = true ∧ i.xmlEncoding ≠ i.metaEncoding) := by
  obtain ⟨txt, xml, metaI, _, _, _, rfl⟩ := getEncodingInfo_ok h
  simp [assemble, differ, and_assoc, or_assoc]

/-- "No mismatch possible" (docstring) for the text/xml family, text/css, non-text types and documents without any
transport information that do not look like XML: only one source is consulted there -/
theorem no_mismatch_possible (resp : Option Resp) (text : Option Cps) (m : MetaRaw) (t : Option Cps) (i : Info)
    (h : getEncodingInfo resp text m t = .ok i) (txt : Cps) (ht : effText resp text = .ok txt)
    (hc : docClass resp txt = .textXml ∨ docClass resp txt = .css ∨ docClass resp txt = .other) :
    i.mismatch = false := by
  obtain ⟨txt', h1, _, hx, hm⟩ := sources_spec resp text m t i h
  rw [ht] at h1; injection h1 with h1; subst h1
  have hxn : i.xmlEncoding = none := by rcases hc with hc | hc | hc <;> simp [hx, hc]
  have hmn : i.metaEncoding = none := by rcases hc with hc | hc | hc <;> simp [hm, hc]
  cases hmm : i.mismatch with
  | false => rfl
  | true =>
    have := (mismatch_iff resp text m t i h).1 hmm
    simp [hxn, hmn, truthy] at this

/-! ## "it is lower-case" -/

/-- the reported encoding is lower-case (ASCII and Latin-1 letters; see the assumptions for other scripts) -/
theorem encoding_lower (resp : Option Resp) (text : Option Cps) (m : MetaRaw) (t : Option Cps) (i : Info)
    (h : getEncodingInfo resp text m t = .ok i) (e : Cps) (he : i.encoding = some e) :
    lower e = e := by
  obtain ⟨txt, h1, hE⟩ := encoding_spec resp text m t i h
  obtain ⟨txt', h1', hH, hX, hM⟩ := sources_spec resp text m t i h
  rw [h1] at h1'; injection h1' with h1'; subst h1'
  -- every source is lower-case
  have lowH : ∀ x, i.httpEncoding = some x → lower x = x := by
    intro x hx
    rw [hH] at hx
    cases resp with
    | none => simp at hx
    | some r =>
      simp only at hx
      split at hx
      · cases hr : r.charset with
        | none => simp [hr] at hx
        | some c => simp [hr] at hx; subst hx; exact lower_idem c
      · rename_i hf
        cases hr : r.charset with
        | none => simp [hr] at hx
        | some c =>
          cases c with
          | nil => simp [hr] at hx; subst hx; rfl
          | cons a l => simp [hr, truthy] at hf
  have lowSniff : ∀ b x, specSniff txt b = some x → lower x = x := by
    intro b x hx
    unfold specSniff at hx
    split at hx
    · rename_i b1 b2 b3 b4 tl
      split at hx
      · rename_i n hn
        injection hx with hx; subst hx
        unfold specBom at hn
        repeat' split at hn
        all_goals first | (injection hn with hn; subst hn; decide) | (exact absurd hn (by simp))
      · split at hx
        · injection hx with hx; subst hx; exact lower_idem _
        · split at hx
          · injection hx with hx; subst hx; decide
          · exact absurd hx (by simp)
    · exact absurd hx (by simp)
  have lowX : ∀ x, i.xmlEncoding = some x → lower x = x := by
    intro x hx
    rw [hX] at hx
    split at hx
    · exact lowSniff _ _ hx
    · exact lowSniff _ _ hx
    · exact absurd hx (by simp)
  have lowMeta : ∀ x, metaCharset m = some x → lower x = x := fun x hx => metaCharset_lower m x hx
  have lowM : ∀ x, i.metaEncoding = some x → lower x = x := by
    intro x hx
    rw [hM] at hx
    split at hx
    · exact lowMeta _ hx
    · exact lowMeta _ hx
    · exact absurd hx (by simp)
  rw [hE] at he
  split at he
  · exact lowH e he
  · split at he
    · exact lowX e he
    · split at he
      · exact lowM e he
      · injection he with he; subst he; decide
    · injection he with he; subst he; decide
    · injection he with he; subst he; decide
    · injection he with he; subst he; decide
    · exact lowH e he

/-! ## T20.4 — XML sniffing -/

/-- T20.4 `xml_sniff_spec`: for a `str`/`bytes` document of at least four characters the sniffer returns the BOM's
encoding if the document starts with a BOM (four-byte BOMs before the three- and two-byte ones), else the encoding
that the declaration pattern finds in the first 2048 characters, lower-cased, else UTF-8 (with `includeDefault=False`:
nothing). -/
theorem xml_sniff_spec (b1 b2 b3 b4 : Nat) (t : Cps) (incl : Bool) :
    detectXML (b1 :: b2 :: b3 :: b4 :: t) incl = .ok (
      match specBom b1 b2 b3 b4 with
      | some name => some name
      | none =>
        match declMatch ((b1 :: b2 :: b3 :: b4 :: t).take 2048) with
        | some e => some (lower e)
        | none => if incl then some (cps "utf-8") else none) :=
  detectXML_long b1 b2 b3 b4 t incl

/-- the BOM rows, for every continuation of the document and both values of `includeDefault` -/
theorem sniff_bom_rows (c d : Nat) (t : Cps) (incl : Bool) :
    detectXML (0x00 :: 0x00 :: 0xFE :: 0xFF :: t) incl = .ok (some (cps "utf_32_be")) ∧
    detectXML (0xFF :: 0xFE :: 0x00 :: 0x00 :: t) incl = .ok (some (cps "utf_32_le")) ∧
    detectXML (0xEF :: 0xBB :: 0xBF :: c :: t) incl = .ok (some (cps "utf-8")) ∧
    detectXML (0xFE :: 0xFF :: c :: d :: t) incl = .ok (some (cps "utf_16_be")) ∧
    (¬ (c = 0 ∧ d = 0) → detectXML (0xFF :: 0xFE :: c :: d :: t) incl = .ok (some (cps "utf_16_le"))) := by
  refine ⟨?_, ?_, ?_, ?_, ?_⟩
  · rw [detectXML_long]; rfl
  · rw [detectXML_long]; rfl
  · rw [detectXML_long]; rfl
  · rw [detectXML_long]; rfl
  · intro h
    rw [detectXML_long]
    have : specBom 0xFF 0xFE c d = some (cps "utf_16_le") := by
      unfold specBom
      have : ¬ (c = 0 ∧ d = 0) := h
      simp [this]
    simp [specSniff, this]

/-- T20.4 position: on every file object — text or binary, any content, any position — and on every way out,
the exception included, the stream stands where it stood and holds what it held (full strength since the fix
"restores the file position when it raises ValueError") -/
theorem sniff_position_restored (fp : Stream) (incl : Bool) : (detectXMLStream fp incl).fp = fp := by
  obtain ⟨c, p, b⟩ := fp
  by_cases hl : c.length < 4
  · rw [detectXMLStream_short ⟨c, p, b⟩ incl hl]
  · match c, hl with
    | b1 :: b2 :: b3 :: b4 :: t, _ => rw [detectXMLStream_long]
    | [], hl => simp at hl
    | [_], hl => simp at hl
    | [_, _], hl => simp at hl
    | [_, _, _], hl => simp at hl

/-- a binary file object is sniffed exactly like a text file object with the same content (since the fix
"detectXMLEncoding accepts a binary file object"; before, every non-empty binary file raised TypeError) -/
theorem sniff_binary_same (c : Cps) (p : Nat) (incl : Bool) :
    (detectXMLStream ⟨c, p, true⟩ incl).out = (detectXMLStream ⟨c, p, false⟩ incl).out := by
  by_cases hl : c.length < 4
  · rw [detectXMLStream_short ⟨c, p, true⟩ incl hl, detectXMLStream_short ⟨c, p, false⟩ incl hl]
  · match c, hl with
    | b1 :: b2 :: b3 :: b4 :: t, _ => rw [detectXMLStream_long, detectXMLStream_long]
    | [], hl => simp at hl
    | [_], hl => simp at hl
    | [_, _], hl => simp at hl
    | [_, _, _], hl => simp at hl

/-- T20.4 totality, full strength (since the fix "detectXMLEncoding no longer raises ValueError for a document shorter
than four characters"; before, the statement needed `4 ≤ fp.content.length`, finding C20-xml-short): every file object
(text or binary) and every `str`/`bytes` document, of any length, gets an answer, and with `includeDefault` the answer
is an encoding. -/
theorem sniff_total (fp : Stream) (incl : Bool) :
    ∃ r, (detectXMLStream fp incl).out = .ok r ∧ (incl = true → r ≠ none) := by
  by_cases hl : fp.content.length < 4
  · rw [detectXMLStream_short fp incl hl]
    refine ⟨_, rfl, ?_⟩
    intro hi; subst hi
    unfold specSniffShort
    split
    · simp
    · split <;> simp
  · obtain ⟨c, p, b⟩ := fp
    simp only at hl
    match c, hl with
    | b1 :: b2 :: b3 :: b4 :: t, _ =>
      rw [detectXMLStream_long]
      refine ⟨_, rfl, ?_⟩
      intro hi; subst hi
      unfold specSniff
      simp only
      split
      · simp
      · split <;> simp
    | [], hl => simp at hl
    | [_], hl => simp at hl
    | [_, _], hl => simp at hl
    | [_, _, _], hl => simp at hl

/-- what the sniffer answers for a document of fewer than four characters: a two- or three-byte BOM is still
recognised, otherwise the default (the declaration pattern cannot match: `decl_iff` needs at least `<?xml`) -/
theorem sniff_short_answer (fp : Stream) (incl : Bool) (hl : fp.content.length < 4) :
    (detectXMLStream fp incl).out = .ok (specSniffShort fp.content incl) := by
  rw [detectXMLStream_short fp incl hl]

example : (detectXMLStream ⟨cps "<a>", 1, false⟩ true).out = .ok (some (cps "utf-8")) := by decide
example : (detectXMLStream ⟨[0xFE, 0xFF], 0, true⟩ false).out = .ok (some (cps "utf_16_be")) := by decide
example : (detectXMLStream ⟨[0xEF, 0xBB, 0xBF], 0, true⟩ false).out = .ok (some (cps "utf-8")) := by decide
example : (detectXMLStream ⟨[], 0, false⟩ false).out = .ok none := by decide

/-- finding C20-info-short, machine-checked on the whole region: `getEncodingInfo` does not consult the sniffer for a
document of fewer than four characters (`sniffable`), although the sniffer would answer (`sniff_total`): the XML
encoding stays unknown for every media-type class (pinned by two rows of test_encutils) -/
theorem info_short_not_sniffed (tt : Nat) (txt : Cps) (h : txt.length < 4) : xmlOf tt txt = .ok none := by
  have h' : ¬ 4 ≤ txt.length := by omega
  unfold xmlOf
  simp [h']

example : xmlOf C20.XML_APPLICATION_TYPE (cps "<a>") = .ok none ∧
    detectXML (cps "<a>") true = .ok (some (cps "utf-8")) := by decide

/-! ### what "the declared encoding" is for the pattern (`xmlDeclPattern`, matched on the first 2048 characters) -/

/-- T20.4 the declaration pattern, characterised exactly (sound and complete, for every text): it returns `e` iff
the text is `<?xml` S `version` S? `=` S? q ver q S `encoding` S? `=` S? q **e** q tail `?>` rest, where S is
non-empty white space (line breaks included), S? possibly empty white space, the q are quotes, `ver` and `e` contain
no quote, `e` is not empty, and `tail` contains neither `?` nor `>`. In particular a legal declaration that continues
on the next line or has white space around `=` is found, and an `encoding=` that is not the second attribute of the
declaration is not (the former findings C20-xmldecl-whitespace and C20-xmldecl-stray-attribute). -/
theorem decl_iff (buf e : Cps) :
    declMatch buf = some e ↔
      ∃ w1 w2 w3 qa ver qb w4 w5 w6 q1 q2 tail rest,
        buf = cps "<?xml" ++ w1 ++ cps "version" ++ w2 ++ cps "=" ++ w3 ++ [qa] ++ ver ++ [qb] ++ w4 ++
          cps "encoding" ++ w5 ++ cps "=" ++ w6 ++ [q1] ++ e ++ [q2] ++ tail ++ cps "?>" ++ rest ∧
        AllWs w1 ∧ w1 ≠ [] ∧ AllWs w2 ∧ AllWs w3 ∧ isQuote qa ∧ NoQuote ver ∧ isQuote qb ∧ AllWs w4 ∧ w4 ≠ [] ∧
        AllWs w5 ∧ AllWs w6 ∧ isQuote q1 ∧ e ≠ [] ∧ NoQuote e ∧ isQuote q2 ∧ NoEnd tail := by
  constructor
  · exact declMatch_sound buf e
  · rintro ⟨w1, w2, w3, qa, ver, qb, w4, w5, w6, q1, q2, tail, rest, hbuf, h1, n1, h2, h3, ha, hv, hb, h4, n4, h5, h6,
      hq1, he, hne, hq2, ht⟩
    rw [hbuf]
    exact declMatch_complete w1 w2 w3 qa ver qb w4 w5 w6 q1 e q2 tail rest h1 n1 h2 h3 ha hv hb h4 n4 h5 h6 hq1 he hne
      hq2 ht

/-- the backtracking pattern is deterministic: it agrees, on every text, with a left-to-right scan that takes the
longest run for every repetition (`specDecl`) -/
theorem decl_deterministic (buf : Cps) : declMatch buf = specDecl buf := declMatch_spec buf

/-- "else UTF-8": a document of at least four characters without BOM that does not start with `<?xml` is UTF-8 -/
theorem sniff_default (b1 b2 b3 b4 : Nat) (t : Cps) (incl : Bool) (hb : specBom b1 b2 b3 b4 = none)
    (hx : (cps "<?xml").isPrefixOf (b1 :: b2 :: b3 :: b4 :: t) = false) :
    detectXML (b1 :: b2 :: b3 :: b4 :: t) incl = .ok (if incl then some (cps "utf-8") else none) := by
  rw [xml_sniff_spec, hb]
  have : (cps "<?xml").isPrefixOf ((b1 :: b2 :: b3 :: b4 :: t).take 2048) = false := by
    cases t with
    | nil => simpa using hx
    | cons b5 t => simp only [List.take_succ_cons]; simpa [cps, List.isPrefixOf] using hx
  simp only [declMatch_none_of_no_prefix _ this]

/-- "else the declared encoding", end to end: a document that starts with a declaration of the shape of `decl_iff`
which ends within the first 2048 characters is sniffed as `lower e`, whatever follows -/
theorem sniff_declared (w1 w2 w3 : Cps) (qa : Nat) (ver : Cps) (qb : Nat) (w4 w5 w6 : Cps) (q1 : Nat) (e : Cps)
    (q2 : Nat) (tail rest : Cps) (incl : Bool)
    (h1 : AllWs w1) (n1 : w1 ≠ []) (h2 : AllWs w2) (h3 : AllWs w3) (ha : isQuote qa) (hv : NoQuote ver)
    (hb : isQuote qb) (h4 : AllWs w4) (n4 : w4 ≠ []) (h5 : AllWs w5) (h6 : AllWs w6) (hq1 : isQuote q1)
    (he : e ≠ []) (hne : NoQuote e) (hq2 : isQuote q2) (ht : NoEnd tail)
    (hfit : (cps "<?xml" ++ w1 ++ cps "version" ++ w2 ++ cps "=" ++ w3 ++ [qa] ++ ver ++ [qb] ++ w4 ++
      cps "encoding" ++ w5 ++ cps "=" ++ w6 ++ [q1] ++ e ++ [q2] ++ tail ++ cps "?>").length ≤ 2048) :
    detectXML (cps "<?xml" ++ w1 ++ cps "version" ++ w2 ++ cps "=" ++ w3 ++ [qa] ++ ver ++ [qb] ++ w4 ++
      cps "encoding" ++ w5 ++ cps "=" ++ w6 ++ [q1] ++ e ++ [q2] ++ tail ++ cps "?>" ++ rest) incl =
        .ok (some (lower e)) := by
  generalize hd : cps "<?xml" ++ w1 ++ cps "version" ++ w2 ++ cps "=" ++ w3 ++ [qa] ++ ver ++ [qb] ++ w4 ++
      cps "encoding" ++ w5 ++ cps "=" ++ w6 ++ [q1] ++ e ++ [q2] ++ tail ++ cps "?>" = d at hfit ⊢
  have hm : ∀ r, declMatch (d ++ r) = some e := fun r => by
    rw [← hd]
    exact declMatch_complete w1 w2 w3 qa ver qb w4 w5 w6 q1 e q2 tail r h1 n1 h2 h3 ha hv hb h4 n4 h5 h6 hq1 he hne hq2 ht
  have hx : cps "<?xml" = 60 :: 63 :: 120 :: 109 :: [108] := by decide
  obtain ⟨t, hdt⟩ : ∃ t, d = 60 :: 63 :: 120 :: 109 :: t := by
    rw [← hd, hx]; simp only [List.cons_append]; exact ⟨_, rfl⟩
  have hbom : specBom 60 63 120 109 = none := by decide
  have hcons : d ++ rest = 60 :: 63 :: 120 :: 109 :: (t ++ rest) := by rw [hdt]; rfl
  rw [hcons, xml_sniff_spec, hbom, ← hcons, take_append_le d rest 2048 hfit, hm]

/-- the canonical declaration: `<?xml version="1.0" encoding="e"?>…` is sniffed as `lower e`, for every non-empty
quote-free `e` of at most 2000 characters and every continuation -/
theorem sniff_canonical_declaration (e rest : Cps) (incl : Bool) (he : e ≠ []) (heq : NoQuote e)
    (hlen : e.length ≤ 2000) :
    detectXML (cps "<?xml version=\"1.0\" encoding=\"" ++ e ++ cps "\"?>" ++ rest) incl = .ok (some (lower e)) := by
  have hsplit : cps "<?xml version=\"1.0\" encoding=\"" ++ e ++ cps "\"?>" ++ rest =
      cps "<?xml" ++ [32] ++ cps "version" ++ [] ++ cps "=" ++ [] ++ [34] ++ cps "1.0" ++ [34] ++ [32] ++
        cps "encoding" ++ [] ++ cps "=" ++ [] ++ [34] ++ e ++ [34] ++ [] ++ cps "?>" ++ rest := by
    have h1 : cps "<?xml version=\"1.0\" encoding=\"" = cps "<?xml" ++ [32] ++ cps "version" ++ [] ++ cps "=" ++ [] ++
        [34] ++ cps "1.0" ++ [34] ++ [32] ++ cps "encoding" ++ [] ++ cps "=" ++ [] ++ [34] := by decide
    have h2 : cps "\"?>" = [34] ++ cps "?>" := by decide
    rw [h1, h2]; simp [List.append_assoc]
  rw [hsplit]
  refine sniff_declared [32] [] [] 34 (cps "1.0") 34 [32] [] [] 34 e 34 [] rest incl (by decide) (by decide)
    (by decide) (by decide) (Or.inl rfl) (by decide) (Or.inl rfl) (by decide) (by decide) (by decide) (by decide)
    (Or.inl rfl) he heq (Or.inl rfl) (by intro c hc; simp at hc) ?_
  simp only [List.length_append, List.length_nil, List.length_singleton]
  have a1 : (cps "<?xml").length = 5 := by decide
  have a2 : (cps "version").length = 7 := by decide
  have a3 : (cps "=").length = 1 := by decide
  have a4 : (cps "1.0").length = 3 := by decide
  have a5 : (cps "encoding").length = 8 := by decide
  have a6 : (cps "?>").length = 2 := by decide
  omega

/-- no encoding declared: after `<?xml version="1.0"?>` nothing that follows — an element with an `encoding`
attribute, another processing instruction — is taken for the declared encoding -/
theorem sniff_no_encoding_declared (rest : Cps) (incl : Bool) :
    detectXML (cps "<?xml version=\"1.0\"?>" ++ rest) incl = .ok (if incl then some (cps "utf-8") else none) := by
  have hx : cps "<?xml version=\"1.0\"?>" = 60 :: 63 :: 120 :: 109 :: cps "l version=\"1.0\"?>" := by decide
  have hcons : cps "<?xml version=\"1.0\"?>" ++ rest = 60 :: 63 :: 120 :: 109 :: (cps "l version=\"1.0\"?>" ++ rest) := by
    rw [hx]; rfl
  have hbom : specBom 60 63 120 109 = none := by decide
  have hn : ∀ r, declMatch (cps "<?xml version=\"1.0\"?>" ++ r) = none := fun r => by
    rw [declMatch_spec]; rfl
  rw [hcons, xml_sniff_spec, hbom, ← hcons, take_append_le _ rest 2048 (by decide), hn]

/-! ### the strict XML 1.0 reading (`XMLDecl`, productions [23]–[26], [32], [80], [81]; `Lemmas/EncutilsXml.lean`)

The pattern of the code is laxer than XML 1.0 (`decl_iff`); on every declaration that XML 1.0 allows it reads what
XML 1.0 says. -/

/-- T20.4 strict, with EncodingDecl: a document that starts with an XML 1.0 declaration whose EncName is `e`
(any legal white space, either quote kind, VersionNum `1.`digits, optional `standalone`, optional `S` before `?>`)
that ends within the first 2048 characters is sniffed as `lower e`, whatever follows -/
theorem strict_declaration_read (d e rest : Cps) (incl : Bool) (hd : XMLDecl d (some e)) (hfit : d.length ≤ 2048) :
    detectXML (d ++ rest) incl = .ok (some (lower e)) := by
  obtain ⟨vi, ed, sd, s, rfl, ⟨v, s1, x1, x2, q, rfl, hs1, n1, hx1, hx2, hq, hv⟩,
    ⟨s2, y1, y2, q', rfl, hs2, n2, hy1, hy2, hq', he⟩, hsd, hs⟩ := hd
  have hform : cps "<?xml" ++ (s1 ++ cps "version" ++ x1 ++ cps "=" ++ x2 ++ [q] ++ v ++ [q]) ++
      (s2 ++ cps "encoding" ++ y1 ++ cps "=" ++ y2 ++ [q'] ++ e ++ [q']) ++ sd ++ s ++ cps "?>" =
      cps "<?xml" ++ s1 ++ cps "version" ++ x1 ++ cps "=" ++ x2 ++ [q] ++ v ++ [q] ++ s2 ++
        cps "encoding" ++ y1 ++ cps "=" ++ y2 ++ [q'] ++ e ++ [q'] ++ (sd ++ s) ++ cps "?>" := by
    simp only [List.append_assoc]
  rw [hform] at hfit ⊢
  exact sniff_declared s1 x1 x2 q v q s2 y1 y2 q' e q' (sd ++ s) rest incl (allWs_of_xmlS hs1) n1 (allWs_of_xmlS hx1)
    (allWs_of_xmlS hx2) hq (noQuote_of_versionNum hv) hq (allWs_of_xmlS hs2) n2 (allWs_of_xmlS hy1) (allWs_of_xmlS hy2)
    hq' (noQuote_of_encName he).2 (noQuote_of_encName he).1 hq' (noEnd_tail hsd hs) hfit

/-- T20.4 strict, without EncodingDecl: a document that starts with an XML 1.0 declaration that declares no encoding
is UTF-8 (nothing, for `includeDefault=False`), whatever follows — also an `encoding="…"` further on -/
theorem strict_declaration_no_encoding (d rest : Cps) (incl : Bool) (hd : XMLDecl d none) (hfit : d.length ≤ 2048) :
    detectXML (d ++ rest) incl = .ok (if incl then some (cps "utf-8") else none) := by
  obtain ⟨t, hdt⟩ := xmlDecl_head d none hd
  have hbom : specBom 60 63 120 109 = none := by decide
  have hcons : d ++ rest = 60 :: 63 :: 120 :: 109 :: (t ++ rest) := by rw [hdt]; rfl
  rw [hcons, xml_sniff_spec, hbom, ← hcons, take_append_le d rest 2048 hfit, declMatch_strict_none d _ hd]

/-- non-vacuity: declarations in the strict grammar (tests) -/
example : XMLDecl (cps "<?xml version=\"1.0\" encoding='UTF-8' standalone=\"yes\" ?>") (some (cps "UTF-8")) :=
  ⟨cps " version=\"1.0\"", cps " encoding='UTF-8'", cps " standalone=\"yes\"", cps " ", by decide,
    ⟨cps "1.0", cps " ", [], [], 34, by decide, by decide, by decide, by decide, by decide, Or.inl rfl,
      ⟨cps "0", by decide, by decide, by decide⟩⟩,
    ⟨cps " ", [], [], 39, by decide, by decide, by decide, by decide, by decide, Or.inr rfl,
      ⟨85, cps "TF-8", by decide, by decide, by decide⟩⟩,
    Or.inr ⟨cps "yes", cps " ", [], [], 34, by decide, by decide, by decide, by decide, by decide, Or.inl rfl, Or.inl rfl⟩,
    by decide⟩
example : XMLDecl (cps "<?xml\nversion = '1.1'?>") none :=
  ⟨cps "\nversion = '1.1'", [], [], [], by decide,
    ⟨cps "1.1", cps "\n", cps " ", cps " ", 39, by decide, by decide, by decide, by decide, by decide, Or.inr rfl,
      ⟨cps "1", by decide, by decide, by decide⟩⟩, rfl, Or.inl rfl, by decide⟩

/-- the executable strict reader (`parseXmlDecl`, run by the driver and compared with the oracle's independent strict
parser on generated documents) accepts only declarations of the grammar, with that EncName -/
theorem strict_reader_sound (buf : Cps) (enc : Option Cps) (rest : Cps) (h : parseXmlDecl buf = some (enc, rest)) :
    ∃ d, buf = d ++ rest ∧ XMLDecl d enc := parseXmlDecl_sound buf enc rest h

/-- … and every declaration of the grammar, followed by anything, is read back: the reader decides the grammar -/
theorem strict_reader_complete (d : Cps) (enc : Option Cps) (rest : Cps) (hd : XMLDecl d enc) :
    parseXmlDecl (d ++ rest) = some (enc, rest) := parseXmlDecl_complete d enc rest hd

/-- the strict reading in one statement: the reader answers `(enc, rest)` exactly when the text is a declaration of
the XML 1.0 grammar with that EncName followed by `rest` -/
theorem strict_reader_iff (buf : Cps) (enc : Option Cps) (rest : Cps) :
    parseXmlDecl buf = some (enc, rest) ↔ ∃ d, buf = d ++ rest ∧ XMLDecl d enc :=
  ⟨parseXmlDecl_sound buf enc rest, fun ⟨d, hb, hd⟩ => hb ▸ parseXmlDecl_complete d enc rest hd⟩

/-- whatever the strict reader accepts within the window, the sniffer of the code reads the same way -/
theorem strict_reader_agrees (buf : Cps) (enc : Option Cps) (rest : Cps) (incl : Bool)
    (h : parseXmlDecl buf = some (enc, rest)) (hfit : buf.length - rest.length ≤ 2048) :
    detectXML buf incl = .ok (match enc with
      | some e => some (lower e)
      | none => if incl then some (cps "utf-8") else none) := by
  obtain ⟨d, rfl, hd⟩ := parseXmlDecl_sound buf enc rest h
  have hl : d.length ≤ 2048 := by simpa using hfit
  cases enc with
  | some e => exact strict_declaration_read d e rest incl hd hl
  | none => exact strict_declaration_no_encoding d rest incl hd hl

example : parseXmlDecl (cps "<?xml version='1.0' encoding=\"Latin-1\"?><a/>") = some (some (cps "Latin-1"), cps "<a/>") := by
  decide
example : parseXmlDecl (cps "<?xml version=\"1.0\" standalone='no' ?>x") = some (none, cps "x") := by decide
example : parseXmlDecl (cps "<?xml version=\"1.0\" encoding=\"a'?>") = none := by decide

/-- the pattern of the code accepts more than XML 1.0 (tests): a version that is no VersionNum and an encoding that is
no EncName are read by the pattern, not by the strict reader — the property is silent there, the oracle too -/
example : declMatch (cps "<?xml version=\"x\" encoding=\"a b\"?>") = some (cps "a b") ∧
    parseXmlDecl (cps "<?xml version=\"x\" encoding=\"a b\"?>") = none := by decide

/-- the two former declaration findings at their witnesses, now the right way round (tests): a legal declaration that
continues on the next line is found; an element attribute after a declaration without encoding is ignored; another
processing instruction whose target starts with `xml` is not a declaration -/
theorem decl_linefeed_found :
    detectXML (cps "<?xml version=\"1.0\"\nencoding=\"iso-8859-1\"?><a/>") true = .ok (some (cps "iso-8859-1")) := by
  decide
theorem decl_eq_space_found :
    detectXML (cps "<?xml version = '1.0' encoding\t=\r\n'X-Enc' standalone='yes' ?>") true = .ok (some (cps "x-enc")) := by
  decide
theorem decl_stray_attribute_ignored :
    detectXML (cps "<?xml version=\"1.0\"?><x encoding=\"ascii\"/><?pi ?>") true = .ok (some (cps "utf-8")) ∧
    detectXML (cps "<?xml-stylesheet href=\"a\" encoding=\"pi\"?>") true = .ok (some (cps "utf-8")) := by
  decide

/-- `str(info)` (what `print(info)` shows) is the reported encoding, or the empty string when there is none -/
theorem str_spec (i : Info) :
    i.str = match i.encoding with
      | some (c :: t) => c :: t
      | _ => [] := by
  unfold Info.str
  cases h : i.encoding with
  | none => simp [truthy]
  | some e => cases e <;> simp [truthy]

/-! ## the fallback `tryEncodings` (`:445-497`), when chardet is not installed

Not reachable from `getEncodingInfo` (`tryEncodings_unreachable`), but a public function of the module. -/

/-- for every `bytes` text the trial loop answers: ascii if every byte is ASCII; else windows-1252 if the bytes are
valid windows-1252 and contain the Euro sign (0x80); else iso-8859-1 — whatever UTF-8 validity says (the `utf-8`
entry of the tuple is dead: iso-8859-1 decodes everything) -/
theorem tryEncodings_spec (utf8ok : Bool) (b : List UInt8) : tryEncodings utf8ok b = some (some (specTry b)) :=
  tryEncodings_eq utf8ok b

/-- it never answers `None` and never `utf-8` -/
theorem tryEncodings_never_utf8 (utf8ok : Bool) (b : List UInt8) :
    ∃ e, tryEncodings utf8ok b = some (some e) ∧ e ≠ cps "utf-8" := by
  refine ⟨specTry b, tryEncodings_eq utf8ok b, ?_⟩
  unfold specTry
  split
  · decide
  · split <;> decide

/-! ## T20.5 — the document given as text or as bytes

`Model/EncutilsDoc.lean` keeps `str` and `bytes` documents apart (`Doc`) and writes the `isinstance(x, bytes)` guard
of each of the three consumers (`_getTextType`, `getMetaInfo`, `detectXMLEncoding`). The library stages that are not
modelled (`L : Lib`: `html.parser`, `email.message.Message`) are arbitrary functions of what the code hands them. -/

/-- the second layer is the first one on the decoded document: every theorem of T20.1–T20.4 above speaks about
`str` and `bytes` documents alike, with the meta stage computed from what `html.parser` reports (T20.6) -/
theorem doc_layer_spec (L : Lib) (r : Option RespD) (text : Option Doc) (t : Option Cps) :
    getEncodingInfoD L r text t =
      getEncodingInfo (r.map RespD.head) (text.map Doc.asText)
        (metaRawOf L (match effDoc r text with | .ok d => d.asText | .error _ => [])) t :=
  getEncodingInfoD_eq L r text t

/-- T20.1 on documents: the documented first-match table for a `str` or `bytes` document (or one read from the
response), with the meta stage inside — `encoding_spec` carried over by `doc_layer_spec` -/
theorem encoding_spec_doc (L : Lib) (r : Option RespD) (text : Option Doc) (t : Option Cps) (i : Info)
    (h : getEncodingInfoD L r text t = .ok i) :
    ∃ d, effDoc r text = .ok d ∧
      i.encoding =
        if truthy i.httpEncoding = true then i.httpEncoding else
          match docClass (r.map RespD.head) d.asText with
          | .appXml => i.xmlEncoding
          | .html => if truthy i.metaEncoding = true then i.metaEncoding else some (cps "iso-8859-1")
          | .textXml => some (cps "ascii")
          | .text => some (cps "iso-8859-1")
          | .css => some (cps "utf-8")
          | .other => i.httpEncoding := by
  rw [getEncodingInfoD_eq] at h
  obtain ⟨txt, h1, hE⟩ := encoding_spec _ _ _ _ i h
  cases text with
  | some d =>
    simp only [effText, Option.map_some, Except.ok.injEq] at h1; subst h1
    exact ⟨d, rfl, hE⟩
  | none =>
    cases r with
    | none => simp [effText] at h1
    | some rr =>
      obtain ⟨mt, cs, body⟩ := rr
      refine ⟨body.getD (.text []), rfl, ?_⟩
      have : txt = (body.getD (.text [])).asText := by
        cases body <;> (simp [effText, RespD.head] at h1; rw [← h1]; rfl)
      subst this
      exact hE

/-- T20.2 on documents -/
theorem mismatch_iff_doc (L : Lib) (r : Option RespD) (text : Option Doc) (t : Option Cps) (i : Info)
    (h : getEncodingInfoD L r text t = .ok i) :
    i.mismatch = true ↔
      (truthy i.httpEncoding = true ∧ truthy i.xmlEncoding = true ∧ i.httpEncoding ≠ i.xmlEncoding) ∨
      (truthy i.httpEncoding = true ∧ truthy i.metaEncoding = true ∧ i.httpEncoding ≠ i.metaEncoding) ∨
      (truthy i.xmlEncoding = true ∧ truthy i.metaEncoding = true ∧ i.xmlEncoding ≠ i.metaEncoding) := by
  rw [getEncodingInfoD_eq] at h
  exact mismatch_iff _ _ _ _ i h

/-- T20.5 `text_or_bytes`: a `bytes` document and the `str` document with the same values (its latin-1 decoding)
get the same `EncodingInfo` — every field, the exception included — for every response, every behaviour of the
library stages and every `tryEncodings` answer. No guard. -/
theorem text_or_bytes (L : Lib) (r : Option RespD) (b : List UInt8) (t : Option Cps) :
    getEncodingInfoD L r (some (.bytes b)) t = getEncodingInfoD L r (some (.text (latin1 b))) t := by
  rw [getEncodingInfoD_eq, getEncodingInfoD_eq]; rfl

/-- the same for a document that is read from the response (`text=None`): `read()` handing out `bytes` or `str` -/
theorem text_or_bytes_body (L : Lib) (mt cs : Option Cps) (b : List UInt8) (t : Option Cps) :
    getEncodingInfoD L (some ⟨mt, cs, some (.bytes b)⟩) none t =
      getEncodingInfoD L (some ⟨mt, cs, some (.text (latin1 b))⟩) none t := by
  rw [getEncodingInfoD_eq, getEncodingInfoD_eq]; rfl

/-- read the other way round: a text below U+0100 and its latin-1 encoding -/
theorem text_or_latin1_bytes (L : Lib) (r : Option RespD) (s : Cps) (t : Option Cps) (h : ∀ c ∈ s, c < 256) :
    getEncodingInfoD L r (some (.bytes (latin1Enc s))) t = getEncodingInfoD L r (some (.text s)) t := by
  rw [text_or_bytes, latin1_latin1Enc s h]

example : (∀ c ∈ cps "<?xml version='1.0' encoding='É'?>", c < 256) := by decide

/-- the three consumers one by one -/
theorem consumers_text_or_bytes (L : Lib) (b : List UInt8) (incl : Bool) :
    textTypeOfDoc (.bytes b) = textTypeOfDoc (.text (latin1 b)) ∧
    detectXMLDoc (.bytes b) incl = detectXMLDoc (.text (latin1 b)) incl ∧
    getMetaInfoDoc L (.bytes b) = getMetaInfoDoc L (.text (latin1 b)) := ⟨rfl, rfl, rfl⟩

/-- the codec named at each of the five `isinstance(x, bytes)` guards of the source is latin-1 (regenerated table) -/
theorem bytes_guards_latin1 : C20.decodeCodecs.length = 5 ∧ ∀ c ∈ C20.decodeCodecs, c = cps "latin-1" :=
  ⟨by decide, decodeCodecs_latin1⟩

/-- the XML sniffer looks at the first 2048 characters only: two documents that agree there are sniffed alike
(also when it raises) -/
theorem sniff_window (t u : Cps) (incl : Bool) (h : t.take 2048 = u.take 2048) :
    detectXML t incl = detectXML u incl := detectXML_window t u incl h

/-- bytes in ANY ASCII-transparent encoding (UTF-8, latin-1, …; `AsciiTransparent`): an all-ASCII document gets the
same `EncodingInfo` as its text, for every media type (the meta stage included) -/
theorem ascii_document_any_encoding (enc : Cps → List UInt8) (henc : AsciiTransparent enc) (L : Lib)
    (r : Option RespD) (a : Cps) (t : Option Cps) (ha : IsAscii a) :
    getEncodingInfoD L r (some (.bytes (enc a))) t = getEncodingInfoD L r (some (.text a)) t := by
  have h : latin1 (enc a) = a := by
    have := henc.prefix_kept a [] ha
    simpa [henc.empty, latin1] using this
  rw [text_or_bytes, h]

/-- … and a document whose first 2048 characters are ASCII (what follows is arbitrary, so the bytes differ from the
text's values) gets the same `EncodingInfo` whenever the meta stage is not consulted (every class except text/html and
other text). For text/html and other text the answer depends on what `html.parser` makes of the differing tails,
which is an input here: no statement. -/
theorem ascii_head_any_encoding (enc : Cps → List UInt8) (henc : AsciiTransparent enc) (L : Lib)
    (r : Option RespD) (a rest : Cps) (t : Option Cps) (ha : IsAscii a) (hl : 2048 ≤ a.length)
    (hh : docClass (r.map RespD.head) (a ++ rest) ≠ .html) (ht : docClass (r.map RespD.head) (a ++ rest) ≠ .text) :
    getEncodingInfoD L r (some (.bytes (enc (a ++ rest)))) t = getEncodingInfoD L r (some (.text (a ++ rest))) t := by
  rw [text_or_bytes, henc.prefix_kept a rest ha, getEncodingInfoD_eq, getEncodingInfoD_eq]
  exact (getEncodingInfo_window _ _ _ _ _ _ (take_of_prefix a rest _ 2048 hl) hh ht).symm

/-- non-vacuity: UTF-8 and latin-1 are ASCII-transparent; an ASCII head of 2048 characters exists -/
example : AsciiTransparent utf8 := utf8_transparent
example : AsciiTransparent latin1Enc := latin1Enc_transparent
example : IsAscii (List.replicate 2048 32) ∧ 2048 ≤ (List.replicate 2048 32).length := by
  refine ⟨fun c hc => ?_, by rw [List.length_replicate]; exact Nat.le_refl _⟩
  rw [List.eq_of_mem_replicate hc]; decide
/-- the hypothesis on the head cannot be dropped (test): `é` in the declared name, UTF-8 bytes vs text -/
example : detectXMLDoc (.bytes (utf8 (cps "<?xml version='1.0' encoding='é'?>"))) true ≠
    detectXMLDoc (.text (cps "<?xml version='1.0' encoding='é'?>")) true := by decide

/-- totality of `getEncodingInfo`, for `str` and `bytes` documents alike: it returns an `EncodingInfo` whenever there
is a document or a response to read one from, provided the two library stages do not raise on what the code hands
them (`html.parser` on the decoded document, `Message` on the content of the deciding `<meta>`). In particular the
short documents of finding C20-xml-short do not make it raise (the `ValueError` is caught), and nothing in the code of
the module itself raises. -/
theorem info_total (L : Lib) (r : Option RespD) (text : Option Doc) (t : Option Cps)
    (hgiven : text ≠ none ∨ r ≠ none)
    (hhtml : ∀ d e, effDoc r text = .ok d → L.html d.asText ≠ .error e)
    (hmsg : ∀ d evs c e, effDoc r text = .ok d → L.html d.asText = .ok evs → specMetaScan evs = some c →
      L.msg c ≠ .error e) :
    ∃ i, getEncodingInfoD L r text t = .ok i := by
  rw [getEncodingInfoD_eq]
  have hd : ∃ d, effDoc r text = .ok d := by
    cases text with
    | some x => exact ⟨x, rfl⟩
    | none =>
      cases r with
      | some rr => exact ⟨_, rfl⟩
      | none => rcases hgiven with h | h <;> exact absurd rfl h
  obtain ⟨d, hd⟩ := hd
  refine getEncodingInfo_total _ _ _ _ ?_ ?_
  · rcases hgiven with h | h
    · left; cases text with
      | none => exact absurd rfl h
      | some x => simp
    · right; cases r with
      | none => exact absurd rfl h
      | some x => simp
  · simp only [hd]
    exact metaRawOf_not_raises L d.asText (fun e => hhtml d e hd) (fun evs c e h1 h2 => hmsg d evs c e hd h1 h2)

/-- non-vacuity: library stages that never raise exist -/
example : ∃ L : Lib, ∀ x, (∀ e, L.html x ≠ .error e) ∧ ∀ e, L.msg x ≠ .error e :=
  ⟨⟨fun _ => .ok [], fun c => .ok (c, .none)⟩, fun _ => ⟨fun _ h => (nomatch h), fun _ h => (nomatch h)⟩⟩

/-- the only way out by exception that the module itself has: no document and no response (`None.read()`) -/
theorem info_raises_without_input (L : Lib) (t : Option Cps) :
    getEncodingInfoD L none none t = .error .attributeError := rfl

/-- non-vacuity of the class hypotheses of `ascii_head_any_encoding`, and of "`getEncodingInfoD` returns" in the
theorems above (tests): a `bytes` document through both layers, the meta stage deciding for the first of two metas -/
example : docClass ((some (⟨some (cps "application/xml"), none, none⟩ : RespD)).map RespD.head) [] ≠ .html ∧
    docClass ((some (⟨some (cps "application/xml"), none, none⟩ : RespD)).map RespD.head) [] ≠ .text := by decide
example :
    (getEncodingInfoD
      ⟨fun _ => .ok [⟨cps "meta", [(cps "http-equiv", some (cps "Content-Type")), (cps "content", some (cps "text/html;charset=ISO-M"))]⟩,
                     ⟨cps "meta", [(cps "http-equiv", some (cps "Content-Type")), (cps "content", some (cps "text/html;charset=late"))]⟩],
       fun c => if c == cps "text/html;charset=iso-m" then .ok (cps "text/html", .str (cps "iso-m")) else .error .extractor⟩
      (some ⟨some (cps "text/html"), some (cps "ISO-H"), none⟩) (some (.bytes [60, 109, 101, 116, 97, 62])) none).map
      (fun i => (i.encoding, i.mismatch, i.metaEncoding)) = .ok (some (cps "iso-h"), true, some (cps "iso-m")) := by decide

/-! ## T20.6 — the HTML meta stage: which `<meta>` decides

`metaScan` runs `_MetaHTMLParser.handle_starttag` over the start tags that `html.parser` reports. -/

/-- T20.6 `meta_first_wins`: what `getMetaInfo` uses of `p.content_type` is the `content` (lower-cased) of the FIRST
start tag that is a `<meta>` whose `http-equiv` — of the last attribute of that name, stripped, lower-cased — is
`content-type` and whose `content` is not empty; nothing if there is no such tag. For every sequence of start tags. -/
theorem meta_first_wins (evs : List StartTag) : used (metaScan evs) = specMetaScan evs := used_metaScan evs

/-- later `<meta>` elements play no role, earlier ones that do not decide neither -/
theorem meta_later_ignored (pre post : List StartTag) (e : StartTag) (hd : decides e = true)
    (hpre : ∀ x ∈ pre, decides x = false) : used (metaScan (pre ++ e :: post)) = metaContent e := by
  rw [used_metaScan, specMetaScan, List.find?_append]
  have : pre.find? decides = none := by
    rw [List.find?_eq_none]; intro x hx; simp [hpre x hx]
  simp [this, List.find?_cons, hd]

/-- no Content-Type meta is used iff no start tag decides -/
theorem meta_absent_iff (evs : List StartTag) : used (metaScan evs) = none ↔ ∀ e ∈ evs, decides e = false := by
  rw [used_metaScan, specMetaScan]
  constructor
  · intro h e he
    cases hf : evs.find? decides with
    | none => rw [List.find?_eq_none] at hf; simpa using hf e he
    | some x =>
      have hd := List.find?_some hf
      simp only [hf, Option.bind_some] at h
      simp [decides, h, truthy] at hd
  · intro h
    have : evs.find? decides = none := by
      rw [List.find?_eq_none]; intro x hx; simp [h x hx]
    simp [this]

/-- the whole front of `getMetaInfo`: parser exception → raises; no deciding meta → `(None, None)`; otherwise the
`Message` parameter parser is asked about the content of the first deciding meta -/
theorem meta_stage_spec (L : Lib) (text : Cps) :
    metaRawOf L text =
      match L.html text with
      | .error _ => .raises
      | .ok evs =>
        match specMetaScan evs with
        | none => .absent
        | some c =>
          match L.msg c with
          | .error _ => .raises
          | .ok (mt, p) => .found mt p := metaRawOf_spec L text

/-- end to end: when `getEncodingInfo` returns for a text/html or other text document, `meta_encoding` is the charset
parameter (lower-cased) that `Message` reports for the content of the first deciding `<meta>` among the start tags that
`html.parser` reports for the decoded document; for every other class it is `None` (the parser is not even run) -/
theorem meta_encoding_spec (L : Lib) (r : Option RespD) (text : Option Doc) (t : Option Cps) (i : Info)
    (h : getEncodingInfoD L r text t = .ok i) :
    ∃ d, effDoc r text = .ok d ∧
      i.metaEncoding = (match docClass (r.map RespD.head) d.asText with
        | .html => metaCharset (metaRawOf L d.asText)
        | .text => metaCharset (metaRawOf L d.asText)
        | _ => none) := by
  rw [getEncodingInfoD_eq] at h
  obtain ⟨txt, h1, _, _, hM⟩ := sources_spec _ _ _ _ i h
  cases text with
  | some d =>
    simp only [effText, Option.map_some, Except.ok.injEq] at h1; subst h1
    exact ⟨d, rfl, hM⟩
  | none =>
    cases r with
    | none => simp [effText] at h1
    | some rr =>
      obtain ⟨mt, cs, body⟩ := rr
      refine ⟨body.getD (.text []), rfl, ?_⟩
      have : txt = (body.getD (.text [])).asText := by
        cases body <;> (simp [effText, RespD.head] at h1; rw [← h1]; rfl)
      subst this
      exact hM

/-- non-vacuity and the shapes the stage has to cope with (tests): a value-less attribute, a second `http-equiv`
attribute, an empty `content` that lets a later meta decide, upper-case names -/
example : decides ⟨cps "meta", [(cps "http-equiv", some (cps " Content-Type ")), (cps "content", some (cps "text/html;charset=X"))]⟩ = true := by decide
example : used (metaScan [⟨cps "meta", [(cps "charset", none)]⟩,
    ⟨cps "meta", [(cps "http-equiv", some (cps "content-type")), (cps "content", some [])]⟩,
    ⟨cps "meta", [(cps "HTTP-EQUIV", some (cps "refresh")), (cps "http-equiv", some (cps "Content-Type")), (cps "content", some (cps "A"))]⟩,
    ⟨cps "meta", [(cps "http-equiv", some (cps "content-type")), (cps "content", some (cps "B"))]⟩]) = some (cps "a") := by decide

/-- consequence of C20-xml-short at the level of `getEncodingInfo`: an application/xml response without charset and
a document of three characters is reported as "no encoding" where the documented rule says UTF-8 (test, not theorem) -/
example : (getEncodingInfo (some ⟨some (cps "application/xml"), none, none⟩) (some (cps "<a>")) .absent none).map
    (·.encoding) = .ok none := by decide
example : (getEncodingInfo (some ⟨some (cps "application/xml"), none, none⟩) (some (cps "<a/>")) .absent none).map
    (·.encoding) = .ok (some (cps "utf-8")) := by decide

/-- non-vacuity of the hypotheses used above (tests) -/
example : (getEncodingInfo (some ⟨some (cps "text/html"), some (cps "ISO-H"), none⟩)
    (some (cps "<meta http-equiv='Content-Type' content='text/html;charset=iso-m'>")) (.found (cps "text/html") (.str (cps "ISO-M"))) none).map
    (fun i => (i.encoding, i.mismatch)) = .ok (some (cps "iso-h"), true) := by decide

end CssVerif.C20
