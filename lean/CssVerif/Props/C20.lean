import CssVerif.Model.Encutils
namespace CssVerif.C20
open CssVerif.Encutils CssVerif.Gen

/-- placeholder while the end-to-end check is brought up -/
theorem type_codes_distinct : [C20.XML_APPLICATION_TYPE, C20.XML_TEXT_TYPE, C20.HTML_TEXT_TYPE, C20.TEXT_TYPE,
    C20.TEXT_UTF8, C20.OTHER_TYPE].Nodup := by decide

end CssVerif.C20
