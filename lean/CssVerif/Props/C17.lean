import CssVerif.Model.Media
namespace CssVerif.C17
open CssVerif.Media
theorem placeholder : (canon []) = [] := by rfl
end CssVerif.C17
