import CssVerif.Lemmas.Media
/-!
# C17 — media lists are canonical ordered sets; media queries survive intact

Property theorems only (helpers: `Lemmas/Media.lean`; model: `Model/Media.lean`, tied to
`cssutils/stylesheets/medialist.py`, `mediaquery.py` and the engine of `prodparser.py` by the correspondence of
`tools/harness/c17.py`).

Four known findings restrict theorems of this file to a guarded (`_partial`) form; each guard is the exact region of
the finding, and the negation of the full statement is proved at the witness (`kf_*`).
-/
namespace CssVerif.C17
open CssVerif.Media CssVerif.Proto

/-! ## T17.1 — the parse-time filter is the documented canonicalisation -/

/-- the accumulator loop of `MediaList._setMediaText` computes: "the first literal `all` absorbs everything but the
comments before it; otherwise a simple media type is kept the first time, everything else keeps its place" -/
theorem canon_spec (l : List LItem) : canon l = canonSpec l := canon_eq_spec l

/-- a simple media type (as spelled) is kept once -/
theorem canon_simple_types_once (l : List LItem) : (simpleTypes (canon l)).Nodup := by
  rw [canon_eq_spec]; unfold canonSpec
  split
  · rename_i h
    -- comments, then one query
    have : ∀ (a : List LItem) (x : Option LItem), (simpleTypes (a.filter isComment ++ x.toList)).Nodup := by
      intro a x
      induction a with
      | nil => cases x with
        | none => simp [simpleTypes]
        | some i => cases i with
          | comment c => simp [simpleTypes]
          | query q => by_cases hq : q.mediaType.isEmpty = true <;> simp [simpleTypes, hq]
      | cons b r ih =>
        cases b with
        | comment c => simpa [List.filter_cons, isComment, simpleTypes] using ih
        | query q => simpa [List.filter_cons, isComment] using ih
    exact this _ _
  · exact (dedupFrom_types l []).1

/-- nothing is invented and the order is kept -/
theorem canon_sublist (l : List LItem) : (canon l).Sublist l := by
  rw [canon_eq_spec]; unfold canonSpec
  split
  · have h1 : ∀ l : List LItem,
        ((l.takeWhile (fun i => !isLitAll i)).filter isComment ++ (l.find? isLitAll).toList).Sublist l := by
      intro l
      induction l with
      | nil => simp
      | cons a r ih =>
        by_cases ha : isLitAll a = true
        · simp [List.takeWhile_cons, List.find?_cons, ha]
        · have ha' : isLitAll a = false := by simpa using ha
          simp only [List.takeWhile_cons, ha', Bool.not_false, if_true, List.find?_cons, List.filter_cons]
          split
          · exact List.Sublist.cons₂ _ ih
          · exact List.Sublist.cons _ ih
    exact h1 l
  · exact dedupFrom_sublist l []

/-- without a literal `all`: comments and queries with features all stay, and exactly the simple types of the text
are present -/
theorem canon_keeps (l : List LItem) (h : l.any isLitAll = false) :
    (canon l).filter (fun i => !isSimpleItem i) = l.filter (fun i => !isSimpleItem i) ∧
    ∀ t, t ∈ simpleTypes (canon l) ↔ t ∈ simpleTypes l := by
  rw [canon_eq_spec]; unfold canonSpec
  simp only [h, Bool.false_eq_true, if_false]
  exact ⟨dedupFrom_keeps_rest l [], fun t => by simpa using dedupFrom_mem l [] t⟩

/-- a literal `all` absorbs: the list becomes the comments before it and that one query -/
theorem canon_all_absorbs (l : List LItem) (h : l.any isLitAll = true) :
    canon l = (l.takeWhile (fun i => !isLitAll i)).filter isComment ++ (l.find? isLitAll).toList := by
  rw [canon_eq_spec]; unfold canonSpec; simp [h]

/- FULL STATEMENT (refuted at the witness `kf_parse_dedup_case`):
     ∀ l, CanonV (view (canon l))        -- the parsed list is a canonical ordered set (types compared case-insensitively)
   The code compares the spellings, so it holds when the types are spelled in normal form (`Lower`). -/
/-- the parse-time filter yields a canonical ordered set: a simple media type once, `all` alone -/
theorem canon_is_canonical_partial (l : List LItem) (h : Lower l) : CanonV (view (canon l)) :=
  canon_canonV l h

/-- a canonical list (as the edit operations leave it) is a fixpoint of the parse-time filter: parse-time and
edit-time canonicalisation agree -/
theorem canon_fixes_canonical (l : List LItem) (hc : NoComments l) (hv : CanonV (view l)) : canon l = l :=
  canon_id_of_canonV l hc hv

/-! ## T17.2 — the edit operations refine the ordered-set specification

`view` maps a list to its ordered set of media (a simple type by its case-insensitive name, a query with features
as a whole); `specAppend`, `specDelete`, `specSetItem` are the operations of the property statement. The theorems
hold for lists without list-level comments (guard of known finding C17-comment-index).

FULL STATEMENT (not provable for the code as it is; refuted at the witness below):
  ∀ m old, normalize old ≠ [] → (view m.seq).contains (.simple (normalize old)) →
      view (m.deleteMedium r old).1.seq = (view m.seq).erase (.simple (normalize old))          -- no guard `NoComments`
-/

/-- append of a type already present moves it to the end; append to `all` is rejected and changes nothing; `all`
replaces everything; anything else is appended -/
theorem appendMedium_refines_partial (m : ML) (raising : Bool) (toks : List Tok) (q : MQ)
    (hc : NoComments m.seq) (hq : parseQ {} toks = .ok q) :
    (specAppend (view m.seq) (entryOf q) = none →
      (m.appendMedium raising (some toks)).1 = m ∧
      (m.appendMedium raising (some toks)).2 = (if raising then .raised .invalidModification else .ret true)) ∧
    (∀ v', specAppend (view m.seq) (entryOf q) = some v' →
      view (m.appendMedium raising (some toks)).1.seq = v' ∧
      (m.appendMedium raising (some toks)).2 = .ret true ∧
      NoComments (m.appendMedium raising (some toks)).1.seq ∧
      (m.appendMedium raising (some toks)).1.wellformed = m.wellformed) :=
  Media.appendMedium_refines m raising toks q hc hq (parseQ_goodType toks q hq)

/-- a medium that does not parse is rejected and changes nothing (no guard needed) -/
theorem appendMedium_rejects_malformed (m : ML) (raising : Bool) (toks : List Tok) (hq : parseQ {} toks = .bad) :
    (m.appendMedium raising (some toks)).1 = m ∧
    (m.appendMedium raising (some toks)).2 = (if raising then .raised .syntaxErr else .ret false) := by
  unfold ML.appendMedium prepareSet
  cases raising <;> simp [hq]

/-- delete removes exactly that type … -/
theorem deleteMedium_refines_partial (m : ML) (raising : Bool) (old : Cps) (hc : NoComments m.seq)
    (hn : normalize old ≠ []) (hp : (view m.seq).contains (.simple (normalize old)) = true) :
    view (m.deleteMedium raising old).1.seq = (view m.seq).erase (.simple (normalize old)) ∧
    (m.deleteMedium raising old).2 = .ret () ∧
    NoComments (m.deleteMedium raising old).1.seq ∧
    (m.deleteMedium raising old).1.wellformed = m.wellformed :=
  deleteMedium_present m raising old hc hn hp

/-- … and deleting an absent type is rejected and changes nothing -/
theorem deleteMedium_absent_rejected_partial (m : ML) (raising : Bool) (old : Cps) (hc : NoComments m.seq)
    (hn : normalize old ≠ []) (hp : (view m.seq).contains (.simple (normalize old)) = false) :
    (m.deleteMedium raising old).1 = m ∧
    (m.deleteMedium raising old).2 = (if raising then .raised .notFound else .ret ()) :=
  deleteMedium_absent m raising old hc hn hp

/-- item assignment: the k-th medium becomes the new one, other occurrences of a simple type go, `all` replaces
everything; an index out of range raises IndexError and changes nothing -/
theorem setItem_refines_partial (m : ML) (raising : Bool) (index : Int) (toks : List Tok) (q : MQ)
    (hc : NoComments m.seq) (hq : parseQ {} toks = .ok q) :
    (pyIndex m.seq.length index = none →
      m.setItem raising index (some toks) = (m, .raised .indexError)) ∧
    (∀ k, pyIndex m.seq.length index = some k →
      view (m.setItem raising index (some toks)).1.seq = specSetItem (view m.seq) k (entryOf q) ∧
      (m.setItem raising index (some toks)).2 = .ret () ∧
      NoComments (m.setItem raising index (some toks)).1.seq ∧
      (m.setItem raising index (some toks)).1.wellformed = m.wellformed) :=
  Media.setItem_refines m raising index toks q hc hq

/-- the ordered-set operations keep a canonical set canonical -/
theorem spec_ops_keep_canonical (v : List Entry) (hc : CanonV v) :
    (∀ e v', specAppend v e = some v' → CanonV v') ∧
    (∀ n v', specDelete v n = some v' → CanonV v') ∧
    (∀ k e, k < v.length → CanonV (specSetItem v k e)) :=
  ⟨fun e v' h => specAppend_canon v v' e hc h, fun n v' h => specDelete_canon v v' n hc h,
   fun k e hk => specSetItem_canon v k e hc hk⟩

/-- under ANY sequence of edits (appendMedium / deleteMedium / item assignment with any arguments, in log or raise
mode) a list without list-level comments stays a canonical ordered set without list-level comments -/
theorem edit_history_keeps_canonical (ops : List Op) (m : ML) (h : Inv m) : Inv (ops.foldl ML.apply m) :=
  history_inv ops m h

/-- the empty list (a new `MediaList()`) satisfies the invariant -/
theorem new_list_canonical : Inv {} := ⟨by intro i hi; simp at hi, canonV_nil⟩

/-- item count, indexing and iteration agree -/
theorem count_index_iteration_agree_partial (m : ML) (hc : NoComments m.seq) :
    m.length = m.seq.length ∧
    (∀ i, i < m.length → m.item (i : Int) = .ret (m.iterTypes[i]?)) ∧
    m.item (m.length : Int) = .ret none := by
  refine ⟨length_eq_len m hc, fun i hi => item_agrees m hc i hi, ?_⟩
  rw [length_eq_len m hc]; exact item_at_length m

/-! ## T17.4 — media queries survive intact -/

/-- every feature, value and their order: the tokens of an accepted query are the tokens of the text, white space
dropped -/
theorem query_keeps_every_token (ts : List Tok) (q : MQ) (h : parseQ {} ts = .ok q) :
    q.toks = ts.filter notS := by
  have := parseQ_toks ts {} q h
  simpa [QSt_toks_init] using this

/-- white space between tokens never matters -/
theorem query_whitespace_irrelevant (ts : List Tok) : parseQ {} (ts.filter notS) = parseQ {} ts :=
  parseQ_filter_S ts {}

/-- parse ∘ serialise (token level) is the identity on every query the parser accepts -/
theorem query_round_trip (ts : List Tok) (q : MQ) (h : parseQ {} ts = .ok q) : parseQ {} q.toks = .ok q :=
  parseQ_reparse ts q h

/-- `parseMQ (render q) = q` for the query AST (`[only|not]? type (and expr)*` | `expr (and expr)*`, `expr` =
`( feature [: value] )` with a length / number / percentage / ident / hex colour / string value), whatever white
space the rendering puts between the tokens: every query of the grammar is accepted, its items are exactly its
tokens in order, `mediaType` is set exactly for a bare media type -/
theorem query_ast_round_trip (a : QAst) (hv : a.Valid) (ts : List Tok) (hts : ts.filter notS = a.toks) :
    parseQ {} ts = .ok a.toMQ := by
  rw [← parseQ_filter_S, hts]; exact parseQ_ast a hv

/-- a list: every medium of an accepted list is itself a well-formed query (it parses, stand-alone, to itself) —
one malformed query invalidates the whole list. Proved for the parser with the proposed repair (`strict`). -/
theorem list_media_wellformed_repaired (ft : Bool) (ts : List Tok) (items : List LItem)
    (h : parseL true ft {} ts = .ok items) : ∀ q ∈ queries items, parseQ {} q.toks = .ok q :=
  parseL_strict_wf ft ts {} items lwf_init h

/- FULL STATEMENT (refuted at the witness `kf_missing_handback`):
     parseL false ft {} ts = .ok items → ∀ q ∈ queries items, parseQ {} q.toks = .ok q
   For the code as it is, under the exact guard "the repaired parser accepts the text too" (no `Missing` error was
   turned into a stop): -/
theorem list_media_wellformed_partial (ft : Bool) (ts : List Tok) (items : List LItem)
    (hg : parseL true ft {} ts = .ok items) :
    parseL false ft {} ts = .ok items ∧ ∀ q ∈ queries items, parseQ {} q.toks = .ok q :=
  ⟨parseL_strict_agree ft ts {} items hg, parseL_strict_wf ft ts {} items lwf_init hg⟩

/-! ## T17.3 — the text of a list reparses to an equal list

Token level (`ML.toks` = the tokens of `mediaText` without white space; the harness checks on every step that the
implementation's `mediaText` tokenises to `ML.toks`). Proved for lists without comments; with comments the reparsed
list is equal up to the place of the comments (a comment between a comma and a query belongs to the list, after a
query to the query) — that general form is checked by the oracle on the implementation, not proved. -/

/-- a non-empty list of well-formed comment-free queries: parse ∘ serialise = identity, from text and from a token
list, for the code as it is and with the proposed repair -/
theorem list_round_trip (strict ft : Bool) (q : MQ) (r : List MQ) (hg : ∀ x ∈ q :: r, GoodQ x) :
    parseL strict ft {} (toksL ((q :: r).map LItem.query) true) = .ok ((q :: r).map LItem.query) :=
  parseL_reparse strict ft q r hg

/-- `mediaText` reparse after edits: assigning a canonical list its own text gives exactly that list, well-formed
— parse-time and edit-time canonicalisation agree (`parse (text (ops l)) = ops l`) -/
theorem mediaText_reparse_partial (m : ML) (raising ft : Bool) (hi : Inv m) (hg : ∀ q ∈ queries m.seq, GoodQ q)
    (hne : m.seq ≠ []) :
    m.setMediaText raising ft m.toks = ({ seq := m.seq, wellformed := true }, .ret ()) :=
  setMediaText_own_toks m raising ft hi hg hne

/-- the media that `appendMedium` / item assignment accept from a text without comments are such queries -/
theorem accepted_medium_is_good (ts : List Tok) (q : MQ) (h : parseQ {} ts = .ok q)
    (hc : ∀ t ∈ ts, t.typ ≠ .comment) : GoodQ q :=
  parseQ_goodQ ts q h hc

/-! ## Known findings: the full statements fail at these witnesses (machine-checked) -/

/-- `/*c*/ tv, print` -/
def kfCommentList : ML :=
  (({} : ML).setMediaText false true
    [tComment wComment, tSpace, tIdent wTv, tChar cComma, tSpace, tIdent wPrint]).1

/-- C17-comment-index: `deleteMedium('tv')` on `/*c*/ tv, print` deletes the comment; `tv` is still there -/
theorem kf_comment_index_delete :
    (kfCommentList.deleteMedium false wTv).1.iterTypes = [wTv, wPrint] ∧
    (kfCommentList.deleteMedium false wTv).1.seq.length = 2 ∧
    ¬ view (kfCommentList.deleteMedium false wTv).1.seq = (view kfCommentList.seq).erase (.simple (normalize wTv)) := by
  decide

/-- C17-comment-index: `item(0)` hits the comment, `item(1)` is the first medium -/
theorem kf_comment_index_item :
    kfCommentList.length = 2 ∧ kfCommentList.seq.length = 3 ∧
    kfCommentList.item 0 = .raised .attributeError ∧ kfCommentList.item 1 = .ret (some wTv) := by
  decide

/-- C17-comment-index: a list left with only a comment does not serialise as `all` -/
theorem kf_comment_only_text :
    ((kfCommentList.deleteMedium false wTv).1.deleteMedium false wTv).1.length = 1 ∧
    ({ seq := [.comment (tComment wComment)], wellformed := true } : ML).mediaText = wComment := by
  decide

/-- C17-parse-dedup-case: `print, PRINT` keeps both although they are the same media type -/
theorem kf_parse_dedup_case :
    view (({} : ML).setMediaText false true [tIdent wPrint, tChar cComma, tSpace, tIdent wPRINT]).1.seq
      = [.simple wPrint, .simple wPrint] ∧
    ¬ CanonV [Entry.simple wPrint, .simple wPrint] := by
  refine ⟨by decide, ?_⟩
  intro h
  have := h.1
  simp [Entry.isSimple, List.filter_cons] at this

/-- C17-missing-handback: `tv and, print` is accepted although `tv and` is not a query; the repaired parser
(`strict`) rejects it -/
theorem kf_missing_handback :
    (∃ items, parseL false true {} [tIdent wTv, tSpace, tIdent wAnd, tChar cComma, tSpace, tIdent wPrint] = .ok items) ∧
    parseQ {} [tIdent wTv, tSpace, tIdent wAnd] = .bad ∧
    parseL true true {} [tIdent wTv, tSpace, tIdent wAnd, tChar cComma, tSpace, tIdent wPrint] = .bad := by
  refine ⟨⟨_, rfl⟩, by decide, by decide⟩

/-- C17-missing-handback: from a token list (`@media (color) and tv {`) the token `tv` is silently dropped -/
theorem kf_missing_handback_drops_token :
    ∃ q, parseL false false {} [tChar cOpen, tIdent wColor, tChar cClose, tSpace, tIdent wAnd, tSpace, tIdent wTv]
        = .ok [.query q] ∧
      q.toks = [tChar cOpen, tIdent wColor, tChar cClose, tIdent wAnd] := by
  exact ⟨_, rfl, rfl⟩

/-! ## Non-vacuity -/

/-- the guards are satisfiable and the refinement theorems say something: `tv, print` + append `tv` = `print, tv` -/
example :
    let m := (({} : ML).setMediaText false true [tIdent wTv, tChar cComma, tSpace, tIdent wPrint]).1
    NoComments m.seq ∧ CanonV (view m.seq) ∧
    specAppend (view m.seq) (.simple wTv) = some [.simple wPrint, .simple wTv] ∧
    (m.appendMedium false (some [tIdent wTv])).1.iterTypes = [wPrint, wTv] := by
  refine ⟨by decide, ⟨by decide, by decide⟩, by decide, by decide⟩

/-- a query with features is accepted and keeps its tokens -/
example : ∃ q, parseQ {} [tIdent wTv, tSpace, tIdent wAnd, tSpace, tChar cOpen, tIdent wColor, tChar cClose] = .ok q ∧
    q.toks.length = 5 := ⟨_, rfl, rfl⟩

/-- a valid AST: `not tv and (color: #fff) and (x)` -/
example : (QAst.typed (some (tIdent [110, 111, 116])) (tIdent wTv)
    [(tIdent wAnd, ⟨tIdent wColor, some { typ := .hash, val := [35, 102, 102, 102] }⟩),
     (tIdent wAnd, ⟨tIdent [120], none⟩)]).Valid := by
  refine ⟨?_, rfl, by decide, ?_⟩
  · intro p hp; cases hp; exact ⟨rfl, by decide⟩
  · intro p hp
    simp at hp
    rcases hp with rfl | rfl
    · refine ⟨rfl, by decide, rfl, ?_⟩
      intro v hv; cases hv; exact ⟨.color, by decide⟩
    · exact ⟨rfl, by decide, rfl, by intro v hv; cases hv⟩

end CssVerif.C17
