import CssVerif.Lemmas.Media
import CssVerif.Lemmas.MediaSetType
import CssVerif.Lemmas.MediaSetTypeReparse
import CssVerif.Lemmas.MediaSimL
import CssVerif.Lemmas.MediaSimFuel
/-!
# C17 — media lists are canonical ordered sets; media queries survive intact

Property theorems only (helpers: `Lemmas/Media.lean`; model: `Model/Media.lean`, tied to
`cssutils/stylesheets/medialist.py`, `mediaquery.py` and the engine of `prodparser.py` by the correspondence of
`tools/harness/c17.py`).

No finding is open. Four former findings are repaired in the repository (the last one, C17-missing-handback, by
"an incomplete media query in a media list is an error, its token is no longer handed back and lost"); their
theorems are stated at full strength (`fixed_*` keep the old witnesses as regression checks). `parseL true` is the
code as it is; `parseL false` is the parser as it was before that repair (kept for the regression witnesses only).
-/
namespace CssVerif.C17
open CssVerif.Media CssVerif.Proto

/-! ## T17.1 — the parse-time filter is the documented canonicalisation -/

/-- the accumulator loop of `MediaList._setMediaText` computes: "the first `all` absorbs everything but the comments
before it; otherwise a simple media type (compared case-insensitively) is kept the first time, everything else keeps
its place" -/
theorem canon_spec (l : List LItem) : canon l = canonSpec l := canon_eq_spec l

/-- a simple media type (up to case and escapes) is kept once -/
theorem canon_simple_types_once (l : List LItem) : (simpleTypes (canon l)).Nodup := by
  rw [canon_eq_spec]; exact canonSpec_types_nodup l

/-- nothing is invented and the order is kept -/
theorem canon_sublist (l : List LItem) : (canon l).Sublist l := by
  rw [canon_eq_spec]; exact canonSpec_sublist l

/-- without an `all`: comments and queries with features all stay, and exactly the simple types of the text
are present -/
theorem canon_keeps (l : List LItem) (h : l.any isLitAll = false) :
    (canon l).filter (fun i => !isSimpleItem i) = l.filter (fun i => !isSimpleItem i) ∧
    ∀ t, t ∈ simpleTypes (canon l) ↔ t ∈ simpleTypes l := by
  rw [canon_eq_spec]; unfold canonSpec
  simp only [h, Bool.false_eq_true, if_false]
  exact ⟨dedupFrom_keeps_rest l [], fun t => by simpa using dedupFrom_mem l [] t⟩

/-- `all` absorbs: the list becomes the comments before it and that one query -/
theorem canon_all_absorbs (l : List LItem) (h : l.any isLitAll = true) :
    canon l = (l.takeWhile (fun i => !isLitAll i)).filter isComment ++ (l.find? isLitAll).toList := by
  rw [canon_eq_spec]; unfold canonSpec; simp [h]

/-- the parsed list always denotes a canonical ordered set: a simple media type once, `all` alone
(full statement; was guarded by `Lower` before the repair of C17-parse-dedup-case) -/
theorem canon_is_canonical (l : List LItem) : CanonV (view (canon l)) := canon_canonV l

/-- a canonical list without list-level comments (what the edit operations leave from such a list) is a fixpoint of
the parse-time filter: parse-time and edit-time canonicalisation agree -/
theorem canon_fixes_canonical (l : List LItem) (hc : NoComments l) (hv : CanonV (view l)) : canon l = l :=
  canon_id_of_canonV l hc hv

/-! ## T17.2 — the edit operations refine the ordered-set specification

`view` maps a list to its ordered set of media (a simple type by its case-insensitive name, a query with features
as a whole; comments are not media); `specAppend`, `specDelete`, `specSetItem` are the operations of the property
statement. Full statements for every list (the guard `NoComments` went with the repair of C17-comment-index). -/

/-- append of a type already present moves it to the end; append to `all` is rejected and changes nothing; `all`
replaces everything; anything else is appended -/
theorem appendMedium_refines (m : ML) (raising : Bool) (toks : List Tok) (q : MQ)
    (hq : parseQ {} toks = .ok q) :
    (specAppend (view m.seq) (entryOf q) = none →
      (m.appendMedium raising (some toks)).1 = m ∧
      (m.appendMedium raising (some toks)).2 = (if raising then .raised .invalidModification else .ret true)) ∧
    (∀ v', specAppend (view m.seq) (entryOf q) = some v' →
      view (m.appendMedium raising (some toks)).1.seq = v' ∧
      (m.appendMedium raising (some toks)).2 = .ret true ∧
      (m.appendMedium raising (some toks)).1.wellformed = m.wellformed) :=
  Media.appendMedium_refines m raising toks q hq (parseQ_goodType toks q hq)

/-- a medium that does not parse is rejected and changes nothing -/
theorem appendMedium_rejects_malformed (m : ML) (raising : Bool) (toks : List Tok) (hq : parseQ {} toks = .bad) :
    (m.appendMedium raising (some toks)).1 = m ∧
    (m.appendMedium raising (some toks)).2 = (if raising then .raised .syntaxErr else .ret false) := by
  unfold ML.appendMedium prepareSet
  cases raising <;> simp [hq]

/-- delete removes exactly that type … -/
theorem deleteMedium_refines (m : ML) (raising : Bool) (old : Cps)
    (hn : normalize old ≠ []) (hp : (view m.seq).contains (.simple (normalize old)) = true) :
    view (m.deleteMedium raising old).1.seq = (view m.seq).erase (.simple (normalize old)) ∧
    (m.deleteMedium raising old).2 = .ret () ∧
    (m.deleteMedium raising old).1.wellformed = m.wellformed :=
  deleteMedium_present m raising old hn hp

/-- … and deleting an absent type is rejected and changes nothing -/
theorem deleteMedium_absent_rejected (m : ML) (raising : Bool) (old : Cps)
    (hn : normalize old ≠ []) (hp : (view m.seq).contains (.simple (normalize old)) = false) :
    (m.deleteMedium raising old).1 = m ∧
    (m.deleteMedium raising old).2 = (if raising then .raised .notFound else .ret ()) :=
  deleteMedium_absent m raising old hn hp

/-- item assignment: the k-th medium becomes the new one, other occurrences of a simple type go, `all` replaces
everything; an index outside the media raises IndexError and changes nothing -/
theorem setItem_refines (m : ML) (raising : Bool) (index : Int) (toks : List Tok) (q : MQ)
    (hq : parseQ {} toks = .ok q) :
    (pyIndex m.length index = none →
      m.setItem raising index (some toks) = (m, .raised .indexError)) ∧
    (∀ k, pyIndex m.length index = some k →
      view (m.setItem raising index (some toks)).1.seq = specSetItem (view m.seq) k (entryOf q) ∧
      (m.setItem raising index (some toks)).2 = .ret () ∧
      (m.setItem raising index (some toks)).1.wellformed = m.wellformed) :=
  Media.setItem_refines m raising index toks q hq

/-- the ordered-set operations keep a canonical set canonical -/
theorem spec_ops_keep_canonical (v : List Entry) (hc : CanonV v) :
    (∀ e v', specAppend v e = some v' → CanonV v') ∧
    (∀ n v', specDelete v n = some v' → CanonV v') ∧
    (∀ k e, k < v.length → CanonV (specSetItem v k e)) :=
  ⟨fun e v' h => specAppend_canon v v' e hc h, fun n v' h => specDelete_canon v v' n hc h,
   fun k e hk => specSetItem_canon v k e hc hk⟩

/-- under ANY sequence of edits (appendMedium / deleteMedium / item assignment with any arguments, in log or raise
mode) a list — with or without comments — stays a canonical ordered set -/
theorem edit_history_keeps_canonical (ops : List Op) (m : ML) (h : Inv m) : Inv (ops.foldl ML.apply m) :=
  history_inv ops m h

/-- the empty list (a new `MediaList()`) and every list just parsed satisfy the invariant -/
theorem new_and_parsed_lists_canonical : Inv {} ∧
    ∀ (m : ML) (r ft : Bool) (toks : List Tok), Inv m → Inv (m.setMediaText r ft toks).1 := by
  refine ⟨canonV_nil, ?_⟩
  intro m r ft toks h
  unfold ML.setMediaText
  cases parseL true ft {} toks with
  | unsupported => exact h
  | bad => cases r <;> exact h
  | ok items =>
    by_cases hq : (queries items).isEmpty = true
    · cases r <;> simp [hq] <;> exact h
    · simp only [hq, Bool.false_eq_true, if_false]; exact canon_canonV items

/-- item count, indexing and iteration agree (comments are not media) -/
theorem count_index_iteration_agree (m : ML) :
    (∀ i, i < m.length → m.item (i : Int) = .ret (m.iterTypes[i]?)) ∧
    m.item (m.length : Int) = .ret none ∧ m.iterTypes.length = m.length :=
  ⟨fun i hi => item_agrees m i hi, item_at_length m, by simp [ML.iterTypes, ML.length]⟩

/-! ## T17.4 — media queries survive intact -/

/-- every feature, value and their order: the tokens of an accepted query are the tokens of the text, white space
dropped -/
theorem query_keeps_every_token (ts : List Tok) (q : MQ) (h : parseQ {} ts = .ok q) :
    q.toks = ts.filter notS := by
  have := parseQ_toks ts {} q h
  simpa [QSt_toks_init] using this

/-- white space between tokens never matters -/
theorem query_whitespace_irrelevant (ts : List Tok) : parseQ {} (ts.filter notS) = parseQ {} ts :=
  parseQ_filter_S ts {}

/-- parse ∘ serialise (token level) is the identity on every query the parser accepts -/
theorem query_round_trip (ts : List Tok) (q : MQ) (h : parseQ {} ts = .ok q) : parseQ {} q.toks = .ok q :=
  parseQ_reparse ts q h

/-- `parseMQ (render q) = q` for the query AST (`[only|not]? type (and expr)*` | `expr (and expr)*`, `expr` =
`( feature [: value] )` with a length / number / percentage / ident / hex colour / string value), whatever white
space the rendering puts between the tokens: every query of the grammar is accepted, its items are exactly its
tokens in order, `mediaType` is set exactly for a bare media type -/
theorem query_ast_round_trip (a : QAst) (hv : a.Valid) (ts : List Tok) (hts : ts.filter notS = a.toks) :
    parseQ {} ts = .ok a.toMQ := by
  rw [← parseQ_filter_S, hts]; exact parseQ_ast a hv

/-- a list: every medium of an accepted list is itself a well-formed query (it parses, stand-alone, to itself) —
one malformed query invalidates the whole list. Full strength since the repair of C17-missing-handback (before: only
under the guard "no `Missing` error was turned into a stop"). -/
theorem list_media_wellformed (ft : Bool) (ts : List Tok) (items : List LItem)
    (h : parseL true ft {} ts = .ok items) : ∀ q ∈ queries items, parseQ {} q.toks = .ok q :=
  parseL_strict_wf ft ts {} items lwf_init h

/-- whatever the parser accepts now, the parser before the repair accepted with the same result: the repair only
turns lists with an incomplete query into errors -/
theorem repair_only_rejects (ft : Bool) (ts : List Tok) (items : List LItem)
    (hg : parseL true ft {} ts = .ok items) : parseL false ft {} ts = .ok items :=
  parseL_strict_agree ft ts {} items hg

/-! ## T17.3 — the text of a list reparses to an equal list

Token level (`ML.toks` = the tokens of `mediaText` without white space; the harness checks on every step that the
implementation's `mediaText` tokenises to `ML.toks`). Proved for lists without comments; with comments the reparsed
list is equal up to the place of the comments (a comment between a comma and a query belongs to the list, after a
query to the query) — that general form is checked by the oracle on the implementation, not proved. -/

/-- a non-empty list of well-formed comment-free queries: parse ∘ serialise = identity, from text and from a token
list (`strict = true`: the code as it is; also for the parser before the repair of C17-missing-handback) -/
theorem list_round_trip (strict ft : Bool) (q : MQ) (r : List MQ) (hg : ∀ x ∈ q :: r, GoodQ x) :
    parseL strict ft {} (toksL ((q :: r).map LItem.query) true) = .ok ((q :: r).map LItem.query) :=
  parseL_reparse strict ft q r hg

/-- `mediaText` reparse after edits: assigning a canonical list its own text gives exactly that list, well-formed
— parse-time and edit-time canonicalisation agree (`parse (text (ops l)) = ops l`) -/
theorem mediaText_reparse_partial (m : ML) (raising ft : Bool) (hc : NoComments m.seq) (hi : Inv m)
    (hg : ∀ q ∈ queries m.seq, GoodQ q) (hne : m.seq ≠ []) :
    m.setMediaText raising ft m.toks = ({ seq := m.seq, wellformed := true }, .ret ()) :=
  setMediaText_own_toks m raising ft hc hi hg hne

/-- the media that `appendMedium` / item assignment accept from a text without comments are such queries -/
theorem accepted_medium_is_good (ts : List Tok) (q : MQ) (h : parseQ {} ts = .ok q)
    (hc : ∀ t ∈ ts, t.typ ≠ .comment) : GoodQ q :=
  parseQ_goodQ ts q h hc

/-! ## T17.5 — the `mediaType` setter of a query changes the type only (code as of 7e62688) -/

/-- for every query of the grammar and every known media type (any spelling): the setter returns, the new
`mediaType` is the given string, and the sequence is that of the same query with the type replaced — a query that
starts with an expression becomes `type and <the same expressions>`. Every expression (feature, value, order) and
the `only` / `not` keyword are kept, and the result is again a query of the grammar: its tokens parse to it. -/
theorem setMediaType_changes_type_only (a : QAst) (ha : a.Valid) (raising : Bool) (mt : Cps)
    (hm : isMediaType mt = true) :
    a.toMQ.setMediaType raising mt = ({ items := (a.withType mt).toMQ.items, mediaType := mt }, .ret ()) ∧
    (a.withType mt).exprs = a.exprs ∧ (a.withType mt).pre = a.pre ∧
    parseQ {} (a.withType mt).toks = .ok (a.withType mt).toMQ :=
  ⟨setMediaType_ast a ha raising mt hm, withType_exprs a mt, withType_pre a mt,
   parseQ_ast _ (withType_valid a mt ha hm)⟩

/-- for EVERY query object (comments included, accepted or not) and every argument: comments, value objects,
parentheses and colons — everything but IDENT tokens — are kept, in order -/
theorem setMediaType_keeps_non_idents (q : MQ) (raising : Bool) (mt : Cps) :
    (q.setMediaType raising mt).1.items.filter keptItem = q.items.filter keptItem :=
  setMediaType_keeps q raising mt

/-- exact effect on EVERY query object, comments included, and every known type: the new `mediaType` is the given
string; the sequence changes at one place only — the first string item that is not `only` / `not` is replaced by the
type when it is an IDENT, gets `type and` put in front otherwise (a parenthesis); a sequence without such an item
gets the type in front. Everything before and after that place is untouched. -/
theorem setMediaType_exact (q : MQ) (raising : Bool) (mt : Cps) (hm : isMediaType mt = true) :
    (q.setMediaType raising mt).2 = .ret () ∧ (q.setMediaType raising mt).1.mediaType = mt ∧
    (((∀ i ∈ q.items, passedItem i = true) ∧ (q.setMediaType raising mt).1.items = typeItem mt :: q.items) ∨
     ∃ pre t post, q.items = pre ++ QItem.tok t :: post ∧ (∀ i ∈ pre, passedItem i = true) ∧
       isSetterSkipWord t.val = false ∧
       (q.setMediaType raising mt).1.items
         = pre ++ (if t.typ = .ident then [typeItem mt] else [typeItem mt, setterAndItem, QItem.tok t]) ++ post) := by
  have hc : Gen.C17Media.mediaTypes.contains (normalize mt) = true := hm
  unfold MQ.setMediaType
  simp only [hc, if_true, true_and]
  cases hg : setTypeGo mt q.items with
  | none => exact .inl ⟨setTypeGo_none mt q.items hg, rfl⟩
  | some r => exact .inr (setTypeGo_spec mt q.items r hg)

/-- for EVERY query the parser accepts — comments at any place, any white space — and every known media type: the
sequence the setter leaves is again an accepted query: its tokens parse, stand-alone, to exactly that sequence
(together with `setMediaType_exact`: the query with the type changed and nothing else) -/
theorem setMediaType_result_reparses (ts : List Tok) (q : MQ) (h : parseQ {} ts = .ok q) (raising : Bool) (mt : Cps)
    (hm : isMediaType mt = true) :
    ∃ mt', parseQ {} (q.setMediaType raising mt).1.toks
      = .ok { items := (q.setMediaType raising mt).1.items, mediaType := mt' } :=
  setMediaType_reparse ts q h raising mt hm

/-- an unknown media type is rejected (SyntaxErr, logged or raised) and nothing changes -/
theorem setMediaType_unknown_rejected (q : MQ) (raising : Bool) (mt : Cps) (hm : isMediaType mt = false) :
    q.setMediaType raising mt = (q, if raising then .raised .syntaxErr else .ret ()) := by
  have hc : Gen.C17Media.mediaTypes.contains (normalize mt) = false := hm
  unfold MQ.setMediaType; rw [if_neg (by rw [hc]; exact Bool.false_ne_true)]

/-- regression witness of 7e62688: `(color)` with the type `tv` becomes `tv and (color)` (the code before replaced
the parenthesis by the type) -/
theorem fixed_setter_leading_expression :
    ((QAst.untyped ⟨tIdent wColor, none⟩ []).toMQ.setMediaType false wTv).1.toks
      = [typeTok wTv, setterAndTok, openTok, tIdent wColor, closeTok] := by decide

/-! ## T17.6 — the generic engine of `prodparser.py` on the captured grammars IS the derived automaton

`ProdEngine.engineQ` / `engineL` = the model of `ProdParser.parse` (`Choice.nextProd`, `Sequence.nextProd`, the main
loop, the end-of-input loop, `savedTokens`, `tokenizer.push`) run on the production trees that the translator
captures from the live `MediaQuery` / `MediaList` objects on every run (`Gen/C17Grammar.lean`). `parseQ` / `parseL`
= the automata all theorems above are about. Token domain `Dom` = assumption A1 (a token with value `( ) : ,` has
type CHAR). A change of a captured tree breaks `MediaSim.gq_alone` / `gq_partof` / `ml_captured` (`rfl`) and with
them these theorems. -/

/-- stand-alone query: for EVERY token list the engine on the captured tree gives the result of `parseQ` -/
theorem engine_is_query_automaton (toks : List Tok) (hd : ∀ t ∈ toks, MediaSim.Dom t) :
    ProdEngine.engineQ Gen.C17Grammar.mediaQueryAlone toks = parseQ {} toks :=
  MediaSim.engineQ_eq_parseQ toks hd

/-- list: for EVERY token list, from text or from a token list, the engine on the captured `MediaList` tree with the
nested parser on the captured `_partof` query tree and both hand-back channels gives the result of `parseL` -/
theorem engine_is_list_automaton (ft : Bool) (toks : List Tok) (hd : ∀ t ∈ toks, MediaSim.Dom t) :
    ProdEngine.engineL Gen.C17Grammar.mediaList Gen.C17Grammar.mediaQueryPartof ft toks = parseL true ft {} toks :=
  MediaSim.engineL_eq_parseL ft toks hd

/-- so the property theorems hold for the engine itself, e.g. T17.4: a query accepted by the engine keeps every
token of the text, in order -/
theorem engine_query_keeps_every_token (toks : List Tok) (hd : ∀ t ∈ toks, MediaSim.Dom t) (q : MQ)
    (h : ProdEngine.engineQ Gen.C17Grammar.mediaQueryAlone toks = .ok q) : q.toks = toks.filter notS := by
  rw [engine_is_query_automaton toks hd] at h
  exact query_keeps_every_token toks q h

/-- … and T17.1 for the list the engine builds: filtered, it is a canonical ordered set -/
theorem engine_list_canonical (ft : Bool) (toks : List Tok) (items : List LItem)
    (_h : ProdEngine.engineL Gen.C17Grammar.mediaList Gen.C17Grammar.mediaQueryPartof ft toks = .ok items) :
    CanonV (view (canon items)) := canon_canonV items

/-- the fuel of the engine model suffices (`noFuel`): on the media grammars the engine answers `unsupported` only
when the input holds a token outside the modelled domain — an EOF token or a colour function — never because one of
its fuelled loops (`mainLoop`, `descend`, `seqLoop`, `endLoop`) ran dry -/
theorem engine_fuel_suffices (ft : Bool) (toks : List Tok) (hd : ∀ t ∈ toks, MediaSim.Dom t) :
    (ProdEngine.engineL Gen.C17Grammar.mediaList Gen.C17Grammar.mediaQueryPartof ft toks = .unsupported →
      ∃ t ∈ toks, MediaSim.Outside t) ∧
    (ProdEngine.engineQ Gen.C17Grammar.mediaQueryAlone toks = .unsupported → ∃ t ∈ toks, MediaSim.Outside t) :=
  ⟨MediaSim.engineL_fuel_suffices ft toks hd, MediaSim.engineQ_fuel_suffices toks hd⟩

/-- the token domain is inhabited by real inputs and the engine accepts them: `tv and (color), print` -/
example :
    let toks := [tIdent wTv, tSpace, tIdent wAnd, tSpace, tChar cOpen, tIdent wColor, tChar cClose, tChar cComma,
      tSpace, tIdent wPrint]
    (∀ t ∈ toks, MediaSim.Dom t) ∧
    ∃ items, ProdEngine.engineL Gen.C17Grammar.mediaList Gen.C17Grammar.mediaQueryPartof true toks = .ok items ∧
      items.length = 2 := by
  refine ⟨by decide, _, rfl, rfl⟩

/-! ## Former known findings, now repaired in the repository (regression witnesses) -/

/-- `/*c*/ tv, print` -/
def kfCommentList : ML :=
  (({} : ML).setMediaText false true
    [tComment wComment, tSpace, tIdent wTv, tChar cComma, tSpace, tIdent wPrint]).1

/-- C17-comment-index (fixed): `deleteMedium('tv')` on `/*c*/ tv, print` removes tv and keeps the comment; `item(0)`
is the first medium; a list left with only the comment serialises as `all` -/
theorem fixed_comment_index :
    (kfCommentList.deleteMedium false wTv).1.iterTypes = [wPrint] ∧
    (kfCommentList.deleteMedium false wTv).1.seq.length = 2 ∧
    kfCommentList.length = 2 ∧ kfCommentList.item 0 = .ret (some wTv) ∧ kfCommentList.item 2 = .ret none ∧
    ((kfCommentList.deleteMedium false wTv).1.deleteMedium false wPrint).1.mediaText = wAll := by
  decide

/-- C17-parse-dedup-case (fixed): `print, PRINT` is one medium -/
theorem fixed_parse_dedup_case :
    view (({} : ML).setMediaText false true [tIdent wPrint, tChar cComma, tSpace, tIdent wPRINT]).1.seq
      = [.simple wPrint] := by
  decide

/-! ## C17-missing-handback (fixed): the old witnesses as regression checks -/

/-- C17-missing-handback (fixed): `tv and, print` is rejected, as `tv and` is not a query (the parser before the
repair accepted it) -/
theorem fixed_missing_handback :
    parseL true true {} [tIdent wTv, tSpace, tIdent wAnd, tChar cComma, tSpace, tIdent wPrint] = .bad ∧
    parseQ {} [tIdent wTv, tSpace, tIdent wAnd] = .bad ∧
    (∃ items, parseL false true {} [tIdent wTv, tSpace, tIdent wAnd, tChar cComma, tSpace, tIdent wPrint] = .ok items) := by
  refine ⟨by decide, by decide, ⟨_, rfl⟩⟩

/-- C17-missing-handback (fixed): from a token list (`@media (color) and tv {`) the list is rejected; the token
`tv` is no longer silently dropped -/
theorem fixed_missing_handback_drops_no_token :
    parseL true false {} [tChar cOpen, tIdent wColor, tChar cClose, tSpace, tIdent wAnd, tSpace, tIdent wTv] = .bad := by
  decide

/-! ## Non-vacuity -/

/-- the guards are satisfiable and the refinement theorems say something: `tv, print` + append `tv` = `print, tv` -/
example :
    let m := (({} : ML).setMediaText false true [tIdent wTv, tChar cComma, tSpace, tIdent wPrint]).1
    NoComments m.seq ∧ CanonV (view m.seq) ∧
    specAppend (view m.seq) (.simple wTv) = some [.simple wPrint, .simple wTv] ∧
    (m.appendMedium false (some [tIdent wTv])).1.iterTypes = [wPrint, wTv] := by
  refine ⟨by decide, ⟨by decide, by decide⟩, by decide, by decide⟩

/-- a query with features is accepted and keeps its tokens -/
example : ∃ q, parseQ {} [tIdent wTv, tSpace, tIdent wAnd, tSpace, tChar cOpen, tIdent wColor, tChar cClose] = .ok q ∧
    q.toks.length = 5 := ⟨_, rfl, rfl⟩

/-- a valid AST: `not tv and (color: #fff) and (x)` -/
example : (QAst.typed (some (tIdent [110, 111, 116])) (tIdent wTv)
    [(tIdent wAnd, ⟨tIdent wColor, some { typ := .hash, val := [35, 102, 102, 102] }⟩),
     (tIdent wAnd, ⟨tIdent [120], none⟩)]).Valid := by
  refine ⟨?_, rfl, by decide, ?_⟩
  · intro p hp; cases hp; exact ⟨rfl, by decide⟩
  · intro p hp
    simp at hp
    rcases hp with rfl | rfl
    · refine ⟨rfl, by decide, rfl, ?_⟩
      intro v hv; cases hv; exact ⟨.color, by decide⟩
    · exact ⟨rfl, by decide, rfl, by intro v hv; cases hv⟩

/-- `setMediaType_result_reparses` says something: `/*c*/ (color)` is accepted and `tv` is a known type -/
example : (∃ q, parseQ {} [tComment wComment, tSpace, tChar cOpen, tIdent wColor, tChar cClose] = .ok q) ∧
    isMediaType wTv = true := ⟨⟨_, rfl⟩, by decide⟩

/-- the hypotheses of `setMediaType_changes_type_only` are satisfiable, with a prefix and with a leading expression -/
example : (QAst.typed (some (tIdent [110, 111, 116])) (tIdent wTv) []).Valid ∧
    (QAst.untyped ⟨tIdent wColor, none⟩ []).Valid ∧ isMediaType wPRINT = true := by
  refine ⟨⟨?_, rfl, by decide, ?_⟩, ⟨⟨rfl, ?_⟩, ?_⟩, by decide⟩
  · intro p hp; cases hp; exact ⟨rfl, by decide⟩
  · intro p hp; cases hp
  · intro v hv; cases hv
  · intro p hp; cases hp

end CssVerif.C17
