/-!
# `Re` — regular expressions with CPython-`re` (sre) prioritised backtracking semantics

`Re.ms r s` is the list of **all match lengths of `r` at the start of `s`, in the order in which
a backtracking matcher would find them** (first element = what `pattern.match(s)` returns).
Code points are `Nat`. Case-insensitive patterns are folded into the classes by the translator,
a leading `^` is dropped by the translator (`match` is anchored), `eol` is `$` (end of input or
just before a final line feed).

Core Lean only (drivers link this file).
-/
namespace CssVerif

inductive Re where
  | eps : Re
  | cls (neg : Bool) (ranges : List (Nat × Nat)) : Re
  | seq (a b : Re) : Re
  | alt (a b : Re) : Re
  | star (a : Re) (greedy : Bool) : Re
  | rep (a : Re) (min max : Nat) (greedy : Bool) : Re
  | eol : Re
deriving Repr, BEq, DecidableEq, Inhabited

namespace Re

def inCls (neg : Bool) (rs : List (Nat × Nat)) (c : Nat) : Bool :=
  (rs.any fun p => p.1 ≤ c && c ≤ p.2) != neg

/-- unbounded repetition; `fuel = |s| + 1` is enough because empty iterations are dropped (as sre does). -/
def starMs (f : List Nat → List Nat) (greedy : Bool) : Nat → List Nat → List Nat
  | 0, _ => [0]
  | fuel + 1, s =>
    let more := ((f s).filter (· > 0)).flatMap fun l1 => (starMs f greedy fuel (s.drop l1)).map (l1 + ·)
    if greedy then more ++ [0] else 0 :: more

def repMs (f : List Nat → List Nat) (greedy : Bool) : Nat → Nat → List Nat → List Nat
  | m, 0, _ => if m = 0 then [0] else []
  | m, n + 1, s =>
    let more := (f s).flatMap fun l1 => (repMs f greedy (m - 1) n (s.drop l1)).map (l1 + ·)
    if m = 0 then (if greedy then more ++ [0] else 0 :: more) else more

def ms : Re → List Nat → List Nat
  | .eps, _ => [0]
  | .cls neg rs, s => match s with
      | c :: _ => if inCls neg rs c then [1] else []
      | [] => []
  | .seq a b, s => (a.ms s).flatMap fun l1 => (b.ms (s.drop l1)).map (l1 + ·)
  | .alt a b, s => a.ms s ++ b.ms s
  | .star a g, s => starMs a.ms g (s.length + 1) s
  | .rep a m n g, s => repMs a.ms g m n s
  | .eol, s => if s = [] ∨ s = [10] then [0] else []

/-- `pattern.match(s)` : length of the match, if any. -/
def first (r : Re) (s : List Nat) : Option Nat := (r.ms s).head?

/-- `pattern.fullmatch(s)` / `^…$`-anchored match of the whole string. -/
def full (r : Re) (s : List Nat) : Bool := (r.ms s).contains s.length

/-- literal string -/
def lit : List Nat → Re
  | [] => .eps
  | [c] => .cls false [(c, c)]
  | c :: cs => .seq (.cls false [(c, c)]) (lit cs)

/-! ## Boundedness: a match never reads past the input -/

def Bounded (f : List Nat → List Nat) : Prop := ∀ s l, l ∈ f s → l ≤ s.length

theorem starMs_bounded {f} (hf : Bounded f) (g : Bool) : ∀ fuel, Bounded (starMs f g fuel) := by
  intro fuel
  induction fuel with
  | zero => intro s l h; simp [starMs] at h; omega
  | succ n ih =>
    intro s l h
    have key : ∀ l, l ∈ (((f s).filter (· > 0)).flatMap fun l1 =>
        (starMs f g n (s.drop l1)).map (l1 + ·)) → l ≤ s.length := by
      intro l hl
      simp only [List.mem_flatMap, List.mem_filter, List.mem_map] at hl
      rcases hl with ⟨l1, ⟨h1, _⟩, l2, h2, rfl⟩
      have := hf s l1 h1
      have := ih (s.drop l1) l2 h2
      simp at this; omega
    simp only [starMs] at h
    split at h
    · simp only [List.mem_append, List.mem_singleton] at h
      rcases h with h | rfl
      · exact key l h
      · omega
    · simp only [List.mem_cons] at h
      rcases h with rfl | h
      · omega
      · exact key l h

theorem repMs_bounded {f} (hf : Bounded f) (g : Bool) : ∀ n m, Bounded (repMs f g m n) := by
  intro n
  induction n with
  | zero => intro m s l h; simp only [repMs] at h; split at h <;> simp at h; omega
  | succ n ih =>
    intro m s l h
    simp only [repMs] at h
    have key : ∀ l, l ∈ ((f s).flatMap fun l1 => (repMs f g (m-1) n (s.drop l1)).map (l1 + ·)) →
        l ≤ s.length := by
      intro l hl
      simp only [List.mem_flatMap, List.mem_map] at hl
      rcases hl with ⟨l1, h1, l2, h2, rfl⟩
      have := hf s l1 h1
      have := ih (m-1) (s.drop l1) l2 h2
      simp at this; omega
    split at h
    · split at h
      · simp only [List.mem_append, List.mem_singleton] at h
        rcases h with h | rfl
        · exact key l h
        · omega
      · simp only [List.mem_cons] at h
        rcases h with rfl | h
        · omega
        · exact key l h
    · exact key l h

theorem ms_bounded : ∀ r : Re, Bounded r.ms := by
  intro r
  induction r with
  | eps => intro s l h; simp [ms] at h; omega
  | cls neg rs =>
    intro s l h
    cases s with
    | nil => simp [ms] at h
    | cons c t => simp only [ms] at h; split at h <;> simp at h; subst h; simp
  | seq a b iha ihb =>
    intro s l h
    simp only [ms, List.mem_flatMap, List.mem_map] at h
    rcases h with ⟨l1, h1, l2, h2, rfl⟩
    have := iha s l1 h1
    have := ihb (s.drop l1) l2 h2
    simp at this; omega
  | alt a b iha ihb =>
    intro s l h
    simp only [ms, List.mem_append] at h
    rcases h with h | h
    · exact iha s l h
    · exact ihb s l h
  | star a g iha => intro s l h; exact starMs_bounded iha g _ s l h
  | rep a m n g iha => intro s l h; exact repMs_bounded iha g n m s l h
  | eol => intro s l h; simp only [ms] at h; split at h <;> simp at h; omega

theorem first_bounded (r : Re) (s : List Nat) (l : Nat) (h : r.first s = some l) : l ≤ s.length := by
  unfold first at h
  have : l ∈ r.ms s := by
    cases hm : r.ms s with
    | nil => simp [hm] at h
    | cons x xs => simp [hm] at h; subst h; simp
  exact ms_bounded r s l this

/-! ## Non-nullable patterns never match the empty string (syntactic, sound) -/

/-- `true` only if `r` cannot match with length 0. -/
def nonNullable : Re → Bool
  | .eps => false
  | .cls _ _ => true
  | .seq a b => a.nonNullable || b.nonNullable
  | .alt a b => a.nonNullable && b.nonNullable
  | .star _ _ => false
  | .rep a m _ _ => a.nonNullable && decide (0 < m)
  | .eol => false

theorem repMs_pos {f} (hf : ∀ s l, l ∈ f s → 0 < l) (g : Bool) :
    ∀ n m s l, 0 < m → l ∈ repMs f g m n s → 0 < l := by
  intro n
  induction n with
  | zero =>
    intro m s l hm h
    have hm0 : ¬ m = 0 := by omega
    simp [repMs, hm0] at h
  | succ n _ =>
    intro m s l hm h
    simp only [repMs] at h
    have hm0 : ¬ m = 0 := by omega
    simp only [hm0, if_false, List.mem_flatMap, List.mem_map] at h
    rcases h with ⟨l1, h1, l2, _, rfl⟩
    have := hf s l1 h1
    omega

/-- soundness of the syntactic check -/
theorem nonNullable_sound : ∀ r : Re, r.nonNullable = true → ∀ s l, l ∈ r.ms s → 0 < l := by
  intro r
  induction r with
  | eps => intro h; simp [nonNullable] at h
  | cls neg rs =>
    intro _ s l h
    cases s with
    | nil => simp [ms] at h
    | cons c t => simp only [ms] at h; split at h <;> simp at h; omega
  | seq a b iha ihb =>
    intro hn s l h
    simp only [nonNullable, Bool.or_eq_true] at hn
    simp only [ms, List.mem_flatMap, List.mem_map] at h
    rcases h with ⟨l1, h1, l2, h2, rfl⟩
    rcases hn with hn | hn
    · have := iha hn s l1 h1; omega
    · have := ihb hn _ l2 h2; omega
  | alt a b iha ihb =>
    intro hn s l h
    simp only [nonNullable, Bool.and_eq_true] at hn
    simp only [ms, List.mem_append] at h
    rcases h with h | h
    · exact iha hn.1 s l h
    · exact ihb hn.2 s l h
  | star a g _ => intro h; simp [nonNullable] at h
  | rep a m n g iha =>
    intro hn s l h
    simp only [nonNullable, Bool.and_eq_true, decide_eq_true_eq] at hn
    exact repMs_pos (iha hn.1) g n m s l hn.2 h
  | eol => intro h; simp [nonNullable] at h

theorem first_pos (r : Re) (hn : r.nonNullable = true) (s : List Nat) (l : Nat)
    (h : r.first s = some l) : 0 < l := by
  unfold first at h
  have : l ∈ r.ms s := by
    cases hm : r.ms s with
    | nil => simp [hm] at h
    | cons x xs => simp [hm] at h; subst h; simp
  exact nonNullable_sound r hn s l this

end Re
end CssVerif
