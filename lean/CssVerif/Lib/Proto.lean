/-!
# Line protocol helpers (core Lean only — every driver executable links this)

Strings travel as dot-separated upper-case hex code points (`61.62.1F600`); the empty string is `-`.
Python strings may hold lone surrogates and NULs, which is why models work on `List Nat`.
-/
namespace CssVerif.Proto

abbrev Cps := List Nat

def hexDigit? (c : Char) : Option Nat :=
  if '0' ≤ c ∧ c ≤ '9' then some (c.toNat - '0'.toNat)
  else if 'a' ≤ c ∧ c ≤ 'f' then some (c.toNat - 'a'.toNat + 10)
  else if 'A' ≤ c ∧ c ≤ 'F' then some (c.toNat - 'A'.toNat + 10)
  else none

def hexNat? (s : String) : Option Nat :=
  if s.isEmpty then none
  else s.toList.foldl (fun acc c => match acc, hexDigit? c with
    | some a, some d => some (a * 16 + d)
    | _, _ => none) (some 0)

/-- `61.62` ↦ `[0x61, 0x62]`; `-` ↦ `[]`; malformed ↦ `none`. -/
def decCps (s : String) : Option Cps :=
  if s == "-" then some []
  else (s.splitOn ".").foldr (fun w acc => match hexNat? w, acc with
    | some n, some l => some (n :: l)
    | _, _ => none) (some [])

def hexChars : Array Char := #['0','1','2','3','4','5','6','7','8','9','A','B','C','D','E','F']

def natHex (n : Nat) : String :=
  if n = 0 then "0" else
  let rec go (fuel n : Nat) (acc : List Char) : List Char :=
    match fuel with
    | 0 => acc
    | fuel + 1 => if n = 0 then acc else go fuel (n / 16) (hexChars[n % 16]! :: acc)
  String.ofList (go 64 n [])

def encCps (l : Cps) : String :=
  if l.isEmpty then "-" else ".".intercalate (l.map natHex)

/-- ASCII text to code points (for constants in models). -/
def cps (s : String) : Cps := s.toList.map Char.toNat

/-- code points to a Lean string, for messages only (invalid scalars become U+FFFD). -/
def showCps (l : Cps) : String :=
  String.ofList (l.map fun n => if h : n.isValidChar then Char.ofNatAux n h else '�')

def words (line : String) : List String :=
  (line.splitOn " ").filter (· ≠ "")

/-- Read stdin line by line, reply with `handle line` on stdout. A state-free protocol. -/
partial def serve (handle : String → String) : IO Unit := do
  let stdin ← IO.getStdin
  let stdout ← IO.getStdout
  let rec loop : IO Unit := do
    let line ← stdin.getLine
    if line.isEmpty then return ()
    let l := (line.dropEndWhile (fun c => c == '\n' || c == '\r')).toString
    stdout.putStrLn (handle l)
    loop
  loop
  stdout.flush

/-- Stateful variant: `step st line = (st', reply)`. -/
partial def serveSt {σ : Type} (init : σ) (step : σ → String → σ × String) : IO Unit := do
  let stdin ← IO.getStdin
  let stdout ← IO.getStdout
  let rec loop (st : σ) : IO Unit := do
    let line ← stdin.getLine
    if line.isEmpty then return ()
    let l := (line.dropEndWhile (fun c => c == '\n' || c == '\r')).toString
    let r := step st l
    stdout.putStrLn r.2
    loop r.1
  loop init
  stdout.flush

end CssVerif.Proto
