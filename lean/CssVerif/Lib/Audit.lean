import Lean
/-!
`#audit_module M` prints, for every theorem declared in module `M` (no auxiliary/internal names),
one line `AUDIT <name> :: <axiom> <axiom> …` — the transitive axioms the kernel-checked proof depends on.
The Python side parses these lines; allowed axioms are `propext`, `Classical.choice`, `Quot.sound`.
Not imported by any model or driver.
-/
open Lean Elab Command

elab "#audit_module " m:ident : command => do
  let env ← getEnv
  let some idx := env.getModuleIdx? m.getId
    | throwError "module {m.getId} is not imported"
  let mut names : Array Name := #[]
  for (n, ci) in env.constants.map₁.toList do
    if env.getModuleIdxFor? n == some idx then
      match ci with
      | .thmInfo _ =>
        if !n.isInternalDetail && !(n.toString.splitOn "._").length > 1 then
          names := names.push n
      | _ => pure ()
  let sorted := names.qsort (fun a b => a.toString < b.toString)
  for n in sorted do
    let axs ← collectAxioms n
    let axs := axs.qsort (fun a b => a.toString < b.toString)
    logInfo m!"AUDIT {n} :: {" ".intercalate (axs.toList.map (·.toString))}"
