"""design-time functional mirror of util.Base._tokensupto2 + declaration block + sheet dispatcher (structure level)"""
import sys
sys.path.insert(0,'/repo')
import cssutils, logging, random
cssutils.log.setLevel(logging.FATAL); cssutils.log.raiseExceptions=False
from cssutils.tokenize2 import Tokenizer
from cssutils import css

def upto(toks, mode='default', start=None):
    """returns (result, rest). toks is a list."""
    ends=';}'; endtypes=(); brace=bracket=parant=0
    if mode=='blockstart': ends='{'; brace=-1
    elif mode in ('blockend','mediaend'): ends='}'; brace=1
    elif mode=='importmq': ends=';'; endtypes=('STRING',)
    elif mode=='mq': ends='{'; brace=-1; endtypes=('STRING',)
    elif mode=='semicolon': ends=';'
    elif mode=='propname': ends=':;'
    elif mode=='propvalue': ends=';!'
    elif mode=='propprio': ends=';'
    elif mode=='selatt':
        ends=']'
        if start and start[1]=='[': bracket=1
    elif mode=='funcend': ends=')'; parant=1
    elif mode=='listsep': ends=','
    res=[]
    if start:
        res.append(start); v=start[1]
        if v=='[': bracket+=1
        elif v=='{': brace+=1
        elif v=='(': parant+=1
    i=0
    while i < len(toks):
        t=toks[i]; i+=1
        typ,val=t[0],t[1]
        if typ=='EOF': res.append(t); break
        if val=='{': brace+=1
        elif val=='}': brace-=1
        elif val=='[': bracket+=1
        elif val==']': bracket-=1
        elif val=='(' or typ=='FUNCTION': parant+=1
        elif val==')': parant-=1
        res.append(t)
        if brace==bracket==parant==0 and (val in ends or typ in endtypes): break
        elif mode=='mq' and brace==-1 and bracket==parant==0 and typ in endtypes: break
    return res, toks[i:]

def decl_block(toks):
    """returns list of accepted property token-lists (as cssText of real Property) mirroring CSSStyleDeclaration._setCssText"""
    out=[]
    while toks:
        t=toks[0]; toks=toks[1:]
        typ=t[0]
        if typ=='IDENT':
            ts, toks = upto(toks, 'semicolon', start=t)
            if ts[-1][1]==';': ts=ts[:-1]
            p = css.Property(); p.cssText = list(ts)
            if p.wellformed: out.append((p.name, p.value, p.priority))
        elif typ in ('S','EOF'): pass
        elif typ=='COMMENT': pass
        elif typ=='ATKEYWORD':
            ts, toks = upto(toks, 'default', start=t)   # default ATKEYWORD production consumes an unknown rule
        elif typ=='CHAR' and t[1]==';': pass
        else:
            _, toks = upto(toks, 'propvalue')             # unexpected(): NO start token
    return out

T = Tokenizer()
def real_decls(text):
    st = css.CSSStyleDeclaration(); st.cssText = text
    return [(p.name,p.value,p.priority) for p in st.getProperties(all=True)]
def mine_decls(text):
    return decl_block(list(T.tokenize(text)))

# sheet dispatcher
KIND = {'CHARSET_SYM':'charset','IMPORT_SYM':'import','NAMESPACE_SYM':'namespace','VARIABLES_SYM':'variables','FONT_FACE_SYM':'fontface','MEDIA_SYM':'media','PAGE_SYM':'page','ATKEYWORD':'unknown'}
def sheet(toks):
    """returns list of kinds inserted, using real rule classes as well-formedness oracles"""
    out=[]; expected=0
    sh = css.CSSStyleSheet()
    while toks:
        t=toks[0]; toks=toks[1:]
        typ=t[0]
        if typ=='S': expected=max(1,expected); continue
        if typ=='COMMENT': out.append('comment'); expected=max(1,expected); continue
        if typ in ('CDO','CDC'): expected=None if False else expected; continue
        if typ=='EOF': continue
        ts, toks = upto(toks, 'default', start=t)
        k = KIND.get(typ, 'style')
        if k=='charset':
            r=css.CSSCharsetRule(); r.cssText=list(ts)
            if expected>0: continue
            if r.wellformed: out.append(k)
            expected=1
        elif k=='import':
            r=css.CSSImportRule(); r.cssText=list(ts)
            if expected>1: continue
            if r.wellformed: out.append(k)
            expected=1
        elif k=='namespace':
            r=css.CSSNamespaceRule(cssText=list(ts))
            if expected>2: continue
            if r.wellformed: out.append(k)
            expected=2
        elif k=='variables':
            r=css.CSSVariablesRule(); r.cssText=list(ts)
            if expected>2: continue
            if r.wellformed: out.append(k)
            expected=2
        elif k in ('fontface','media','page','style'):
            cls={'fontface':css.CSSFontFaceRule,'media':css.CSSMediaRule,'page':css.CSSPageRule,'style':css.CSSStyleRule}[k]
            r=cls(); r.cssText=list(ts)
            if r.wellformed: out.append(k)
            expected=3
        elif k=='unknown':
            if t[1] in css.MarginRule.margins: r=css.MarginRule()
            else: r=css.CSSUnknownRule()
            r.cssText=list(ts)
            if r.wellformed: out.append('margin' if isinstance(r, css.MarginRule) else 'unknown')
            expected=max(1,expected)
    return out
NAMES={0:'unknown',1:'style',2:'charset',3:'import',4:'media',5:'fontface',6:'page',10:'namespace',1001:'comment',1008:'variables',1006:'margin'}
def real_sheet(text):
    s = cssutils.parseString(text)
    return [NAMES[r.type] for r in s.cssRules]
def mine_sheet(text):
    return sheet(list(T.tokenize(text, fullsheet=True)))
