"""prototype translator: python regex (as parsed by re._parser) -> Lean Re term + python-side reference evaluator of the SAME semantics"""
import re, sys
import re._parser as sp
from re._constants import *

class Unsupported(Exception): pass

def conv(p, flags):
    """returns nested tuple AST: ('eps',) ('cls',neg,[(lo,hi)]) ('seq',a,b) ('alt',a,b) ('star',a,greedy) ('rep',a,m,n,greedy)"""
    items = [conv1(op, av, flags) for op, av in p]
    r = ('eps',)
    for it in reversed(items):
        r = it if r == ('eps',) else ('seq', it, r)
    return r

def fold_ranges(rs, flags):
    if not (flags & re.I): return rs
    out = list(rs)
    for lo, hi in rs:
        for c in range(max(lo,65), min(hi,90)+1): out.append((c+32,c+32))
        for c in range(max(lo,97), min(hi,122)+1): out.append((c-32,c-32))
    return out

CATS = {
    CATEGORY_DIGIT: [(48,57)],
    CATEGORY_SPACE: [(9,13),(28,31),(32,32),(133,133),(160,160),(5760,5760),(8192,8202),(8232,8233),(8239,8239),(8287,8287),(12288,12288)],
}
def conv1(op, av, flags):
    if op is LITERAL: return ('cls', False, fold_ranges([(av,av)], flags))
    if op is NOT_LITERAL: return ('cls', True, fold_ranges([(av,av)], flags))
    if op is ANY:
        if flags & re.S: return ('cls', True, [])
        return ('cls', True, [(10,10)])
    if op is IN:
        neg = False; rs=[]
        for o,a in av:
            if o is NEGATE: neg=True
            elif o is LITERAL: rs.append((a,a))
            elif o is RANGE: rs.append(a)
            elif o is CATEGORY:
                if a in CATS: rs += CATS[a]
                else: raise Unsupported(str(a))
            else: raise Unsupported(str(o))
        return ('cls', neg, fold_ranges(rs, flags))
    if op is BRANCH:
        alts = [conv(b, flags) for b in av[1]]
        r = alts[-1]
        for a in reversed(alts[:-1]): r = ('alt', a, r)
        return r
    if op is SUBPATTERN:
        return conv(av[3], flags)
    if op in (MAX_REPEAT, MIN_REPEAT):
        lo, hi, body = av
        b = conv(body, flags)
        greedy = op is MAX_REPEAT
        if hi is MAXREPEAT:
            r = ('star', b, greedy)
            for _ in range(lo): r = ('seq', b, r)
            return r
        return ('rep', b, lo, hi, greedy)
    raise Unsupported(str(op))

def parse(pattern, flags=0):
    p = sp.parse(pattern, flags)
    return conv(p, p.state.flags)

# reference evaluator (python mirror of the Lean semantics)
def incls(neg, rs, c):
    return any(lo<=c<=hi for lo,hi in rs) != neg
def ms(r, s, i):
    """list of end positions in priority order"""
    k = r[0]
    if k=='eps': return [i]
    if k=='cls':
        return [i+1] if i < len(s) and incls(r[1], r[2], s[i]) else []
    if k=='seq':
        out=[]
        for j in ms(r[1], s, i): out += ms(r[2], s, j)
        return out
    if k=='alt': return ms(r[1], s, i) + ms(r[2], s, i)
    if k=='star':
        a, greedy = r[1], r[2]
        more=[]
        for j in ms(a, s, i):
            if j > i: more += ms(r, s, j)
        return more+[i] if greedy else [i]+more
    if k=='rep':
        a, m, n, greedy = r[1:]
        if n == 0: return [i]
        more=[]
        for j in ms(a, s, i):
            more += ms(('rep', a, max(m-1,0), n-1, greedy), s, j)
        if m == 0: return more+[i] if greedy else [i]+more
        return more

def first(r, s, i=0):
    l = ms(r, s, i)
    return l[0] if l else None

def tolean(r):
    k=r[0]
    if k=='eps': return 'Re.eps'
    if k=='cls': return '(Re.cls %s [%s])' % ('true' if r[1] else 'false', ', '.join('(%d,%d)'%x for x in r[2]))
    if k=='seq': return '(Re.seq %s %s)' % (tolean(r[1]), tolean(r[2]))
    if k=='alt': return '(Re.alt %s %s)' % (tolean(r[1]), tolean(r[2]))
    if k=='star': return '(Re.star %s)' % tolean(r[1])
    if k=='rep': return '(Re.rep %s %d %d)' % (tolean(r[1]), r[2], r[3])
