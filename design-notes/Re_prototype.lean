/-! prototype: regex with Python-style prioritized backtracking semantics -/
inductive Re where
  | eps : Re
  | cls : (neg : Bool) → List (Nat × Nat) → Re
  | seq : Re → Re → Re
  | alt : Re → Re → Re
  | star : Re → Re
  | rep : Re → Nat → Nat → Re
deriving Repr

def inCls (neg : Bool) (rs : List (Nat × Nat)) (c : Char) : Bool :=
  (rs.any fun (lo, hi) => lo ≤ c.toNat && c.toNat ≤ hi) != neg

def starMs (f : List Char → List Nat) : Nat → List Char → List Nat
  | 0, _ => [0]
  | fuel+1, s =>
    ((f s).filter (· > 0)).flatMap (fun l1 => (starMs f fuel (s.drop l1)).map (l1 + ·)) ++ [0]

def repMs (f : List Char → List Nat) : Nat → Nat → List Char → List Nat
  | _, 0, _ => [0]
  | m, n+1, s =>
    let more := (f s).flatMap fun l1 => (repMs f (m-1) n (s.drop l1)).map (l1 + ·)
    if m = 0 then more ++ [0] else more

def Re.ms : Re → List Char → List Nat
  | .eps, _ => [0]
  | .cls neg rs, s => match s with
      | c :: _ => if inCls neg rs c then [1] else []
      | [] => []
  | .seq a b, s => (a.ms s).flatMap fun l1 => (b.ms (s.drop l1)).map (l1 + ·)
  | .alt a b, s => a.ms s ++ b.ms s
  | .star a, s => starMs a.ms (s.length + 1) s
  | .rep a m n, s => repMs a.ms m n s

def Re.first (r : Re) (s : List Char) : Option Nat := (r.ms s).head?

/-- bounded: every reported length fits in the input -/
def Bounded (f : List Char → List Nat) : Prop := ∀ s l, l ∈ f s → l ≤ s.length

theorem starMs_bounded {f} (hf : Bounded f) : ∀ fuel, Bounded (starMs f fuel) := by
  intro fuel
  induction fuel with
  | zero => intro s l h; simp [starMs] at h; omega
  | succ n ih =>
    intro s l h
    simp only [starMs, List.mem_append, List.mem_flatMap, List.mem_filter, List.mem_map,
      List.mem_singleton] at h
    rcases h with ⟨l1, ⟨h1, _⟩, l2, h2, rfl⟩ | rfl
    · have := hf s l1 h1
      have := ih (s.drop l1) l2 h2
      simp at this; omega
    · omega

theorem repMs_bounded {f} (hf : Bounded f) : ∀ n m, Bounded (repMs f m n) := by
  intro n
  induction n with
  | zero => intro m s l h; simp [repMs] at h; omega
  | succ n ih =>
    intro m s l h
    simp only [repMs] at h
    have key : ∀ l, l ∈ ((f s).flatMap fun l1 => (repMs f (m-1) n (s.drop l1)).map (l1 + ·)) → l ≤ s.length := by
      intro l hl
      simp only [List.mem_flatMap, List.mem_map] at hl
      rcases hl with ⟨l1, h1, l2, h2, rfl⟩
      have := hf s l1 h1
      have := ih (m-1) (s.drop l1) l2 h2
      simp at this; omega
    split at h
    · simp only [List.mem_append, List.mem_singleton] at h
      rcases h with h | rfl
      · exact key l h
      · omega
    · exact key l h

theorem Re.ms_bounded : ∀ r : Re, Bounded r.ms := by
  intro r
  induction r with
  | eps => intro s l h; simp [Re.ms] at h; omega
  | cls neg rs =>
    intro s l h
    cases s with
    | nil => simp [Re.ms] at h
    | cons c t => simp only [Re.ms] at h; split at h <;> simp at h; subst h; simp
  | seq a b iha ihb =>
    intro s l h
    simp only [Re.ms, List.mem_flatMap, List.mem_map] at h
    rcases h with ⟨l1, h1, l2, h2, rfl⟩
    have := iha s l1 h1
    have := ihb (s.drop l1) l2 h2
    simp at this; omega
  | alt a b iha ihb =>
    intro s l h
    simp only [Re.ms, List.mem_append] at h
    rcases h with h | h
    · exact iha s l h
    · exact ihb s l h
  | star a iha => intro s l h; exact starMs_bounded iha _ s l h
  | rep a m n iha => intro s l h; exact repMs_bounded iha n m s l h

#eval (Re.seq (Re.star (Re.cls false [(97,122)])) (Re.cls false [(40,40)])).ms "abc(1".toList
#print axioms Re.ms_bounded
