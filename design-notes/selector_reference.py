"""design-time functional mirror of Selector._prepare_tokens + New state machine (written from the reading, not copied)"""
C = dict(
 S=' ',
 sss='type_selector universal HASH class attrib pseudo negation ',
 sss2='HASH class attrib pseudo negation ',
 element_name='element_name',
 negation_arg='type_selector universal HASH class attrib pseudo',
 negationend=')',
 attname='prefix attribute', attname2='attribute', attcombinator='combinator ]', attvalue='value', attend=']',
 expressionstart='PLUS - DIMENSION NUMBER STRING IDENT',
 combinator=' combinator')
C['expression'] = C['expressionstart'] + ' )'
ANY = -1
def normalize(x):
    import re
    return re.sub(r'\\([^0-9a-fA-F])', r'\1', x).lower() if x else x
def prepare(toks):
    out=[]
    for t in toks:
        typ,val=t[0],t[1]
        last = out[-1] if out else None
        lv = last[1] if last else None
        if val==':' and last and lv==':': out[-1]=(typ,'::')
        elif typ=='IDENT' and last and lv=='.': out[-1]=('class','.'+val)
        elif typ=='IDENT' and last and lv.startswith(':') and not lv.endswith('('):
            out[-1]=('pseudo-element' if lv.startswith('::') else 'pseudo-class', lv+val)
        elif typ=='FUNCTION' and val=='not(' and last and lv==':': out[-1]=('negation', ':'+val)
        elif typ=='FUNCTION' and last and lv.startswith(':'):
            out[-1]=('pseudo-element' if lv.startswith('::') else 'pseudo-class', lv+val)
        elif val=='*' and last and last[0]=='namespace_prefix' and lv.endswith('|'): out[-1]=('universal', lv+val)
        elif val=='*': out.append(('universal', val))
        elif val=='|' and last and last[0] in ('IDENT','universal') and '|' not in lv: out[-1]=('namespace_prefix', lv+'|')
        elif val=='|': out.append(('namespace_prefix', val))
        else: out.append((typ,val))
    return out

class St:
    def __init__(s, ns): s.ctx=['']; s.prefix=None; s.spec=[0,0,0,0]; s.ok=True; s.seq=[]; s.ns=ns; s.element=None
def append(st, val, typ):
    ctx = st.ctx[-1]
    if typ=='_PREFIX': st.prefix = val[:-1]; return
    if st.prefix is not None: prefix, st.prefix = st.prefix, None
    elif typ=='universal' and '|' in val: prefix, val = val.split('|')
    else: prefix=None
    if (typ.endswith('-selector') or typ=='universal') and not (typ=='attribute-selector' and not prefix):
        if prefix=='*': uri=ANY
        elif prefix is None: uri=st.ns.get('', None)
        elif prefix=='': uri=''
        else:
            uri = st.ns.get(prefix)
            if uri is None: st.ok=False; return
        val=(uri,val)
    if not ctx or ctx=='negation':
        if typ=='id': st.spec[1]+=1
        elif typ=='class' or val=='[': st.spec[2]+=1
        elif typ in ('type-selector','negation-type-selector','pseudo-element'): st.spec[3]+=1
    if not ctx and typ in ('type-selector','universal'): st.element=val
    st.seq.append((val,typ))
def err(st, exp): st.ok=False; return exp
def step(st, exp, tok):
    typ,val=tok; ctx=st.ctx[-1]
    if typ=='COMMENT': append(st, '/*c*/', 'COMMENT'); return exp
    if typ=='S':
        if ctx.startswith('pseudo-'):
            if st.seq and st.seq[-1][0] not in '+-': append(st, ' ', 'S')
            return exp
        elif ctx!='attrib' and 'combinator' in exp:
            append(st,' ','descendant'); return C['sss']+C['combinator']
        return exp
    if typ=='universal':
        if 'universal' in exp:
            append(st,val,'universal')
            return C['negationend'] if ctx=='negation' else C['sss2']+C['combinator']
        return err(st,exp)
    if typ=='namespace_prefix':
        if ctx=='attrib' and 'prefix' in exp: append(st,val,'_PREFIX'); return C['attname2']
        elif 'type_selector' in exp: append(st,val,'_PREFIX'); return C['element_name']
        return err(st,exp)
    if typ in ('pseudo-class','pseudo-element'):
        v=normalize(val)
        if 'pseudo' in exp:
            if v in (':first-line',':first-letter',':before',':after'): typ='pseudo-element'
            append(st,v,typ)
            if v.endswith('('): st.ctx.append(typ); return C['expressionstart']
            elif ctx=='negation': return C['negationend']
            elif typ=='pseudo-element': return C['combinator']
            else: return C['sss2']+C['combinator']
        return err(st,exp)
    if typ in ('NUMBER','DIMENSION'):
        if ctx.startswith('pseudo-'): append(st,val,typ); return C['expression']
        return err(st,exp)
    if typ in ('PREFIXMATCH','SUFFIXMATCH','SUBSTRINGMATCH','DASHMATCH','INCLUDES'):
        if ctx=='attrib' and 'combinator' in exp: append(st,val,typ.lower()); return C['attvalue']
        return err(st,exp)
    if typ=='STRING':
        sv = val.replace('\\'+val[0], val[0])[1:-1]
        if ctx=='attrib' and 'value' in exp: append(st,sv,typ); return C['attend']
        elif ctx.startswith('pseudo-'): append(st,sv,typ); return C['expression']
        return err(st,exp)
    if typ=='IDENT':
        if ctx=='attrib' and 'attribute' in exp: append(st,val,'attribute-selector'); return C['attcombinator']
        elif ctx=='attrib' and 'value' in exp: append(st,val,'attribute-value'); return C['attend']
        elif ctx=='negation': append(st,val,'negation-type-selector'); return C['negationend']
        elif ctx.startswith('pseudo-'): append(st,val,typ); return C['expression']
        elif 'type_selector' in exp or exp==C['element_name']: append(st,val,'type-selector'); return C['sss2']+C['combinator']
        return err(st,exp)
    if typ=='class':
        if 'class' in exp:
            append(st,val,'class'); return C['negationend'] if ctx=='negation' else C['sss2']+C['combinator']
        return err(st,exp)
    if typ=='HASH':
        if 'HASH' in exp:
            append(st,val,'id'); return C['negationend'] if ctx=='negation' else C['sss2']+C['combinator']
        return err(st,exp)
    if typ=='negation':
        if 'negation' in exp:
            st.ctx.append('negation'); append(st,normalize(val),'negation-start'); return C['negation_arg']
        return err(st,exp)
    if typ=='ATKEYWORD': return err(st,exp)
    if typ=='CHAR':
        if val==']' and ctx=='attrib' and ']' in exp:
            append(st,val,'attribute-end'); st.ctx.pop(); ctx=st.ctx[-1]
            return C['negationend'] if ctx=='negation' else C['sss2']+C['combinator']
        if val=='=' and ctx=='attrib' and 'combinator' in exp: append(st,val,'equals'); return C['attvalue']
        if val==')' and ctx=='negation' and ')' in exp:
            append(st,val,'negation-end'); st.ctx.pop(); return C['sss']+C['combinator']
        if val in '+-' and ctx.startswith('pseudo-'):
            nm={'+':'plus','-':'minus'}[val]
            if val=='+' and st.seq and st.seq[-1][0]==' ': st.seq[-1]=(val,nm)
            else: append(st,val,nm)
            return C['expression']
        if val==')' and ctx.startswith('pseudo-') and exp==C['expression']:
            append(st,val,'function-end'); st.ctx.pop()
            return C['combinator'] if ctx=='pseudo-element' else C['sss']+C['combinator']
        if val=='[' and 'attrib' in exp:
            append(st,val,'attribute-start'); st.ctx.append('attrib'); return C['attname']
        if val in '+>~' and 'combinator' in exp:
            nm={'>':'child','+':'adjacent-sibling','~':'following-sibling'}[val]
            if st.seq and st.seq[-1][0]==' ': st.seq[-1]=(val,nm)
            else: append(st,val,nm)
            return C['sss']
        return err(st,exp)
    # no production: Base._parse logs error, wellformed False, expected unchanged
    st.ok=False
    return exp
def parse_sel(toks, ns):
    st=St(ns); exp=C['sss']
    toks=[t for t in toks]
    for t in prepare(toks):
        if t[0]=='EOF': exp='EOF'; continue
        exp=step(st,exp,t)
    ok=st.ok
    if len(st.ctx)>1 or not st.seq: ok=False
    if exp=='element_name': ok=False
    if exp==C['sss'] and st.seq: ok=False
    if st.seq and isinstance(st.seq[-1][0], str) and st.seq[-1][0].strip()=='' : st.seq.pop()
    return ok, tuple(st.spec), st.seq
