/-! prototype: detectencoding_str over byte classes -/
-- byte classes: 0:EF 1:BB 2:BF 3:FF 4:FE 5:00 6:'@' 7:'c' 8:'h' 9:'a' 10:other
abbrev Cl := Fin 11
def clr (c m : Nat) : Nat := c &&& (1023 ^^^ m)

def mask (l : List Cl) : Nat :=
  let c := 1023
  match l with
  | [] => c
  | b0 :: t =>
    let c := if b0 != 0 then clr c 1 else c
    let c := if b0 != 3 then clr c (32 ||| 2) else c
    let c := if b0 != 4 then clr c 4 else c
    let c := if b0 != 6 then clr c (128 ||| 8 ||| 512) else c
    let c := if b0 != 5 then clr c (64 ||| 256 ||| 16) else c
    match t with
    | [] => c
    | b1 :: t =>
      let c := if b1 != 1 then clr c 1 else c
      let c := if b1 != 4 then clr c (2 ||| 32) else c
      let c := if b1 != 3 then clr c 4 else c
      let c := if b1 != 5 then clr c (8 ||| 64 ||| 128 ||| 256) else c
      let c := if b1 != 6 then clr c 16 else c
      let c := if b1 != 7 then clr c 512 else c
      match t with
      | [] => c
      | b2 :: t =>
        let c := if b2 != 2 then clr c 1 else c
        let c := if b2 != 7 then clr c 8 else c
        let c := if b2 != 5 then clr c (32 ||| 128 ||| 256) else c
        let c := if b2 != 4 then clr c 64 else c
        let c := if b2 != 8 then clr c 512 else c
        match t with
        | [] => c
        | b3 :: _ =>
          let c := if b2 == 5 && b3 == 5 then clr c 2 else c
          let c := if b3 != 5 then clr c (8 ||| 32 ||| 128) else c
          let c := if b3 != 3 then clr c 64 else c
          let c := if b3 != 6 then clr c 256 else c
          let c := if b3 != 9 then clr c 512 else c
          c

inductive Ans | none | utf8 | utf8sig | utf16 | utf16le | utf16be | utf32 | utf32le | utf32be | charset
deriving DecidableEq, Repr

-- result without the @charset scan (charset = "go scan")
def detect (l : List Cl) (final : Bool) : Ans × Bool :=
  let c := mask l
  let li := l.length
  if c == 0 then (.utf8, false)
  else if c &&& (c - 1) == 0 then
    if c == 1 && li ≥ 3 then (.utf8sig, true)
    else if c == 2 && li ≥ 2 then (.utf16, true)
    else if c == 4 && li ≥ 2 then (.utf16, true)
    else if c == 8 && li ≥ 4 then (.utf16le, false)
    else if c == 16 && li ≥ 2 then (.utf16be, false)
    else if c == 32 && li ≥ 4 then (.utf32, true)
    else if c == 64 && li ≥ 4 then (.utf32, true)
    else if c == 128 && li ≥ 4 then (.utf32le, false)
    else if c == 256 && li ≥ 4 then (.utf32be, false)
    else if c == 512 && li ≥ 4 then (.charset, true)
    else if final then (.utf8, false) else (.none, false)
  else if final then (.utf8, false) else (.none, false)

-- prefix stability on the first four bytes: an early answer is never revised
theorem stable1 : ∀ a b : Cl, ∀ f, (detect [a] false).1 ≠ .none → detect [a,b] f = detect [a] false := by decide +kernel
theorem stable2 : ∀ a b c : Cl, ∀ f, (detect [a,b] false).1 ≠ .none → detect [a,b,c] f = detect [a,b] false := by decide +kernel
theorem stable3 : ∀ a b c d : Cl, ∀ f, (detect [a,b,c] false).1 ≠ .none → detect [a,b,c,d] f = detect [a,b,c] false := by decide +kernel
-- BOM first at final
theorem bom16_final : ∀ c d : Cl, (detect [3,4,c,d] true).1 = .utf16 ∨ (detect [3,4,c,d] true).1 = .utf32 := by decide +kernel
#eval detect [3,4] true
#eval detect [3,4,5] true
#print axioms stable3
