import Re
/-! prototype: tokenizer loop, termination by progress, tiling -/
abbrev Cp := Nat
-- reuse Re over Char for the prototype (final model uses code points)

structure Tok where
  typ : String
  span : List Char
  line : Nat
  col : Nat
deriving Repr

/-- first production (in order) that matches at `s`; returns name and length -/
def firstProd : List (String × Re) → List Char → Option (String × Nat)
  | [], _ => none
  | (n, r) :: ps, s =>
    match r.first s with
    | some l => some (n, l)
    | none => firstProd ps s

inductive Res where
  | ok (ts : List Tok)
  | stuck (ts : List Tok) (rest : List Char)
deriving Repr

def advance (line col : Nat) (found : List Char) : Nat × Nat :=
  let nls := found.count '\n'
  if nls > 0 then (line + nls, (found.reverse.takeWhile (· != '\n')).length + 1)
  else (line, col + found.length)

def tokLoop (prods : List (String × Re)) (s : List Char) (line col : Nat) : Res :=
  match hs : s with
  | [] => .ok []
  | c :: t =>
    match firstProd prods s with
    | none => .stuck [] s
    | some (n, l) =>
      if hl : l = 0 then .stuck [] s
      else
        let found := s.take l
        let p := advance line col found
        match tokLoop prods (s.drop l) p.1 p.2 with
        | .ok ts => .ok ({ typ := n, span := found, line, col } :: ts)
        | .stuck ts r => .stuck ({ typ := n, span := found, line, col } :: ts) r
termination_by s.length
decreasing_by
  subst hs
  simp only [List.length_drop, List.length_cons]
  omega

def Res.toks : Res → List Tok | .ok ts => ts | .stuck ts _ => ts
def Res.rest : Res → List Char | .ok _ => [] | .stuck _ r => r

theorem firstProd_bounded (ps : List (String × Re)) (s : List Char) (n : String) (l : Nat)
    (h : firstProd ps s = some (n, l)) : l ≤ s.length := by
  induction ps with
  | nil => simp [firstProd] at h
  | cons p ps ih =>
    obtain ⟨pn, pr⟩ := p
    simp only [firstProd] at h
    split at h
    · rename_i l' hl'
      simp at h; obtain ⟨_, rfl⟩ := h
      unfold Re.first at hl'
      have : l' ∈ pr.ms s := by
        cases hm : pr.ms s with
        | nil => simp [hm] at hl'
        | cons x xs => simp [hm] at hl'; subst hl'; simp
      exact Re.ms_bounded pr s l' this
    · exact ih h

/-- tiling: spans of emitted tokens followed by the unread rest give back the input -/
theorem tiling (ps : List (String × Re)) (s : List Char) (line col : Nat) :
    ((tokLoop ps s line col).toks.map (·.span)).flatten ++ (tokLoop ps s line col).rest = s := by
  fun_induction tokLoop ps s line col
  case case1 => simp [Res.toks, Res.rest]
  case case2 => simp_all [Res.toks, Res.rest]
  case case3 => simp_all [Res.toks, Res.rest]
  case case4 line col c t n l hl ts hfp found p hrec ih =>
    have hrec' : tokLoop ps (List.drop l (c :: t)) (advance line col (List.take l (c :: t))).fst
        (advance line col (List.take l (c :: t))).snd = Res.ok ts := hrec
    rw [hrec] at ih; simp only [Res.toks, Res.rest, List.append_nil] at ih
    simp only [hfp, hl, hrec', Res.toks, Res.rest, dite_false, List.map_cons, List.flatten_cons,
      List.append_nil]
    rw [ih]; exact List.take_append_drop l (c :: t)
  case case5 line col c t n l hl ts rr hfp found p hrec ih =>
    have hrec' : tokLoop ps (List.drop l (c :: t)) (advance line col (List.take l (c :: t))).fst
        (advance line col (List.take l (c :: t))).snd = Res.stuck ts rr := hrec
    rw [hrec] at ih; simp only [Res.toks, Res.rest] at ih
    simp only [hfp, hl, hrec', Res.toks, Res.rest, dite_false, List.map_cons, List.flatten_cons,
      List.append_assoc]
    rw [ih]; exact List.take_append_drop l (c :: t)

#print axioms tiling
