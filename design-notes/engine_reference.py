"""independent functional mirror of cssutils.prodparser engine semantics (design-time validation of the planned Lean model)"""
BIG = 1 << 62
class NoMatch(Exception): pass
class Exhausted(Exception): pass
class Missing(Exception): pass
class Done(Exception): pass

# grammar nodes as tuples: ('prod', id, types(set), flags(dict)) | ('seq', id, children, min, max) | ('choice', id, children, optional)
def optional(n):
    if n[0]=='prod': return n[3].get('optional', False)
    if n[0]=='seq': return n[3]==0
    if n[0]=='choice': return n[3]
def matches(n, tok):
    if n[0]=='prod':
        return tok is not None and tok[0] in n[2]
    if n[0]=='choice':
        return any(matches(c, tok) for c in n[2])
    if n[0]=='seq':
        for c in n[2]:
            if matches(c, tok): return True
            if not optional(c): break
        return False
def init_state(n, st):
    if n[0]=='seq':
        st[n[1]] = (0, 0, False)   # i, round, roundstarted
        for c in n[2]: init_state(c, st)
    elif n[0]=='choice':
        st[n[1]] = False           # exhausted
        for c in n[2]: init_state(c, st)
def reset(n, st):
    if n[0]=='seq': st[n[1]] = (0,0,False)
    elif n[0]=='choice': st[n[1]] = False
def next_prod(n, st, tok, fuel):
    """returns child node or None; may raise; mutates st (a dict copy owned by caller)"""
    if n[0]=='choice':
        if not st[n[1]]:
            opt=False
            for c in n[2]:
                if matches(c, tok):
                    st[n[1]] = True; reset(c, st); return c
                elif optional(c): opt=True
            if not opt: raise NoMatch()
            return None
        elif tok: raise Exhausted()
        return None
    if n[0]=='seq':
        _, nid, ch, mn, mx = n
        mx = BIG if mx is None else mx
        while True:
            i, rnd, started = st[nid]
            if not rnd < mx: break
            fuel[0]-=1
            if fuel[0] < 0: raise RuntimeError('fuel')
            p = ch[i]
            if i==0: started=False
            ni = i+1; nr = rnd
            if ni==len(ch): nr=rnd+1; ni=0
            st[nid] = (ni, nr, started)
            if matches(p, tok):
                st[nid] = (ni, nr, True); reset(p, st); return p
            elif optional(p): continue
            elif rnd < mn or started: raise Missing()
            elif not tok:
                if started: raise Missing()
                raise Done()
            else: raise NoMatch()
        if tok: raise Exhausted()
        return None

def sor_tokens(tokens):
    """_SorTokens applied eagerly to a list: returns new list"""
    out=[]; i=0; n=len(tokens)
    while i<n:
        t = tokens[i]
        if t[0]=='S':
            if i+1>=n: out.append(t); i+=1
            else:
                nx = tokens[i+1]
                if nx[1] in ',/': out.append(nx)
                elif nx[0]=='COMMENT': out.append(nx)
                else: out.append(t); out.append(nx)
                i+=2
        elif t[0]=='COMMENT': out.append(t); i+=1
        else:
            out.append(t); i+=1; break
    out.extend(tokens[i:])
    return out

def parse(grammar, tokens, saved, keepS=False, checkS=False, emptyOk=False, fuel_n=100000):
    """tokens: list; saved: list (global savedTokens, popped from the end). returns (wellformed, seq(list of (type,val)), saved', rest_tokens) or (False, None,...) for 'no content'"""
    st={}; init_state(grammar, st)
    fuel=[fuel_n]
    toks=list(tokens); saved=list(saved)
    seq=[]; prods=[grammar]; wellformed=True; started=False; stopall=False; prod=None; defaultS=True; stopIf=False
    token=None
    while True:
        if saved: token = saved.pop()
        elif toks: token = toks.pop(0)
        else: break
        typ, val = token[0], token[1]
        if typ=='COMMENT': seq.append(('COMMENT', val))
        elif defaultS and typ=='S' and not checkS:
            if not keepS or not started: continue
            seq.append(('S', val))
        elif typ=='INVALID':
            wellformed=False; break
        elif typ=='EOF': stopall=True
        else:
            started=True
            try:
                while True:
                    try: prod = next_prod(prods[-1], st, token, fuel)
                    except (Exhausted, NoMatch): prod=None
                    if prod is not None and prod[0]=='prod': break
                    elif prod is not None: prods.append(prod)
                    else:
                        if len(prods)>1: prods.pop()
                        else: raise NoMatch()
            except NoMatch:
                if stopIf: saved.append(token); stopall=True
                else: wellformed=False
                break
            except (Missing, Done):
                if stopIf: stopall=True   # tokenizer.push(token): goes to global pushed, modelled separately
                else: wellformed=False
                break
            else:
                fl = prod[3]
                stopIf = fl.get('stopIfNoMoreMatch', False) or stopIf
                if fl.get('toSeq', True) and not fl.get('stopAndKeep', False):
                    seq.append((typ, val))
                if fl.get('stop'): break
                if fl.get('stopAndKeep'): stopall=True; break
                if fl.get('nextSor'): toks = sor_tokens(toks); defaultS=False
                else: defaultS=True
    lastprod = prod
    if not stopall:
        while True:
            try: prod = next_prod(prods[-1], st, None, fuel)
            except Done: prod=None
            except Missing:
                prod=None
                if lastprod is not None and lastprod[0]=='prod' and not lastprod[3].get('mayEnd', False): wellformed=False
            except (NoMatch, Exhausted):
                prod=None; wellformed=False
            else:
                if optional(prods[-1]): prod=None
                elif prod is not None and optional(prod): continue
            if prod is not None and not optional(prod):
                wellformed=False; break
            elif len(prods)>1: prods.pop()
            else: break
        if not emptyOk and not seq:
            return (False, None, saved, toks)
    while seq and seq[-1][0]=='S': seq.pop()
    return (wellformed, seq, saved, toks)
