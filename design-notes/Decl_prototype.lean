/-! calibration: C10 getProperty / nnames -/
structure Entry where
  name : String
  val : String
  imp : Bool
deriving DecidableEq, Repr

/-- model of getProperty: reversed scan with priority short-cut (cssstyledeclaration.py:432) -/
def scan (n : String) : List Entry → Option Entry → Option Entry
  | [], found => found
  | e :: rest, found =>
    if e.name = n then
      if e.imp then some e
      else match found with
        | none => scan n rest (some e)
        | some f => scan n rest (some f)
    else scan n rest found

def getProperty (es : List Entry) (n : String) : Option Entry := scan n es.reverse none

/-- spec: last important entry with that name, else last entry with that name -/
def lastP (p : Entry → Bool) : List Entry → Option Entry
  | [] => none
  | e :: rest => match lastP p rest with
    | some x => some x
    | none => if p e then some e else none

def effective (es : List Entry) (n : String) : Option Entry :=
  match lastP (fun e => e.name = n && e.imp) es with
  | some x => some x
  | none => lastP (fun e => e.name = n) es

/-- first match in a list -/
def firstP (p : Entry → Bool) : List Entry → Option Entry
  | [] => none
  | e :: rest => if p e then some e else firstP p rest

theorem lastP_append_single (p : Entry → Bool) (l : List Entry) (e : Entry) :
    lastP p (l ++ [e]) = if p e then some e else lastP p l := by
  induction l with
  | nil => simp [lastP]
  | cons a t ih =>
    simp only [List.cons_append, lastP, ih]
    by_cases h : p e <;> simp [h]

theorem lastP_reverse (p : Entry → Bool) (l : List Entry) : lastP p l.reverse = firstP p l := by
  induction l with
  | nil => simp [lastP, firstP]
  | cons a t ih => simp [List.reverse_cons, lastP_append_single, firstP, ih]

theorem scan_spec (n : String) (l : List Entry) (found : Option Entry) :
    scan n l found =
      match firstP (fun e => e.name = n && e.imp) l with
      | some x => some x
      | none => match found with
        | some f => some f
        | none => firstP (fun e => e.name = n) l := by
  induction l generalizing found with
  | nil => cases found <;> simp [scan, firstP]
  | cons e t ih =>
    simp only [scan, firstP]
    by_cases hn : e.name = n
    · by_cases hi : e.imp
      · simp [hn, hi]
      · cases found with
        | none => simp [hn, hi, ih]
        | some f => simp [hn, hi, ih]
    · simp [hn, ih]

theorem getProperty_spec (es : List Entry) (n : String) : getProperty es n = effective es n := by
  unfold getProperty effective
  rw [scan_spec]
  have h1 := lastP_reverse (fun e => e.name = n && e.imp) es.reverse
  have h2 := lastP_reverse (fun e => e.name = n) es.reverse
  simp only [List.reverse_reverse] at h1 h2
  rw [h1, h2]

#print axioms getProperty_spec
