"""C17 translator (b): the production trees of `MediaList._setMediaText` and `MediaQuery._setMediaText`, captured from
the live objects, -> lean/CssVerif/Gen/C17Grammar.lean

Run as a script (`python c17_grammar.py REPO`) it imports cssutils from REPO, wraps `ProdParser.parse`, parses one
list and one stand-alone query and prints the captured trees as JSON:
  Sequence: min, max (None = unbounded), children;  Choice: optional, children;
  Prod: name, optional, stop, stopAndKeep, stopIfNoMoreMatch, nextSor, mayEnd, `toSeq is False`, toStore key,
        verdicts of its `match` callback on a probe battery.
`generate(repo)` runs that in a subprocess and renders the Lean file. The `match` callbacks are opaque; each production
name is tied to a hand-written predicate (`ProdEngine.Matcher`) and the probe verdicts are emitted for a `decide` check.
"""
import json
import os
import subprocess
import sys

NAME2MATCHER = {
    'comment': 'comment', 'MediaQueryStart': 'queryStart', 'comma': 'comma', 'ONLY|NOT': 'onlyNot',
    'media_type': 'mediaType', 'AND': 'and_', 'expression': 'open_', 'media_feature': 'feature', 'colon': 'colon',
    'expression END': 'close', 'ColorValue': 'color', 'Dimension': 'dimension', 'Value': 'value',
}
TYPES = {'IDENT': '.ident', 'S': '.s', 'COMMENT': '.comment', 'CHAR': '.char', 'NUMBER': '.number',
         'DIMENSION': '.dimension', 'PERCENTAGE': '.percentage', 'HASH': '.hash', 'FUNCTION': '.function',
         'STRING': '.string', 'UNICODE-RANGE': '.unicodeRange', 'INVALID': '.invalid'}
# (type, value): no IDENT that is a colour name (the model sends those to the Value production, see ProdEngine)
PROBES = [('IDENT', 'tv'), ('IDENT', 'TV'), ('IDENT', 't\\v'), ('IDENT', 'all'), ('IDENT', 'only'), ('IDENT', 'NOT'),
          ('IDENT', 'and'), ('IDENT', 'AND'), ('IDENT', 'a\\nd'), ('IDENT', 'foo'), ('IDENT', 'min-width'),
          ('CHAR', '('), ('CHAR', ')'), ('CHAR', ':'), ('CHAR', ','), ('CHAR', ';'), ('CHAR', '{'), ('CHAR', '/'),
          ('NUMBER', '1'), ('NUMBER', '-0.5'), ('DIMENSION', '100px'), ('DIMENSION', '1E3'), ('PERCENTAGE', '50%'),
          ('HASH', '#fff'), ('HASH', '#AABBCC'), ('HASH', '#ffff'), ('HASH', '#ggg'), ('HASH', '#12345'),
          ('FUNCTION', 'rgb('), ('FUNCTION', 'RGBA('), ('FUNCTION', 'hsl('), ('FUNCTION', 'f('), ('FUNCTION', 'url('),
          ('STRING', '"a"'), ('UNICODE-RANGE', 'U+1-2'), ('COMMENT', '/*c*/'), ('S', ' '), ('INVALID', '"x'),
          ('URI', 'url(x)'), ('ATKEYWORD', '@x')]


def capture():
    import logging
    import cssutils
    from cssutils import prodparser
    from cssutils.stylesheets import MediaList, MediaQuery
    cssutils.log.setLevel(logging.FATAL)
    cssutils.log.raiseExceptions = False
    got = []
    orig = prodparser.ProdParser.parse

    def wrapped(self, text, name, productions, *a, **kw):
        got.append((name, productions))
        return orig(self, text, name, productions, *a, **kw)
    prodparser.ProdParser.parse = wrapped
    try:
        MediaList('tv')
        MediaQuery('tv')
    finally:
        prodparser.ProdParser.parse = orig
    names = [n for n, _ in got]
    if names != ['MediaList', 'MediaQuery', 'MediaQuery']:
        raise SystemExit('c17 grammar capture: unexpected parse calls %r' % (names,))

    def walk(n):
        if isinstance(n, prodparser.Sequence):
            return {'k': 'seq', 'min': n._min, 'max': None if n._max == sys.maxsize else n._max,
                    'kids': [walk(c) for c in n._prods]}
        if isinstance(n, prodparser.Choice):
            return {'k': 'choice', 'optional': bool(n.optional), 'kids': [walk(c) for c in n._prods]}
        if isinstance(n, prodparser.Prod):
            key = None
            if n.toStore is not None:
                cells = [c.cell_contents for c in (n.toStore.__closure__ or ())]
                keys = [c for c in cells if isinstance(c, str)]
                if len(keys) != 1:
                    raise SystemExit('c17 grammar capture: cannot read the toStore key of %s' % n)
                key = keys[0]
            return {'k': 'prod', 'name': str(n), 'optional': bool(n.optional), 'stop': bool(n.stop),
                    'stopAndKeep': bool(n.stopAndKeep), 'stopIf': bool(n.stopIfNoMoreMatch),
                    'nextSor': bool(n.nextSor), 'mayEnd': bool(n.mayEnd), 'toSeqFalse': n.toSeq is False,
                    'store': key,
                    'probes': [bool(n.match(t, v)) for t, v in PROBES]}
        raise SystemExit('c17 grammar capture: unknown node %r' % (n,))
    return {'mediaList': walk(got[0][1]), 'mediaQueryPartof': walk(got[1][1]), 'mediaQueryAlone': walk(got[2][1])}


def _cps(s):
    return '[' + ', '.join(str(ord(c)) for c in s) + ']'


def _tok(t, v):
    typ = TYPES.get(t)
    if typ is None:
        typ = '(.other %s)' % _cps(t)
    return '{ typ := %s, val := %s }' % (typ, _cps(v))


class Renderer:
    def __init__(self):
        self.next_id = 0
        self.probes = {}

    def node(self, n, ind):
        pad = '  ' * ind
        if n['k'] == 'prod':
            m = NAME2MATCHER.get(n['name'])
            if m is None:
                raise ValueError('c17 grammar translator: production %r has no hand-written match predicate'
                                 % n['name'])
            for (t, v), verdict in zip(PROBES, n['probes']):
                old = self.probes.setdefault((m, t, v), verdict)
                if old != verdict:
                    raise ValueError('c17 grammar translator: productions named %r disagree on probe %r'
                                     % (n['name'], (t, v)))
            store = {None: 0, 'media_type': 1, 'not simple': 2}.get(n['store'])
            if store is None:
                raise ValueError('c17 grammar translator: unknown toStore key %r' % n['store'])
            fl = []
            for k, lean in (('optional', 'optional'), ('stopIf', 'stopIf'), ('stop', 'stop'),
                            ('stopAndKeep', 'stopAndKeep'), ('nextSor', 'nextSor'), ('mayEnd', 'mayEnd')):
                if n[k]:
                    fl.append('%s := true' % lean)
            if n['toSeqFalse']:
                fl.append('toSeq := false')
            if store:
                fl.append('store := %d' % store)
            return '%s.prod .%s { %s }' % (pad, m, ', '.join(fl)) if fl else '%s.prod .%s {}' % (pad, m)
        i = self.next_id
        self.next_id += 1
        kids = ',\n'.join(self.node(c, ind + 1) for c in n['kids'])
        if n['k'] == 'seq':
            mx = 'none' if n['max'] is None else '(some %d)' % n['max']
            return '%s.seq %d %d %s [\n%s]' % (pad, i, n['min'], mx, kids)
        return '%s.choice %d %s [\n%s]' % (pad, i, 'true' if n['optional'] else 'false', kids)


def render(trees, shas):
    out = ['import CssVerif.Model.ProdEngine',
           '/-! GENERATED by tools/gen/c17_grammar.py — do not edit.',
           'production trees captured from the live `MediaList` / `MediaQuery` objects of the repository']
    for k, v in sorted(shas.items()):
        out.append('source %s sha256 %s' % (k, v))
    out += ['-/', 'namespace CssVerif.Gen.C17Grammar', 'open CssVerif.ProdEngine CssVerif.Media', '']
    r = Renderer()
    for name in ('mediaList', 'mediaQueryPartof', 'mediaQueryAlone'):
        r.next_id = 0
        out.append('def %s : Node :=\n%s\n' % (name, r.node(trees[name], 1)))
    out.append('/-- verdicts of the `match` callbacks of the captured productions on a probe battery -/')
    out.append('def probes : List (Matcher × Tok × Bool) := [')
    out.append(',\n'.join('  (.%s, %s, %s)' % (m, _tok(t, v), 'true' if b else 'false')
                          for (m, t, v), b in sorted(r.probes.items())))
    out.append(']')
    out += ['', 'end CssVerif.Gen.C17Grammar', '']
    return '\n'.join(out)


def generate(repo):
    import hashlib
    env = dict(os.environ)
    env['PYTHONPATH'] = repo
    p = subprocess.run([sys.executable, os.path.abspath(__file__), '--capture'], env=env, stdout=subprocess.PIPE,
                       stderr=subprocess.PIPE, timeout=120)
    if p.returncode != 0:
        raise RuntimeError('c17 grammar capture failed: %s' % p.stderr.decode('utf-8', 'replace')[-800:])
    trees = json.loads(p.stdout.decode())
    shas = {}
    for rel in ('cssutils/stylesheets/medialist.py', 'cssutils/stylesheets/mediaquery.py', 'cssutils/prodparser.py',
                'cssutils/css/value.py'):
        with open(os.path.join(repo, rel), 'rb') as f:
            shas[rel] = hashlib.sha256(f.read()).hexdigest()
    return {'CssVerif/Gen/C17Grammar.lean': render(trees, shas)}, trees


if __name__ == '__main__':
    if len(sys.argv) > 1 and sys.argv[1] == '--capture':
        print(json.dumps(capture()))
    else:
        files, _ = generate(sys.argv[1] if len(sys.argv) > 1 else '/repo')
        for k, v in files.items():
            print(v)
