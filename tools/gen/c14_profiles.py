"""translator for C14: cssutils/profiles.py -> lean/CssVerif/Gen/C14Profiles.lean

Reads the source with `ast` only (no import of cssutils): the class constants, `_TOKEN_MACROS`, `_MACROS`, the
module-level `macros[...]` / `properties[...]` tables and the list handed to `addProfiles` in `Profiles.__init__`.
Anything outside the handful of syntactic shapes it knows stops the translation with an explicit message.
"""
import ast
import hashlib
import os


class Unsupported(Exception):
    pass


def lean_str(s):
    out = ['"']
    for ch in s:
        o = ord(ch)
        if ch == '\\':
            out.append('\\\\')
        elif ch == '"':
            out.append('\\"')
        elif 32 <= o < 127:
            out.append(ch)
        elif 0xD800 <= o <= 0xDFFF:
            raise Unsupported('surrogate in a table string')
        else:
            out.append('\\u{%x}' % o)
    out.append('"')
    return ''.join(out)


def read_tables(path):
    src = open(path, encoding='utf-8').read()
    tree = ast.parse(src)
    cls = None
    for node in tree.body:
        if isinstance(node, ast.ClassDef) and node.name == 'Profiles':
            cls = node
    if cls is None:
        raise Unsupported('class Profiles not found')
    consts = {}
    dicts = {}
    init = None
    reset = None
    for node in cls.body:
        if isinstance(node, ast.Assign):
            if isinstance(node.value, ast.Constant) and isinstance(node.value.value, str):
                for t in node.targets:
                    if not isinstance(t, ast.Name):
                        raise Unsupported('class constant target')
                    consts[t.id] = node.value.value
            elif isinstance(node.value, ast.Dict) and len(node.targets) == 1 and isinstance(node.targets[0], ast.Name):
                d = {}
                for k, v in zip(node.value.keys, node.value.values):
                    if not (isinstance(k, ast.Constant) and isinstance(k.value, str)
                            and isinstance(v, ast.Constant) and isinstance(v.value, str)):
                        raise Unsupported('non-literal entry in %s' % node.targets[0].id)
                    d[k.value] = v.value
                dicts[node.targets[0].id] = d
        elif isinstance(node, ast.FunctionDef) and node.name == '__init__':
            init = node
        elif isinstance(node, ast.FunctionDef) and node.name == '_resetProperties':
            reset = node
    for need in ('_TOKEN_MACROS', '_MACROS'):
        if need not in dicts:
            raise Unsupported('%s not found' % need)
    if init is None or reset is None:
        raise Unsupported('__init__/_resetProperties not found')

    # the base macro environment must be built as TOKEN.copy() updated with _MACROS, in both places
    def base_shape(fn, target_dump):
        stmts = [ast.dump(s) for s in fn.body]
        a = ast.dump(ast.parse('%s = Profiles._TOKEN_MACROS.copy()' % target_dump).body[0])
        b = ast.dump(ast.parse('%s.update(Profiles._MACROS.copy())' % target_dump).body[0])
        return a in stmts and b in stmts and stmts.index(a) < stmts.index(b)
    # informational only: the correspondence compares the initial registry and every re-expansion anyway
    base_shape_ok = base_shape(init, 'self._usedMacros') and base_shape(reset, 'macros')

    def prof_name(e):
        # Profiles.X / self.X
        if isinstance(e, ast.Attribute) and isinstance(e.value, ast.Name) and e.value.id in ('Profiles', 'self'):
            if e.attr not in consts:
                raise Unsupported('unknown profile constant %s' % e.attr)
            return consts[e.attr]
        if isinstance(e, ast.Constant) and isinstance(e.value, str):
            return e.value
        raise Unsupported('profile name expression %s' % ast.dump(e))

    tables = {'macros': {}, 'properties': {}}

    def value(e):
        if isinstance(e, ast.Constant) and isinstance(e.value, str):
            return e.value
        # macros[Profiles.X]['k']
        if (isinstance(e, ast.Subscript) and isinstance(e.value, ast.Subscript)
                and isinstance(e.value.value, ast.Name) and e.value.value.id in tables
                and isinstance(e.slice, ast.Constant)):
            return tables[e.value.value.id][prof_name(e.value.slice)][e.slice.value]
        raise Unsupported('table value expression %s' % ast.dump(e)[:200])

    for node in tree.body:
        if isinstance(node, ast.Assign) and len(node.targets) == 1:
            t = node.targets[0]
            if isinstance(t, ast.Subscript) and isinstance(t.value, ast.Name) and t.value.id in tables:
                if not isinstance(node.value, ast.Dict):
                    raise Unsupported('%s[...] is not a dict literal' % t.value.id)
                d = {}
                for k, v in zip(node.value.keys, node.value.values):
                    if not (isinstance(k, ast.Constant) and isinstance(k.value, str)):
                        raise Unsupported('table key')
                    d[k.value] = value(v)
                tables[t.value.id][prof_name(t.slice)] = d

    # the addProfiles([...]) call of __init__
    order = None
    for s in init.body:
        if (isinstance(s, ast.Expr) and isinstance(s.value, ast.Call) and isinstance(s.value.func, ast.Attribute)
                and s.value.func.attr == 'addProfiles'):
            if order is not None or len(s.value.args) != 1 or not isinstance(s.value.args[0], ast.List):
                raise Unsupported('addProfiles call in __init__')
            order = []
            for el in s.value.args[0].elts:
                if not (isinstance(el, ast.Tuple) and len(el.elts) == 3):
                    raise Unsupported('addProfiles element')
                n, p, m = el.elts
                def tab(e, which):
                    if not (isinstance(e, ast.Subscript) and isinstance(e.value, ast.Name) and e.value.id == which):
                        raise Unsupported('addProfiles element %s' % which)
                    return tables[which][prof_name(e.slice)]
                order.append((prof_name(n), tab(p, 'properties'), tab(m, 'macros')))
    if order is None:
        raise Unsupported('no addProfiles call in __init__')
    return {'consts': consts, 'token': dicts['_TOKEN_MACROS'], 'general': dicts['_MACROS'], 'order': order,
            'sha': hashlib.sha256(src.encode('utf-8')).hexdigest(), 'base_shape_ok': base_shape_ok}


def cp(s):
    return '[' + ', '.join(str(ord(c)) for c in s) + ']'


def comment(s):
    # a one-line rendering of a table string for the reader; `-/` and line breaks cannot end the comment line
    return ''.join(ch if 32 <= ord(ch) < 127 else '\\u{%x}' % ord(ch) for ch in s)


def macro_pairs(d, indent):
    if not d:
        return '[]'
    rows = []
    for k, v in d.items():
        rows.append('%s-- %s : %s\n%s(%s, %s)' % (indent, comment(k), comment(v), indent, cp(k), cp(v)))
    return '[\n' + ',\n'.join(rows) + ']'


def prop_pairs(d, indent):
    if not d:
        return '[]'
    rows = []
    for k, v in d.items():
        rows.append('%s-- %s : %s\n%s(%s, .pat %s)' % (indent, comment(k), comment(v), indent, cp(k), cp(v)))
    return '[\n' + ',\n'.join(rows) + ']'


def final_env(t):
    """the macro environment after `__init__`: the base macros updated with the macros of the tables, in order"""
    env = dict(t['token'])
    env.update(t['general'])
    for _, _, m in t['order']:
        if m:
            env.update(m)
    return env


def render(t):
    # Code points, not string literals: the kernel evaluates these tables (`decide +kernel` in Props/C14.lean), and
    # string operations are slow there. The strings are shown in the comment above each entry. A Python dict
    # literal keeps the last value of a repeated key at the position of the first — `read_tables` builds the
    # tables with Python dicts, so what is written here is what Python has.
    out = ['-- GENERATED by tools/gen/c14_profiles.py from cssutils/profiles.py; do not edit.',
           '-- source sha256: %s' % t['sha'],
           'import CssVerif.Model.Profiles',
           'namespace CssVerif.Gen.C14',
           'open CssVerif.Profiles',
           '',
           '/-- `Profiles._TOKEN_MACROS` -/',
           'def tokenMacros : Dict Str := ' + macro_pairs(t['token'], '  '),
           '',
           '/-- `Profiles._MACROS` -/',
           'def generalMacros : Dict Str := ' + macro_pairs(t['general'], '  '),
           '',
           '/-- `_TOKEN_MACROS.copy()` updated with `_MACROS.copy()` -/',
           'def base : Dict Str := dupdate tokenMacros generalMacros',
           '',
           '/-- the configuration of the driver and of the `builtin_*` theorems: the base macros, and a bound on the',
           'expansion loop (Python has none; `C14.builtin_never_diverges`: 93 passes are enough for every value) -/',
           'def cfg : Cfg := { base := base, fuel := 200 }',
           '']
    names = []
    for i, (n, p, m) in enumerate(t['order']):
        out += ['/-- %s -/' % comment(n),
                'def profile%d : ProfileDef :=' % i,
                '  { name := %s,' % cp(n),
                '    props := ' + prop_pairs(p, '      ') + ',',
                '    macros := some ' + macro_pairs(m, '      ') + ' }',
                '']
        names.append('profile%d' % i)
    out += ['/-- the list handed to `addProfiles` in `Profiles.__init__`: (name, properties, macros) -/',
            'def builtins : List ProfileDef := [' + ', '.join(names) + ']',
            '',
            '/-- the macro environment after `__init__`, computed by the translator with Python dicts; the theorem',
            '`C14.builtin_env` (kernel) says that it is `bulkEnv base builtins` -/',
            'def envLit : Dict Str := ' + macro_pairs(final_env(t), '  '),
            '',
            'end CssVerif.Gen.C14', '']
    return '\n'.join(out)


def translate(repo):
    t = read_tables(os.path.join(repo, 'cssutils', 'profiles.py'))
    return {'CssVerif/Gen/C14Profiles.lean': render(t)}, t


if __name__ == '__main__':
    import sys
    files, t = translate(sys.argv[1] if len(sys.argv) > 1 else '/repo')
    for k, v in files.items():
        print(k, len(v), [n for n, _, _ in t['order']])
