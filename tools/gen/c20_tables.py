"""C20 translator: encutils/__init__.py -> lean/CssVerif/Gen/C20Tables.lean

Everything that is *data* in the module is read from the source with `ast` (the module is not imported):

* the text-type constants (`_XML_APPLICATION_TYPE = 0`, ...),
* the decision ladder of `_getTextTypeByMediaType` (the `if/elif` chain: which list / regex / literal is
  tested in which order and which constant is returned), the two media-type lists and the two regexes with
  the flags written in the `re.match` call (regex text -> `Re` through tools/gen/relib.py),
* the slice bound and the needle of `_getTextType`,
* `defaultencodings` of `encodingByMediaType`,
* the shape and the four literals of `_MetaHTMLParser.handle_starttag`, the codec of the five bytes guards,
* `bomDict`, the two `read` sizes, `xmlDeclPattern` (split at the named group `encstr` into the part before
  the group, the group body and the part after it) and the default `'utf-8'` of `detectXMLEncoding`.

Shapes outside what is listed here raise `Unsupported` — the translator never guesses.
"""
import ast
import hashlib
import os
import re
import re._parser as sp
from re._constants import AT, AT_BEGINNING, SUBPATTERN

from gen import relib

SRC = os.path.join('encutils', '__init__.py')
CONST_NAMES = ['_XML_APPLICATION_TYPE', '_XML_TEXT_TYPE', '_HTML_TEXT_TYPE', '_TEXT_TYPE', '_TEXT_UTF8',
               '_OTHER_TYPE']


class Unsupported(Exception):
    pass


def need(cond, msg):
    if not cond:
        raise Unsupported('encutils translator: ' + msg)


# ----------------------------------------------------------------------------------------------
def func(tree, name):
    for n in tree.body:
        if isinstance(n, ast.FunctionDef) and n.name == name:
            return n
    raise Unsupported('function %s not found' % name)


def strip_doc(body):
    if body and isinstance(body[0], ast.Expr) and isinstance(body[0].value, ast.Constant) \
            and isinstance(body[0].value.value, str):
        return body[1:]
    return body


def const_str(n):
    need(isinstance(n, ast.Constant) and isinstance(n.value, str), 'string literal expected at line %d' % n.lineno)
    return n.value


def is_name(n, name):
    return isinstance(n, ast.Name) and n.id == name


def re_flags(n):
    """`re.I | re.S | re.X` -> int"""
    if isinstance(n, ast.BinOp) and isinstance(n.op, ast.BitOr):
        return re_flags(n.left) | re_flags(n.right)
    need(isinstance(n, ast.Attribute) and is_name(n.value, 're') and hasattr(re, n.attr), 'regex flag expression')
    return int(getattr(re, n.attr))


def ret_const(stmts):
    need(len(stmts) == 1 and isinstance(stmts[0], ast.Return) and isinstance(stmts[0].value, ast.Name)
         and stmts[0].value.id in CONST_NAMES, 'branch must be `return <type constant>`')
    return stmts[0].value.id


def read_constants(tree):
    out = {}
    for n in tree.body:
        if isinstance(n, ast.Assign) and len(n.targets) == 1 and isinstance(n.targets[0], ast.Name) \
                and n.targets[0].id in CONST_NAMES:
            need(isinstance(n.value, ast.Constant) and isinstance(n.value.value, int), 'type constant must be an int')
            out[n.targets[0].id] = n.value.value
    need(sorted(out) == sorted(CONST_NAMES), 'type constants %s' % sorted(out))
    return out


def read_classifier(tree):
    """-> (none_type, lists, ladder, else_type); ladder items:
    ('listre', listname, index, flags, start, const) | ('eq', lit, const) | ('pre', lit, const);
    `start`: the names compared with `in` are `<list>[start:]`"""
    f = func(tree, '_getTextTypeByMediaType')
    need(f.args.args[0].arg == 'media_type', 'first parameter media_type')
    body = strip_doc(f.body)
    # if not media_type: return X
    s0 = body[0]
    need(isinstance(s0, ast.If) and isinstance(s0.test, ast.UnaryOp) and isinstance(s0.test.op, ast.Not)
         and is_name(s0.test.operand, 'media_type') and not s0.orelse, '`if not media_type:` first')
    none_type = ret_const(s0.body)
    lists = {}
    i = 1
    while isinstance(body[i], ast.Assign) and isinstance(body[i].value, ast.List):
        a = body[i]
        need(len(a.targets) == 1 and isinstance(a.targets[0], ast.Name), 'list assignment')
        lists[a.targets[0].id] = [const_str(e) for e in a.value.elts]
        i += 1
    # media_type = media_type.strip().lower()
    a = body[i]
    ok = (isinstance(a, ast.Assign) and is_name(a.targets[0], 'media_type') and isinstance(a.value, ast.Call)
          and isinstance(a.value.func, ast.Attribute) and a.value.func.attr == 'lower' and not a.value.args
          and isinstance(a.value.func.value, ast.Call) and isinstance(a.value.func.value.func, ast.Attribute)
          and a.value.func.value.func.attr == 'strip' and not a.value.func.value.args
          and is_name(a.value.func.value.func.value, 'media_type'))
    need(ok, '`media_type = media_type.strip().lower()` expected at line %d' % a.lineno)
    i += 1
    need(i == len(body) - 1 and isinstance(body[i], ast.If), 'one if/elif chain at the end')
    ladder = []
    node = body[i]
    while True:
        ladder.append(read_test(node.test, lists) + (ret_const(node.body),))
        if len(node.orelse) == 1 and isinstance(node.orelse[0], ast.If):
            node = node.orelse[0]
        else:
            else_type = ret_const(node.orelse)
            break
    return none_type, lists, ladder, else_type


def read_test(t, lists):
    # media_type in L or re.match(L[k], media_type, flags)
    if isinstance(t, ast.BoolOp) and isinstance(t.op, ast.Or) and len(t.values) == 2:
        a, b = t.values
        need(isinstance(a, ast.Compare) and is_name(a.left, 'media_type') and len(a.ops) == 1
             and isinstance(a.ops[0], ast.In), '`media_type in <list>`')
        c = a.comparators[0]
        start = 0
        if isinstance(c, ast.Subscript):        # `<list>[k:]`
            need(isinstance(c.slice, ast.Slice) and c.slice.upper is None and c.slice.step is None
                 and isinstance(c.slice.lower, ast.Constant) and isinstance(c.slice.lower.value, int)
                 and c.slice.lower.value >= 0, '`<list>[k:]` with a literal k')
            start = c.slice.lower.value
            c = c.value
        need(isinstance(c, ast.Name) and c.id in lists, '`media_type in <list>` / `<list>[k:]`')
        lname = c.id
        need(isinstance(b, ast.Call) and isinstance(b.func, ast.Attribute) and is_name(b.func.value, 're')
             and b.func.attr == 'match' and len(b.args) == 3 and not b.keywords
             and isinstance(b.args[0], ast.Subscript) and is_name(b.args[0].value, lname)
             and isinstance(b.args[0].slice, ast.Constant) and is_name(b.args[1], 'media_type'),
             '`re.match(<list>[k], media_type, flags)`')
        return ('listre', lname, b.args[0].slice.value, re_flags(b.args[2]), start)
    if isinstance(t, ast.Compare) and is_name(t.left, 'media_type') and len(t.ops) == 1 \
            and isinstance(t.ops[0], ast.Eq):
        return ('eq', const_str(t.comparators[0]))
    if isinstance(t, ast.Call) and isinstance(t.func, ast.Attribute) and t.func.attr == 'startswith' \
            and is_name(t.func.value, 'media_type') and len(t.args) == 1:
        return ('pre', const_str(t.args[0]))
    raise Unsupported('test at line %d of _getTextTypeByMediaType' % t.lineno)


def read_text_type(tree):
    """_getTextType: `if text[:N].find(LIT) != -1: return A else: return B` -> (N, LIT, A, B)"""
    f = func(tree, '_getTextType')
    ifs = [s for s in strip_doc(f.body) if isinstance(s, ast.If)]
    need(len(ifs) == 2, '_getTextType: bytes guard and one decision')
    g = ifs[0]
    need(isinstance(g.test, ast.Call) and is_name(g.test.func, 'isinstance') and not g.orelse
         and 'latin-1' in ast.dump(g.body[0]), '_getTextType: bytes are decoded as latin-1')
    s = ifs[1]
    t = s.test
    ok = (isinstance(t, ast.Compare) and len(t.ops) == 1 and isinstance(t.ops[0], ast.NotEq)
          and isinstance(t.comparators[0], ast.UnaryOp) and isinstance(t.comparators[0].op, ast.USub)
          and t.comparators[0].operand.value == 1
          and isinstance(t.left, ast.Call) and isinstance(t.left.func, ast.Attribute) and t.left.func.attr == 'find'
          and isinstance(t.left.func.value, ast.Subscript) and is_name(t.left.func.value.value, 'text')
          and isinstance(t.left.func.value.slice, ast.Slice) and t.left.func.value.slice.lower is None
          and isinstance(t.left.func.value.slice.upper, ast.Constant))
    need(ok, '_getTextType: `text[:N].find(LIT) != -1`')
    return (t.left.func.value.slice.upper.value, const_str(t.left.args[0]), ret_const(s.body), ret_const(s.orelse))


def read_defaults(tree):
    f = func(tree, 'encodingByMediaType')
    for s in f.body:
        if isinstance(s, ast.Assign) and is_name(s.targets[0], 'defaultencodings'):
            need(isinstance(s.value, ast.Dict), 'defaultencodings is a dict literal')
            out = []
            for k, v in zip(s.value.keys, s.value.values):
                need(isinstance(k, ast.Name) and k.id in CONST_NAMES, 'defaultencodings key')
                need(isinstance(v, ast.Constant) and (v.value is None or isinstance(v.value, str)),
                     'defaultencodings value')
                out.append((k.id, v.value))
            return out
    raise Unsupported('defaultencodings not found')


def read_sniffer(tree):
    f = func(tree, 'detectXMLEncoding')
    bom = pattern = flags = None
    reads, default = [], None
    for n in ast.walk(f):
        if isinstance(n, ast.Assign) and len(n.targets) == 1 and isinstance(n.targets[0], ast.Name):
            name = n.targets[0].id
            if name == 'bomDict':
                need(isinstance(n.value, ast.Dict), 'bomDict is a dict literal')
                bom = []
                for k, v in zip(n.value.keys, n.value.values):
                    need(isinstance(k, ast.Tuple) and len(k.elts) == 4, 'bomDict key is a 4-tuple')
                    key = []
                    for e in k.elts:
                        need(isinstance(e, ast.Constant) and (e.value is None or isinstance(e.value, int)),
                             'bomDict key element')
                        key.append(e.value)
                    bom.append((key, const_str(v)))
            elif name == 'xmlDeclPattern':
                pattern = const_str(n.value)
            elif name == 'xmlDeclRE':
                c = n.value
                need(isinstance(c, ast.Call) and isinstance(c.func, ast.Attribute) and c.func.attr == 'compile'
                     and is_name(c.args[0], 'xmlDeclPattern') and len(c.args) == 2, 're.compile(xmlDeclPattern, flags)')
                flags = re_flags(c.args[1])
        if isinstance(n, ast.Call) and isinstance(n.func, ast.Attribute) and n.func.attr == 'read' \
                and is_name(n.func.value, 'fp'):
            need(len(n.args) == 1 and isinstance(n.args[0], ast.Constant), 'fp.read(<int>)')
            reads.append((n.lineno, n.args[0].value))
        if isinstance(n, ast.Return) and isinstance(n.value, ast.Constant) and isinstance(n.value.value, str):
            need(default is None, 'one literal default')
            default = n.value.value
        if isinstance(n, ast.Call) and isinstance(n.func, ast.Attribute) and n.func.attr == 'group' \
                and is_name(n.func.value, 'match'):
            need(const_str(n.args[0]) == 'encstr', 'match.group("encstr")')
    need(bom is not None and pattern is not None and flags is not None and default is not None, 'sniffer parts')
    reads.sort()
    need(len(reads) == 2, 'two fp.read calls')
    return bom, reads[0][1], reads[1][1], pattern, flags, default


META_TEMPLATE = """
class _MetaHTMLParser(html.parser.HTMLParser):
    content_type = None

    def handle_starttag(self, tag, attrs):
        if tag == 'S' and not self.content_type:
            atts = {a.lower(): (v or 'S').lower() for a, v in attrs}
            if atts.get('S', 'S').strip() == 'S':
                self.content_type = atts.get('S')
"""


class _Lits(ast.NodeTransformer):
    """replaces every string literal by 'S' and remembers them in source order; parameters and local names are
    renamed in order of first appearance (a renamed local is the same shape)"""
    def __init__(self):
        self.lits = []
        self.names = {}

    def _nm(self, x):
        return self.names.setdefault(x, 'n%d' % len(self.names))

    def visit_Constant(self, n):
        if isinstance(n.value, str):
            self.lits.append(n.value)
            return ast.copy_location(ast.Constant(value='S'), n)
        return n

    def visit_arg(self, n):
        n.arg = self._nm(n.arg)
        return n

    def visit_Name(self, n):
        n.id = self._nm(n.id)
        return n


def _shape(cls):
    cls.body = strip_doc(cls.body)
    for n in cls.body:
        if isinstance(n, ast.FunctionDef):
            n.body = strip_doc(n.body)
    t = _Lits()
    cls = t.visit(cls)
    return ast.dump(cls), t.lits


def read_meta_parser(tree):
    """_MetaHTMLParser: the class must have exactly the shape of META_TEMPLATE; the literals are data:
    -> (tag, equiv key, equiv value, content key)"""
    cls = [n for n in tree.body if isinstance(n, ast.ClassDef) and n.name == '_MetaHTMLParser']
    need(len(cls) == 1, 'class _MetaHTMLParser')
    want, _ = _shape(ast.parse(META_TEMPLATE).body[0])
    got, lits = _shape(cls[0])
    need(got == want, '_MetaHTMLParser does not have the modelled shape (content_type = None; handle_starttag: '
         'tag test and not self.content_type; dict of lower-cased names and `(v or \'\').lower()` values; '
         'stripped http-equiv compared; content taken)')
    need(len(lits) == 6 and lits[1] == '' and lits[3] == '', '_MetaHTMLParser: the two defaults are empty strings')
    return lits[0], lits[2], lits[4], lits[5]


def read_decode_sites(tree):
    """every `if isinstance(X, bytes): X = X.decode(LIT)` of the three consumers of a document -> [(function, X, LIT)]"""
    out = []
    for fname in ('_getTextType', 'getMetaInfo', 'detectXMLEncoding'):
        f = func(tree, fname)
        for n in ast.walk(f):
            if isinstance(n, ast.If) and isinstance(n.test, ast.Call) and is_name(n.test.func, 'isinstance') \
                    and len(n.test.args) == 2 and is_name(n.test.args[1], 'bytes'):
                need(isinstance(n.test.args[0], ast.Name) and not n.orelse and len(n.body) == 1, 'bytes guard in ' + fname)
                x = n.test.args[0].id
                a = n.body[0]
                ok = (isinstance(a, ast.Assign) and len(a.targets) == 1 and is_name(a.targets[0], x)
                      and isinstance(a.value, ast.Call) and isinstance(a.value.func, ast.Attribute)
                      and a.value.func.attr == 'decode' and is_name(a.value.func.value, x)
                      and len(a.value.args) == 1 and not a.value.keywords)
                need(ok, '`%s = %s.decode(<codec>)` expected at line %d' % (x, x, a.lineno))
                out.append((fname, x, const_str(a.value.args[0])))
    need([(f, x) for f, x, _ in out] == [('_getTextType', 'text'), ('getMetaInfo', 'text'), ('detectXMLEncoding', 'fp'),
                                          ('detectXMLEncoding', 'head'), ('detectXMLEncoding', 'buffer')],
         'the five bytes guards (text, text, fp, head, buffer): %r' % (out,))
    return out


def read_try_encodings(tree):
    """tryEncodings, the branch without chardet: -> (encodings tuple, the name that gets the extra test, the codec of
    the extra test, the character looked for, the name returned by the extra test)"""
    f = func(tree, 'tryEncodings')
    encs = special = alt = needle = altret = None
    fors = [n for n in ast.walk(f) if isinstance(n, ast.For)]
    need(len(fors) == 1 and isinstance(fors[0].target, ast.Name) and isinstance(fors[0].iter, ast.Name),
         'tryEncodings: one `for <name> in <tuple name>` loop')
    var, tup = fors[0].target.id, fors[0].iter.id
    for n in ast.walk(f):
        if isinstance(n, ast.Assign) and len(n.targets) == 1 and is_name(n.targets[0], tup):
            need(isinstance(n.value, ast.Tuple), 'tryEncodings: the loop runs over a tuple literal')
            encs = [const_str(e) for e in n.value.elts]
        if isinstance(n, ast.If) and isinstance(n.test, ast.Compare) and len(n.test.ops) == 1:
            t = n.test
            if isinstance(t.ops[0], ast.Eq) and isinstance(t.left, ast.Constant) and is_name(t.comparators[0], var):
                need(special is None, 'tryEncodings: one special name')
                special = const_str(t.left)
            if isinstance(t.ops[0], ast.In) and isinstance(t.left, ast.Constant):
                c = t.comparators[0]
                need(isinstance(c, ast.Call) and isinstance(c.func, ast.Attribute) and c.func.attr == 'decode'
                     and is_name(c.func.value, 'text') and len(c.args) == 1, 'tryEncodings: `<char> in text.decode(<codec>)`')
                needle, alt = const_str(t.left), const_str(c.args[0])
                need(len(needle) == 1, 'tryEncodings: one character looked for')
                need(len(n.body) == 1 and isinstance(n.body[0], ast.Return), 'tryEncodings: return under the extra test')
                altret = const_str(n.body[0].value)
    need(None not in (encs, special, alt, needle, altret), 'tryEncodings parts')
    return encs, special, alt, needle, altret


def split_pattern(pattern, flags, group='encstr'):
    """the pattern as (before, group body, after), each a relib AST. Requires `^` first (then `search` on a
    pattern without re.M is `match` at offset 0) and the named group at top level."""
    p = sp.parse(pattern, flags)
    fl = p.state.flags
    need(not (fl & re.M), 'xmlDeclPattern: re.M not supported')
    items = list(p)
    need(items and items[0][0] is AT and items[0][1] is AT_BEGINNING, 'xmlDeclPattern must start with ^')
    items = items[1:]
    gid = p.state.groupdict.get(group)
    need(gid is not None, 'named group %s' % group)
    idx = [i for i, (op, av) in enumerate(items) if op is SUBPATTERN and av[0] == gid]
    need(len(idx) == 1, 'group %s must be a top-level item of the pattern' % group)
    i = idx[0]
    try:
        pre = relib.conv(items[:i], fl)
        grp = relib.conv(items[i][1][3], fl)
        post = relib.conv(items[i + 1:], fl)
    except relib.Unsupported as e:
        raise Unsupported('xmlDeclPattern: %s' % e)
    return pre, grp, post


def group_match(parts, text):
    """reference evaluation of the split pattern with the semantics of Re.ms: span of the group or None"""
    pre, grp, post = parts
    s = [ord(c) for c in text]
    for a in relib.ms(pre, s, 0):
        for b in relib.ms(grp, s, a):
            for _ in relib.ms(post, s, b):
                return (a, b)
    return None


SELF_CHECK = [
    '<?xml version="1.0" encoding="ascii" ?>', "<?xml version='1.0' encoding='Iso-8859-1'?>rest",
    '<?xml version="1.0" ?>', '<?xml version="1.0"?><x encoding="ascii"/>', ' <?xml version="1.0" encoding="a"?>',
    '<?xml encoding="a" encoding="b"?>', '<?xml version="1.0" encoding="a\'b" x="c"?>?>', '<?xmlencoding="a"?>',
    '<?xml version="1.0"\n encoding="a"?>', '<?xml  encoding=""?> encoding="x"?>', '', '<?xml', '<?xml encoding="a"',
    '<?xml version="1.0" encoding="a" standalone="yes"?><a b="c"?>',
    '<?xml version="1.0"\nencoding="iso-8859-1"?><a/>', "<?xml\tversion = '1.1'\r\n encoding\t=\n'X' ?>", '<?xml version="1.0"?><x encoding="ascii"/><?pi ?>',
    '<?xml-stylesheet href="a" encoding="pi"?>', '<?xml version="1.0" encoding="a" ?x?>', '<?xml version="1.0" encoding="a"',
    '<?xml version="1.0\' encoding=\'a"?>', '<?xml\x0bversion="1"\xa0encoding="b"?>',
]


# ----------------------------------------------------------------------------------------------
def lean_str(s):
    return '[' + ', '.join(str(ord(c)) for c in s) + ']'


def lean_opt_str(s):
    return 'none' if s is None else '(some %s)' % lean_str(s)


def lean_name(c):
    return c.strip('_')


def generate(repo):
    path = os.path.join(repo, SRC)
    src = open(path, encoding='utf-8').read()
    tree = ast.parse(src)
    consts = read_constants(tree)
    none_type, lists, ladder, else_type = read_classifier(tree)
    tt = read_text_type(tree)
    defaults = read_defaults(tree)
    bom, read1, read2, pattern, flags, default = read_sniffer(tree)
    parts = split_pattern(pattern, flags)
    meta_lits = read_meta_parser(tree)
    decode_sites = read_decode_sites(tree)
    try_parts = read_try_encodings(tree)
    # self-check of the split against CPython's re (group span)
    rx = re.compile(pattern, flags)
    for t in SELF_CHECK:
        m = rx.search(t)
        want = m.span('encstr') if m else None
        got = group_match(parts, t)
        need(got == want, 'split pattern disagrees with re on %r: %r vs %r' % (t, got, want))

    o = []
    w = o.append
    w('import CssVerif.Lib.Re')
    w('/-!')
    w('GENERATED by tools/gen/c20_tables.py from encutils/__init__.py — do not edit.')
    w('source sha256: %s' % hashlib.sha256(src.encode('utf-8')).hexdigest())
    w('-/')
    w('namespace CssVerif.Gen.C20')
    w('open CssVerif')
    w('')
    w('/-! text-type constants -/')
    for c in CONST_NAMES:
        w('def %s : Nat := %d' % (lean_name(c), consts[c]))
    w('')
    w('/-- one rung of the `if/elif` ladder of `_getTextTypeByMediaType` -/')
    w('inductive Rule where')
    w('  | listRe (lits : List (List Nat)) (re : Re) (ty : Nat)   -- `media_type in L[j:] or re.match(L[k], media_type, flags)`')
    w('  | eq (lit : List Nat) (ty : Nat)                         -- `media_type == lit`')
    w('  | pre (lit : List Nat) (ty : Nat)                        -- `media_type.startswith(lit)`')
    w('deriving DecidableEq')
    w('')
    for lname, vals in lists.items():
        w('/-- `%s` -/' % lname)
        w('def %s : List (List Nat) := [' % lname)
        for i, v in enumerate(vals):
            w('  %s%s  -- %r' % (lean_str(v), ',' if i + 1 < len(vals) else '', v))
        w(']')
    res = {}
    for r in ladder:
        if r[0] == 'listre':
            _, lname, k, fl, _start, _c = r
            need(0 <= k < len(lists[lname]), 'list index')
            try:
                ast_re = relib.parse(lists[lname][k], fl)
            except relib.Unsupported as e:
                raise Unsupported('%s[%d]: %s' % (lname, k, e))
            need(not (sp.parse(lists[lname][k], fl).state.flags & re.M), 're.M not supported')
            res[lname] = '%s_re' % lname
            w('/-- `re.match(%s[%d], media_type, flags=%d)` : %r -/' % (lname, k, fl, lists[lname][k]))
            w('def %s_re : Re := %s' % (lname, relib.tolean(ast_re)))
    w('')
    w('/-- value returned for a falsy media type -/')
    w('def noneType : Nat := %s' % lean_name(none_type))
    w('/-- the ladder in source order -/')
    w('def ladder : List Rule := [')
    rows = []
    for r in ladder:
        if r[0] == 'listre':
            rows.append('  .listRe (%s.drop %d) %s %s' % (r[1], r[4], res[r[1]], lean_name(r[5])))
        elif r[0] == 'eq':
            rows.append('  .eq %s %s  -- %r' % (lean_str(r[1]), lean_name(r[2]), r[1]))
        else:
            rows.append('  .pre %s %s  -- %r' % (lean_str(r[1]), lean_name(r[2]), r[1]))
    for i, row in enumerate(rows):
        if '--' in row and i + 1 < len(rows):
            a, b = row.split('  --', 1)
            w(a + ',  --' + b)
        else:
            w(row + (',' if i + 1 < len(rows) else ''))
    w(']')
    w('/-- the final `else` -/')
    w('def elseType : Nat := %s' % lean_name(else_type))
    w('')
    w('/-! `_getTextType`: `text[:%d].find(%r) != -1` -/' % (tt[0], tt[1]))
    w('def sniffWindow : Nat := %d' % tt[0])
    w('def sniffNeedle : List Nat := %s' % lean_str(tt[1]))
    w('def sniffYes : Nat := %s' % lean_name(tt[2]))
    w('def sniffNo : Nat := %s' % lean_name(tt[3]))
    w('')
    w('/-- `defaultencodings` of `encodingByMediaType`, in source order (dict: last entry of a key wins) -/')
    w('def defaultEncodings : List (Nat × Option (List Nat)) := [')
    for i, (k, v) in enumerate(defaults):
        w('  (%s, %s)%s  -- %r' % (lean_name(k), lean_opt_str(v), ',' if i + 1 < len(defaults) else '', v))
    w(']')
    w('')
    w('/-- `bomDict`, in source order -/')
    w('def bomDict : List (List (Option Nat) × List Nat) := [')
    for i, (key, name) in enumerate(bom):
        ks = ', '.join('none' if x is None else 'some %d' % x for x in key)
        w('  ([%s], %s)%s  -- %r' % (ks, lean_str(name), ',' if i + 1 < len(bom) else '', name))
    w(']')
    w('/-- `fp.read(%d)` for the BOM, `fp.read(%d)` for the declaration -/' % (read1, read2))
    w('def bomRead : Nat := %d' % read1)
    w('def declRead : Nat := %d' % read2)
    w('/-- the literal default -/')
    w('def xmlDefault : List Nat := %s  -- %r' % (lean_str(default), default))
    w('')
    w('/-! `xmlDeclPattern` (flags=%d), split at the named group `encstr`; the leading `^` is dropped' % flags)
    w('(`search` on a pattern that starts with `^`, without re.M, is `match` at offset 0) -/')
    w('def declPre : Re := %s' % relib.tolean(parts[0]))
    w('def declGrp : Re := %s' % relib.tolean(parts[1]))
    w('def declPost : Re := %s' % relib.tolean(parts[2]))
    w('')
    w('/-! `_MetaHTMLParser.handle_starttag` (shape checked against the template of the translator; the literals are data) -/')
    w('def metaTag : List Nat := %s  -- %r' % (lean_str(meta_lits[0]), meta_lits[0]))
    w('def metaEquivKey : List Nat := %s  -- %r' % (lean_str(meta_lits[1]), meta_lits[1]))
    w('def metaEquivValue : List Nat := %s  -- %r' % (lean_str(meta_lits[2]), meta_lits[2]))
    w('def metaContentKey : List Nat := %s  -- %r' % (lean_str(meta_lits[3]), meta_lits[3]))
    w('')
    w('/-- the codec of every `if isinstance(X, bytes): X = X.decode(<codec>)` in the three consumers of a document -/')
    w('def decodeCodecs : List (List Nat) := [')
    for i, (fn, x, c) in enumerate(decode_sites):
        w('  %s%s  -- %s: %s.decode(%r)' % (lean_str(c), ',' if i + 1 < len(decode_sites) else '', fn, x, c))
    w(']')
    w('')
    w('/-! `tryEncodings`, the branch without chardet -/')
    w('def tryEncodingsList : List (List Nat) := [')
    for i, e in enumerate(try_parts[0]):
        w('  %s%s  -- %r' % (lean_str(e), ',' if i + 1 < len(try_parts[0]) else '', e))
    w(']')
    w('def trySpecial : List Nat := %s  -- %r' % (lean_str(try_parts[1]), try_parts[1]))
    w('def tryAltCodec : List Nat := %s  -- %r' % (lean_str(try_parts[2]), try_parts[2]))
    w('def tryNeedle : Nat := %d  -- %r' % (ord(try_parts[3]), try_parts[3]))
    w('def tryAltReturn : List Nat := %s  -- %r' % (lean_str(try_parts[4]), try_parts[4]))
    w('')
    w('end CssVerif.Gen.C20')
    return {'CssVerif/Gen/C20Tables.lean': '\n'.join(o) + '\n'}


if __name__ == '__main__':
    import sys
    for k, v in generate(sys.argv[1] if len(sys.argv) > 1 else '/repo').items():
        sys.stdout.write(v)
