"""C09 translator: rule-kind tables of the edit machine, read from the source with `ast` (no import of cssutils).

source                                   -> Lean (lean/CssVerif/Gen/C09RuleKinds.lean)
cssrule.py  CSSRule.<NAME> = <int>       -> Kind.code
cssstylesheet.py insertRule: every `<x>.type in (<r>.A, <r>.B, ...)` tuple, in source order (12 of them)
                                         -> commentKinds, importFirstSkip, importBefore, nsStartAfter, nsFirstBefore,
                                            nsAfter, nsBefore, varsStartAfter, varsFirstBefore, varsAfter, varsBefore,
                                            otherAfter
cssstylesheet.py _setCssText: per callback `if expected > N` and the final `return M`
                                         -> lvlMax / lvlAfter
cssmediarule.py / csspagerule.py insertRule: the isinstance(...) chain, or `not isinstance(rule, X)`
                                         -> mediaRejects / pageRejects (functions Kind -> Bool)
cssmediarule.py _setCssText.atrule: the `atval in (...)` tuple and the factories dict -> mediaTextRejects / mediaTextFactories

The control structure around these tables is hand-modelled (Model/SheetEdit.lean) and checked by correspondence.
A shape this translator does not know makes it stop with an explicit message — it never guesses.
"""
import ast
import hashlib
import os

KIND_OF_CONST = {
    'UNKNOWN_RULE': 'unknown', 'STYLE_RULE': 'style', 'CHARSET_RULE': 'charset', 'IMPORT_RULE': 'imp',
    'MEDIA_RULE': 'media', 'FONT_FACE_RULE': 'fontface', 'PAGE_RULE': 'page', 'NAMESPACE_RULE': 'ns',
    'COMMENT': 'comment', 'VARIABLES_RULE': 'vars', 'MARGIN_RULE': 'margin',
}
KIND_OF_CLASS = {
    'CSSCharsetRule': 'charset', 'CSSFontFaceRule': 'fontface', 'CSSImportRule': 'imp', 'CSSNamespaceRule': 'ns',
    'MarginRule': 'margin', 'CSSPageRule': 'page', 'CSSMediaRule': 'media', 'CSSStyleRule': 'style',
    'CSSVariablesRule': 'vars', 'CSSComment': 'comment', 'CSSUnknownRule': 'unknown',
}
KIND_OF_ATVAL = {
    '@charset ': 'charset', '@font-face': 'fontface', '@import': 'imp', '@namespace': 'ns', '@variables': 'vars',
    '@page': 'page', '@media': 'media',
}
INSERT_TUPLES = ['commentKinds', 'importFirstSkip', 'importBefore', 'nsStartAfter', 'nsFirstBefore', 'nsAfter',
                 'nsBefore', 'varsStartAfter', 'varsFirstBefore', 'varsAfter', 'varsBefore', 'otherAfter']
CALLBACKS = {'charsetrule': 'charset', 'importrule': 'imp', 'namespacerule': 'ns', 'variablesrule': 'vars',
             'fontfacerule': 'fontface', 'mediarule': 'media', 'pagerule': 'page', 'ruleset': 'style'}


class Unsupported(Exception):
    pass


def _read(repo, rel):
    with open(os.path.join(repo, rel), encoding='utf-8') as f:
        return f.read()


def _func(tree, cls, name):
    for n in ast.walk(tree):
        if isinstance(n, ast.ClassDef) and n.name == cls:
            for m in n.body:
                if isinstance(m, ast.FunctionDef) and m.name == name:
                    return m
    raise Unsupported('%s.%s not found' % (cls, name))


def type_constants(src):
    tree = ast.parse(src)
    out = {}
    for n in ast.walk(tree):
        if isinstance(n, ast.ClassDef) and n.name == 'CSSRule':
            for st in n.body:
                if (isinstance(st, ast.Assign) and len(st.targets) == 1 and isinstance(st.targets[0], ast.Name)
                        and st.targets[0].id in KIND_OF_CONST and isinstance(st.value, ast.Constant)
                        and isinstance(st.value.value, int)):
                    out[KIND_OF_CONST[st.targets[0].id]] = st.value.value
    if set(out) != set(KIND_OF_CONST.values()):
        raise Unsupported('CSSRule type constants: found %s' % sorted(out))
    if len(set(out.values())) != len(out):
        raise Unsupported('CSSRule type constants are not distinct: %s' % out)
    return out


def _kind_tuple(node):
    """(r.A, r.B, ...) -> [kind, ...]"""
    if not isinstance(node, ast.Tuple):
        return None
    ks = []
    for e in node.elts:
        if isinstance(e, ast.Attribute) and e.attr in KIND_OF_CONST:
            ks.append(KIND_OF_CONST[e.attr])
        else:
            return None
    return ks


def insert_tuples(src):
    f = _func(ast.parse(src), 'CSSStyleSheet', 'insertRule')
    found = []
    for n in ast.walk(f):
        if (isinstance(n, ast.Compare) and len(n.ops) == 1 and isinstance(n.ops[0], ast.In)
                and isinstance(n.left, ast.Attribute) and n.left.attr == 'type'):
            ks = _kind_tuple(n.comparators[0])
            if ks is not None:
                found.append((n.lineno, n.col_offset, ks))
    found.sort()
    if len(found) != len(INSERT_TUPLES):
        raise Unsupported('CSSStyleSheet.insertRule: expected %d `.type in (...)` tuples, found %d at lines %s'
                          % (len(INSERT_TUPLES), len(found), [x[0] for x in found]))
    return {name: (line, ks) for name, (line, _, ks) in zip(INSERT_TUPLES, found)}


def levels(src):
    f = _func(ast.parse(src), 'CSSStyleSheet', '_setCssText')
    lvl_max, lvl_after = {}, {}
    for n in f.body:
        if isinstance(n, ast.FunctionDef) and n.name in CALLBACKS:
            k = CALLBACKS[n.name]
            thr = None
            for m in ast.walk(n):
                if (isinstance(m, ast.Compare) and isinstance(m.left, ast.Name) and m.left.id == 'expected'
                        and len(m.ops) == 1 and isinstance(m.ops[0], ast.Gt)
                        and isinstance(m.comparators[0], ast.Constant)):
                    if thr is not None:
                        raise Unsupported('%s: two `expected >` tests' % n.name)
                    thr = m.comparators[0].value
            # the level after an accepted rule: the only integer constant returned by the callback
            # (other returns hand back `expected` unchanged: the rule was refused or ignored)
            rets = set()
            for m in ast.walk(n):
                if isinstance(m, ast.Return):
                    if isinstance(m.value, ast.Constant) and isinstance(m.value.value, int):
                        rets.add(m.value.value)
                    elif not (isinstance(m.value, ast.Name) and m.value.id == 'expected'):
                        raise Unsupported('%s: return of an unknown shape' % n.name)
            if len(rets) != 1:
                raise Unsupported('%s: integer levels returned: %s' % (n.name, sorted(rets)))
            lvl_max[k] = thr
            lvl_after[k] = rets.pop()
    if set(lvl_after) != set(CALLBACKS.values()):
        raise Unsupported('_setCssText callbacks found: %s' % sorted(lvl_after))
    return lvl_max, lvl_after


def isinstance_chain(src, cls):
    """the hierarchy test of <cls>.insertRule: `isinstance(rule, A) or isinstance(rule, B) ...` (refuse these) or
    `not isinstance(rule, A)` (refuse everything else). Returns (negated, kinds)."""
    f = _func(ast.parse(src), cls, 'insertRule')
    test = None
    for n in ast.walk(f):
        if isinstance(n, ast.If):
            calls = [m for m in ast.walk(n.test) if isinstance(m, ast.Call) and isinstance(m.func, ast.Name)
                     and m.func.id == 'isinstance']
            if calls and all(len(m.args) == 2 and isinstance(m.args[0], ast.Name) and m.args[0].id == 'rule'
                             for m in calls):
                if test is not None:
                    raise Unsupported('%s.insertRule: two isinstance tests' % cls)
                test = n.test
    if test is None:
        raise Unsupported('%s.insertRule: no isinstance test' % cls)

    def kind_of(call):
        t = call.args[1]
        name = t.attr if isinstance(t, ast.Attribute) else t.id if isinstance(t, ast.Name) else None
        if name not in KIND_OF_CLASS:
            raise Unsupported('%s.insertRule: isinstance against %r' % (cls, ast.dump(t)))
        return KIND_OF_CLASS[name]
    if isinstance(test, ast.UnaryOp) and isinstance(test.op, ast.Not) and isinstance(test.operand, ast.Call):
        return True, [kind_of(test.operand)]
    if isinstance(test, ast.Call):
        return False, [kind_of(test)]
    if isinstance(test, ast.BoolOp) and isinstance(test.op, ast.Or) and all(isinstance(v, ast.Call) for v in test.values):
        return False, [kind_of(v) for v in test.values]
    raise Unsupported('%s.insertRule: hierarchy test of an unknown shape' % cls)


def media_text(src):
    f = _func(ast.parse(src), 'CSSMediaRule', '_setCssText')
    atrule = None
    for n in ast.walk(f):
        if isinstance(n, ast.FunctionDef) and n.name == 'atrule':
            atrule = n
    if atrule is None:
        raise Unsupported('CSSMediaRule._setCssText.atrule not found')
    rejects, factories = None, None
    for n in ast.walk(atrule):
        if (isinstance(n, ast.Compare) and isinstance(n.left, ast.Name) and n.left.id == 'atval'
                and isinstance(n.ops[0], ast.In) and isinstance(n.comparators[0], ast.Tuple)):
            vals = [e.value for e in n.comparators[0].elts if isinstance(e, ast.Constant)]
            if len(vals) != len(n.comparators[0].elts) or any(v not in KIND_OF_ATVAL for v in vals):
                raise Unsupported('atrule: atval tuple %r' % vals)
            rejects = [KIND_OF_ATVAL[v] for v in vals]
        if (isinstance(n, ast.Assign) and isinstance(n.targets[0], ast.Name) and n.targets[0].id == 'factories'
                and isinstance(n.value, ast.Dict)):
            keys = [k.value for k in n.value.keys if isinstance(k, ast.Constant)]
            if len(keys) != len(n.value.keys) or any(v not in KIND_OF_ATVAL for v in keys):
                raise Unsupported('atrule: factories %r' % keys)
            factories = [KIND_OF_ATVAL[v] for v in keys]
    if rejects is None or factories is None:
        raise Unsupported('atrule: atval tuple / factories not found')
    return rejects, factories


def lean_list(ks):
    return '[' + ', '.join('.' + k for k in ks) + ']'


def generate(repo):
    rels = ['cssutils/css/cssrule.py', 'cssutils/css/cssstylesheet.py', 'cssutils/css/cssmediarule.py',
            'cssutils/css/csspagerule.py']
    srcs = {r: _read(repo, r) for r in rels}
    codes = type_constants(srcs[rels[0]])
    tuples = insert_tuples(srcs[rels[1]])
    lvl_max, lvl_after = levels(srcs[rels[1]])
    media_rej = isinstance_chain(srcs[rels[2]], 'CSSMediaRule')
    page_rej = isinstance_chain(srcs[rels[3]], 'CSSPageRule')
    mt_rej, mt_fac = media_text(srcs[rels[2]])
    h = hashlib.sha256(''.join(srcs[r] for r in rels).encode('utf-8')).hexdigest()
    out = ['import CssVerif.Model.SheetKind',
           '/-! GENERATED by tools/gen/c09_rulekinds.py from cssrule.py, cssstylesheet.py, cssmediarule.py,',
           'csspagerule.py — do not edit. sha256(sources) = %s -/' % h,
           'namespace CssVerif.SheetEdit.Gen', 'open CssVerif.SheetEdit', '',
           '/-- `CSSRule.<NAME>` type constants, cssrule.py -/',
           'def code : Kind → Nat']
    for k in ['unknown', 'style', 'charset', 'imp', 'media', 'fontface', 'page', 'ns', 'comment', 'vars', 'margin']:
        out.append('  | .%s => %d' % (k, codes[k]))
    out.append('')
    for name in INSERT_TUPLES:
        line, ks = tuples[name]
        out.append('/-- cssstylesheet.py:%d -/' % line)
        out.append('def %s : List Kind := %s' % (name, lean_list(ks)))
    out.append('')
    out.append('/-- `if expected > N` in the sheet dispatcher callbacks (none: no test), cssstylesheet.py `_setCssText` -/')
    out.append('def lvlMax : Kind → Option Nat')
    for k in CALLBACKS.values():
        out.append('  | .%s => %s' % (k, 'none' if lvl_max[k] is None else 'some %d' % lvl_max[k]))
    out.append('  | _ => none')
    out.append('/-- the level returned by the callback after a rule of this kind -/')
    out.append('def lvlAfter : Kind → Option Nat')
    for k in CALLBACKS.values():
        out.append('  | .%s => some %d' % (k, lvl_after[k]))
    out.append('  | _ => none')
    out.append('')
    out.append('/-- cssmediarule.py `insertRule`: the kinds refused by the isinstance test -/')
    out.append('def mediaRejects (k : Kind) : Bool := %s%s.contains k' % ('!' if media_rej[0] else '', lean_list(media_rej[1])))
    out.append('/-- csspagerule.py `insertRule`: the kinds refused by the isinstance test -/')
    out.append('def pageRejects (k : Kind) : Bool := %s%s.contains k' % ('!' if page_rej[0] else '', lean_list(page_rej[1])))
    out.append('/-- cssmediarule.py `_setCssText.atrule`: at-keywords refused inside @media text -/')
    out.append('def mediaTextRejects : List Kind := %s' % lean_list(mt_rej))
    out.append('/-- … and the at-keywords with a factory (parsed as that rule class) -/')
    out.append('def mediaTextFactories : List Kind := %s' % lean_list(mt_fac))
    out.append('')
    out.append('end CssVerif.SheetEdit.Gen')
    return {'CssVerif/Gen/C09RuleKinds.lean': '\n'.join(out) + '\n'}


if __name__ == '__main__':
    import sys
    for p, c in generate(sys.argv[1] if len(sys.argv) > 1 else '/repo').items():
        print('-- ' + p)
        print(c)
