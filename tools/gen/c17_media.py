"""C17 translator: cssutils/stylesheets/mediaquery.py (+ medialist.py) -> lean/CssVerif/Gen/C17Media.lean

Read with `ast` only (cssutils is not imported):
  * `MediaQuery.MEDIA_TYPES`                                   -> `mediaTypes`
  * the keyword tuples / strings the Prod match lambdas compare `normalize(v)` with
    (`in ('only', 'not')`, `== 'and'`)                          -> `prefixWords`, `andWords`
  * the `mediaType` setter: the tuple of words its loop passes over and the keyword literal it inserts
                                                                -> `setterSkipWords`, `setterAndWord`
  * the string the parse-time filter of `MediaList._setMediaText` and the edit operations compare a
    media type with (`mediaType == 'all'`, `'all' in mts`, `'all' == newmt`) -> `allWords`
A shape that is not found stops the translation with an explicit message (never guessed).
"""
import ast
import hashlib
import os

MQ = 'cssutils/stylesheets/mediaquery.py'
ML = 'cssutils/stylesheets/medialist.py'


def _src(repo, rel):
    with open(os.path.join(repo, rel), 'rb') as f:
        data = f.read()
    return data, hashlib.sha256(data).hexdigest()


def _is_normalize_v(node):
    return (isinstance(node, ast.Call) and isinstance(node.func, ast.Name) and node.func.id == 'normalize'
            and len(node.args) == 1 and isinstance(node.args[0], ast.Name) and node.args[0].id == 'v')


def _strs(node):
    if isinstance(node, (ast.Tuple, ast.List)) and all(isinstance(e, ast.Constant) and isinstance(e.value, str)
                                                      for e in node.elts):
        return [e.value for e in node.elts]
    return None


def read_tables(repo):
    data, h1 = _src(repo, MQ)
    tree = ast.parse(data)
    media_types = None
    kw_in, kw_eq = [], []
    uses_media_types = False
    for cls in ast.walk(tree):
        if isinstance(cls, ast.ClassDef) and cls.name == 'MediaQuery':
            for st in cls.body:
                if isinstance(st, ast.Assign) and len(st.targets) == 1 and isinstance(st.targets[0], ast.Name) \
                        and st.targets[0].id == 'MEDIA_TYPES':
                    media_types = _strs(st.value)
            for fn in cls.body:
                if isinstance(fn, ast.FunctionDef) and fn.name == '_setMediaText':
                    for n in ast.walk(fn):
                        if isinstance(n, ast.Compare) and len(n.ops) == 1 and _is_normalize_v(n.left):
                            c = n.comparators[0]
                            if isinstance(n.ops[0], ast.In):
                                if _strs(c) is not None:
                                    kw_in.append(_strs(c))
                                elif isinstance(c, ast.Attribute) and c.attr == 'MEDIA_TYPES':
                                    uses_media_types = True
                                else:
                                    raise ValueError('c17 translator: unexpected `normalize(v) in ...` operand: %s'
                                                     % ast.dump(c))
                            elif isinstance(n.ops[0], ast.Eq) and isinstance(c, ast.Constant):
                                kw_eq.append(c.value)
                            else:
                                raise ValueError('c17 translator: unexpected comparison with normalize(v)')
    # the `mediaType` setter: the words its loop over `_seq` passes over (`normalize(x.value) in ('only', 'not')`)
    # and the keyword it puts between the new type and a leading expression (`self._seq.insert(i, 'and', 'IDENT')`)
    skip, setter_and = [], []
    for cls in ast.walk(tree):
        if isinstance(cls, ast.ClassDef) and cls.name == 'MediaQuery':
            for fn in cls.body:
                if isinstance(fn, ast.FunctionDef) and fn.name == '_setMediaType':
                    for n in ast.walk(fn):
                        if isinstance(n, ast.Compare) and len(n.ops) == 1 and isinstance(n.ops[0], ast.In) \
                                and _strs(n.comparators[0]) is not None:
                            skip.append(_strs(n.comparators[0]))
                        if isinstance(n, ast.Call) and isinstance(n.func, ast.Attribute) and n.func.attr == 'insert' \
                                and len(n.args) >= 2 and isinstance(n.args[1], ast.Constant) \
                                and isinstance(n.args[1].value, str):
                            setter_and.append(n.args[1].value)
    if len(skip) != 1:
        raise ValueError('c17 translator: mediaType setter: expected one tuple of skipped words, found %r' % (skip,))
    if len(setter_and) != 1:
        raise ValueError('c17 translator: mediaType setter: expected one inserted keyword literal, found %r'
                         % (setter_and,))
    if not media_types:
        raise ValueError('c17 translator: MediaQuery.MEDIA_TYPES not found as a list of string literals')
    if not uses_media_types:
        raise ValueError('c17 translator: media_type production no longer tests `normalize(v) in self.MEDIA_TYPES`')
    if len(kw_in) != 1:
        raise ValueError('c17 translator: expected exactly one keyword tuple (only/not), found %r' % (kw_in,))
    if not kw_eq or len(set(kw_eq)) != 1:
        raise ValueError('c17 translator: expected one AND keyword, found %r' % (kw_eq,))

    data2, h2 = _src(repo, ML)
    tree2 = ast.parse(data2)
    all_words = set()
    for cls in ast.walk(tree2):
        if isinstance(cls, ast.ClassDef) and cls.name == 'MediaList':
            for n in ast.walk(cls):
                # a media type literal that a comparison of the list code singles out (independent of the names of
                # the locals): `x == 'all'`, `'all' in xs`, `xs.count('all')`
                consts = []
                if isinstance(n, ast.Compare):
                    consts = [b.value for b in [n.left] + list(n.comparators)
                              if isinstance(b, ast.Constant) and isinstance(b.value, str)]
                elif isinstance(n, ast.Call) and isinstance(n.func, ast.Attribute) and n.func.attr in ('count', 'index'):
                    consts = [a.value for a in n.args if isinstance(a, ast.Constant) and isinstance(a.value, str)]
                all_words.update(c for c in consts if c in media_types)
    if len(all_words) != 1:
        raise ValueError('c17 translator: expected the single absorbing media type literal, found %r' % (all_words,))
    return {'media_types': media_types, 'prefix': kw_in[0], 'and': sorted(set(kw_eq)), 'all': sorted(all_words),
            'setter_skip': skip[0], 'setter_and': setter_and[0],
            'sha': {MQ: h1, ML: h2}}


def _cps(s):
    return '[' + ', '.join(str(ord(c)) for c in s) + ']'


def render(t):
    out = ['/-! GENERATED by tools/gen/c17_media.py — do not edit.']
    for k, v in sorted(t['sha'].items()):
        out.append('source %s sha256 %s' % (k, v))
    out.append('-/')
    out.append('namespace CssVerif.Gen.C17Media')
    out.append('')

    out2 = out
    for name, doc, words in (
            ('mediaTypes', '`MediaQuery.MEDIA_TYPES` (%s)' % ', '.join(t['media_types']), t['media_types']),
            ('prefixWords', 'keywords of the `ONLY|NOT` production (%s)' % ', '.join(t['prefix']), t['prefix']),
            ('andWords', 'keyword of the `AND` productions (%s)' % ', '.join(t['and']), t['and']),
            ('allWords', 'the absorbing media type of `MediaList` (%s)' % ', '.join(t['all']), t['all']),
            ('setterSkipWords', 'words the loop of the `mediaType` setter passes over (%s)'
             % ', '.join(t['setter_skip']), t['setter_skip'])):
        out2.append('/-- %s -/' % doc)
        out2.append('def %s : List (List Nat) :=\n  [%s]' % (name, ',\n   '.join(_cps(w) for w in words)))
        out2.append('')
    out2.append('/-- the keyword the `mediaType` setter inserts before a leading expression (%s) -/' % t['setter_and'])
    out2.append('def setterAndWord : List Nat := %s' % _cps(t['setter_and']))
    out2.append('')
    out2.append('end CssVerif.Gen.C17Media')
    return '\n'.join(out2) + '\n'


def generate(repo):
    t = read_tables(repo)
    return {'CssVerif/Gen/C17Media.lean': render(t)}, t


if __name__ == '__main__':
    import sys
    files, t = generate(sys.argv[1] if len(sys.argv) > 1 else '/repo')
    for k, v in files.items():
        print('==', k)
        print(v)
