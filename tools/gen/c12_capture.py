"""C12 translator, part 2: the grammars that cssutils really hands to `ProdParser.parse`, captured from the live
objects (run in a subprocess with the repository on PYTHONPATH; this is the one translator that imports cssutils).

For every `ProdParser.parse` call made while a fixed set of inputs is parsed, the `Sequence/Choice/Prod` tree is
recorded with its flags (`optional`, `stop`, `stopAndKeep`, `stopIfNoMoreMatch`, `nextSor`, `mayEnd`, `toSeq is False`),
the parse parameters, whether the call was made from inside another parse (through a `toSeq` callback, and of which
production), and with which flags. `Prod.match` lambdas are opaque and are NOT captured: the theorems that use
`realEnv` (hand-back discipline, stand-alone grammars never hand back) do not depend on what a production accepts
(`Lemmas/GlobalsProd.lean: wfEnv_reacc`).

Output (JSON on stdout): {"grammars": [{"name", "flags", "nodes": [...]}], "standalone": [indices]}
"""
import json
import sys


def capture():
    import cssutils
    import cssutils.prodparser as pp
    cssutils.log.setLevel(100)
    cssutils.log.raiseExceptions = False
    grammars = []          # list of dicts
    index = {}             # signature -> index
    standalone = set()
    stack = []             # (grammar index, node index) of the production whose toSeq is running
    orig_parse = pp.ProdParser.parse

    def flatten(node, nodes, wrap):
        i = len(nodes)
        nodes.append(None)
        if isinstance(node, pp.Prod):
            fl = ''
            if node.optional:
                fl += 'o'
            if node.stop:
                fl += 's'
            if node.stopAndKeep:
                fl += 'k'
            if node.stopIfNoMoreMatch:
                fl += 'i'
            if node.nextSor:
                fl += 'n'
            if node.mayEnd:
                fl += 'm'
            nodes[i] = {'t': 'P', 'name': str(node), 'fl': fl, 'toseq': node.toSeq is not False, 'children': []}
            wrap.append((i, node))
        elif isinstance(node, pp.Sequence):
            ch = [flatten(c, nodes, wrap) for c in node._prods]
            mx = node._max
            nodes[i] = {'t': 'S', 'ch': ch, 'min': node._min, 'max': None if mx >= sys.maxsize else mx}
        elif isinstance(node, pp.Choice):
            ch = [flatten(c, nodes, wrap) for c in node._prods]
            nodes[i] = {'t': 'C', 'ch': ch, 'opt': bool(node.optional)}
        else:
            raise TypeError('unknown grammar node %r' % (node,))
        return i

    def signature(name, nodes, kw):
        return json.dumps([name, [(n['t'], n.get('fl'), n.get('toseq'), n.get('ch'), n.get('min'), n.get('max'),
                                   n.get('opt'), n.get('name')) for n in nodes], kw], sort_keys=True)

    def parse(self, text, name, productions, keepS=False, checkS=False, store=None, emptyOk=False, debug=False):
        nodes, wrap = [], []
        flatten(productions, nodes, wrap)
        kw = {'keepS': bool(keepS), 'checkS': bool(checkS), 'emptyOk': bool(emptyOk)}
        sig = signature(name, nodes, kw)
        if sig not in index:
            index[sig] = len(grammars)
            grammars.append({'name': name, 'kw': kw, 'nodes': nodes})
        g = index[sig]
        if stack:
            pg, pn = stack[-1]
            ch = grammars[pg]['nodes'][pn]['children']
            if g not in ch:
                ch.append(g)
        else:
            standalone.add(g)
        # make the toSeq callbacks of THIS call announce themselves
        for i, prod in wrap:
            if callable(prod.toSeq):
                def wrapped(token, tokens, _orig=prod.toSeq, _key=(g, i)):
                    stack.append(_key)
                    try:
                        return _orig(token, tokens)
                    finally:
                        stack.pop()
                prod.toSeq = wrapped
        saved_stack = list(stack)
        try:
            return orig_parse(self, text, name, productions, keepS=keepS, checkS=checkS, store=store, emptyOk=emptyOk,
                              debug=debug)
        finally:
            stack[:] = saved_stack
    pp.ProdParser.parse = parse

    def attempt(f):
        try:
            f()
        except Exception:       # noqa: B902 -- capture only
            pass
    value = ('1px -2em 50% 0 f(a, g(1), rgb(1,2,3)) rgba(1,2,3,.5) hsl(1,2%,3%) url(x.png) #fff #a1b2c3 "s" ident '
             'U+0-7F var(a) var(b, 1px) calc(1px + 2 * (3em - 1%)) expression(x) progid:X.Y(a=1), b / c red')
    attempt(lambda: cssutils.stylesheets.MediaList('screen, print and (min-width: 1px), not tv and (color) and (max-width: 2em)'))
    attempt(lambda: cssutils.stylesheets.MediaList('(min-width: 1px), screen foo, all'))
    attempt(lambda: cssutils.stylesheets.MediaQuery('only screen and (min-width: 1px) and (color)'))
    attempt(lambda: cssutils.stylesheets.MediaQuery('(max-width: 10px)'))
    attempt(lambda: cssutils.stylesheets.MediaList().appendMedium('print and (orientation: landscape)'))
    attempt(lambda: cssutils.css.PropertyValue(value))
    attempt(lambda: cssutils.css.PropertyValue('a; b'))
    attempt(lambda: cssutils.css.CSSVariablesDeclaration('a: 1px; b: f(2) c; c: var(a)'))
    attempt(lambda: cssutils.css.CSSVariablesDeclaration().setVariable('x', '1px 2px'))
    attempt(lambda: cssutils.css.MarginRule('@top-left', 'content: "x"; color: red'))
    for cls in ('Value', 'ColorValue', 'DimensionValue', 'URIValue', 'CSSFunction', 'CSSCalc', 'CSSVariable', 'MSValue'):
        c = getattr(cssutils.css, cls, None) or getattr(cssutils.css.value, cls, None)
        if c is None:
            continue
        for t in ('red', '#fff', 'rgb(1,2,3)', '1px', 'url(x)', 'f(a,b)', 'calc(1 + 2)', 'var(a, 1)', 'progid:X.Y(a=1)', '"s"'):
            attempt(lambda c=c, t=t: c(t))
    sheet = ('@import "x.css" screen, print and (color); @media tv and (min-width: 1px), handheld {a{margin:%s}} '
             '@page :first {margin: 1px 2px; @top-left {content: "x"; color: rgb(1,2,3)}} '
             '@variables {a: 1px; b: f(2)} @font-face {src: url(x) format("y"), local(z)} '
             'a{color: var(a); width: calc(1px + 2px); background: url(x) no-repeat, red}' % value)
    attempt(lambda: cssutils.CSSParser(fetcher=lambda url: (None, 'i{color:blue}')).parseString(sheet, href='http://c12.invalid/'))
    attempt(lambda: cssutils.parseStyle('margin: 1px 2px; color: rgb(1,2,3) !important; content: "x" attr(y)'))
    pp.ProdParser.parse = orig_parse
    return {'grammars': grammars, 'standalone': sorted(standalone)}


def lean_bool(b):
    return 'true' if b else 'false'


def render(data):
    """Gen/C12Grammars.lean"""
    lines = ['import CssVerif.Model.GlobalsProd',
             '/-! GENERATED by tools/gen/c12_capture.py from the live grammar objects of cssutils — do not edit.',
             'What a production accepts is not captured (`acc := []`); flags, structure and child links are.',
             'A production whose `toSeq` was seen to start more than one kind of nested parser is followed by extra,',
             'unreferenced copies at the end of its table (one per further child) so that every link is checked. -/',
             'namespace CssVerif.Gen.C12',
             'open CssVerif.GProd',
             '',
             'def grammarNames : List String := [%s]' % ', '.join('"%s"' % g['name'] for g in data['grammars']),
             '',
             'def realEnv : Env := [']
    specs = []
    for g in data['grammars']:
        nodes = []
        extra = []
        for n in g['nodes']:
            if n['t'] == 'P':
                fl = n['fl']
                flags = '⟨%s⟩' % ', '.join(lean_bool(c in fl) for c in 'oskinm')
                if not n['toseq']:
                    act = '.drop'
                elif n['children']:
                    act = '(.child %d)' % n['children'][0]
                    for k in n['children'][1:]:
                        extra.append('.prod [] %s (.child %d)' % (flags, k))
                else:
                    act = '.keep'
                nodes.append('.prod [] %s %s' % (flags, act))
            elif n['t'] == 'S':
                nodes.append('.seq [%s] %d %s' % (', '.join(map(str, n['ch'])), n['min'],
                                                  'maxsize' if n['max'] is None else n['max']))
            else:
                nodes.append('.choice [%s] (some %s)' % (', '.join(map(str, n['ch'])), lean_bool(n['opt'])))
        kw = g['kw']
        specs.append('  -- %d: %s\n  { tb := [\n      %s ],\n    keepS := %s, checkS := %s, emptyOk := %s, postErr := false }'
                     % (len(specs), g['name'], ',\n      '.join(nodes + extra), lean_bool(kw['keepS']), lean_bool(kw['checkS']),
                        lean_bool(kw['emptyOk'])))
    lines.append(',\n'.join(specs))
    lines.append(']')
    lines.append('')
    lines.append('/-- grammars that were handed to `ProdParser.parse` by a call that was not made from a `toSeq` callback -/')
    lines.append('def standalone : List Nat := [%s]' % ', '.join(map(str, data['standalone'])))
    lines.append('')
    lines.append('end CssVerif.Gen.C12')
    return '\n'.join(lines) + '\n'


def generate(repo):
    """runs the capture in a subprocess with `repo` first on the path"""
    import os
    import subprocess
    env = dict(os.environ)
    env['PYTHONPATH'] = repo + os.pathsep + env.get('PYTHONPATH', '')
    p = subprocess.run([sys.executable, os.path.abspath(__file__)], stdout=subprocess.PIPE, stderr=subprocess.PIPE, env=env,
                       timeout=300)
    if p.returncode != 0:
        raise RuntimeError('grammar capture failed: %s' % p.stderr.decode('utf-8', 'replace')[-600:])
    data = json.loads(p.stdout.decode('utf-8'))
    return {'CssVerif/Gen/C12Grammars.lean': render(data)}, data


if __name__ == '__main__':
    json.dump(capture(), sys.stdout)
