"""C18 translator: tables read from the repository source with `ast` (cssutils is NOT imported) ->
lean/CssVerif/Gen/C18Tables.lean

* COLORS                               cssutils/css/colors.py
* the zero-length unit tuple            cssutils/serialize.py  do_css_Value  (`value.dimension in (...)`)
* the colour-function check table       cssutils/css/value.py  ColorValue._setCssText (`checks = {...}`)
* the function names accepted           cssutils/css/value.py  `normalize(v) in ('rgb(', 'hsl(')` ...
* defaults / minified values of the preferences used by the model   cssutils/serialize.py
* the replace chain of helper.string    cssutils/helper.py
* the source text + flags of the regular expressions the model transcribes by hand (pinned: a change
  breaks an `example ... := by decide` in Props/C18.lean, i.e. an obligation, never silently)
* the white-space code points of `str.isspace` / `\\s` and `sys.get_int_max_str_digits()` of the running
  interpreter (the only tables that do not come from the repository: they are facts about CPython)

Anything of an unexpected shape raises TranslateError.
"""
import ast
import hashlib
import os
import re


class TranslateError(Exception):
    pass


def _read(repo, rel):
    with open(os.path.join(repo, rel), encoding='utf-8') as f:
        return f.read()


def _cps(s):
    return '[' + ', '.join(str(ord(c)) for c in s) + ']'


def _find(tree, pred):
    return [n for n in ast.walk(tree) if pred(n)]


def _func(tree, name, cls=None):
    for n in ast.walk(tree):
        if isinstance(n, ast.ClassDef) and (cls is None or n.name == cls):
            for m in n.body:
                if isinstance(m, ast.FunctionDef) and m.name == name:
                    return m
        if cls is None and isinstance(n, ast.FunctionDef) and n.name == name:
            return n
    raise TranslateError('function %s.%s not found' % (cls, name))


def _decimal(src_text):
    """'1.0' -> (mant, scale) exact"""
    m = re.fullmatch(r'(\d+)(?:\.(\d+))?', src_text.strip())
    if not m:
        raise TranslateError('not a plain decimal: %r' % src_text)
    f = m.group(2) or ''
    return int(m.group(1) + f), len(f)


def colors(repo):
    src = _read(repo, 'cssutils/css/colors.py')
    tree = ast.parse(src)
    for n in tree.body:
        if isinstance(n, ast.Assign) and len(n.targets) == 1 and getattr(n.targets[0], 'id', None) == 'COLORS':
            d = n.value
            if not isinstance(d, ast.Dict):
                raise TranslateError('COLORS is not a dict literal')
            out = []
            for k, v in zip(d.keys, d.values):
                if not (isinstance(k, ast.Constant) and isinstance(k.value, str)):
                    raise TranslateError('COLORS key')
                if not (isinstance(v, ast.Tuple) and len(v.elts) == 4):
                    raise TranslateError('COLORS value of %r' % k.value)
                rgb = []
                for e in v.elts[:3]:
                    if not (isinstance(e, ast.Constant) and isinstance(e.value, int) and not isinstance(e.value, bool)):
                        raise TranslateError('COLORS channel of %r' % k.value)
                    rgb.append(e.value)
                a = _decimal(ast.get_source_segment(src, v.elts[3]))
                out.append((k.value, rgb, a))
            return out
    raise TranslateError('COLORS not found')


def zero_units(repo):
    tree = ast.parse(_read(repo, 'cssutils/serialize.py'))
    f = _func(tree, 'do_css_Value', 'CSSSerializer')
    hits = []
    for n in ast.walk(f):
        if isinstance(n, ast.Compare) and len(n.ops) == 1 and isinstance(n.ops[0], ast.In) \
                and isinstance(n.left, ast.Attribute) and n.left.attr == 'dimension' \
                and isinstance(n.comparators[0], ast.Tuple):
            hits.append([e.value for e in n.comparators[0].elts])
    if len(hits) != 1 or not all(isinstance(x, str) for x in hits[0]):
        raise TranslateError('zero-length unit tuple: %r' % hits)
    # the numeric types the branch is taken for
    types = []
    for n in ast.walk(f):
        if isinstance(n, ast.Compare) and isinstance(n.left, ast.Attribute) and n.left.attr == 'type' \
                and isinstance(n.ops[0], ast.In) and isinstance(n.comparators[0], ast.Tuple):
            types.append([e.value for e in n.comparators[0].elts])
    if types != [['DIMENSION', 'NUMBER', 'PERCENTAGE']]:
        raise TranslateError('numeric type tuple: %r' % types)
    return hits[0]


def color_checks(repo):
    tree = ast.parse(_read(repo, 'cssutils/css/value.py'))
    f = _func(tree, '_setCssText', 'ColorValue')
    checks = None
    for n in ast.walk(f):
        if isinstance(n, ast.Assign) and getattr(n.targets[0], 'id', None) == 'checks' and isinstance(n.value, ast.Dict):
            checks = [(k.value, [e.value for e in v.elts]) for k, v in zip(n.value.keys, n.value.values)]
    if not checks:
        raise TranslateError('checks table')
    # function name tuples: normalize(v) in (...) inside lambdas; HSL = functiontype in (...)
    tuples = []
    for n in ast.walk(f):
        if isinstance(n, ast.Compare) and isinstance(n.ops[0], ast.In) and isinstance(n.comparators[0], ast.Tuple):
            vals = [getattr(e, 'value', None) for e in n.comparators[0].elts]
            if all(isinstance(x, str) and x.endswith('(') for x in vals):
                tuples.append(vals)
    return checks, tuples


def prefs(repo):
    tree = ast.parse(_read(repo, 'cssutils/serialize.py'))
    out = {}
    for fname in ('useDefaults', 'useMinified'):
        f = _func(tree, fname, 'Preferences')
        d = {}
        for n in f.body:
            if isinstance(n, ast.Assign) and isinstance(n.targets[0], ast.Attribute):
                try:
                    d[n.targets[0].attr] = ast.literal_eval(n.value)
                except ValueError:
                    d[n.targets[0].attr] = eval(compile(ast.Expression(n.value), '<pref>', 'eval'), {})  # 4 * ' '
        out[fname] = d
    for k in ('omitLeadingZero', 'minimizeColorHash', 'spacer', 'listItemSpacer'):
        if k not in out['useDefaults']:
            raise TranslateError('preference %s has no default' % k)
    return out


def string_replaces(repo):
    tree = ast.parse(_read(repo, 'cssutils/helper.py'))
    f = _func(tree, 'string')
    # value = value.replace(a, b).replace(c, d)...   (first assignment)
    call = None
    for n in f.body:
        if isinstance(n, ast.Assign) and isinstance(n.value, ast.Call):
            call = n.value
            break
    pairs = []
    while isinstance(call, ast.Call) and isinstance(call.func, ast.Attribute) and call.func.attr == 'replace':
        a, b = call.args
        pairs.append((a.value, b.value))
        call = call.func.value
    if not (isinstance(call, ast.Name) and call.id == 'value') or not pairs:
        raise TranslateError('helper.string replace chain')
    pairs.reverse()
    return pairs


def patterns(repo):
    """source text of the re.compile calls the model transcribes"""
    out = {}

    def grab(rel, names):
        src = _read(repo, rel)
        tree = ast.parse(src)
        for n in ast.walk(tree):
            if isinstance(n, ast.Assign) and len(n.targets) == 1:
                t = n.targets[0]
                name = getattr(t, 'id', None) or getattr(t, 'attr', None)
                if name in names:
                    v = n.value
                    while isinstance(v, ast.Attribute):     # re.compile(...).sub / .match
                        v = v.value
                    if isinstance(v, ast.Call) and getattr(v.func, 'attr', None) == 'compile':
                        pat = v.args[0].value
                        flags = ast.get_source_segment(src, v.args[1]).replace(' ', '') if len(v.args) > 1 else ''
                        out.setdefault(names[name], []).append((pat, flags))
    grab('cssutils/css/value.py', {'__reUnNumDim': 'reUnNumDim', 'reHexcolor': 'reHexcolor'})
    grab('cssutils/prodparser.py', {'reHexcolor': 'reHexcolor'})
    grab('cssutils/helper.py', {'_simpleescapes': 'simpleescapes', '_match_forbidden_in_uri': 'forbiddenInUri'})
    for k in ('reUnNumDim', 'reHexcolor', 'simpleescapes', 'forbiddenInUri'):
        if k not in out:
            raise TranslateError('pattern %s not found' % k)
        if len(set(out[k])) != 1:
            raise TranslateError('pattern %s has differing definitions: %r' % (k, out[k]))
        out[k] = out[k][0]
    return out


def space_chars():
    a = [c for c in range(0x110000) if chr(c).isspace()]
    b = [c for c in range(0x110000) if re.match(r'\s', chr(c))]
    if a != b:
        raise TranslateError('str.isspace and \\s differ')
    return a


def lean_str(s):
    return '"' + ''.join(c if (32 <= ord(c) < 127 and c not in '"\\') else '\\x%02x' % ord(c) if ord(c) < 256
                         else '\\u{%x}' % ord(c) for c in s) + '"'


def generate(repo):
    files = ['cssutils/css/colors.py', 'cssutils/serialize.py', 'cssutils/css/value.py', 'cssutils/helper.py',
             'cssutils/prodparser.py']
    h = hashlib.sha256()
    for f in files:
        h.update(_read(repo, f).encode('utf-8'))
    cols = colors(repo)
    zu = zero_units(repo)
    checks, tuples = color_checks(repo)
    pr = prefs(repo)
    reps = string_replaces(repo)
    pats = patterns(repo)
    sp = space_chars()
    L = []
    L.append('/-! GENERATED by tools/gen/c18_tables.py from the repository source — do not edit.')
    L.append('sources: %s' % ', '.join(files))
    L.append('sha256 (concatenated): %s -/' % h.hexdigest())
    L.append('namespace CssVerif.Gen.C18')
    L.append('')
    L.append('/-- `COLORS` (css/colors.py): name, red, green, blue, alpha as (mantissa, scale) of the decimal literal -/')
    L.append('def colors : List (List Nat × Nat × Nat × Nat × Nat × Nat) := [')
    L.append(',\n'.join('  (%s, %d, %d, %d, %d, %d)' % (_cps(n), r[0], r[1], r[2], a[0], a[1]) for n, r, a in cols))
    L.append(']')
    L.append('')
    L.append('/-- units after which a zero value is written without unit (serialize.py do_css_Value) -/')
    L.append('def zeroLenUnits : List (List Nat) := [%s]' % ', '.join(_cps(u) for u in zu))
    L.append('')
    L.append('/-- `checks` of ColorValue._setCssText: function name -> accepted component patterns -/')
    L.append('def colorChecks : List (List Nat × List (List Nat)) := [')
    L.append(',\n'.join('  (%s, [%s])' % (_cps(k), ', '.join(_cps(x) for x in v)) for k, v in checks))
    L.append(']')
    L.append('')
    L.append('/-- the tuples of function names tested in ColorValue._setCssText, in source order -/')
    L.append('def colorFuncTuples : List (List (List Nat)) := [%s]'
             % ', '.join('[%s]' % ', '.join(_cps(x) for x in t) for t in tuples))
    L.append('')
    for fname, tag in (('useDefaults', 'default'), ('useMinified', 'minified')):
        d = pr[fname]
        L.append('/-- Preferences.%s: omitLeadingZero, minimizeColorHash, spacer, listItemSpacer -/' % fname)
        L.append('def %sPrefs : Bool × Bool × List Nat × List Nat := (%s, %s, %s, %s)' % (
            tag, str(bool(d['omitLeadingZero'])).lower(), str(bool(d['minimizeColorHash'])).lower(),
            _cps(d['spacer']), _cps(d['listItemSpacer'])))
    L.append('')
    L.append('/-- the `.replace(a, b)` chain of helper.string, in application order -/')
    L.append('def stringReplaces : List (List Nat × List Nat) := [%s]' % ', '.join('(%s, %s)' % (_cps(a), _cps(b)) for a, b in reps))
    L.append('')
    L.append('/-- source text and flags of the regular expressions transcribed by hand in Model/Num.lean -/')
    for k in ('reUnNumDim', 'reHexcolor', 'simpleescapes', 'forbiddenInUri'):
        L.append('def %sPattern : String × String := (%s, %s)' % (k, lean_str(pats[k][0]), lean_str(pats[k][1])))
    L.append('')
    L.append('/-- code points with `str.isspace()` (= regex `\\s` on str) in the running CPython -/')
    L.append('def spaceChars : List Nat := [%s]' % ', '.join(str(c) for c in sp))
    L.append('')
    # the independent copy of the CSS3 colour table kept with the harness (NOT from the repository)
    import importlib.util
    spec = importlib.util.spec_from_file_location(
        'c18_css3colors', os.path.join(os.path.dirname(os.path.dirname(os.path.abspath(__file__))), 'harness', 'c18_css3colors.py'))
    mod = importlib.util.module_from_spec(spec)
    spec.loader.exec_module(mod)
    t = mod.table()
    L.append('/-- CSS Color Level 3 keyword table, from tools/harness/c18_css3colors.py (independent of the repository): '
             'name, r, g, b, alpha (0 or 1) -/')
    L.append('def css3Colors : List (List Nat × Nat × Nat × Nat × Nat) := [')
    L.append(',\n'.join('  (%s, %d, %d, %d, %s)' % (_cps(n), v[0], v[1], v[2], v[3]) for n, v in sorted(t.items())))
    L.append(']')
    L.append('')
    import sys
    L.append('/-- `sys.get_int_max_str_digits()` of the running CPython: `int(str)` raises ValueError for more digits -/')
    L.append('def maxStrDigits : Nat := %d' % (sys.get_int_max_str_digits() if hasattr(sys, 'get_int_max_str_digits') else 0))
    L.append('')
    L.append('end CssVerif.Gen.C18')
    return '\n'.join(L) + '\n'


if __name__ == '__main__':
    import sys
    sys.stdout.write(generate(sys.argv[1] if len(sys.argv) > 1 else '/repo'))
