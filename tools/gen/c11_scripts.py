"""C11 translator: extract the *effect script* of every public DOM mutator from the Python AST of the current
source (no import of cssutils) and emit lean/CssVerif/Gen/C11Scripts.lean plus a JSON rendering for the harness.

A script is a term of `CssVerif.Mutators.Stmt` (lean/CssVerif/Model/Mutators.lean). The translation is syntactic and
conservative: anything it cannot classify raises `Unsupported` (a translator never guesses). What is read:

* `self._checkReadonly()`                               -> guard
* `self._log.<level>(...)` without `neverraise=True`    -> raise      (errorhandler.py: every level raises when
                                                                      raiseExceptions is on)
* `raise X`                                             -> raise
* `self.f = e`                                          -> assign f   (restore f when `e` is the local that saved `self.f`)
* `name = self.f`                                       -> save f
* `self.f.append(..)`, `del self.f[i]`, `self.f[i] = e`, `self.f.attr = e`, a mutator called on the object in
  `self.f` or on an element taken from it               -> mutate f   (preceded by mayRaise for child setters)
* `self.m(..)`, `super().m(..)`, `self.prop = e`, closures, callbacks handed to `self._parse`
                                                         -> the callee's script, inlined under `scope`
* `ProdParser().parse(..)`, constructors with content, unknown calls -> mayRaise
* if / for / while / try-except-finally / return / break / continue -> choice / loop / tryCatch / tryFinally / ...
* local booleans assigned `True`/`False` and tested bare (`if not wellformed:`) -> setFlag / havoc / ifFlag
"""
import ast
import hashlib
import json
import os

FILES = [
    'cssutils/util.py',
    'cssutils/css/cssrule.py',
    'cssutils/css/cssrulelist.py',
    'cssutils/css/cssstylesheet.py',
    'cssutils/css/csscharsetrule.py',
    'cssutils/css/csscomment.py',
    'cssutils/css/cssfontfacerule.py',
    'cssutils/css/cssimportrule.py',
    'cssutils/css/cssmediarule.py',
    'cssutils/css/cssnamespacerule.py',
    'cssutils/css/csspagerule.py',
    'cssutils/css/marginrule.py',
    'cssutils/css/cssstylerule.py',
    'cssutils/css/cssunknownrule.py',
    'cssutils/css/cssvariablesrule.py',
    'cssutils/css/cssvariablesdeclaration.py',
    'cssutils/css/cssstyledeclaration.py',
    'cssutils/css/cssproperties.py',
    'cssutils/css/property.py',
    'cssutils/css/value.py',
    'cssutils/css/selector.py',
    'cssutils/css/selectorlist.py',
    'cssutils/stylesheets/stylesheet.py',
    'cssutils/stylesheets/medialist.py',
    'cssutils/stylesheets/mediaquery.py',
]

# (class, member): member is a property name (its setter is the mutator) or a method name
TARGETS = [
    ('CSSStyleSheet', ['cssText', 'encoding', 'insertRule', 'deleteRule', 'add', 'cssRules',
                       '_setCssTextWithEncodingOverride']),     # the last one is INTERNAL, see below
    ('CSSRule', ['atkeyword']),
    ('_Namespaces', ['__setitem__', '__delitem__']),
    ('CSSCharsetRule', ['cssText', 'encoding']),
    ('CSSComment', ['cssText']),
    ('CSSFontFaceRule', ['cssText', 'style']),
    ('CSSImportRule', ['cssText', 'href', 'media', 'name']),
    ('CSSMediaRule', ['cssText', 'media', 'name', 'insertRule', 'deleteRule', 'add', 'cssRules']),
    ('CSSNamespaceRule', ['cssText', 'namespaceURI', 'prefix']),
    ('CSSPageRule', ['cssText', 'selectorText', 'style', 'insertRule', 'deleteRule', 'add', '__setitem__',
                     '__delitem__', 'cssRules']),
    ('MarginRule', ['cssText', 'margin', 'style', 'atkeyword']),     # atkeyword = margin (marginrule.py:122)
    ('CSSStyleRule', ['cssText', 'selectorText', 'selectorList', 'style']),
    ('CSSUnknownRule', ['cssText']),
    ('CSSVariablesRule', ['cssText', 'variables']),
    ('CSSVariablesDeclaration', ['cssText', 'setVariable', 'removeVariable', '__setitem__', '__delitem__']),
    ('CSSStyleDeclaration', ['cssText', 'setProperty', 'removeProperty', '__setitem__', '__delitem__', '_setP',
                             '_delP']),
    ('Property', ['cssText', 'name', 'propertyValue', 'value', 'priority', 'cssValue']),
    ('PropertyValue', ['cssText']),
    ('Value', ['cssText']),
    ('ColorValue', ['cssText']),
    ('DimensionValue', ['cssText']),
    ('URIValue', ['cssText']),
    ('CSSFunction', ['cssText']),
    ('CSSCalc', ['cssText']),
    ('CSSVariable', ['cssText']),
    ('MSValue', ['cssText']),
    ('Selector', ['selectorText']),
    ('SelectorList', ['selectorText', 'appendSelector', 'append', '__setitem__', '__delitem__']),
    ('MediaList', ['mediaText', 'appendMedium', 'append', 'deleteMedium', '__setitem__', '__delitem__']),
    ('MediaQuery', ['mediaText', 'mediaType']),
]

# parser-internal helpers that are extracted, run and compared like the public mutators but are listed apart
# (`Gen.C11.internalScripts`): the property speaks of PUBLIC mutators, so they are not under T11.2 / T11.3
INTERNAL = {'CSSStyleSheet._setCssTextWithEncodingOverride'}

# member names that have an extracted script in some class: a call of such a member on a child object is emitted as
# `call f` (the ownership-tree theorems then cover it); other child helpers stay `mayRaise; mutate f` (contract assumed)
TARGET_MEMBERS = {m for _c, ms in TARGETS for m in ms if '%s.%s' % (_c, m) not in INTERNAL}

# helper methods of Base/Base2/_NewBase that only read `self` (checked by reading util.py:140-420)
PURE_SELF = {
    '_tokenize2', '_nexttoken', '_type', '_tokenvalue', '_stringtokenvalue', '_uritokenvalue', '_tokensupto2',
    '_splitNamespacesOff', '_valuestr', '_normalize', '_tempSeq', '_adddefaultproductions', '_getUsedURIs',
    '_getUsedUris', '_getUsedNamespaces', '_isValidating', 'getProperty', 'getProperties', 'getPropertyValue',
    'getPropertyCSSValue', 'getPropertyPriority', 'getVariableValue', 'keys', 'item', 'children', 'validate',
    '_prepare_tokens', '__nnames', '__findrule', '__items', '_getCssText', '_getSelectorText', '_getMediaText',
    '_resolveImport', '_getValidating', '__getNamespaces', '_getParentStyleSheet', 'rulesOfType', 'items', 'values',
    'get', 'prefixForNamespaceURI', '_getName', '_getValue', '__iter__', '__len__', '__contains__', '__getitem__',
}
# methods that change the receiver in place (list / Seq / dict API)
MUTATING = {'append', 'appendItem', 'insert', 'extend', 'pop', 'remove', 'clear', 'update', 'replace', 'rstrip',
            'appendToVal', 'sort', 'reverse', 'setdefault'}
PURE_METHODS = {'_setFetcher', 'rulesOfType', 'items', 'keys', 'values', 'get', 'index', 'count', 'startswith', 'endswith', 'lower',
                'upper', 'strip', 'join', 'split', 'format', 'findall', 'copy', 'prefixForNamespaceURI', 'item',
                'getProperties', 'getProperty', 'getPropertyValue', '_getUsedUris', '__iter__', 'encode', 'decode',
                'group', 'match', 'search', 'sub'}
# DOM mutators: calling one on a child object either raises (child unchanged — the child's own discipline) or
# changes the child
CHILD_MUTATORS = {'insertRule', 'deleteRule', 'add', 'setProperty', 'removeProperty', 'setVariable',
                  'removeVariable', 'appendMedium', 'deleteMedium', 'appendSelector', '_replaceNamespaceURI',
                  '_setSeq', '_clearSeq', '_setCssTextWithEncodingOverride', '_setFetcher', '_updateVariables',
                  '_cleanNamespaces'}
# private helpers of a child object called at sites that stay `mayRaise; mutate f` (no script of their own): (script,
# helper) -> why the contract "raises with the child unchanged, or changes the child" holds there. A helper dependency
# that is not listed here ends up in `helperDepsUnjustified` and breaks the theorem `helper_deps_justified`.
ASSUMED_HELPERS = {
    ('CSSStyleSheet._setCssTextWithEncodingOverride', '_replaceNamespaceURI'): 'see CSSStyleSheet.cssText (inlined)',
    ('CSSStyleSheet.cssText', '_replaceNamespaceURI'):
        'cssnamespacerule.py:281-292 assigns _namespaceURI and replaces one item of the rule\'s own seq, no check, no '
        'log call: it cannot raise; the receivers are rules of the NEW rule list (cssstylesheet.py:239-241, '
        '`self.cssRules` is the list assigned at :328), never objects of the state that a rejection must restore',
}
# dependency name -> member name of the extracted scripts that cover it (identity if absent)
DEP_MEMBER = {}
PURE_FUNCS = {'isinstance', 'len', 'list', 'tuple', 'dict', 'set', 'reversed', 'enumerate', 'str', 'bool', 'int',
              'float', 'iter', 'range', 'hasattr', 'getattr', 'filter', 'map', 'zip', 'sorted', 'any', 'all', 'min',
              'max', 'normalize', 'chain', 'round', 'unique_everseen', 'pushtoken', 'repr', 'type', 'id',
              'issubclass', 'abs', 'sum', 'next'}
PURE_MODULE_FUNCS = {'itertools.chain', 'operator.attrgetter', 'urllib.parse.urljoin', 'os.getcwd',
                     'cssutils.helper.path2url', 'colorsys.hls_to_rgb', 'cssutils.helper.normalize', 're.compile'}
# attributes of helper objects that are no observable of the DOM (write protection flag of util.Seq)
UNOBSERVABLE_ATTRS = {'_readonly'}
# attribute assignments on a child that cannot raise (plain attributes)
PLAIN_CHILD_ATTRS = {'_parentRule', '_parent', '_parentStyleSheet', '_ownerNode', '_fetcher', '_href', 'title',
                     'wellformed', '_wellformed', 'append', 'extend', '__delitem__'}
# constructor keywords that carry no content to parse
EMPTY_CTOR_KW = {'parentRule', 'parentStyleSheet', 'parent', 'readonly', 'log', '_partof', 'validating',
                 'selector', 'namespaces', 'ownerRule', 'title', 'href', 'media'}
# an object created in __init__ and kept for the life time of the owner: its setters are inlined with a path prefix
CHILD_CLASSES = {('Property', 'seqs[1]'): 'PropertyValue'}
# `cssRules.append = self.insertRule` (cssstylesheet.py:139, cssrule.py:165)
FIELD_METHOD_REDIRECT = {('_cssRules', 'append'): 'insertRule', ('_cssRules', 'extend'): 'insertRule'}
# grammar objects for ProdParser: building them parses nothing
import re as _re
PURE_CTOR_RE = _re.compile(r'^(\w*Error|\w*Err|\w*Exception|xml\.dom\.\w+|Prod|Sequence|Choice|Seq|Item|New|PreDef\.\w+|_\w+Prod|MediaQueryValueProd|'
                           r'cssutils\.css\.value\.MediaQueryValueProd|cssutils\.util\.Seq|_SimpleNamespaces|'
                           r'_Namespaces|cssutils\.css\.CSSRuleList|CSSRuleList)$')
# facts about `self` that hold for the objects the public API hands out (stated as assumptions in the evidence):
# Property objects with `_mediaQuery=True` are built only inside MediaQuery parsing (mediaquery.py / value.py)
INITIAL_FACTS = {'Property': {'self._mediaQuery': False}}
# types of locals the evaluator cannot see: (file, function, local) -> tags
TYPE_HINTS = {}
# statements assumed never to raise a DOM exception, with the reason; each is *checked* by the trace correspondence
# (an observed exception right after such a statement is a trace the script does not admit -> disagreement)
ASSUME_NORAISE = {
    ('cssutils/css/cssstylesheet.py', '_setCssText', 'self._cleanNamespaces()'):
        'after a well-formed parse no two @namespace rules share a prefix (namespacerule callback merges them), '
        'so _cleanNamespaces only deletes rules whose URI is declared again later: deleteRule cannot refuse',
    ('cssutils/css/cssstylesheet.py', '_updateVariables', 'self._variables.setVariable(var, s.variables[var])'):
        'the value is the serialisation of a variable value that was parsed before; the name is a stored key',
    ('cssutils/css/cssstylesheet.py', '_updateVariables', 'self._variables.setVariable(var, vr.variables[var])'):
        'the value is the serialisation of a variable value that was parsed before; the name is a stored key',
    ('cssutils/util.py', '__setitem__', 'rule.prefix = prefix'):
        'the prefix assigned is the prefix the rule was found by: a valid IDENT, and the rule passed the guard',
    ('cssutils/css/cssimportrule.py', '_setCssText', "self.atkeyword = new['keyword']"):
        'the keyword is the IMPORT_SYM token just matched; it normalises to @import',
    ('cssutils/css/cssimportrule.py', '_setCssText', "self.media = cssutils.stylesheets.MediaList(mediaText='all')"):
        'the constant media text "all" is a valid media list',
    ('cssutils/css/cssnamespacerule.py', '_setCssText', "self.atkeyword = new['keyword']"):
        'the keyword is the NAMESPACE_SYM token just matched; it normalises to @namespace',
    ('cssutils/css/csspagerule.py', '_setCssText', 'self.cssRules.append(r)'):
        'r is a MarginRule object built by __parseMarginAndStyle (csspagerule.py:261-276); CSSPageRule.insertRule '
        'accepts a MarginRule object at the end of a fresh list without parsing anything',
    ('cssutils/css/csspagerule.py', '__delitem__', 'self.deleteRule(r)'):
        'r was just taken from self.cssRules and the object is past its read-only guard only if not read-only; '
        'deleteRule(rule object in the list) finds it',
    ('cssutils/css/marginrule.py', '_setCssText', "self.margin = store['margin'].value"):
        'the stored token matched the production "@ margin", whose test is exactly _setMargin\'s',
    ('cssutils/css/cssstyledeclaration.py', 'setProperty', 'property.priority = newp.priority'):
        'newp.priority was accepted by the same setter when newp was built',
    ('cssutils/stylesheets/mediaquery.py', '_setMediaText', 'self.mediaType = media_type.value'):
        'the stored token matched the production media_type, whose test is exactly _setMediaType\'s',
    ('cssutils/stylesheets/medialist.py', 'appendMedium', 'self.deleteMedium(newmt)'):
        'guarded by `newmt in mts`: the medium is in the list, and the read-only guard was passed in __prepareset',
}
# Statements whose exception path the static discipline cannot validate (the code undoes an in-place insertion by
# searching for the element and deleting it: no save/restore shape). For these mutators a second, *guarded* script is
# emitted in which the statement is assumed not to raise; `all_disciplined_guarded` is about those. The unguarded
# script stays in `scripts` (and in the exemption list of `all_disciplined_partial`); the raising path itself is
# covered by the oracle and the trace correspondence only.
GUARDED_SITES = {}      # none needed on the current tree (was: insertRule's _cleanNamespaces(), before fix 2293ec0)
# fields that no public query reads (so a change is not an observable change), with the reason
UNOBSERVABLE_FIELDS = {
    'Property': {'__nametoken': 'only used as position for log messages (property.py:228-238, 506-533)'},
    'MarginRule': {'_seq': 'never read: do_MarginRule serialises atkeyword and style only (serialize.py:675-714)'},
}
DOM_EXC_NAMES = {'DOMException', 'Exception', 'BaseException'}


class Unsupported(Exception):
    pass


class ClassInfo:
    def __init__(self, name, file, node):
        self.name, self.file, self.node = name, file, node
        self.bases = []
        self.methods = {}     # name -> FunctionDef
        self.props = {}       # name -> (getter field or None, setter FunctionDef or None)
        self.aliases = {}     # name -> name


def dotted(e):
    if isinstance(e, ast.Name):
        return e.id
    if isinstance(e, ast.Attribute):
        d = dotted(e.value)
        return None if d is None else d + '.' + e.attr
    return None


class Source:
    def __init__(self, repo):
        self.repo = repo
        self.classes = {}
        self.files = {}
        self.hash = hashlib.sha256()
        for i, rel in enumerate(FILES):
            path = os.path.join(repo, rel)
            src = open(path, encoding='utf-8').read()
            self.hash.update(src.encode('utf-8'))
            tree = ast.parse(src)
            self.files[rel] = i
            for node in tree.body:
                if isinstance(node, ast.ClassDef):
                    self.add_class(node, rel)

    def add_class(self, node, rel):
        ci = ClassInfo(node.name, rel, node)
        for b in node.bases:
            d = dotted(b)
            if d:
                ci.bases.append(d.split('.')[-1])
        pending = {}
        for st in node.body:
            if isinstance(st, ast.FunctionDef):
                decos = [dotted(d) or (dotted(d.func) if isinstance(d, ast.Call) else None) for d in st.decorator_list]
                if 'property' in decos:
                    ci.props[st.name] = (self.getter_field(st), None)
                    pending[st.name] = st
                elif any(d and d.endswith('.setter') for d in decos):
                    pname = [d for d in decos if d and d.endswith('.setter')][0][:-len('.setter')]
                    g = ci.props.get(pname, (None, None))[0]
                    ci.props[pname] = (g, st)
                else:
                    ci.methods[st.name] = st
            elif isinstance(st, ast.Assign) and len(st.targets) == 1 and isinstance(st.targets[0], ast.Name):
                tname = st.targets[0].id
                v = st.value
                if isinstance(v, ast.Call) and dotted(v.func) == 'property':
                    fget = fset = None
                    args = list(v.args)
                    if len(args) > 0:
                        fget = args[0]
                    if len(args) > 1:
                        fset = args[1]
                    for kw in v.keywords:
                        if kw.arg == 'fget':
                            fget = kw.value
                        elif kw.arg == 'fset':
                            fset = kw.value
                    gf = None
                    if isinstance(fget, ast.Lambda):
                        gf = self.expr_field(fget.body)
                    elif isinstance(fget, ast.Name) and fget.id in ci.methods:
                        gf = self.getter_field(ci.methods[fget.id])
                    setter = None
                    if isinstance(fset, ast.Name):
                        if fset.id not in ci.methods:
                            raise Unsupported('%s.%s: setter %s not found' % (node.name, tname, fset.id))
                        setter = ci.methods[fset.id]
                    elif fset is not None and not (isinstance(fset, ast.Constant) and fset.value is None):
                        raise Unsupported('%s.%s: unsupported fset' % (node.name, tname))
                    ci.props[tname] = (gf, setter)
                elif isinstance(v, ast.Name) and v.id in ci.props:
                    ci.props[tname] = ci.props[v.id]
        self.classes[node.name] = ci

    @staticmethod
    def expr_field(e):
        """`self._x` / `self.seqs[1]` -> path text relative to self, else None"""
        try:
            return path_of(e)
        except Unsupported:
            return None

    def getter_field(self, fn):
        body = [s for s in fn.body if not (isinstance(s, ast.Expr) and isinstance(s.value, ast.Constant))]
        if len(body) == 1 and isinstance(body[0], ast.Return) and body[0].value is not None:
            return self.expr_field(body[0].value)
        return None

    def mro(self, cname):
        """C3 linearisation over the parsed classes (unknown bases are dropped)"""
        ci = self.classes[cname]
        bases = [b for b in ci.bases if b in self.classes]
        seqs = [self.mro(b) for b in bases] + [list(bases)]
        out = [cname]
        seqs = [list(s) for s in seqs if s]
        while seqs:
            for s in seqs:
                h = s[0]
                if not any(h in t[1:] for t in seqs):
                    break
            else:
                raise Unsupported('no MRO for %s' % cname)
            out.append(h)
            seqs = [[x for x in s if x != h] for s in seqs]
            seqs = [s for s in seqs if s]
        return out

    def lookup(self, cname, member, after=None):
        """-> ('method', ClassInfo, FunctionDef) | ('prop', ClassInfo, (getter_field, setter)) | None"""
        m = self.mro(cname)
        if after is not None:
            m = m[m.index(after) + 1:]
        for c in m:
            ci = self.classes[c]
            if member in ci.props:
                return ('prop', ci, ci.props[member])
            if member in ci.methods:
                return ('method', ci, ci.methods[member])
        return None


def path_of(e):
    """access path rooted at `self` with constant subscripts: self.a.b[1].c -> 'a.b[1].c'"""
    if isinstance(e, ast.Attribute):
        if isinstance(e.value, ast.Name) and e.value.id == 'self':
            return e.attr
        return path_of(e.value) + '.' + e.attr
    if isinstance(e, ast.Subscript) and isinstance(e.slice, ast.Constant) and isinstance(e.slice.value, int):
        return path_of(e.value) + '[%d]' % e.slice.value
    raise Unsupported('not a self path')


def root_is_self(e):
    while isinstance(e, (ast.Attribute, ast.Subscript, ast.Call)):
        e = e.value if not isinstance(e, ast.Call) else e.func
    return isinstance(e, ast.Name) and e.id == 'self'


def root_name(e):
    while isinstance(e, (ast.Attribute, ast.Subscript, ast.Call)):
        e = e.value if not isinstance(e, ast.Call) else e.func
    return e.id if isinstance(e, ast.Name) else None


# ---------------------------------------------------------------------------------------------------
# attribute `seqs` of Property is a 3-slot list [nameseq, PropertyValue, priorityseq] (property.py:67)
FIELD_SPLIT = {'Property': {'seqs'}}
CHILD_FIELDS = {'PropertyValue': ['_seq', 'wellformed']}
# methods whose result is (an element of) the object held in a field
RETURNS_ELEM = {'getProperty': '_seq', 'getProperties': '_seq', '__findrule': 'parentStyleSheet',
                'rulesOfType': None}
SELF_ITER = {'CSSStyleSheet': '_cssRules', 'CSSMediaRule': '_cssRules', 'CSSPageRule': '_cssRules',
             'MediaList': '_seq', 'SelectorList': 'seq', 'CSSStyleDeclaration': '_seq', 'PropertyValue': '_seq'}
LOCAL = ('local',)


def type_of_const(e):
    if not isinstance(e, ast.Constant):
        return None
    v = e.value
    if v is None:
        return frozenset(['none'])
    if isinstance(v, bool):
        return frozenset(['true' if v else 'false'])
    if isinstance(v, str):
        return frozenset(['str'])
    if isinstance(v, (int, float)):
        return frozenset(['num'])
    return None


def chain_of(e):
    """-> (root Name id or None, ops) with ops = [('attr', name) | ('idx', int|None) | ('call', name)]"""
    ops = []
    while True:
        if isinstance(e, ast.Attribute):
            ops.append(('attr', e.attr))
            e = e.value
        elif isinstance(e, ast.Subscript):
            c = e.slice.value if isinstance(e.slice, ast.Constant) and isinstance(e.slice.value, int) else None
            ops.append(('idx', c))
            e = e.value
        else:
            break
    ops.reverse()
    return (e.id if isinstance(e, ast.Name) else None), ops


def parse_path(text):
    return chain_of(ast.parse('self.' + text, mode='eval').body)[1]


def seq(items):
    out = []
    for it in items:
        if it is None or it == ('skip',):
            continue
        if it[0] == 'seq':
            out.extend(it[1])
        else:
            out.append(it)
    out2 = []
    for it in out:
        if it == ('mayRaise',) and out2 and out2[-1] == ('mayRaise',):
            continue
        out2.append(it)
    out = out2
    if not out:
        return ('skip',)
    if len(out) == 1:
        return out[0]
    return ('seq', out)


def choice(a, b):
    if a == b and pure(a):
        return a
    return ('choice', a, b)


def choices(items):
    items = list(items)
    r = items[-1]
    for it in reversed(items[:-1]):
        r = ('choice', it, r)
    return r


def pure(s):
    """no primitive at all"""
    k = s[0]
    if k == 'skip':
        return True
    if k == 'seq':
        return all(pure(x) for x in s[1])
    if k in ('choice', 'loop'):
        return pure(s[1]) and pure(s[2])
    if k in ('scope',):
        return pure(s[1])
    if k in ('tryCatch', 'tryFinally'):
        return pure(s[1]) and pure(s[2])
    if k == 'ifFlag':
        return pure(s[2]) and pure(s[3])
    return False


def simplify(s):
    k = s[0]
    if k == 'seq':
        return seq([simplify(x) for x in s[1]])
    if k == 'choice':
        a, b = simplify(s[1]), simplify(s[2])
        if pure(a) and pure(b):
            return ('skip',)
        return ('choice', a, b)
    if k == 'loop':
        b, e = simplify(s[1]), simplify(s[2])
        if pure(b):
            return e
        return ('loop', b, e)
    if k == 'scope':
        b = simplify(s[1])
        if pure(b):
            return ('skip',)
        return b if not has_kind(b, 'ret') else ('scope', b)
    if k == 'tryCatch':
        b, h = simplify(s[1]), simplify(s[2])
        if not may_exc(b):
            return b
        return ('tryCatch', b, h)
    if k == 'tryFinally':
        b, f = simplify(s[1]), simplify(s[2])
        if pure(f):
            return b
        return ('tryFinally', b, f)
    if k == 'ifFlag':
        return ('ifFlag', s[1], simplify(s[2]), simplify(s[3]))
    return s


def has_kind(s, kind):
    k = s[0]
    if k == kind:
        return True
    if k == 'seq':
        return any(has_kind(x, kind) for x in s[1])
    if k in ('choice', 'tryCatch', 'tryFinally', 'loop'):
        return has_kind(s[1], kind) or has_kind(s[2], kind)
    if k == 'scope':
        return kind != 'ret' and has_kind(s[1], kind)
    if k == 'ifFlag':
        return has_kind(s[2], kind) or has_kind(s[3], kind)
    return False


def may_exc(s):
    """can the statement end with an exception (a DOM handler catches everything raised in its body)"""
    k = s[0]
    if k in ('raise', 'mayRaise', 'guard', 'rec'):
        return True
    if k == 'seq':
        return any(may_exc(x) for x in s[1])
    if k in ('choice', 'loop', 'tryFinally'):
        return may_exc(s[1]) or may_exc(s[2])
    if k == 'tryCatch':
        return may_exc(s[2])
    if k == 'scope':
        return may_exc(s[1])
    if k == 'ifFlag':
        return may_exc(s[2]) or may_exc(s[3])
    return False


def strip_raises(s):
    """the statement is assumed not to raise: drop `raise` / `mayRaise` (the read-only guard stays)"""
    k = s[0]
    if k in ('raise', 'mayRaise'):
        return ('skip',)
    if k == 'seq':
        return seq([strip_raises(x) for x in s[1]])
    if k in ('choice', 'tryCatch', 'tryFinally', 'loop'):
        return (k, strip_raises(s[1]), strip_raises(s[2]))
    if k in ('scope',):
        return (k, strip_raises(s[1]))
    if k == 'ifFlag':
        return (k, s[1], strip_raises(s[2]), strip_raises(s[3]))
    return s


def written_fields(s, acc=None):
    acc = set() if acc is None else acc
    k = s[0]
    if k in ('assign', 'mutate', 'restore', 'restoreC'):
        acc.add(s[1])
    elif k == 'seq':
        for x in s[1]:
            written_fields(x, acc)
    elif k in ('choice', 'tryCatch', 'tryFinally', 'loop'):
        written_fields(s[1], acc)
        written_fields(s[2], acc)
    elif k in ('scope',):
        written_fields(s[1], acc)
    elif k == 'ifFlag':
        written_fields(s[2], acc)
        written_fields(s[3], acc)
    return acc


class Env:
    def __init__(self, tr, cls_obj, cls_def, prefix, kinds, closures, stack, fn, uid, file):
        self.tr, self.cls_obj, self.cls_def, self.prefix = tr, cls_obj, cls_def, prefix
        self.kinds, self.closures, self.stack, self.fn, self.uid, self.file = kinds, closures, stack, fn, uid, file
        self.flagnames = flag_names(fn) if fn is not None else set()
        self.last_save = {}
        self.facts = {}          # 'self.attr' -> bool known on this path
        self.nondom = []         # enclosing try blocks with non-DOM handlers: [types, flag, used]
        self.sentinel = {}       # local name -> flag "the callee returned a bool sentinel"
        self.retflag = None      # set when this function returns bool sentinels on some paths
        self.types = {}          # local name -> frozenset of type tags, absent = unknown
        self.dicts = {}          # (dict local, constant key) -> type tags or None

    def flag(self, name):
        return '%s:%s' % (self.uid, name)

    def line(self, node):
        return self.tr.src.files[self.file] * 100000 + node.lineno


def own_nodes(fn):
    """nodes of the function body without nested function/lambda bodies"""
    todo = list(fn.body)
    while todo:
        n = todo.pop()
        yield n
        for c in ast.iter_child_nodes(n):
            if not isinstance(c, (ast.FunctionDef, ast.Lambda, ast.ClassDef)):
                todo.append(c)


def flag_names(fn):
    assigned, tested = set(), set()
    for n in own_nodes(fn):
        if isinstance(n, ast.Assign) and isinstance(n.value, ast.Constant) and isinstance(n.value.value, bool):
            for t in n.targets:
                if isinstance(t, ast.Name):
                    assigned.add(t.id)
        if isinstance(n, ast.If):
            t = n.test
            if isinstance(t, ast.UnaryOp) and isinstance(t.op, ast.Not):
                t = t.operand
            if isinstance(t, ast.Name):
                tested.add(t.id)
    return assigned & tested


class Translator:
    def __init__(self, src):
        self.src = src
        self.uid = 0
        self.notes = []          # (where, text): conservative decisions worth reading
        self.deps = set()        # child mutators relied upon (class unknown: by name)
        self.assumed = set()     # ASSUME_NORAISE entries that were applied
        self.extents = {}        # line id of a marked statement -> line id of its last line
        self.foreign_cache = {}
        self.guarded = False     # translate the guarded variant (GUARDED_SITES assumed not to raise)
        self.guard_sites = set()

    def note(self, env, node, text):
        self.notes.append(('%s:%s' % (env.file, getattr(node, 'lineno', '?')), text))

    # -- entry -----------------------------------------------------------------------------------
    def mutator(self, cname, member):
        lk = self.src.lookup(cname, member)
        if lk is None:
            raise Unsupported('%s.%s not found' % (cname, member))
        if lk[0] == 'prop':
            fn = lk[2][1]
            if fn is None:
                raise Unsupported('%s.%s has no setter' % (cname, member))
        else:
            fn = lk[2]
        body = self.inline(None, cname, lk[1].name, fn, [], {}, top=True)
        return simplify(body), (lk[1].file, fn.name, fn.lineno)

    def inline(self, env, cls_obj, cls_def, fn, argkinds, kwkinds, top=False, prefix=None, closure_of=None,
               argtypes=(), kwtypes=None):
        """script of a call of `fn` (scope'd)"""
        prefix = (env.prefix if env else '') if prefix is None else prefix
        key = (cls_obj, cls_def, fn.name, fn.lineno, prefix)
        stack = env.stack if env else []
        if key in stack:
            return ('rec', key)
        self.uid += 1
        if closure_of is not None:
            kinds = dict(closure_of.kinds)
            closures = dict(closure_of.closures)
        else:
            kinds, closures = {}, {}
        params = [a.arg for a in fn.args.args]
        if params and params[0] == 'self' and closure_of is None:
            params = params[1:]
        for i, p in enumerate(params):
            k = argkinds[i] if i < len(argkinds) else kwkinds.get(p)
            if k is None or k == LOCAL:
                k = ('param', p) if top else LOCAL
            kinds[p] = k
        file = self.src.classes[cls_def].file
        e2 = Env(self, cls_obj, cls_def, prefix, kinds, closures, stack + [key], fn, self.uid, file)
        if env is not None:
            e2.facts = dict(env.facts)
        else:
            for c in self.src.mro(cls_obj):
                e2.facts.update(INITIAL_FACTS.get(c, {}))
        kwtypes = kwtypes or {}
        defaults = dict(zip(params[::-1], [d for d in fn.args.defaults][::-1]))
        for i, p in enumerate(params):
            t = argtypes[i] if i < len(argtypes) else kwtypes.get(p, 'absent')
            if t == 'absent':
                t = None if top or p not in defaults else type_of_const(defaults[p])
            e2.types[p] = t
            k = kinds[p]
            if k[0] == 'saved' and env is not None and env.last_save.get(k[1]) is not None:
                e2.last_save[k[1]] = p
        if closure_of is not None:
            e2.flagnames = set()
            e2.last_save = closure_of.last_save
            for n, t in closure_of.types.items():
                e2.types.setdefault(n, t)
            e2.dicts = closure_of.dicts
        else:
            e2.dicts = self.prescan_dicts(fn, e2)
        if any(isinstance(n, (ast.Yield, ast.YieldFrom)) for n in own_nodes(fn)):
            raise Unsupported('generator %s' % fn.name)
        self.last_retflag = None
        if closure_of is None:
            kinds_ret = [self.sentinel_return(n) for n in own_nodes(fn) if isinstance(n, ast.Return)]
            if any(kinds_ret) and not all(kinds_ret):
                e2.retflag = '%d:sentinel' % self.uid
        body = self.block(fn.body, e2)
        self.last_retflag = e2.retflag
        body = self.subst_rec(body, key)
        return ('scope', body)

    @staticmethod
    def sentinel_return(n):
        """`return False` / `return True, True`: a bool constant (first component) instead of an object"""
        v = n.value
        if isinstance(v, ast.Tuple) and v.elts:
            v = v.elts[0]
        return isinstance(v, ast.Constant) and isinstance(v.value, bool)

    def subst_rec(self, s, key):
        """a recursive call behaves like the method: it raises (leaving, inductively, nothing behind) or changes
        the fields the method writes"""
        if not self.contains_rec(s, key):
            return s
        fields = sorted(written_fields(self.drop_rec(s)))

        def go(t):
            k = t[0]
            if k == 'rec' and t[1] == key:
                return seq([('mayRaise',)] + [('mutate', f) for f in fields])
            if k == 'seq':
                return ('seq', [go(x) for x in t[1]])
            if k in ('choice', 'tryCatch', 'tryFinally', 'loop'):
                return (k, go(t[1]), go(t[2]))
            if k in ('scope',):
                return (k, go(t[1]))
            if k == 'ifFlag':
                return (k, t[1], go(t[2]), go(t[3]))
            return t
        return go(s)

    def contains_rec(self, s, key):
        k = s[0]
        if k == 'rec':
            return s[1] == key
        if k == 'seq':
            return any(self.contains_rec(x, key) for x in s[1])
        if k in ('choice', 'tryCatch', 'tryFinally', 'loop'):
            return self.contains_rec(s[1], key) or self.contains_rec(s[2], key)
        if k in ('scope',):
            return self.contains_rec(s[1], key)
        if k == 'ifFlag':
            return self.contains_rec(s[2], key) or self.contains_rec(s[3], key)
        return False

    def drop_rec(self, s):
        k = s[0]
        if k == 'rec':
            return ('skip',)
        if k == 'seq':
            return ('seq', [self.drop_rec(x) for x in s[1]])
        if k in ('choice', 'tryCatch', 'tryFinally', 'loop'):
            return (k, self.drop_rec(s[1]), self.drop_rec(s[2]))
        if k in ('scope',):
            return (k, self.drop_rec(s[1]))
        if k == 'ifFlag':
            return (k, s[1], self.drop_rec(s[2]), self.drop_rec(s[3]))
        return s

    # -- fields ----------------------------------------------------------------------------------
    def resolve(self, env, ops, cls=None, prefix=None):
        """ops of a chain rooted at self -> (field or None, rest ops, child class or None)
        field None: a computed property (reading it is pure)"""
        cls = env.cls_obj if cls is None else cls
        prefix = env.prefix if prefix is None else prefix
        assert ops and ops[0][0] == 'attr', ops
        name = ops[0][1]
        rest = ops[1:]
        lk = self.src.lookup(cls, name)
        if lk and lk[0] == 'prop':
            g = lk[2][0]
            if g is None:
                return None, rest, None
            gops = parse_path(g)
            name = gops[0][1]
            rest = gops[1:] + rest
        elif lk and lk[0] == 'method':
            return None, rest, None
        field = name
        split = any(name in FIELD_SPLIT.get(c, ()) for c in self.src.mro(cls))
        if split and rest and rest[0][0] == 'idx' and rest[0][1] is not None:
            field = '%s[%d]' % (name, rest[0][1])
            rest = rest[1:]
        child = None
        for c in self.src.mro(cls):
            if (c, field) in CHILD_CLASSES:
                child = CHILD_CLASSES[(c, field)]
        if child and rest and rest[0][0] == 'attr':
            f2, rest2, ch2 = self.resolve(env, rest, cls=child, prefix='')
            if f2 is None:
                # a computed property / method of the kept child: the caller deals with it
                return prefix + field, rest, child
            return prefix + field + '.' + f2, rest2, ch2
        return prefix + field, rest, child

    def child_fields(self, field, child):
        return [field + '.' + f for f in CHILD_FIELDS[child]]

    # -- kinds -----------------------------------------------------------------------------------
    TEXT_PROPS = {'cssText', 'mediaText', 'selectorText'}

    def copy_of(self, e, env):
        """`list(self.f)` / `self.f.cssText` -> ('copy', f) / ('copytext', f, prop): a copy of the content"""
        if isinstance(e, ast.Call) and dotted(e.func) in ('list', 'tuple') and len(e.args) == 1 and not e.keywords:
            k = self.kind_of(e.args[0], env)
            if k[0] == 'saved' and isinstance(e.args[0], (ast.Attribute, ast.Subscript)):
                return ('copy', k[1])
        if isinstance(e, ast.Attribute) and e.attr in self.TEXT_PROPS:
            k = self.kind_of(e.value, env)
            if k[0] == 'saved' and isinstance(e.value, (ast.Attribute, ast.Subscript)):
                return ('copytext', k[1], e.attr)
        return None

    def kind_of(self, e, env):
        c = self.copy_of(e, env)
        if c is not None:
            return c
        if isinstance(e, ast.Name):
            return env.kinds.get(e.id, LOCAL)
        if isinstance(e, ast.Tuple):
            return ('tuple', [self.kind_of(x, env) for x in e.elts])
        if isinstance(e, (ast.Attribute, ast.Subscript)):
            root, ops = chain_of(e)
            if root == 'self' and ops and ops[0][0] == 'idx':
                for c in self.src.mro(env.cls_obj):
                    if c in SELF_ITER:
                        return ('elem', env.prefix + SELF_ITER[c])
                return LOCAL
            if root == 'self' and ops and ops[0][0] == 'attr':
                f, rest, child = self.resolve(env, ops)
                if f is None:
                    return LOCAL
                return ('saved', f) if not rest else ('elem', f)
            if root is not None:
                k = env.kinds.get(root, LOCAL)
                if k[0] in ('saved', 'elem'):
                    return ('elem', k[1])
                if k[0] == 'param':
                    return k
            if root is None:
                return self.kind_of(self.base_expr(e), env)
            return LOCAL
        if isinstance(e, ast.Call):
            d = dotted(e.func)
            if isinstance(e.func, ast.Attribute) and isinstance(e.func.value, ast.Name) and e.func.value.id == 'self':
                m = e.func.attr
                if m in RETURNS_ELEM and RETURNS_ELEM[m]:
                    return ('elem', env.prefix + RETURNS_ELEM[m])
            if d in PURE_FUNCS or (isinstance(e.func, ast.Attribute) and e.func.attr in PURE_METHODS):
                ks = [self.kind_of(a, env) for a in e.args]
                if isinstance(e.func, ast.Attribute):
                    ks.append(self.kind_of(e.func.value, env))
                for k in ks:
                    if k[0] in ('saved', 'elem', 'copy'):
                        return ('elem', k[1])
                for k in ks:
                    if k[0] == 'param':
                        return k
            return LOCAL
        if isinstance(e, ast.IfExp):
            return self.merge_kind(self.kind_of(e.body, env), self.kind_of(e.orelse, env))
        if isinstance(e, ast.BoolOp):
            k = LOCAL
            for v in e.values:
                k = self.merge_kind(k, self.kind_of(v, env))
            return k
        if isinstance(e, ast.Starred):
            return self.kind_of(e.value, env)
        return LOCAL

    @staticmethod
    def base_expr(e):
        while isinstance(e, (ast.Attribute, ast.Subscript)):
            e = e.value
        return e

    @staticmethod
    def merge_kind(a, b):
        if a == b:
            return a
        pr = {'saved': 3, 'elem': 3, 'copy': 3, 'copytext': 3, 'param': 2, 'tuple': 1, 'local': 0}
        if a[0] in ('saved', 'elem') and b[0] in ('saved', 'elem') and a[1] == b[1]:
            return ('elem', a[1])
        return a if pr[a[0]] >= pr[b[0]] else b

    # -- a tiny type evaluator: enough to decide `isinstance(x, str)` / `x is None` for values built in the caller
    STR_RETURNING_SELF = {'_stringtokenvalue', '_tokenvalue', '_uritokenvalue', '_valuestr', '_normalize'}
    STR_METHODS = {'lower', 'upper', 'strip', 'join', 'format', 'replace'}

    def type_of(self, e, env):
        """frozenset of tags ('str', 'none', 'bool', 'num', 'list', 'tuple', 'dict', 'obj:<Class>') or None"""
        if e is None:
            return None
        if isinstance(e, ast.Constant):
            return type_of_const(e)
        if isinstance(e, ast.Name):
            return env.types.get(e.id)
        if isinstance(e, (ast.JoinedStr,)):
            return frozenset(['str'])
        if isinstance(e, ast.BinOp) and isinstance(e.op, ast.Mod):
            return frozenset(['str'])
        if isinstance(e, ast.Tuple):
            return frozenset(['tuple'])
        if isinstance(e, (ast.List, ast.ListComp)):
            return frozenset(['list'])
        if isinstance(e, ast.Dict):
            return frozenset(['dict'])
        if isinstance(e, ast.Subscript) and isinstance(e.value, ast.Name) and isinstance(e.slice, ast.Constant):
            return env.dicts.get((e.value.id, e.slice.value))
        if isinstance(e, ast.Call):
            f = e.func
            d = dotted(f)
            if isinstance(f, ast.Attribute) and isinstance(f.value, ast.Name) and f.value.id == 'self':
                if f.attr in self.STR_RETURNING_SELF:
                    return frozenset(['str', 'none'])
                if f.attr == '_tempSeq':
                    return frozenset(['obj:Seq'])
                if f.attr in ('_tokensupto2',):
                    return frozenset(['list', 'tuple'])
                return None
            if d in ('normalize', 'str'):
                return frozenset(['str'])
            if d is not None and d.split('.')[-1][:1].isupper():
                return frozenset(['obj:' + d.split('.')[-1]])
            if isinstance(f, ast.Attribute) and f.attr in self.STR_METHODS:
                return frozenset(['str'])
            return None
        if isinstance(e, ast.IfExp):
            a, b = self.type_of(e.body, env), self.type_of(e.orelse, env)
            return None if a is None or b is None else a | b
        if isinstance(e, ast.BoolOp):
            out = frozenset()
            for v in e.values:
                t = self.type_of(v, env)
                if t is None:
                    return None
                out |= t
            return out
        return None

    def static_test(self, t, env):
        """True / False / None (unknown)"""
        if isinstance(t, ast.UnaryOp) and isinstance(t.op, ast.Not):
            v = self.static_test(t.operand, env)
            return None if v is None else (not v)
        if isinstance(t, ast.Attribute):
            return env.facts.get(ast.unparse(t))
        if isinstance(t, ast.Name):
            ty = env.types.get(t.id)
            if ty is not None and ty and ty <= {'none', 'false'}:
                return False
            if ty is not None and ty == {'true'}:
                return True
            return None
        if isinstance(t, ast.Compare) and len(t.ops) == 1 and isinstance(t.ops[0], (ast.Eq, ast.NotEq)):
            v = self.type_const_compare(t.left, t.comparators[0], env)
            if v is None:
                v = self.type_const_compare(t.comparators[0], t.left, env)
            if v is not None:
                return v if isinstance(t.ops[0], ast.Eq) else (not v)
            return None
        if isinstance(t, ast.Constant):
            return bool(t.value)
        if isinstance(t, ast.BoolOp):
            vs = [self.static_test(v, env) for v in t.values]
            if isinstance(t.op, ast.Or):
                if any(v is True for v in vs):
                    return True
                return False if all(v is False for v in vs) else None
            if any(v is False for v in vs):
                return False
            return True if all(v is True for v in vs) else None
        if isinstance(t, ast.Compare) and len(t.ops) == 1 and isinstance(t.ops[0], (ast.Is, ast.IsNot)) and \
                isinstance(t.comparators[0], ast.Constant) and t.comparators[0].value is None:
            ty = self.type_of(t.left, env)
            if ty is None:
                return None
            r = True if ty == {'none'} else (False if 'none' not in ty else None)
            if r is None:
                return None
            return r if isinstance(t.ops[0], ast.Is) else (not r)
        if isinstance(t, ast.Call) and dotted(t.func) == 'isinstance' and len(t.args) == 2:
            ty = self.type_of(t.args[0], env)
            if ty is None:
                return None
            classes = t.args[1].elts if isinstance(t.args[1], ast.Tuple) else [t.args[1]]
            res = []
            for tag in ty:
                res.append(self.tag_isinstance(tag, [dotted(c) or '?' for c in classes]))
            if all(r is True for r in res):
                return True
            if all(r is False for r in res):
                return False
            return None
        return None

    def type_const_compare(self, a, b, env):
        """`x.type == y.SOME_RULE` when the class of x is known (cssrule.py type constants)"""
        if not (isinstance(a, ast.Attribute) and a.attr == 'type' and isinstance(a.value, ast.Name)):
            return None
        if not (isinstance(b, ast.Attribute) and b.attr.isupper()):
            return None
        ty = env.types.get(a.value.id)
        if ty is None or len(ty) != 1:
            return None
        tag = next(iter(ty))
        if not tag.startswith('obj:') or tag[4:] not in self.src.classes:
            return None
        lk = self.src.lookup(tag[4:], 'type')
        if lk is None or lk[0] != 'prop' or lk[2][0] is None or not lk[2][0].isupper():
            return None
        return lk[2][0] == b.attr

    def static_test_split(self, t, env):
        v = self.static_test(t, env)
        if v is not None:
            return v
        names = sorted({n.id for n in ast.walk(t) if isinstance(n, ast.Name)
                        and env.types.get(n.id) is not None and len(env.types[n.id]) > 1})
        for name in names:
            old = env.types[name]
            vs = []
            for tag in sorted(old):
                env.types[name] = frozenset([tag])
                vs.append(self.static_test(t, env))
            env.types[name] = old
            if all(x is True for x in vs):
                return True
            if all(x is False for x in vs):
                return False
        return None

    def tag_isinstance(self, tag, classes):
        prim = {'str': 'str', 'tuple': 'tuple', 'list': 'list', 'dict': 'dict', 'true': 'bool', 'false': 'bool'}
        out = False
        for c in classes:
            c = c.split('.')[-1]
            if tag in prim or tag == 'none' or tag == 'num':
                if tag == 'num' and c in ('int', 'float'):
                    return True
                if prim.get(tag) == c:
                    return True
                if tag in ('true', 'false') and c == 'int':
                    return True
                continue
            cls = tag[4:]
            if c in ('str', 'tuple', 'list', 'dict', 'int', 'float', 'bool'):
                continue
            if cls in self.src.classes and c in self.src.classes:
                if c in self.src.mro(cls):
                    return True
                continue
            out = None
        return out

    def prescan_dicts(self, fn, env):
        """types of the entries of local dicts with constant keys (`new = {'name': None}` ... `new['name'] = e`),
        flow-insensitive over the function and its closures"""
        names = {}
        for n in ast.walk(fn):
            if isinstance(n, ast.Assign) and len(n.targets) == 1 and isinstance(n.targets[0], ast.Name):
                names.setdefault(n.targets[0].id, []).append(n.value)
            elif isinstance(n, (ast.For, ast.With, ast.AugAssign, ast.NamedExpr)) or \
                    (isinstance(n, ast.Assign) and any(isinstance(t, (ast.Tuple, ast.List)) for t in n.targets)):
                for m in ast.walk(n.target if isinstance(n, (ast.For, ast.AugAssign, ast.NamedExpr)) else n):
                    if isinstance(m, ast.Name) and isinstance(m.ctx, ast.Store):
                        names.setdefault(m.id, []).append(None)
        params = {a.arg for f in ast.walk(fn) if isinstance(f, ast.FunctionDef) for a in f.args.args}

        class E:
            types = {}
            dicts = {}
        tmp = E()
        for name, vals in names.items():
            if name in params:
                continue
            ty = frozenset()
            for v in vals:
                t = self.type_of(v, tmp) if v is not None else None
                if t is None:
                    ty = None
                    break
                ty |= t
            if ty is not None:
                tmp.types[name] = ty
        dicts = {}
        for n in ast.walk(fn):
            if isinstance(n, ast.Assign) and len(n.targets) == 1:
                t = n.targets[0]
                if isinstance(t, ast.Name) and isinstance(n.value, ast.Dict):
                    for k, v in zip(n.value.keys, n.value.values):
                        if isinstance(k, ast.Constant):
                            self.dict_add(dicts, (t.id, k.value), self.type_of(v, tmp))
                elif isinstance(t, ast.Subscript) and isinstance(t.value, ast.Name) and \
                        isinstance(t.slice, ast.Constant):
                    self.dict_add(dicts, (t.value.id, t.slice.value), self.type_of(n.value, tmp))
        return {k: v for k, v in dicts.items() if v is not None}

    @staticmethod
    def dict_add(dicts, key, ty):
        if key in dicts and dicts[key] is None:
            return
        if ty is None:
            dicts[key] = None
        else:
            dicts[key] = dicts.get(key, frozenset()) | ty

    # -- statements ------------------------------------------------------------------------------
    def block(self, stmts, env):
        out = []
        i = 0
        while i < len(stmts):
            st = stmts[i]
            f = self.content_restore(st, stmts[i + 1] if i + 1 < len(stmts) else None, env)
            if f is not None:
                out.append(seq([('mark', env.line(st)), ('mark', env.line(stmts[i + 1])), ('restoreC', f)]))
                self.extents[env.line(st)] = env.line(st)
                self.extents[env.line(stmts[i + 1])] = env.line(stmts[i + 1])
                i += 2
                continue
            out.append(self.stmt(st, env))
            i += 1
        return seq(out)

    def content_restore(self, a, b, env):
        """`del self.f[:]` followed by `list.extend(self.f, old)` / `self.f.extend(old)` with `old = list(self.f)`"""
        if b is None or not isinstance(a, ast.Delete) or len(a.targets) != 1:
            return None
        t = a.targets[0]
        if not (isinstance(t, ast.Subscript) and isinstance(t.slice, ast.Slice) and t.slice.lower is None
                and t.slice.upper is None and t.slice.step is None):
            return None
        k = self.kind_of(t.value, env)
        if k[0] != 'saved':
            return None
        if not (isinstance(b, ast.Expr) and isinstance(b.value, ast.Call)):
            return None
        c = b.value
        d = dotted(c.func)
        if d == 'list.extend' and len(c.args) == 2:
            recv, arg = c.args
        elif isinstance(c.func, ast.Attribute) and c.func.attr == 'extend' and len(c.args) == 1:
            recv, arg = c.func.value, c.args[0]
        else:
            return None
        if ast.unparse(recv) != ast.unparse(t.value) or not isinstance(arg, ast.Name):
            return None
        if env.kinds.get(arg.id) != ('copy', k[1]):
            return None
        return k[1]

    def marked(self, node, env, s):
        s = seq([s])
        if pure(s):
            return s
        if isinstance(node, (ast.If, ast.While)):
            end = node.test.end_lineno
        elif isinstance(node, ast.For):
            end = node.iter.end_lineno
        elif isinstance(node, (ast.Try, ast.With)):
            end = node.lineno
        else:
            end = node.end_lineno
        self.extents[env.line(node)] = env.line(node) - node.lineno + (end or node.lineno)
        return seq([('mark', env.line(node)), s])

    def stmt(self, st, env):
        r = self.stmt0(st, env)
        if isinstance(st, (ast.Expr, ast.Assign)) and env.fn is not None:
            key = (env.file, env.fn.name, ast.unparse(st))
            if key in ASSUME_NORAISE:
                self.assumed.add(key)
                r = strip_raises(r)
            if key in GUARDED_SITES:
                self.guard_sites.add(key)
                if self.guarded:
                    r = strip_raises(r)
        return r

    def stmt0(self, st, env):  # noqa: C901
        if isinstance(st, ast.FunctionDef):
            env.closures[st.name] = st
            return ('skip',)
        if isinstance(st, (ast.Pass, ast.Import, ast.ImportFrom, ast.Global, ast.Nonlocal, ast.Assert)):
            return ('skip',)
        if isinstance(st, ast.Expr):
            if isinstance(st.value, ast.Constant):
                return ('skip',)
            return self.marked(st, env, seq(self.eff(st.value, env)))
        if isinstance(st, ast.Assign):
            self.last_retflag = None
            pre = self.eff(st.value, env)
            if self.last_retflag and isinstance(st.value, ast.Call) and len(st.targets) == 1:
                t0 = st.targets[0]
                if isinstance(t0, (ast.Tuple, ast.List)) and t0.elts:
                    t0 = t0.elts[0]
                if isinstance(t0, ast.Name):
                    env.sentinel[t0.id] = self.last_retflag
            self.last_retflag = None
            k = self.kind_of(st.value, env)
            post = []
            for t in st.targets:
                post.append(self.assign_target(t, st.value, k, env))
            return self.marked(st, env, seq(pre + post))
        if isinstance(st, ast.AugAssign):
            pre = self.eff(st.value, env)
            keep = env.types.get(st.target.id) if isinstance(st.target, ast.Name) else None
            post = self.assign_target(st.target, None, LOCAL, env)
            if isinstance(st.target, ast.Name) and keep is not None and keep <= {'num', 'str'}:
                env.types[st.target.id] = keep
            return self.marked(st, env, seq(pre + [post]))
        if isinstance(st, ast.AnnAssign):
            if st.value is None:
                return ('skip',)
            pre = self.eff(st.value, env)
            return self.marked(st, env, seq(pre + [self.assign_target(st.target, st.value,
                                                                      self.kind_of(st.value, env), env)]))
        if isinstance(st, ast.Return):
            pre = self.eff(st.value, env) if st.value is not None else []
            fl = [('setFlag', env.retflag, self.sentinel_return(st))] if env.retflag else []
            return seq([self.marked(st, env, seq(pre))] + fl + [('ret',)])
        if isinstance(st, ast.Raise):
            pre = self.eff(st.exc, env) if st.exc is not None else []
            if st.exc is not None:
                d = dotted(st.exc.func if isinstance(st.exc, ast.Call) else st.exc) or ''
                for h in reversed(env.nondom):
                    if d.split('.')[-1] in h[0]:
                        # a non-DOM exception caught by an enclosing handler of this function: a local jump
                        h[2] = True
                        return seq(pre + [('setFlag', h[1], True), ('ret',)])
            return self.marked(st, env, seq(pre + [('raise',)]))
        if isinstance(st, ast.Break):
            return ('brk',)
        if isinstance(st, ast.Continue):
            return ('cont',)
        if isinstance(st, ast.Delete):
            out = []
            for t in st.targets:
                out.append(self.delete_target(t, env))
            return self.marked(st, env, seq(out))
        if isinstance(st, ast.If):
            return self.if_stmt(st, env)
        if isinstance(st, (ast.For, ast.While)):
            return self.loop_stmt(st, env)
        if isinstance(st, ast.Try):
            return self.try_stmt(st, env)
        if isinstance(st, ast.With):
            if len(st.items) == 1 and isinstance(st.items[0].context_expr, ast.Call) and \
                    dotted(st.items[0].context_expr.func) == 'contextlib.suppress':
                types = [dotted(a) for a in st.items[0].context_expr.args]
                return self.try_nondom(st.body, [(types, [ast.Pass()])], [], env)
            raise Unsupported('with statement at %s:%d' % (env.file, st.lineno))
        raise Unsupported('statement %s at %s:%d' % (type(st).__name__, env.file, st.lineno))

    def branch(self, stmts, env, facts=None):
        """translate a branch with a copy of the local kinds; returns (script, kinds after)"""
        saved, saved_t, saved_f = dict(env.kinds), dict(env.types), dict(env.facts)
        if facts:
            env.facts.update(facts)
        s = self.block(stmts, env)
        after = (env.kinds, env.types)
        env.kinds, env.types, env.facts = saved, saved_t, saved_f
        return s, after

    def merge_env(self, env, a, b):
        (a, ta), (b, tb) = (a if isinstance(a, tuple) else (a, env.types)), (b if isinstance(b, tuple) else (b, env.types))
        out = {}
        for n in set(a) | set(b):
            out[n] = self.merge_kind(a.get(n, LOCAL), b.get(n, LOCAL))
        env.kinds = out
        ty = {}
        for n in set(ta) | set(tb):
            if n in ta and n in tb:
                ty[n] = None if ta[n] is None or tb[n] is None else ta[n] | tb[n]
            else:
                # unbound on one of the two paths (using it there would be a NameError, no DOM exception)
                ty[n] = ta[n] if n in ta else tb[n]
        env.types = ty

    def if_stmt(self, st, env):
        t = st.test
        neg = False
        if isinstance(t, ast.UnaryOp) and isinstance(t.op, ast.Not):
            t, neg = t.operand, True
        if isinstance(t, ast.Name) and t.id in env.flagnames:
            a, ka = self.branch(st.body, env)
            b, kb = self.branch(st.orelse, env)
            self.merge_env(env, ka, kb)
            return ('ifFlag', env.flag(t.id), b, a) if neg else ('ifFlag', env.flag(t.id), a, b)
        sv = self.sentinel_test(st.test, env)
        if sv is not None:
            a, ka = self.branch(st.body, env)
            b, kb = self.branch(st.orelse, env)
            self.merge_env(env, ka, kb)
            return ('ifFlag', sv, a, b)
        pre = self.marked(st, env, seq(self.eff(st.test, env)))
        verdict = self.static_test_split(st.test, env)
        if verdict is True:
            return seq([pre, self.block(st.body, env)])
        if verdict is False:
            return seq([pre, self.block(st.orelse, env)])
        ft, ff = self.test_facts(st.test)
        a, ka = self.branch(st.body, env, ft)
        b, kb = self.branch(st.orelse, env, ff)
        self.merge_env(env, ka, kb)
        return seq([pre, choice(a, b)])

    @staticmethod
    def sentinel_test(t, env):
        """`x is False or x is True` for a local bound to the result of a sentinel-returning callee -> its flag"""
        if not (isinstance(t, ast.BoolOp) and isinstance(t.op, ast.Or) and len(t.values) == 2):
            return None
        names, consts = set(), set()
        for v in t.values:
            if not (isinstance(v, ast.Compare) and len(v.ops) == 1 and isinstance(v.ops[0], ast.Is)
                    and isinstance(v.left, ast.Name) and isinstance(v.comparators[0], ast.Constant)
                    and isinstance(v.comparators[0].value, bool)):
                return None
            names.add(v.left.id)
            consts.add(v.comparators[0].value)
        if len(names) == 1 and consts == {True, False}:
            return env.sentinel.get(next(iter(names)))
        return None

    @staticmethod
    def test_facts(t):
        """facts about plain `self.x` attributes implied by the test being true / false"""
        def plain(e):
            return isinstance(e, ast.Attribute) and isinstance(e.value, ast.Name) and e.value.id == 'self'
        tr, fa = {}, {}
        neg = False
        if isinstance(t, ast.UnaryOp) and isinstance(t.op, ast.Not):
            t, neg = t.operand, True
        if plain(t):
            tr[ast.unparse(t)] = True
            fa[ast.unparse(t)] = False
        elif isinstance(t, ast.BoolOp) and isinstance(t.op, ast.And):
            for v in t.values:
                if plain(v):
                    tr[ast.unparse(v)] = True
                elif isinstance(v, ast.UnaryOp) and isinstance(v.op, ast.Not) and plain(v.operand):
                    tr[ast.unparse(v.operand)] = False
        elif isinstance(t, ast.BoolOp) and isinstance(t.op, ast.Or):
            for v in t.values:
                if plain(v):
                    fa[ast.unparse(v)] = False
                elif isinstance(v, ast.UnaryOp) and isinstance(v.op, ast.Not) and plain(v.operand):
                    fa[ast.unparse(v.operand)] = True
        return (fa, tr) if neg else (tr, fa)

    def loop_stmt(self, st, env):
        if isinstance(st, ast.For):
            pre = self.marked(st, env, seq(self.eff(st.iter, env)))
            k = self.kind_of(st.iter, env)
            if isinstance(st.iter, ast.Name) and st.iter.id == 'self':
                for c in self.src.mro(env.cls_obj):
                    if c in SELF_ITER:
                        k = ('elem', env.prefix + SELF_ITER[c])
                        break
            ek = ('elem', k[1]) if k[0] in ('saved', 'elem', 'copy') else (k if k[0] == 'param' else LOCAL)
            self.bind_names(st.target, ek, env)
        else:
            pre = self.marked(st, env, seq(self.eff(st.test, env)))
        before = dict(env.kinds)
        body = self.block(st.body, env)
        # second pass so that kinds bound late in the body are seen at its start
        self.merge_env(env, before, env.kinds)
        body = self.block(st.body, env)
        self.merge_env(env, before, env.kinds)
        if not st.orelse:
            return seq([pre, ('loop', body, ('skip',))])
        # for/while ... else: the else block runs iff the loop was not left by `break`
        orelse = self.block(st.orelse, env)
        return seq([pre, ('loop', body, orelse)])

    def bind_names(self, target, kind, env):
        if isinstance(target, ast.Name):
            env.kinds[target.id] = kind
            env.types[target.id] = TYPE_HINTS.get((env.file, env.fn.name if env.fn else '', target.id))
        elif isinstance(target, (ast.Tuple, ast.List)):
            for e in target.elts:
                self.bind_names(e, kind, env)
        elif isinstance(target, ast.Starred):
            self.bind_names(target.value, kind, env)

    # -- try ---------------------------------------------------------------------------------------
    def handler_types(self, h):
        if h.type is None:
            return ['BaseException']
        if isinstance(h.type, ast.Tuple):
            return [dotted(x) or '?' for x in h.type.elts]
        return [dotted(h.type) or '?']

    def try_stmt(self, st, env):
        dom, nondom = [], []
        for h in st.handlers:
            ts = self.handler_types(h)
            is_dom = any(t.split('.')[-1] in DOM_EXC_NAMES for t in ts)
            other = [t for t in ts if t.split('.')[-1] not in DOM_EXC_NAMES]
            if is_dom:
                dom.append(h)
            if other or (is_dom and any(t.split('.')[-1] in ('Exception', 'BaseException') for t in ts)):
                nondom.append((other or ts, h.body))
        if len(dom) > 1:
            raise Unsupported('several DOM handlers at %s:%d' % (env.file, st.lineno))
        if dom:
            # except (..., xml.dom.DOMException) [else]: a flag records that a handler ran
            self.uid += 1
            fl = '%d:caught' % self.uid
            pre = [ast.parse('pass').body[0]]
            if nondom:
                marked_h = [(ts, hb) for ts, hb in nondom]
                body = self.try_nondom(st.body, marked_h, [], env, handler_flag=fl if st.orelse else None)
                kb = (env.kinds, env.types)
            else:
                body, kb = self.branch(st.body, env)
            h, kh = self.branch(dom[0].body, env)
            self.merge_env(env, kb, kh)
            del pre
            if st.orelse:
                orelse = self.block(st.orelse, env)
                core = seq([('setFlag', fl, False), ('tryCatch', body, seq([('setFlag', fl, True), h])),
                            ('ifFlag', fl, ('skip',), orelse)])
            else:
                core = ('tryCatch', body, h)
        elif nondom:
            core = self.try_nondom(st.body, nondom, st.orelse, env)
        else:
            core = self.block(st.body, env)
        if st.finalbody:
            fin = self.block(st.finalbody, env)
            return ('tryFinally', core, fin)
        return core

    def can_raise_nondom(self, st, types, seen):
        """may statement `st` raise one of the (non-DOM) exception `types` caught by the enclosing try?
        IndexError/KeyError: a subscript not yet evaluated in this try body, or a call that is not known to be pure"""
        names = {t.split('.')[-1] for t in types}
        hit = False
        for n in ast.walk(st):
            if isinstance(n, ast.Subscript):
                txt = ast.unparse(n)
                if txt not in seen:
                    seen.add(txt)
                    if names & {'IndexError', 'KeyError', 'LookupError', 'TypeError', 'ValueError'}:
                        hit = True
            elif isinstance(n, ast.Call):
                d = dotted(n.func) or ''
                if d in ('isinstance', 'len', 'hasattr'):
                    continue
                hit = True
            elif isinstance(n, ast.Attribute) and names & {'AttributeError', 'TypeError'}:
                hit = True
            elif isinstance(n, ast.Raise):
                hit = True
        return hit

    def try_nondom(self, body, handlers, orelse, env, handler_flag=None):
        types = [t for ts, _ in handlers for t in ts]
        hs = []
        kinds_after = []
        for ts, hb in handlers:
            s, k = self.branch(hb, env)
            if handler_flag is not None:
                s = seq([('setFlag', handler_flag, True), s])
            hs.append(s)
            kinds_after.append(k)
        H = choices(hs)
        seen = set()
        parts = []    # (script, can raise the caught type before its own effect)
        self.uid += 1
        jump = [{t.split('.')[-1] for t in types}, '%d:jumped' % self.uid, False]
        env.nondom.append(jump)
        for st in body:
            if isinstance(st, ast.Raise) and st.exc is not None:
                d = dotted(st.exc.func if isinstance(st.exc, ast.Call) else st.exc) or ''
                if d.split('.')[-1] in {t.split('.')[-1] for t in types}:
                    parts.append(('JUMP', True))
                    break
            can = self.can_raise_nondom(st, types, seen)
            s = self.stmt(st, env)
            parts.append((s, can))
        env.nondom.pop()
        tail = self.block(orelse, env) if orelse else ('skip',)
        for k in kinds_after:
            self.merge_env(env, env.kinds, k)
        r = tail
        for s, can in reversed(parts):
            if s == 'JUMP':
                r = H
                continue
            complex_ = not self.primitive_stmt(s)
            if can and complex_ and not pure(s):
                # the exception may also surface after part of the statement's effects
                items = s[1] if s[0] == 'seq' else [s]
                k = 0
                while k < len(items) and items[k][0] == 'mark':
                    k += 1
                r = seq(list(items[:k]) + [choice(H, seq(list(items[k:]) + [choice(H, r)]))])
            elif can:
                # the statement was started (its mark) and then raised instead of having its effect
                items = s[1] if s[0] == 'seq' else [s]
                k = 0
                while k < len(items) and items[k][0] == 'mark':
                    k += 1
                r = seq(list(items[:k]) + [choice(H, seq(list(items[k:]) + [r]))])
            else:
                r = seq([s, r])
        if jump[2]:
            for st in body:
                for n in ast.walk(st):
                    if isinstance(n, ast.Return):
                        raise Unsupported('%s:%d: return inside a try body with a local exception jump'
                                          % (env.file, n.lineno))
            r = seq([('setFlag', jump[1], False), ('scope', r), ('ifFlag', jump[1], H, ('skip',))])
        return r

    @staticmethod
    def primitive_stmt(s):
        """at most one effect primitive, nothing inlined"""
        items = s[1] if s[0] == 'seq' else [s]
        n = 0
        for it in items:
            if it[0] in ('mark', 'skip'):
                continue
            if it[0] in ('assign', 'mutate', 'save', 'restore', 'saveC', 'restoreC', 'mayRaise', 'setFlag', 'havoc'):
                n += 1
                continue
            return False
        return n <= 1

    # -- targets -----------------------------------------------------------------------------------
    def assign_target(self, t, value, kind, env):  # noqa: C901
        if isinstance(t, ast.Name):
            out = []
            saves = []
            self.collect_saves(kind, saves)
            if isinstance(value, ast.Name) and kind[0] in ('saved', 'tuple'):
                # a second name for the same backup(s)
                for f in saves:
                    if env.last_save.get(f) == value.id:
                        env.last_save[f] = t.id
            if kind[0] in ('copy', 'copytext') and value is not None and not isinstance(value, ast.Name):
                out.append(('saveC', kind[1]))
            if value is not None and isinstance(value, (ast.Attribute, ast.Subscript, ast.Tuple)):
                for f in saves:
                    out.append(('save', f))
                    env.last_save[f] = t.id
            env.kinds[t.id] = kind
            ty = self.type_of(value, env) if value is not None else None
            env.types[t.id] = ty if ty is not None else \
                TYPE_HINTS.get((env.file, env.fn.name if env.fn else '', t.id))
            if t.id in env.flagnames:
                fl = env.flag(t.id)
                if isinstance(value, ast.Constant) and isinstance(value.value, bool):
                    out.append(('setFlag', fl, value.value))
                elif isinstance(value, ast.BoolOp) and isinstance(value.op, ast.And) and \
                        isinstance(value.values[0], ast.Name) and value.values[0].id == t.id:
                    out.append(('ifFlag', fl, ('havoc', fl), ('skip',)))
                else:
                    out.append(('havoc', fl))
            return seq(out)
        if isinstance(t, (ast.Tuple, ast.List)):
            out = []
            if kind[0] == 'tuple' and len(kind[1]) == len(t.elts):
                vals = value.elts if isinstance(value, ast.Tuple) else [value] * len(t.elts)
                for e, k, v in zip(t.elts, kind[1], vals):
                    out.append(self.assign_target(e, v, k, env))
            else:
                ek = ('elem', kind[1]) if kind[0] in ('saved', 'elem') else (kind if kind[0] == 'param' else LOCAL)
                for e in t.elts:
                    out.append(self.assign_target(e, ast.Name(id='__unpacked__'), ek, env))
            return seq(out)
        if isinstance(t, ast.Starred):
            return self.assign_target(t.value, value, kind, env)
        if isinstance(t, (ast.Attribute, ast.Subscript)):
            pre = []
            if isinstance(t, ast.Subscript):
                pre = self.eff(t.slice, env)
            root, ops = chain_of(t)
            if root == 'self' and ops[0][0] == 'idx':
                return seq(pre + [self.dunder(env, '__setitem__', t, [LOCAL, kind])])
            if root == 'self':
                return seq(pre + [self.write_self(t, ops, kind, env, value)])
            if root is None:
                # e.g. ProdParser().x = ... : effects of the base expression only
                return seq(pre + self.eff(self.base_expr(t), env))
            rk = env.kinds.get(root, LOCAL)
            return seq(pre + [self.write_other(t, root, rk, ops, env)])
        raise Unsupported('assignment target %s' % ast.dump(t))

    def dunder(self, env, name, node, kinds):
        if len(chain_of(node)[1]) != 1:
            raise Unsupported('%s:%d: nested access through self[...]' % (env.file, node.lineno))
        lk = self.src.lookup(env.cls_obj, name)
        if lk is None or lk[0] != 'method':
            raise Unsupported('%s:%d: %s not found' % (env.file, node.lineno, name))
        return self.inline(env, env.cls_obj, lk[1].name, lk[2], kinds, {})

    def collect_saves(self, kind, acc):
        if kind[0] == 'saved':
            acc.append(kind[1])
        elif kind[0] == 'tuple':
            for k in kind[1]:
                self.collect_saves(k, acc)

    def write_self(self, t, ops, kind, env, value=None):
        if len(ops) == 1:
            env.facts.pop('self.' + ops[0][1], None)
        # property with a setter?
        if len(ops) == 1:
            lk = self.src.lookup(env.cls_obj, ops[0][1])
            if lk and lk[0] == 'prop':
                setter = lk[2][1]
                if setter is None:
                    raise Unsupported('%s: assignment to read-only property %s' % (env.file, ops[0][1]))
                return self.inline(env, env.cls_obj, lk[1].name, setter, [kind], {},
                                   argtypes=[self.type_of(value, env) if value is not None else None])
        f, rest, child = self.resolve(env, ops)
        if f is None:
            raise Unsupported('%s:%d: write through computed property %s' % (env.file, t.lineno, ast.unparse(t)))
        if not rest:
            if child:
                return seq([('assign', x) for x in self.child_fields(f, child)])
            if kind == ('saved', f) and isinstance(value, ast.Name):
                if env.last_save.get(f) not in (value.id,):
                    raise Unsupported('%s:%d: restore of %s from %s but the last backup is in %s'
                                      % (env.file, t.lineno, f, value.id, env.last_save.get(f)))
                return ('restore', f)
            return ('assign', f)
        return self.inner_write(f, rest, child, kind, env, t, value)

    def inner_write(self, f, rest, child, kind, env, node, value=None):
        last = rest[-1]
        if len(rest) == 1 and last[0] == 'attr' and kind == ('copytext', f, last[1]) and isinstance(value, ast.Name):
            # `self.f.cssText = old` with `old = self.f.cssText`: the content is put back (re-parsing what the
            # serializer wrote is assumed not to be rejected)
            self.note(env, node, 'content restore of %s through %s' % (f, last[1]))
            return ('restoreC', f)
        if last[0] == 'attr':
            if last[1] in UNOBSERVABLE_ATTRS:
                return ('skip',)
            if len(rest) == 1 and child:
                # attribute of a kept child object: its property setter, inlined with the path prefix
                lk = self.src.lookup(child, last[1])
                if lk and lk[0] == 'prop' and lk[2][1] is not None:
                    return self.inline(env, child, lk[1].name, lk[2][1], [kind], {}, prefix=f + '.',
                                       argtypes=[self.type_of(value, env) if value is not None else None])
            if last[1] in PLAIN_CHILD_ATTRS:
                return ('mutate', f)
            self.deps.add(last[1])
            # a public setter of a child object of unknown class: `call f` (the tag survives as third component;
            # every pass that looks at kinds treats the pair as mayRaise + mutate, the Lean emission fuses it)
            return seq([('mayRaise', 'call'), ('mutate', f, 'call')] if last[1] in TARGET_MEMBERS
                       else [('mayRaise',), ('mutate', f)])
        return ('mutate', f)

    def write_other(self, t, root, rk, ops, env):
        last = ops[-1]
        if rk[0] in ('saved', 'elem'):
            return self.inner_write(rk[1], ops, None, LOCAL, env, t)
        if rk[0] == 'param':
            f = '@' + rk[1]
            if last[0] == 'attr' and last[1] in UNOBSERVABLE_ATTRS:
                return ('skip',)
            if last[0] == 'attr' and last[1] not in PLAIN_CHILD_ATTRS:
                return seq([('mayRaise',), ('mutate', f)])
            return ('mutate', f)
        # a local object: a DOM setter on it parses new content and may raise, nothing of self changes
        if last[0] == 'attr' and last[1] not in PLAIN_CHILD_ATTRS and last[1] not in UNOBSERVABLE_ATTRS:
            return ('mayRaise',)
        return ('skip',)

    def delete_target(self, t, env):
        if isinstance(t, (ast.Attribute, ast.Subscript)):
            pre = self.eff(t.slice, env) if isinstance(t, ast.Subscript) else []
            root, ops = chain_of(t)
            if root == 'self' and ops[0][0] == 'idx':
                return seq(pre + [self.dunder(env, '__delitem__', t, [LOCAL])])
            if root == 'self':
                f, rest, child = self.resolve(env, ops)
                if f is None:
                    raise Unsupported('%s:%d: del through computed property' % (env.file, t.lineno))
                return seq(pre + [('mutate', f) if rest else ('assign', f)])
            rk = env.kinds.get(root, LOCAL) if root else LOCAL
            if rk[0] in ('saved', 'elem'):
                return seq(pre + [('mutate', rk[1])])
            if rk[0] == 'param':
                return seq(pre + [('mutate', '@' + rk[1])])
            return seq(pre)
        return ('skip',)

    # -- expressions -------------------------------------------------------------------------------
    def eff(self, e, env):  # noqa: C901
        """effects of evaluating expression `e`, in evaluation order (list of statements)"""
        if e is None or isinstance(e, (ast.Constant, ast.Name, ast.Lambda)):
            return []
        if isinstance(e, ast.Call):
            return self.call(e, env)
        if isinstance(e, (ast.ListComp, ast.SetComp, ast.GeneratorExp, ast.DictComp)):
            out = []
            inner = []
            for g in e.generators:
                out += self.eff(g.iter, env)
                k = self.kind_of(g.iter, env)
                ek = ('elem', k[1]) if k[0] in ('saved', 'elem') else LOCAL
                self.bind_names(g.target, ek, env)
                for c in g.ifs:
                    inner += self.eff(c, env)
            if isinstance(e, ast.DictComp):
                inner += self.eff(e.key, env) + self.eff(e.value, env)
            else:
                inner += self.eff(e.elt, env)
            if inner:
                out.append(('loop', seq(inner), ('skip',)))
            return out
        if isinstance(e, ast.IfExp):
            return self.eff(e.test, env) + [choice(seq(self.eff(e.body, env)), seq(self.eff(e.orelse, env)))]
        if isinstance(e, ast.BoolOp):
            out = self.eff(e.values[0], env)
            rest = []
            for v in e.values[1:]:
                rest += self.eff(v, env)
            if rest:
                out.append(choice(seq(rest), ('skip',)))
            return out
        out = []
        for c in ast.iter_child_nodes(e):
            if isinstance(c, ast.expr):
                out += self.eff(c, env)
            elif isinstance(c, ast.keyword):
                out += self.eff(c.value, env)
        return out

    def arg_effects(self, e, env):
        out = []
        for a in e.args:
            out += self.eff(a, env)
        for kw in e.keywords:
            out += self.eff(kw.value, env)
        return out

    def is_log_call(self, f):
        if not isinstance(f, ast.Attribute):
            return False
        if f.attr not in ('debug', 'info', 'warn', 'warning', 'error', 'critical', 'fatal'):
            return False
        d = dotted(f.value) or ''
        return d.endswith('_log') or d in ('cssutils.log', 'log')

    def ctor_has_content(self, e):
        if e.args:
            return True
        for kw in e.keywords:
            if kw.arg is None or kw.arg not in EMPTY_CTOR_KW:
                return True
        return False

    def call(self, e, env):  # noqa: C901
        f = e.func
        args = self.arg_effects(e, env)
        # logging: every level raises in raising mode unless neverraise=True (errorhandler.py:95-103)
        if self.is_log_call(f):
            for kw in e.keywords:
                if kw.arg == 'neverraise' and isinstance(kw.value, ast.Constant) and kw.value.value is True:
                    return args
            return args + [('raise',)]
        if isinstance(f, ast.Attribute):
            recv = f.value
            m = f.attr
            # super().m(...)
            if isinstance(recv, ast.Call) and isinstance(recv.func, ast.Name) and recv.func.id == 'super':
                lk = self.src.lookup(env.cls_obj, m, after=env.cls_def)
                if lk is None or lk[0] != 'method':
                    if m == '__init__' or m == '__setattr__':
                        return args
                    raise Unsupported('%s:%d: super().%s not found' % (env.file, e.lineno, m))
                ks = [self.kind_of(a, env) for a in e.args]
                ts = [self.type_of(a, env) for a in e.args]
                return args + [self.inline(env, env.cls_obj, lk[1].name, lk[2], ks, {}, argtypes=ts)]
            if isinstance(recv, ast.Name) and recv.id == 'self':
                return args + self.self_call(e, m, env)
            # ProdParser().parse(...)
            if m == 'parse' and isinstance(recv, ast.Call) and (dotted(recv.func) or '').endswith('ProdParser'):
                return args + [('mayRaise',)]
            root, ops = chain_of(recv)
            if root == 'self' and ops and ops[0][0] == 'attr':
                fld, rest, child = self.resolve(env, ops)
                if fld is None:
                    # receiver is a computed value (e.g. self.namespaces.items()): reading
                    if m in PURE_METHODS or m in PURE_SELF:
                        return args
                    return args + self.eff(recv, env) + [('mayRaise',)]
                return args + self.field_call(e, fld, rest, child, m, env)
            if root is not None and not isinstance(recv, ast.Call):
                rk = env.kinds.get(root, LOCAL)
                if rk[0] in ('saved', 'elem'):
                    return args + self.field_call(e, rk[1], [('attr', '?')], None, m, env)
                if rk[0] == 'param':
                    if m in PURE_METHODS or m in PURE_SELF:
                        return args
                    if m in MUTATING or self.foreign_cannot_raise(m):
                        return args + [('mutate', '@' + rk[1])]
                    return args + [('mayRaise',), ('mutate', '@' + rk[1])]
                # method of a local object or of a module
                d = dotted(f) or ''
                if m in PURE_METHODS or m in MUTATING or m in PURE_SELF or d in PURE_MODULE_FUNCS or \
                        PURE_CTOR_RE.match(d):
                    return args
                if d == 'codecs.lookup':
                    return args
                if m[:1].isupper():
                    return args + ([('mayRaise',)] if self.ctor_has_content(e) else [])
                self.note(env, e, 'call %s treated as mayRaise' % ast.unparse(f))
                return args + [('mayRaise',)]
            # receiver is itself a call / complex expression
            pre = self.eff(recv, env)
            if m in PURE_METHODS or m in MUTATING:
                return args + pre
            self.note(env, e, 'call %s treated as mayRaise' % ast.unparse(f))
            return args + pre + [('mayRaise',)]
        if isinstance(f, ast.Name):
            n = f.id
            if n in env.closures:
                ks = [self.kind_of(a, env) for a in e.args]
                ts = [self.type_of(a, env) for a in e.args]
                fn = env.closures[n]
                return args + [self.inline(env, env.cls_obj, env.cls_def, fn, ks, {}, closure_of=env, argtypes=ts)]
            if n in PURE_FUNCS or PURE_CTOR_RE.match(n):
                return args
            if n[:1].isupper() or n in self.src.classes:
                return args + ([('mayRaise',)] if self.ctor_has_content(e) else [])
            if n in ('super',):
                return args
            self.note(env, e, 'call %s treated as mayRaise' % n)
            return args + [('mayRaise',)]
        pre = self.eff(f, env)
        self.note(env, e, 'call %s treated as mayRaise' % ast.unparse(f))
        return args + pre + [('mayRaise',)]

    def foreign_cannot_raise(self, m):
        """method `m` called on an argument object: if exactly one parsed class defines it and its own script has no
        way of ending with an exception, the call cannot raise a DOM exception"""
        owners = [c for c in self.src.classes.values() if m in c.methods]
        if len(owners) != 1:
            return False
        key = (owners[0].name, m)
        if key not in self.foreign_cache:
            self.foreign_cache[key] = False      # recursion guard
            sub = Translator(self.src)
            sub.foreign_cache = self.foreign_cache
            try:
                body = sub.inline(None, owners[0].name, owners[0].name, owners[0].methods[m], [], {}, top=True)
                self.foreign_cache[key] = not may_exc(simplify(body))
            except Unsupported:
                self.foreign_cache[key] = False
        return self.foreign_cache[key]

    def self_call(self, e, m, env):
        if m == '_checkReadonly':
            return [('guard',)]
        if m == '_parse':
            return [self.parse_call(e, env)]
        name = m
        if name in PURE_SELF:
            return []
        lk = self.src.lookup(env.cls_obj, name)
        if lk is None and name.startswith('__') and not name.endswith('__'):
            lk = self.src.lookup(env.cls_def, name)
        if lk is None:
            raise Unsupported('%s:%d: self.%s not found in %s' % (env.file, e.lineno, m, env.cls_obj))
        if lk[0] == 'prop':
            raise Unsupported('%s:%d: call of property %s' % (env.file, e.lineno, m))
        params = [a.arg for a in lk[2].args.args][1:]
        ks = [self.kind_of(a, env) for a in e.args]
        kws = {kw.arg: self.kind_of(kw.value, env) for kw in e.keywords if kw.arg}
        ts = [self.type_of(a, env) for a in e.args]
        kts = {kw.arg: self.type_of(kw.value, env) for kw in e.keywords if kw.arg}
        return [self.inline(env, env.cls_obj, lk[1].name, lk[2], ks, kws, argtypes=ts, kwtypes=kts)]

    def field_call(self, e, fld, rest, child, m, env):
        """method `m` called on the object in field `fld` (rest == []) or on something inside it"""
        base = fld.split('.')[-1]
        if not rest and (base, m) in FIELD_METHOD_REDIRECT:
            lk = self.src.lookup(env.cls_obj, FIELD_METHOD_REDIRECT[(base, m)])
            ks = [self.kind_of(a, env) for a in e.args]
            ts = [self.type_of(a, env) for a in e.args]
            return [self.inline(env, env.cls_obj, lk[1].name, lk[2], ks, {}, argtypes=ts)]
        if not rest and child:
            lk = self.src.lookup(child, m)
            if lk and lk[0] == 'method' and m not in PURE_SELF and m not in PURE_METHODS:
                ks = [self.kind_of(a, env) for a in e.args]
                return [self.inline(env, child, lk[1].name, lk[2], ks, {}, prefix=fld + '.')]
        if m in PURE_METHODS or m in PURE_SELF:
            return []
        if m in MUTATING:
            return [('mutate', fld)]
        if m in CHILD_MUTATORS:
            self.deps.add(m)
            return [('mayRaise', 'call'), ('mutate', fld, 'call')] if m in TARGET_MEMBERS else [('mayRaise',), ('mutate', fld)]
        raise Unsupported('%s:%d: unclassified method %s on field %s' % (env.file, e.lineno, m, fld))

    def parse_call(self, e, env):
        """self._parse(expected, seq, tokenizer, productions, default=None, new=None): for every token one of the
        callbacks (or a default production / the 'unexpected token' error: mayRaise) — util.py:486-500"""
        prods = e.args[3] if len(e.args) > 3 else None
        default = None
        for kw in e.keywords:
            if kw.arg == 'productions':
                prods = kw.value
            elif kw.arg == 'default':
                default = kw.value
        cbs = []
        exprs = []
        if isinstance(prods, ast.Dict):
            exprs += list(prods.values)
        elif prods is not None:
            self.note(env, e, 'productions %s not a dict literal: callbacks treated as mayRaise' % ast.unparse(prods))
        if default is not None and not (isinstance(default, ast.Constant) and default.value is None):
            exprs.append(default)
        seen = set()
        for x in exprs:
            key = ast.unparse(x)
            if key in seen:
                continue
            seen.add(key)
            if isinstance(x, ast.Name) and x.id in env.closures:
                cbs.append(self.inline(env, env.cls_obj, env.cls_def, env.closures[x.id], [], {}, closure_of=env))
            elif isinstance(x, ast.Attribute) and isinstance(x.value, ast.Name) and x.value.id == 'self':
                lk = self.src.lookup(env.cls_obj, x.attr)
                if lk is None or lk[0] != 'method':
                    raise Unsupported('%s:%d: callback %s' % (env.file, e.lineno, key))
                cbs.append(self.inline(env, env.cls_obj, lk[1].name, lk[2], [], {}))
            else:
                raise Unsupported('%s:%d: callback %s' % (env.file, e.lineno, key))
        cbs.append(('mayRaise',))
        return ('loop', choices(cbs), ('skip',))


# ---------------------------------------------------------------------------------------------------
def show(s, ind=0):
    """human-readable rendering (docs / debugging)"""
    p = '  ' * ind
    k = s[0]
    if k == 'seq':
        return '\n'.join(show(x, ind) for x in s[1])
    if k in ('choice', 'tryCatch', 'tryFinally', 'loop'):
        names = {'choice': ('either', 'or'), 'tryCatch': ('try', 'except DOMException'),
                 'tryFinally': ('try', 'finally'), 'loop': ('loop', 'else')}[k]
        return '%s%s:\n%s\n%s%s:\n%s' % (p, names[0], show(s[1], ind + 1), p, names[1], show(s[2], ind + 1))
    if k in ('scope',):
        return '%s%s:\n%s' % (p, k, show(s[1], ind + 1))
    if k == 'ifFlag':
        return '%sif %s:\n%s\n%selse:\n%s' % (p, s[1], show(s[2], ind + 1), p, show(s[3], ind + 1))
    return p + ' '.join(str(x) for x in s)


def size(s):
    k = s[0]
    if k == 'seq':
        return 1 + sum(size(x) for x in s[1])
    if k in ('choice', 'tryCatch', 'tryFinally', 'loop'):
        return 1 + size(s[1]) + size(s[2])
    if k in ('scope',):
        return 1 + size(s[1])
    if k == 'ifFlag':
        return 1 + size(s[2]) + size(s[3])
    return 1


def extract_all(repo):
    src = Source(repo)
    out, failed = [], []
    for cname, members in TARGETS:
        for m in members:
            tr = Translator(src)
            try:
                body, where = tr.mutator(cname, m)
                gbody = None
                if tr.guard_sites:
                    tg = Translator(src)
                    tg.guarded = True
                    gbody = tg.mutator(cname, m)[0]
                out.append({'cls': cname, 'member': m, 'body': body, 'where': where, 'notes': tr.notes,
                            'deps': sorted(tr.deps), 'extents': tr.extents, 'gbody': gbody,
                            'guard_sites': sorted('%s:%s: %s' % k for k in tr.guard_sites),
                            'assumed': sorted('%s:%s: %s' % k for k in tr.assumed)})
            except Unsupported as ex:
                failed.append((cname, m, str(ex)))
    return src, out, failed


if __name__ == '__main__':
    import sys
    src, out, failed = extract_all(sys.argv[1] if len(sys.argv) > 1 else '/repo')
    want = sys.argv[2] if len(sys.argv) > 2 else None
    for o in out:
        if want and want != '%s.%s' % (o['cls'], o['member']):
            continue
        print('== %s.%s  (%s) size=%d' % (o['cls'], o['member'], o['where'], size(o['body'])))
        if want:
            print(show(o['body']))
            for n in o['notes']:
                print('   note', n)
    for f in failed:
        print('FAILED', f)


# ---------------------------------------------------------------------------------------------------
# Lean emission
def number(body):
    """field / flag names -> ids (per script)"""
    fields, flags = set(), set()

    def go(s):
        k = s[0]
        if k in ('assign', 'mutate', 'save', 'restore', 'saveC', 'restoreC'):
            fields.add(s[1])
        elif k in ('setFlag', 'havoc'):
            flags.add(s[1])
        elif k == 'ifFlag':
            flags.add(s[1])
            go(s[2])
            go(s[3])
        elif k == 'seq':
            for x in s[1]:
                go(x)
        elif k in ('choice', 'tryCatch', 'tryFinally', 'loop'):
            go(s[1])
            go(s[2])
        elif k in ('scope',):
            go(s[1])
    go(body)
    return ({f: i for i, f in enumerate(sorted(fields))}, {f: i for i, f in enumerate(sorted(flags))})


def lean_term(s, fi, gi, ind=2):
    k = s[0]
    p = ' ' * ind
    if k in ('skip', 'guard', 'raise', 'mayRaise', 'ret', 'brk', 'cont'):
        return '.' + k
    if k == 'mark':
        return '.mark %d' % s[1]
    if k in ('assign', 'mutate', 'save', 'restore', 'saveC', 'restoreC', 'call'):
        return '.%s %d' % (k, fi[s[1]])
    if k == 'setFlag':
        return '.setFlag %d %s' % (gi[s[1]], 'true' if s[2] else 'false')
    if k == 'havoc':
        return '.havoc %d' % gi[s[1]]
    if k == 'seq':
        # `mayRaise` directly followed by the tagged in-place change of a child = one `call f`
        fused, xs = [], list(s[1])
        while xs:
            x = xs.pop(0)
            if x == ('mayRaise', 'call') and xs and xs[0][0] == 'mutate' and len(xs[0]) == 3 and xs[0][2] == 'call':
                fused.append(('call', xs.pop(0)[1]))
            else:
                fused.append(x)
        items = [lean_term(x, fi, gi, ind + 2) for x in fused]
        return 'seqs [\n' + ',\n'.join(p + '  ' + it for it in items) + ']'
    if k in ('choice', 'tryCatch', 'tryFinally', 'loop'):
        return '.%s\n%s  (%s)\n%s  (%s)' % (k, p, lean_term(s[1], fi, gi, ind + 2), p, lean_term(s[2], fi, gi, ind + 2))
    if k in ('scope',):
        return '.%s\n%s  (%s)' % (k, p, lean_term(s[1], fi, gi, ind + 2))
    if k == 'ifFlag':
        return '.ifFlag %d\n%s  (%s)\n%s  (%s)' % (gi[s[1]], p, lean_term(s[2], fi, gi, ind + 2), p,
                                                   lean_term(s[3], fi, gi, ind + 2))
    raise ValueError(k)


def count_calls(b):
    """`call` statements of a numbered script as emitted to Lean: a tagged mutate directly after a mayRaise"""
    k = b[0]
    if k == 'seq':
        n = 0
        for i, x in enumerate(b[1]):
            if x[0] == 'mutate' and len(x) == 3 and i and b[1][i - 1][:2] == ['mayRaise', 'call']:
                n += 1
            else:
                n += count_calls(x)
        return n
    if k in ('choice', 'tryCatch', 'tryFinally', 'loop'):
        return count_calls(b[1]) + count_calls(b[2])
    if k == 'scope':
        return count_calls(b[1])
    if k == 'ifFlag':
        return count_calls(b[2]) + count_calls(b[3])
    return 0


def call_marks(b, acc=None):
    """line ids of the statements that contain a `call f` (the nearest mark before it in the same sequence)"""
    acc = set() if acc is None else acc
    k = b[0]
    if k == 'seq':
        last = None
        for x in b[1]:
            if x[0] == 'mark':
                last = x[1]
            elif x[:2] == ['mayRaise', 'call'] and last is not None:
                acc.add(last)
            else:
                call_marks(x, acc)
    elif k in ('choice', 'tryCatch', 'tryFinally', 'loop'):
        call_marks(b[1], acc)
        call_marks(b[2], acc)
    elif k == 'scope':
        call_marks(b[1], acc)
    elif k == 'ifFlag':
        call_marks(b[2], acc)
        call_marks(b[3], acc)
    return acc


def ident(name):
    return 's_' + ''.join(c if c.isalnum() else '_' for c in name)


def numbered(body, fi, gi):
    """the script with ids instead of names (plain lists: what the harness-side path search walks)"""
    k = body[0]
    if k in ('assign', 'mutate', 'save', 'restore', 'saveC', 'restoreC'):
        return [k, fi[body[1]]] + list(body[2:])
    if k == 'setFlag':
        return [k, gi[body[1]], body[2]]
    if k == 'havoc':
        return [k, gi[body[1]]]
    if k == 'ifFlag':
        return [k, gi[body[1]], numbered(body[2], fi, gi), numbered(body[3], fi, gi)]
    if k == 'seq':
        xs = [numbered(x, fi, gi) for x in body[1]]
        for i in range(1, len(xs)):
            # the decision taken at a `call f` site is marked as such (third component: the field)
            if xs[i][0] == 'mutate' and len(xs[i]) == 3 and xs[i][2] == 'call' and xs[i - 1] == ['mayRaise', 'call']:
                xs[i - 1] = ['mayRaise', 'call', xs[i][1]]
        return [k, xs]
    if k in ('choice', 'tryCatch', 'tryFinally', 'loop'):
        return [k, numbered(body[1], fi, gi), numbered(body[2], fi, gi)]
    if k in ('scope',):
        return [k, numbered(body[1], fi, gi)]
    return list(body)


def generate(repo):
    """-> (lean source text, list of script records for the harness, failures)"""
    src, out, failed = extract_all(repo)
    lines = ['import CssVerif.Model.Mutators',
             '/-! GENERATED by tools/gen/c11_scripts.py from the Python AST of the mutators — do not edit.',
             'source sha256 (all files read): %s' % src.hash.hexdigest(),
             'line ids in `mark`: file index * 100000 + line; files: %s -/' % ', '.join(
                 '%d=%s' % (i, f) for f, i in sorted(src.files.items(), key=lambda x: x[1])),
             'namespace CssVerif.Gen.C11', 'open CssVerif.Mutators', '']
    recs = []
    for o in out:
        name = '%s.%s' % (o['cls'], o['member'])
        fi, gi = number(o['body'])
        lines.append('/-- %s — %s:%d `%s`; fields %s -/' % (
            name, o['where'][0], o['where'][2], o['where'][1],
            ', '.join('%d=%s' % (i, f) for f, i in sorted(fi.items(), key=lambda x: x[1])) or '(none)'))
        lines.append('def %s : Stmt :=\n  %s\n' % (ident(name), lean_term(o['body'], fi, gi)))
        if o['gbody'] is not None:
            gfi, ggi = number(o['gbody'])
            lines.append('/-- %s with the statements of GUARDED_SITES assumed not to raise (%s) -/' % (
                name, '; '.join(o['guard_sites'])))
            lines.append('def %s : Stmt :=\n  %s\n' % (ident(name) + '_guarded', lean_term(o['gbody'], gfi, ggi)))
        recs.append({'name': name, 'cls': o['cls'], 'member': o['member'], 'fields': fi, 'flags': gi,
                     'guarded': None if o['gbody'] is None else number(o['gbody'])[0],
                     'guard_sites': o['guard_sites'],
                     'body': numbered(o['body'], fi, gi), 'where': o['where'], 'notes': o['notes'],
                     'deps': o['deps'], 'size': size(o['body']), 'extents': o['extents'],
                     'assumed': o['assumed']})
    lines.append('/-- every extracted mutator script, with its fields -/')
    lines.append('def scripts : List Script := [')
    for r in recs:
        unobs = {}
        for c in src.mro(r['cls']):
            unobs.update(UNOBSERVABLE_FIELDS.get(c, {}))
        r['observable'] = sorted(i for f, i in r['fields'].items()
                                 if f.split('.')[-1] not in unobs and not f.startswith('@'))
        r['unobservable'] = {f: unobs[f.split('.')[-1]] for f in r['fields'] if f.split('.')[-1] in unobs}
        for f in r['fields']:
            if f.startswith('@'):
                r['unobservable'][f] = 'an argument object, not a field of the object operated on (the oracle ' \
                                       'snapshots argument objects on the implementation)'

    lines.append(',\n'.join('  ⟨"%s", %s, %s⟩' % (r['name'], '[' + ', '.join(str(i) for i in r['observable']) + ']',
                                                ident(r['name'])) for r in recs if r['name'] not in INTERNAL))
    lines.append(']\n')
    lines.append('/-- parser-internal helpers (not public mutators): extracted and tied like the others, listed apart -/')
    lines.append('def internalScripts : List Script := [')
    lines.append(',\n'.join('  ⟨"%s", %s, %s⟩' % (r['name'], '[' + ', '.join(str(i) for i in r['observable']) + ']',
                                                ident(r['name'])) for r in recs if r['name'] in INTERNAL))
    lines.append(']\n')
    # the driver indexes `scripts ++ internalScripts`: keep the records in that order
    recs.sort(key=lambda r: r['name'] in INTERNAL)
    for r in recs:
        r['internal'] = r['name'] in INTERNAL
    lines.append('/-- the guarded variants: same mutators, the listed statements assumed not to raise -/')
    lines.append('def scriptsGuarded : List Script := [')
    gl = []
    for r in recs:
        if r['guarded'] is not None:
            unobs = set(r['unobservable'])
            obs = sorted(i for f, i in r['guarded'].items() if f not in unobs and not f.startswith('@'))
            gl.append('  ⟨"%s", %s, %s_guarded⟩' % (r['name'], '[' + ', '.join(str(i) for i in obs) + ']', ident(r['name'])))
    lines.append(',\n'.join(gl))
    lines.append(']\n')
    members = {}
    for r in recs:
        members.setdefault(r['member'], []).append(r['name'])
        r['callmarks'] = sorted(call_marks(r['body']))
    lines.append('/-- per script: the child mutators it calls (`call f` sites, recorded by member name because the class of the')
    lines.append('child is not known statically) and, per name, the extracted scripts with that member name -/')
    lines.append('def callDeps : List (String × List (String × List String)) := [')
    lines.append(',\n'.join('  ("%s", [%s])' % (r['name'], ', '.join(
        '("%s", [%s])' % (d, ', '.join('"%s"' % n for n in members.get(DEP_MEMBER.get(d, d), [])))
        for d in r['deps'] if d in TARGET_MEMBERS)) for r in recs if any(d in TARGET_MEMBERS for d in r['deps'])))
    lines.append(']\n')
    lines.append('/-- per script: private helpers of a child object it calls that are no public mutators (no script of their')
    lines.append('own): these sites stay `mayRaise; mutate f`, i.e. the contract is assumed, not derived -/')
    lines.append('def helperDeps : List (String × List String) := [')
    lines.append(',\n'.join('  ("%s", [%s])' % (r['name'], ', '.join('"%s"' % d for d in r['deps'] if d not in TARGET_MEMBERS))
                             for r in recs if any(d not in TARGET_MEMBERS for d in r['deps'])))
    lines.append(']\n')
    unj = [(r['name'], d) for r in recs for d in r['deps']
           if d not in TARGET_MEMBERS and (r['name'], d) not in ASSUMED_HELPERS]
    lines.append('/-- helper dependencies for which the translator has no recorded justification (none expected) -/')
    lines.append('def helperDepsUnjustified : List (String × String) := [%s]\n' % ', '.join('("%s", "%s")' % u for u in unj))
    lines.append('/-- number of `call` statements in the scripts above -/')
    lines.append('def callSites : Nat := %d\n' % sum(count_calls(r['body']) for r in recs))
    lines.append('/-- mutators the translator could not extract (none expected) -/')
    lines.append('def notExtracted : List String := [%s]\n' % ', '.join('"%s.%s"' % (c, m) for c, m, _ in failed))
    lines.append('end CssVerif.Gen.C11\n')
    return '\n'.join(lines), recs, failed
