"""C06 translator: cssutils/serialize.py  ->  lean/CssVerif/Gen/C06Prefs.lean

Reads (with `ast`, without importing cssutils):
  * the preference names documented in the `Preferences` docstring (``name = default`` entries),
  * the fields assigned by `Preferences.useDefaults` with their (constant) values, in source order,
  * the fields assigned by `Preferences.useMinified` with their values,
  * every `….prefs.X` attribute READ anywhere in serialize.py (so also in Out.append),
  * the attributes of the serializer object itself that are assigned in `CSSSerializer.__init__` (its own state).
A shape it does not understand raises Unsupported (the check then takes the "obligation broken" path).
`crosscheck(repo)` compares the defaults with `vars(cssutils.serialize.Preferences())` of the working tree
in a subprocess.
"""
import ast
import hashlib
import json
import os
import re
import subprocess
import sys


class Unsupported(Exception):
    pass


def const_value(node):
    """constant expression of the shapes used in useDefaults/useMinified: True/False/None, 'str', int * 'str'"""
    if isinstance(node, ast.Constant):
        v = node.value
        if v is None or isinstance(v, (bool, str)):
            return v
        raise Unsupported('constant %r' % (v,))
    if isinstance(node, ast.BinOp) and isinstance(node.op, ast.Mult):
        a, b = node.left, node.right
        if isinstance(a, ast.Constant) and isinstance(b, ast.Constant):
            if isinstance(a.value, int) and isinstance(b.value, str):
                return a.value * b.value
            if isinstance(a.value, str) and isinstance(b.value, int):
                return a.value * b.value
    raise Unsupported('expression %s' % ast.dump(node))


def assigned_fields(func):
    """[(name, value)] for a method whose body is only `self.X = const` statements (plus a docstring)"""
    out = []
    for st in func.body:
        if isinstance(st, ast.Expr) and isinstance(st.value, ast.Constant) and isinstance(st.value.value, str):
            continue
        if (isinstance(st, ast.Assign) and len(st.targets) == 1 and isinstance(st.targets[0], ast.Attribute)
                and isinstance(st.targets[0].value, ast.Name) and st.targets[0].value.id == 'self'):
            out.append((st.targets[0].attr, const_value(st.value)))
        else:
            raise Unsupported('statement in %s: %s' % (func.name, ast.dump(st)[:200]))
    names = [n for n, _ in out]
    if len(set(names)) != len(names):
        raise Unsupported('%s assigns a field twice' % func.name)
    return out


def documented(doc):
    """names of the ``name = default`` entries of the Preferences docstring (entries start at the docstring's
    base indentation; their descriptions are indented further)"""
    names = []
    for line in doc.split('\n'):
        m = re.match(r'^ {4}([A-Za-z_][A-Za-z0-9_]*) = ', line)
        if m:
            names.append(m.group(1))
    return names


def extract(repo):
    path = os.path.join(repo, 'cssutils', 'serialize.py')
    src = open(path, 'rb').read()
    tree = ast.parse(src)
    prefs_cls = ser_cls = None
    for node in tree.body:
        if isinstance(node, ast.ClassDef) and node.name == 'Preferences':
            prefs_cls = node
        if isinstance(node, ast.ClassDef) and node.name == 'CSSSerializer':
            ser_cls = node
    if prefs_cls is None or ser_cls is None:
        raise Unsupported('class Preferences / CSSSerializer not found')
    meths = {n.name: n for n in prefs_cls.body if isinstance(n, ast.FunctionDef)}
    for need in ('useDefaults', 'useMinified', '__init__'):
        if need not in meths:
            raise Unsupported('Preferences.%s not found' % need)
    defaults = assigned_fields(meths['useDefaults'])
    minified = assigned_fields(meths['useMinified'])
    doc = ast.get_docstring(prefs_cls, clean=False) or ''
    docnames = documented(doc)
    # __init__ must start from useDefaults()
    init_calls = [n for n in ast.walk(meths['__init__']) if isinstance(n, ast.Call)
                  and isinstance(n.func, ast.Attribute) and n.func.attr == 'useDefaults']
    if not init_calls:
        raise Unsupported('Preferences.__init__ does not call useDefaults')
    # every `<anything>.prefs.X` load; a dynamic access to prefs is refused
    read = set()
    for node in ast.walk(tree):
        if isinstance(node, ast.Attribute) and isinstance(node.value, ast.Attribute) and node.value.attr == 'prefs':
            if isinstance(node.ctx, ast.Load):
                read.add(node.attr)
            else:
                raise Unsupported('serialize.py assigns prefs.%s' % node.attr)
        if isinstance(node, ast.Call) and isinstance(node.func, ast.Name) and node.func.id in ('getattr', 'vars') \
                and node.args and isinstance(node.args[0], ast.Attribute) and node.args[0].attr == 'prefs':
            raise Unsupported('dynamic access to prefs')
    read -= {'useDefaults', 'useMinified'}
    # serializer's own state (assigned in CSSSerializer.__init__), apart from `prefs`
    sinit = [n for n in ser_cls.body if isinstance(n, ast.FunctionDef) and n.name == '__init__']
    own = []
    for node in ast.walk(sinit[0]) if sinit else []:
        if isinstance(node, ast.Assign):
            for t in node.targets:
                if isinstance(t, ast.Attribute) and isinstance(t.value, ast.Name) and t.value.id == 'self':
                    own.append(t.attr)
    return {
        'sha256': hashlib.sha256(src).hexdigest(),
        'documented': docnames,
        'defaults': defaults,
        'minified': minified,
        'read': sorted(read),
        'serializer_state': [a for a in own if a != 'prefs'],
    }


def lean_str(s):
    return '"' + s.replace('\\', '\\\\').replace('"', '\\"') + '"'


def lean_val(v):
    if v is None:
        return '.none'
    if v is True:
        return '.b true'
    if v is False:
        return '.b false'
    return '.s [%s]' % ', '.join(str(ord(c)) for c in v)


def render(info):
    L = []
    L.append('/- GENERATED by tools/gen/c06_prefs.py from cssutils/serialize.py — do not edit.')
    L.append('   sha256(serialize.py) = %s -/' % info['sha256'])
    L.append('namespace CssVerif.Gen.C06')
    L.append('')
    L.append('/-- value of a preference as written in the source: bool, string (code points), None -/')
    L.append('inductive PVal where')
    L.append('  | b (v : Bool) | s (v : List Nat) | none')
    L.append('  deriving DecidableEq, Repr')
    L.append('')
    L.append('/-- `name = default` entries of the `Preferences` docstring, in order -/')
    L.append('def prefsDocumented : List String :=\n  [%s]' % ', '.join(lean_str(n) for n in info['documented']))
    L.append('')
    L.append('/-- `self.X = v` statements of `Preferences.useDefaults`, in order -/')
    L.append('def prefsDefaulted : List (String × PVal) :=\n  [%s]'
             % ',\n   '.join('(%s, %s)' % (lean_str(n), lean_val(v)) for n, v in info['defaults']))
    L.append('')
    L.append('/-- `self.X = v` statements of `Preferences.useMinified`, in order -/')
    L.append('def prefsMinified : List (String × PVal) :=\n  [%s]'
             % ',\n   '.join('(%s, %s)' % (lean_str(n), lean_val(v)) for n, v in info['minified']))
    L.append('')
    L.append('/-- every `….prefs.X` attribute read anywhere in serialize.py (sorted) -/')
    L.append('def prefsRead : List String :=\n  [%s]' % ', '.join(lean_str(n) for n in info['read']))
    L.append('')
    L.append('/-- attributes of the serializer object itself set in `CSSSerializer.__init__` (state that is NOT a preference) -/')
    L.append('def serializerState : List String :=\n  [%s]' % ', '.join(lean_str(n) for n in info['serializer_state']))
    L.append('')
    L.append('end CssVerif.Gen.C06')
    return '\n'.join(L) + '\n'


def crosscheck(repo, info):
    """compare with the live object of the working tree (subprocess: a tree whose import fails still translates)"""
    code = ('import json,cssutils.serialize as s; p=s.Preferences(); d=dict(vars(p)); p.useMinified(); '
            'print(json.dumps([d, dict(vars(p))]))')
    env = dict(os.environ, PYTHONPATH=repo)
    r = subprocess.run([sys.executable, '-c', code], env=env, stdout=subprocess.PIPE, stderr=subprocess.PIPE, timeout=120)
    if r.returncode != 0:
        return 'import failed: %s' % r.stderr.decode('utf-8', 'replace')[-300:]
    live_default, live_min = json.loads(r.stdout.decode())
    want = dict(info['defaults'])
    if live_default != want:
        return 'defaults differ from vars(Preferences()): %r vs %r' % (live_default, want)
    m = dict(want)
    m.update(dict(info['minified']))
    if live_min != m:
        return 'minified preset differs from the live object'
    return None


def files(repo):
    info = extract(repo)
    return {'CssVerif/Gen/C06Prefs.lean': render(info)}, info


if __name__ == '__main__':
    repo = sys.argv[1] if len(sys.argv) > 1 else '/repo'
    f, info = files(repo)
    print(json.dumps({k: v for k, v in info.items() if k != 'sha256'}, indent=1))
    print(crosscheck(repo, info))
