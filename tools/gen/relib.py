"""Translate a Python regular expression (as parsed by CPython's own re._parser) into a Lean `CssVerif.Re` term
(lean/CssVerif/Lib/Re.lean). Supported subset: literals, classes with ranges / negation / \\d \\s \\w, `.`,
branches, (non-)capturing groups, greedy and lazy repeats, `$`, a leading `^`, flags I S X U.
Anything else raises Unsupported — a translator never guesses."""
import re
import re._parser as sp
from re._constants import (ANY, AT, AT_BEGINNING, AT_BEGINNING_STRING, AT_END, AT_END_STRING, BRANCH, CATEGORY,
                           CATEGORY_DIGIT, CATEGORY_SPACE, CATEGORY_WORD, IN, LITERAL, MAX_REPEAT, MAXREPEAT,
                           MIN_REPEAT, NEGATE, NOT_LITERAL, RANGE, SUBPATTERN)


class Unsupported(Exception):
    pass


CATS = {
    CATEGORY_DIGIT: [(48, 57)],
    CATEGORY_SPACE: [(9, 13), (28, 31), (32, 32), (133, 133), (160, 160), (5760, 5760), (8192, 8202),
                     (8232, 8233), (8239, 8239), (8287, 8287), (12288, 12288)],
    # \w on str patterns is Unicode-aware in CPython; only the ASCII part is modelled (callers must say so)
    CATEGORY_WORD: [(48, 57), (65, 90), (95, 95), (97, 122)],
}


def fold_ranges(rs, flags):
    if not (flags & re.I):
        return rs
    out = list(rs)
    for lo, hi in rs:
        for c in range(max(lo, 65), min(hi, 90) + 1):
            out.append((c + 32, c + 32))
        for c in range(max(lo, 97), min(hi, 122) + 1):
            out.append((c - 32, c - 32))
    return out


def conv(p, flags, top=False):
    items = list(p)
    if top and items and items[0][0] is AT and items[0][1] in (AT_BEGINNING, AT_BEGINNING_STRING):
        items = items[1:]           # `match` is anchored at the start anyway
    parts = [conv1(op, av, flags) for op, av in items]
    r = ('eps',)
    for it in reversed(parts):
        r = it if r == ('eps',) else ('seq', it, r)
    return r


def conv1(op, av, flags):
    if op is LITERAL:
        return ('cls', False, fold_ranges([(av, av)], flags))
    if op is NOT_LITERAL:
        return ('cls', True, fold_ranges([(av, av)], flags))
    if op is ANY:
        return ('cls', True, []) if flags & re.S else ('cls', True, [(10, 10)])
    if op is IN:
        neg, rs = False, []
        for o, a in av:
            if o is NEGATE:
                neg = True
            elif o is LITERAL:
                rs.append((a, a))
            elif o is RANGE:
                rs.append(tuple(a))
            elif o is CATEGORY and a in CATS:
                rs += CATS[a]
            else:
                raise Unsupported('class item %s %s' % (o, a))
        return ('cls', neg, fold_ranges(rs, flags))
    if op is BRANCH:
        alts = [conv(b, flags) for b in av[1]]
        r = alts[-1]
        for a in reversed(alts[:-1]):
            r = ('alt', a, r)
        return r
    if op is SUBPATTERN:
        if av[1] or av[2]:
            raise Unsupported('inline flags in group')
        return conv(av[3], flags)
    if op in (MAX_REPEAT, MIN_REPEAT):
        lo, hi, body = av
        b = conv(body, flags)
        greedy = op is MAX_REPEAT
        if hi is MAXREPEAT:
            r = ('star', b, greedy)
            for _ in range(lo):
                r = ('seq', b, r)
            return r
        return ('rep', b, lo, hi, greedy)
    if op is AT and av in (AT_END, AT_END_STRING):
        if av is AT_END_STRING:
            raise Unsupported('\\Z')
        return ('eol',)
    raise Unsupported('%s %s' % (op, av))


def parse(pattern, flags=0):
    """-> nested tuple AST"""
    p = sp.parse(pattern, flags)
    return conv(p, p.state.flags, top=True)


def size(r):
    return 1 + sum(size(x) for x in r[1:] if isinstance(x, tuple) and x and isinstance(x[0], str))


def tolean(r):
    k = r[0]
    if k == 'eps':
        return 'Re.eps'
    if k == 'eol':
        return 'Re.eol'
    if k == 'cls':
        return '(Re.cls %s [%s])' % ('true' if r[1] else 'false', ', '.join('(%d, %d)' % tuple(x) for x in r[2]))
    if k == 'seq':
        return '(Re.seq %s %s)' % (tolean(r[1]), tolean(r[2]))
    if k == 'alt':
        return '(Re.alt %s %s)' % (tolean(r[1]), tolean(r[2]))
    if k == 'star':
        return '(Re.star %s %s)' % (tolean(r[1]), 'true' if r[2] else 'false')
    if k == 'rep':
        return '(Re.rep %s %d %d %s)' % (tolean(r[1]), r[2], r[3], 'true' if r[4] else 'false')
    raise ValueError(k)


# reference evaluator with the same semantics as Re.ms (used by translators' self-checks)
def ms(r, s, i):
    k = r[0]
    if k == 'eps':
        return [i]
    if k == 'eol':
        return [i] if i == len(s) or (i == len(s) - 1 and s[i] == 10) else []
    if k == 'cls':
        return [i + 1] if i < len(s) and (any(lo <= s[i] <= hi for lo, hi in r[2]) != r[1]) else []
    if k == 'seq':
        out = []
        for j in ms(r[1], s, i):
            out += ms(r[2], s, j)
        return out
    if k == 'alt':
        return ms(r[1], s, i) + ms(r[2], s, i)
    if k == 'star':
        more = []
        for j in ms(r[1], s, i):
            if j > i:
                more += ms(r, s, j)
        return more + [i] if r[2] else [i] + more
    if k == 'rep':
        a, m, n, greedy = r[1:]
        if n == 0:
            return [i] if m == 0 else []
        more = []
        for j in ms(a, s, i):
            more += ms(('rep', a, max(m - 1, 0), n - 1, greedy), s, j)
        if m == 0:
            return more + [i] if greedy else [i] + more
        return more
    raise ValueError(k)


def first(r, text):
    s = [ord(c) for c in text]
    l = ms(r, s, 0)
    return l[0] if l else None
