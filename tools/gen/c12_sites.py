"""C12 translator: every place in cssutils/ (tests excluded) that writes process-wide state, read from the source
with `ast` (cssutils is not imported) and emitted as the table `CssVerif.Gen.C12.sites`.

The Lean model (Model/Globals.lean, Model/GlobalsProd.lean) has one writer per row; Props/C12.lean proves
`sites_as_modelled : sites = expectedSites` by `decide`, so a change of the code that adds, removes or
reshapes a writer breaks a proof obligation of the check (and sends it looking for a failing input).

Rows are independent of line numbers and of the names of local variables.
"""
import ast
import hashlib
import os


def _files(repo):
    base = os.path.join(repo, 'cssutils')
    out = []
    for root, dirs, files in os.walk(base):
        dirs[:] = sorted(d for d in dirs if d != 'tests' and d != '__pycache__')
        for fn in sorted(files):
            if fn.endswith('.py'):
                out.append(os.path.join(root, fn))
    return out


class _Scopes(ast.NodeVisitor):
    """walks a module keeping the qualified name of the enclosing def/class and the try/finally context"""

    def __init__(self, rel):
        self.rel = rel
        self.stack = []
        self.ctx = []           # 'try' / 'finally' / 'lambda'
        self.rows = []          # (kind, where, detail)

    def where(self):
        return '%s:%s' % (self.rel, '.'.join(self.stack) or '<module>')

    def visit_ClassDef(self, node):
        self.stack.append(node.name)
        self.generic_visit(node)
        self.stack.pop()

    def visit_FunctionDef(self, node):
        self.stack.append(node.name)
        saved, self.ctx = self.ctx, []
        self.generic_visit(node)
        self.ctx = saved
        self.stack.pop()

    visit_AsyncFunctionDef = visit_FunctionDef

    def visit_Lambda(self, node):
        self.ctx.append('lambda')
        self.generic_visit(node)
        self.ctx.pop()

    def visit_Try(self, node):
        self.ctx.append('try')
        for n in node.body:
            self.visit(n)
        self.ctx.pop()
        for h in node.handlers:
            self.visit(h)
        for n in node.orelse:
            self.visit(n)
        self.ctx.append('finally')
        for n in node.finalbody:
            self.visit(n)
        self.ctx.pop()

    def context(self):
        return '+'.join(self.ctx) if self.ctx else 'plain'

    # -- writers
    def visit_Assign(self, node):
        for t in node.targets:
            self._target(t, node.value)
        self.generic_visit(node)

    def visit_AugAssign(self, node):
        self._target(node.target, node.value)
        self.generic_visit(node)

    def _target(self, t, value):
        if isinstance(t, (ast.Tuple, ast.List)):
            for e in t.elts:
                self._target(e, value)
            return
        if isinstance(t, ast.Attribute):
            if t.attr == 'raiseExceptions':
                self.rows.append(('mode-write', self.where(), self.context()))
            if t.attr in ('_selectors', '_selectorlevel', '_level', '_insheet') and self.rel.endswith('serialize.py'):
                self.rows.append(('serializer-state-write', self.where(), '%s %s' % (t.attr, self.context())))
            if t.attr in ('_pushed',):
                self.rows.append(('pushed-write', self.where(), '-'))
            # cssutils.ser.prefs.<x> = ... / ser.prefs.<x> = ...
            if isinstance(t.value, ast.Attribute) and t.value.attr == 'prefs' and not self.rel.endswith('serialize.py'):
                self.rows.append(('prefs-write', self.where(), t.attr))
            if t.attr == 'ser' and isinstance(t.value, ast.Name) and t.value.id == 'cssutils':
                self.rows.append(('ser-write', self.where(), self.context()))
            if t.attr in ('defaultProfiles', '_defaultProfiles', '_profileNames', '_rawProfiles',
                          '_profilesProperties') and not self.rel.endswith('profiles.py'):
                self.rows.append(('profiles-write', self.where(), t.attr))
        if isinstance(t, ast.Name) and t.id == 'savedTokens':
            self.rows.append(('saved-def', self.where(), '-'))

    def visit_Call(self, node):
        f = node.func
        name = f.attr if isinstance(f, ast.Attribute) else (f.id if isinstance(f, ast.Name) else None)
        if name == 'setSerializer':
            self.rows.append(('ser-swap', self.where(), self.context()))
        if name in ('useMinified', 'useDefaults') and not self.rel.endswith('serialize.py'):
            self.rows.append(('prefs-write', self.where(), name))
        if name in ('addProfile', 'addProfiles', 'removeProfile') and not self.rel.endswith('profiles.py'):
            self.rows.append(('profiles-write', self.where(), name))
        if isinstance(f, ast.Attribute) and isinstance(f.value, ast.Name) and f.value.id == 'savedTokens':
            self.rows.append(('saved-' + f.attr, self.where(), '-'))
        if isinstance(f, ast.Attribute) and isinstance(f.value, ast.Name) and f.value.id == 'tokenizer' \
                and f.attr in ('push', 'clear'):
            self.rows.append(('pushed-' + f.attr, self.where(), '-'))
        if name == 'ProdParser':
            args = [ast.unparse(a) for a in node.args] + ['%s=%s' % (k.arg, ast.unparse(k.value)) for k in node.keywords]
            if args:
                # `ProdParser()` clears the push-back queue; anything else (clear=False) is a writer the model lacks
                self.rows.append(('prodparser-new-with-args', self.where(), ','.join(args)))
        for k in node.keywords:
            if k.arg == 'stopIfNoMoreMatch':
                self.rows.append(('stopif-arg', self.where(), ast.unparse(k.value)))
            if k.arg == '_partof':
                self.rows.append(('partof-arg', self.where(), '%s %s' % (ast.unparse(k.value), self.context())))
        self.generic_visit(node)

    def visit_Raise(self, node):
        if self.rel.endswith('serialize.py'):
            self.rows.append(('serialize-raise', self.where(), '-'))
        self.generic_visit(node)

    def visit_Attribute(self, node):
        if self.rel.endswith('serialize.py') and node.attr in ('log', '_log'):
            self.rows.append(('serialize-log', self.where(), '-'))
        self.generic_visit(node)


def _parse_setting(tree):
    """shape of CSSParser.__parseSetting and how the four entry points use it"""
    rows = []
    cls = next(n for n in tree.body if isinstance(n, ast.ClassDef) and n.name == 'CSSParser')
    fns = {n.name: n for n in cls.body if isinstance(n, ast.FunctionDef)}
    ps = fns.get('__parseSetting')
    shape = []
    if ps is not None:
        deco = [ast.unparse(d) for d in ps.decorator_list]
        shape.append('decorators=' + ','.join(deco))
        captured = None
        for st in ps.body:
            if isinstance(st, ast.Expr) and isinstance(st.value, ast.Constant):
                continue
            if isinstance(st, ast.Assign) and isinstance(st.targets[0], ast.Name) and \
                    ast.unparse(st.value).endswith('.raiseExceptions'):
                captured = st.targets[0].id
                shape.append('capture-global')
            elif isinstance(st, ast.Assign) and ast.unparse(st.targets[0]).endswith('.raiseExceptions'):
                v = ast.unparse(st.value)
                shape.append('set:' + ('parser-mode' if v == 'self.__parseRaising' else
                                       'captured' if v == captured else v))
            elif isinstance(st, ast.Try):
                body = ['yield' if isinstance(b, ast.Expr) and isinstance(b.value, ast.Yield) else ast.unparse(b)
                        for b in st.body]
                fin = []
                for b in st.finalbody:
                    if isinstance(b, ast.Assign) and ast.unparse(b.targets[0]).endswith('.raiseExceptions'):
                        v = ast.unparse(b.value)
                        fin.append('restore:' + ('captured' if v == captured else v))
                    else:
                        fin.append(ast.unparse(b))
                shape.append('try[%s]handlers=%d,finally[%s]' % (';'.join(body), len(st.handlers), ';'.join(fin)))
            elif isinstance(st, ast.Expr) and isinstance(st.value, ast.Yield):
                shape.append('yield-unprotected')
            else:
                shape.append('other:' + type(st).__name__)
    rows.append(('parse-setting-shape', 'cssutils/parse.py:CSSParser.__parseSetting', ' | '.join(shape) or 'missing'))
    # per-object state: every assignment to an attribute of `self` in any method of CSSParser. The model's parser
    # objects are written by `__init__` and `setFetcher` only (no entry point may keep anything from a call)
    for name, fn in fns.items():
        for st in ast.walk(fn):
            targets = []
            if isinstance(st, ast.Assign):
                targets = st.targets
            elif isinstance(st, (ast.AugAssign, ast.AnnAssign)):
                targets = [st.target]
            for t in targets:
                for sub in ast.walk(t):
                    if isinstance(sub, ast.Attribute) and isinstance(sub.value, ast.Name) and sub.value.id == 'self':
                        rows.append(('parser-attr-write', 'cssutils/parse.py:CSSParser.' + name, sub.attr))
        for st in ast.walk(fn):
            if isinstance(st, ast.Call) and isinstance(st.func, ast.Name) and st.func.id in ('setattr', 'delattr') \
                    and st.args and isinstance(st.args[0], ast.Name) and st.args[0].id == 'self':
                rows.append(('parser-attr-write', 'cssutils/parse.py:CSSParser.' + name, 'setattr'))
    init = fns.get('__init__')
    if init is not None:
        w = [ast.unparse(st) for st in ast.walk(init) if isinstance(st, ast.Assign)
             and ast.unparse(st.targets[0]) == 'self.__parseRaising']
        rows.append(('parser-mode-init', 'cssutils/parse.py:CSSParser.__init__', ' ; '.join(w)))
    # what every PUBLIC entry point does, in order, with the private helpers and the other methods it calls on `self`
    # followed (so that moving code into a helper does not change the row): `open` / `readUrl` / `parse`, and
    # `setting[…]` around whatever runs inside `with self.__parseSetting():`
    def events(fn, depth, active):
        out = []

        def calls(node):
            for sub in ast.walk(node):
                if isinstance(sub, ast.Call):
                    f = sub.func
                    nm = f.attr if isinstance(f, ast.Attribute) else (f.id if isinstance(f, ast.Name) else None)
                    if nm == 'open':
                        out.append('open')
                    elif nm == '_readUrl':
                        out.append('readUrl')
                    elif nm in ('CSSStyleSheet', 'CSSStyleDeclaration', '_setCssTextWithEncodingOverride', '_setCssText'):
                        out.append('parse')
                    elif isinstance(f, ast.Attribute) and isinstance(f.value, ast.Name) and f.value.id == 'self' \
                            and nm in fns and nm != '__parseSetting' and nm not in active and depth < 4:
                        out.extend(events(fns[nm], depth + 1, active | {nm}))

        def block(stmts):
            for st in stmts:
                if isinstance(st, ast.Expr) and isinstance(st.value, ast.Constant):
                    continue
                if isinstance(st, ast.With):
                    setting = any(ast.unparse(i.context_expr) == 'self.__parseSetting()' for i in st.items)
                    for i in st.items:
                        if not setting:
                            calls(i.context_expr)
                    if setting:
                        out.append('setting[')
                        block(st.body)
                        out.append(']')
                    else:
                        block(st.body)
                elif isinstance(st, (ast.If, ast.For, ast.While)):
                    calls(st.test if hasattr(st, 'test') else st.iter)
                    block(st.body)
                    block(st.orelse)
                elif isinstance(st, ast.Try):
                    block(st.body)
                    for h in st.handlers:
                        block(h.body)
                    block(st.orelse)
                    block(st.finalbody)
                else:
                    calls(st)
        block(fn.body)
        return out

    def squeeze(ev):
        res = []
        for e in ev:
            if res and res[-1] == e and e != ']' and e != 'setting[':
                continue
            res.append(e)
        text = ' '.join(res).replace('setting[ ', 'setting[').replace(' ]', ']')
        return text
    for name in ('parseStyle', 'parseString', 'parseFile', 'parseUrl'):
        fn = fns.get(name)
        if fn is None:
            rows.append(('entry-point', 'cssutils/parse.py:CSSParser.' + name, 'missing'))
            continue
        rows.append(('entry-point', 'cssutils/parse.py:CSSParser.' + name, squeeze(events(fn, 0, {name})) or 'nothing'))
    return rows


def _csscombine(tree):
    fn = next((n for n in tree.body if isinstance(n, ast.FunctionDef) and n.name == 'csscombine'), None)
    if fn is None:
        return [('csscombine-shape', 'cssutils/script.py:csscombine', 'missing')]
    seq = []

    def scan(stmts, ctx):
        for st in stmts:
            if isinstance(st, ast.Try):
                scan(st.body, ctx + ['try'])
                scan(st.finalbody, ctx + ['finally'])
                for h in st.handlers:
                    scan(h.body, ctx + ['except'])
                continue
            if isinstance(st, (ast.If,)):
                scan(st.body, ctx)
                scan(st.orelse, ctx)
                continue
            src = ast.unparse(st)
            tag = '+'.join(ctx) or 'plain'
            if 'setSerializer(' in src:
                seq.append('swap@' + tag)
            elif src.replace(' ', '').endswith('=cssutils.ser'):
                seq.append('remember@' + tag)
            elif '.cssText' in src and isinstance(st, ast.Assign) and 'result' in src:
                seq.append('serialize@' + tag)
            elif 'parser.parse' in src:
                if not seq or seq[-1] != 'parse@' + tag:
                    seq.append('parse@' + tag)
            elif 'resolveImports(' in src:
                seq.append('resolve@' + tag)
            elif 'result.encoding' in src and isinstance(st, ast.Assign):
                seq.append('set-encoding@' + tag)
    scan(fn.body, [])
    return [('csscombine-shape', 'cssutils/script.py:csscombine', ' '.join(seq))]


def _mediaquery_init(tree):
    cls = next((n for n in tree.body if isinstance(n, ast.ClassDef) and n.name == 'MediaQuery'), None)
    if cls is None:
        return [('mediaquery-init', 'cssutils/stylesheets/mediaquery.py:MediaQuery.__init__', 'missing')]
    init = next(n for n in cls.body if isinstance(n, ast.FunctionDef) and n.name == '__init__')
    default = None
    args = init.args
    names = [a.arg for a in args.args]
    if '_partof' in names:
        i = names.index('_partof') - (len(names) - len(args.defaults))
        default = ast.unparse(args.defaults[i]) if i >= 0 else 'required'
    steps = []

    def scan(stmts, ctx):
        for st in stmts:
            if isinstance(st, ast.If):
                scan(st.body, ctx + ['if ' + ast.unparse(st.test)])
                scan(st.orelse, ctx + ['else'])
                continue
            src = ast.unparse(st)
            if '_partof' in src or src.startswith('self.mediaText ='):
                steps.append('%s%s' % ('[%s] ' % ','.join(ctx) if ctx else '', src))
    scan(init.body, [])
    return [('mediaquery-init', 'cssutils/stylesheets/mediaquery.py:MediaQuery.__init__',
             'default=%s | %s' % (default, ' ; '.join(steps)))]


def collect(repo):
    rows = []
    hashes = {}
    for path in _files(repo):
        rel = os.path.relpath(path, repo)
        src = open(path, encoding='utf-8').read()
        tree = ast.parse(src)
        v = _Scopes(rel)
        v.visit(tree)
        if v.rows:
            hashes[rel] = hashlib.sha256(src.encode('utf-8')).hexdigest()[:16]
        rows += v.rows
        if rel == os.path.join('cssutils', 'parse.py'):
            rows += _parse_setting(tree)
            hashes[rel] = hashlib.sha256(src.encode('utf-8')).hexdigest()[:16]
        if rel == os.path.join('cssutils', 'script.py'):
            rows += _csscombine(tree)
        if rel == os.path.join('cssutils', 'stylesheets', 'mediaquery.py'):
            rows += _mediaquery_init(tree)
    # serialize.py: no log call, no raise -- emit explicit counts
    n_log = sum(1 for r in rows if r[0] == 'serialize-log')
    n_raise = sum(1 for r in rows if r[0] == 'serialize-raise')
    rows = [r for r in rows if r[0] not in ('serialize-log', 'serialize-raise')]
    rows.append(('serialize-log-calls', 'cssutils/serialize.py', str(n_log)))
    rows.append(('serialize-raise-statements', 'cssutils/serialize.py', str(n_raise)))
    rows.sort()
    return rows, hashes


def lean_str(s):
    out = []
    for ch in s:
        if ch == '"' or ch == '\\':
            out.append('\\' + ch)
        elif ch == '\n':
            out.append('\\n')
        elif 32 <= ord(ch) < 127:
            out.append(ch)
        else:
            out.append('\\u{%x}' % ord(ch))
    return '"' + ''.join(out) + '"'


def render(rows, hashes):
    lines = ['/-! GENERATED by tools/gen/c12_sites.py from the cssutils sources — do not edit.',
             'sources: ' + ', '.join('%s=%s' % kv for kv in sorted(hashes.items())),
             '-/',
             'namespace CssVerif.Gen.C12',
             '',
             '/-- (kind, file:function, detail) of every writer of process-wide state -/',
             'def sites : List (String × String × String) := [']
    body = ['  (%s, %s, %s)' % (lean_str(k), lean_str(w), lean_str(d)) for k, w, d in rows]
    lines.append(',\n'.join(body))
    lines.append(']')
    lines.append('')
    lines.append('end CssVerif.Gen.C12')
    return '\n'.join(lines) + '\n'


def generate(repo):
    rows, hashes = collect(repo)
    return {'CssVerif/Gen/C12Sites.lean': render(rows, hashes)}, rows


if __name__ == '__main__':
    import sys
    files, rows = generate(sys.argv[1] if len(sys.argv) > 1 else '/repo')
    for r in rows:
        print(r)
