"""C12 translator: every module-level and class-level mutable object of cssutils/ and encutils/ (tests excluded) and
every place that can change it, read from the source with `ast` (nothing is imported) and emitted as the tables
`CssVerif.Gen.C12M.defs`, `writes` and `fields`.

defs    (file, scope, name, kind)    a binding at module level or in a class body whose value is not a constant:
                                     dict / list / set displays and comprehensions, calls (instances), aliases.
                                     Calls whose result is immutable (`re.compile`, `property`, …) are left out.
writes  (name, file, function, op)   every statement anywhere in the package that rebinds the name (`global`),
                                     assigns / deletes an item or a slice of it at any depth, calls a mutating method
                                     on it, or assigns an attribute of that name on something that is not `self`;
                                     the object is recognised by its NAME (bare, or as the last attribute of any
                                     expression), which over-approximates: a row too many has to be explained in the
                                     hand table, a row too few cannot happen for code that names the object
fields  (class, method, attr, op)    for the classes whose instances are process-wide or are memo holders
                                     (Tokenizer, LazyRegex, Profiles, _ErrorHandler; the serializer's are in c12_sites):
                                     every `self.<attr> = …` / in-place change of `self.<attr>` outside `__init__`

`Lemmas/GlobalsMutables.lean` gives every definition a role (constant table, memo, modelled state, instance,
finding); `Props/C12.lean` proves that the regenerated tables are the ones the roles were written against and the
facts the memo theorems rest on (no writer of MACROS / PRODUCTIONS, `_TOKENIZER_CACHE` written by its look-up only,
the tables handed out by the cache never written, LazyRegex written by `ensure` only).
"""
import ast
import hashlib
import os

MUTATORS = {'append', 'extend', 'insert', 'pop', 'remove', 'clear', 'update', 'setdefault', 'popitem', 'add',
            'discard', 'sort', 'reverse', '__setitem__', '__delitem__', 'appendleft', 'popleft',
            'difference_update', 'intersection_update', 'symmetric_difference_update'}

# calls whose result cannot be changed afterwards
IMMUTABLE_CALLS = {'re.compile', 'property', 'frozenset', 'tuple', 'staticmethod', 'classmethod', 'dataclasses.field',
                   'str', 'int', 'float', 'bool', 'bytes', 'len', 'max', 'min', 'sum', 'ord', 'chr', 'object',
                   '_parser_redirect', 'jaraco.functools.pass_none', 'codecs.lookup', 'namedtuple',
                   'collections.namedtuple'}

FIELD_CLASSES = ('Tokenizer', 'LazyRegex', 'Profiles', '_ErrorHandler')


def _files(repo):
    out = []
    for top in ('cssutils', 'encutils'):
        base = os.path.join(repo, top)
        for root, dirs, files in os.walk(base):
            dirs[:] = sorted(d for d in dirs if d != 'tests' and d != '__pycache__')
            for fn in sorted(files):
                if fn.endswith('.py'):
                    out.append(os.path.join(root, fn))
    return out


def _immutable(v):
    if isinstance(v, (ast.Constant, ast.JoinedStr, ast.Lambda, ast.Compare, ast.BoolOp)):
        return True
    if isinstance(v, ast.Tuple):
        return all(_immutable(e) or isinstance(e, (ast.Name, ast.Attribute)) for e in v.elts)
    if isinstance(v, ast.UnaryOp):
        return _immutable(v.operand)
    if isinstance(v, ast.BinOp):
        return (_immutable(v.left) or isinstance(v.left, (ast.Name, ast.Attribute))) and \
               (_immutable(v.right) or isinstance(v.right, (ast.Name, ast.Attribute)))
    if isinstance(v, ast.Call):
        f = ast.unparse(v.func)
        if f in IMMUTABLE_CALLS:
            return True
    if isinstance(v, ast.Attribute) and isinstance(v.value, ast.Call) and ast.unparse(v.value.func) == 're.compile':
        return True                                   # re.compile(...).sub / .match: a bound method of a pattern
    return False


def _kind(v):
    if isinstance(v, (ast.Dict, ast.DictComp)):
        return 'dict'
    if isinstance(v, (ast.List, ast.ListComp)):
        return 'list'
    if isinstance(v, (ast.Set, ast.SetComp)):
        return 'set'
    if isinstance(v, ast.Call):
        return 'call ' + ast.unparse(v.func)
    if isinstance(v, (ast.Name, ast.Attribute)):
        return 'alias ' + ast.unparse(v)
    if isinstance(v, ast.Subscript):
        return 'alias ' + ast.unparse(v)
    return 'other ' + type(v).__name__


def _defs(rel, tree):
    rows = []

    def target_name(t):
        # `X = …`, `Cls.attr = …` at module level, `table[key] = …` (an item of a module-level table)
        if isinstance(t, ast.Name):
            return t.id
        if isinstance(t, ast.Attribute):
            return ast.unparse(t)
        return None

    def scan(body, scope):
        for st in body:
            if isinstance(st, ast.ClassDef):
                scan(st.body, scope + [st.name])
            elif isinstance(st, (ast.Assign, ast.AnnAssign)):
                tg = st.targets if isinstance(st, ast.Assign) else [st.target]
                v = st.value
                if v is None or _immutable(v):
                    continue
                for t in tg:
                    n = target_name(t)
                    if n is None or n == '__all__':
                        continue
                    k = _kind(v)
                    if k.startswith('alias ') or k.startswith('other '):
                        continue                      # a second name for a class / function / constant
                    if '.' in n:                      # `Cls.attr = …` at module level: a class-level binding
                        rows.append((rel, '.'.join(scope + n.split('.')[:-1]), n.split('.')[-1], k))
                    else:
                        rows.append((rel, '.'.join(scope) or '<module>', n, k))
            elif isinstance(st, (ast.If, ast.Try, ast.With, ast.For, ast.While)):
                for fld in ('body', 'orelse', 'finalbody'):
                    scan(getattr(st, fld, []) or [], scope)
                for h in getattr(st, 'handlers', []):
                    scan(h.body, scope)
    scan(tree.body, [])
    return rows


def _root(e):
    """(name, depth) of the object a store / call target reaches into: `a.b.NAME[i][j]` -> ('NAME', 2, base)"""
    depth = 0
    while isinstance(e, ast.Subscript):
        e = e.value
        depth += 1
    if isinstance(e, ast.Name):
        return e.id, depth, None
    if isinstance(e, ast.Attribute):
        return e.attr, depth, e.value
    return None, depth, None


class _Writes(ast.NodeVisitor):
    def __init__(self, rel, names, local_of):
        self.rel = rel
        self.names = names              # short name -> True
        self.stack = []
        self.fn = []                    # enclosing function nodes
        self.rows = []
        self.local_of = local_of

    def where(self):
        # a class body is executed while the module is imported
        return (self.rel, '.'.join(self.stack) if self.fn else '<module>')

    def visit_ClassDef(self, node):
        self.stack.append(node.name)
        self.generic_visit(node)
        self.stack.pop()

    def visit_FunctionDef(self, node):
        self.stack.append(node.name)
        self.fn.append(node)
        self.generic_visit(node)
        self.fn.pop()
        self.stack.pop()

    visit_AsyncFunctionDef = visit_FunctionDef

    def _is_local(self, name):
        """a bare name that the innermost function binds itself (parameter or assignment without `global`)"""
        for fn in reversed(self.fn):
            loc, glob = self.local_of(fn)
            if name in glob:
                return False
            if name in loc:
                return True
        return False

    def _hit(self, name, base):
        if name not in self.names:
            return False
        if base is None:
            return not self._is_local(name)
        return True

    def _store(self, t, op):
        if isinstance(t, (ast.Tuple, ast.List)):
            for e in t.elts:
                self._store(e, op)
            return
        if isinstance(t, ast.Starred):
            self._store(t.value, op)
            return
        name, depth, base = _root(t)
        if name is None:
            return
        if depth:
            if self._hit(name, base):
                self.rows.append((name,) + self.where() + ('%sitem%s' % (op, '-deep' if depth > 1 else ''),))
            return
        if isinstance(t, ast.Name):
            # rebinding a global: at module level (initialisation) or under `global`
            if name in self.names and ((not self.fn and not self.stack) or
                                       any(name in self.local_of(fn)[1] for fn in self.fn)):
                self.rows.append((name,) + self.where() + (op + 'name',))
            return
        if isinstance(t, ast.Attribute):
            if name in self.names:
                onself = isinstance(base, ast.Name) and base.id in ('self',)
                self.rows.append((name,) + self.where() + (op + ('attr-on-self' if onself else 'attr'),))

    def visit_Assign(self, node):
        for t in node.targets:
            self._store(t, 'set')
        self.generic_visit(node)

    def visit_AnnAssign(self, node):
        if node.value is not None:
            self._store(node.target, 'set')
        self.generic_visit(node)

    def visit_AugAssign(self, node):
        self._store(node.target, 'aug')
        self.generic_visit(node)

    def visit_Delete(self, node):
        for t in node.targets:
            self._store(t, 'del')
        self.generic_visit(node)

    def visit_Call(self, node):
        f = node.func
        if isinstance(f, ast.Attribute) and f.attr in MUTATORS:
            name, depth, base = _root(f.value)
            if name is not None and self._hit(name, base):
                self.rows.append((name,) + self.where() + ('call-%s%s' % (f.attr, '-deep' if depth else ''),))
        if isinstance(f, ast.Name) and f.id in ('setattr', 'delattr') and len(node.args) >= 2:
            a = node.args[1]
            if isinstance(a, ast.Constant) and a.value in self.names:
                self.rows.append((a.value,) + self.where() + (f.id,))
        self.generic_visit(node)


def _locals_cache():
    cache = {}

    def local_of(fn):
        if id(fn) not in cache:
            loc, glob = set(), set()
            a = fn.args
            for x in a.posonlyargs + a.args + a.kwonlyargs + ([a.vararg] if a.vararg else []) + \
                    ([a.kwarg] if a.kwarg else []):
                loc.add(x.arg)
            for sub in ast.walk(fn):
                if isinstance(sub, ast.Global):
                    glob.update(sub.names)
                elif isinstance(sub, ast.Name) and isinstance(sub.ctx, ast.Store):
                    loc.add(sub.id)
                elif isinstance(sub, (ast.For, ast.comprehension)):
                    for n in ast.walk(sub.target):
                        if isinstance(n, ast.Name):
                            loc.add(n.id)
            cache[id(fn)] = (loc - glob, glob)
        return cache[id(fn)]
    return local_of


def _fields(rel, tree):
    rows = []
    for cls in ast.walk(tree):
        if not (isinstance(cls, ast.ClassDef) and cls.name in FIELD_CLASSES):
            continue
        for fn in cls.body:
            if not isinstance(fn, ast.FunctionDef) or fn.name == '__init__':
                continue
            for st in ast.walk(fn):
                targets = []
                op = 'set'
                if isinstance(st, ast.Assign):
                    targets = st.targets
                elif isinstance(st, (ast.AugAssign, ast.AnnAssign)):
                    targets = [st.target]
                elif isinstance(st, ast.Delete):
                    targets, op = st.targets, 'del'
                elif isinstance(st, ast.Call) and isinstance(st.func, ast.Attribute) and st.func.attr in MUTATORS:
                    name, depth, base = _root(st.func.value)
                    if isinstance(base, ast.Name) and base.id == 'self':
                        rows.append((cls.name, fn.name, name, 'call-' + st.func.attr))
                    continue
                flat = []
                for t in targets:
                    flat.extend(t.elts if isinstance(t, (ast.Tuple, ast.List)) else [t])
                for t in flat:
                    name, depth, base = _root(t)
                    if isinstance(base, ast.Name) and base.id == 'self' and name is not None:
                        rows.append((cls.name, fn.name, name, op + ('item' if depth else '')))
    return rows


def collect(repo):
    trees = {}
    hashes = {}
    for path in _files(repo):
        rel = os.path.relpath(path, repo)
        src = open(path, encoding='utf-8').read()
        trees[rel] = ast.parse(src)
        hashes[rel] = hashlib.sha256(src.encode('utf-8')).hexdigest()[:16]
    defs = []
    for rel, tree in trees.items():
        defs += _defs(rel, tree)
    # the short names under which the objects are reached: `CSS2Properties._properties` -> `_properties`,
    # `macros[Profiles.CSS_LEVEL_2]` is an item of `macros`
    names = {}
    for _, _, n, _ in defs:
        names[n.split('.')[-1]] = True
    # values handed out by the tokenizer cache: the tables every Tokenizer with the same key shares
    for n in ('tokenmatches', 'commentmatcher', 'urimatcher'):
        names[n] = True
    writes = []
    fields = []
    local_of = _locals_cache()
    for rel, tree in trees.items():
        w = _Writes(rel, names, local_of)
        w.visit(tree)
        writes += w.rows
        fields += _fields(rel, tree)
    # the defining statement itself is not a writer
    defnames = {(rel, n) for rel, sc, n, _ in defs}
    out = []
    for name, rel, fn, op in writes:
        if op == 'setname' and fn == '<module>' and (rel, name) in defnames:
            continue
        if op == 'setattr' and (rel, name) in defnames and fn == '<module>':
            continue                                 # `CSS2Properties._properties = []` at module level
        out.append((name, rel, fn, op))
    defs.sort()
    out.sort()
    fields.sort()
    used = sorted({d[0] for d in defs} | {w[1] for w in out})
    return defs, out, fields, {k: hashes[k] for k in used}


def lean_str(s):
    out = []
    for ch in s:
        if ch == '"' or ch == '\\':
            out.append('\\' + ch)
        elif ch == '\n':
            out.append('\\n')
        elif 32 <= ord(ch) < 127:
            out.append(ch)
        else:
            out.append('\\u{%x}' % ord(ch))
    return '"' + ''.join(out) + '"'


def render(defs, writes, fields, hashes):
    lines = ['/-! GENERATED by tools/gen/c12_mutables.py from the cssutils / encutils sources — do not edit.',
             'sources: ' + ', '.join('%s=%s' % kv for kv in sorted(hashes.items())),
             '-/',
             'namespace CssVerif.Gen.C12M',
             '',
             '/-- (file, scope, name, kind) of every module-level / class-level binding to a mutable object -/',
             'def defs : List (String × String × String × String) := [']
    lines.append(',\n'.join('  (%s, %s, %s, %s)' % tuple(lean_str(x) for x in r) for r in defs))
    lines.append(']')
    lines.append('')
    lines.append('/-- (name, file, function or <module>, operation) of every statement that can change one of them -/')
    lines.append('def writes : List (String × String × String × String) := [')
    lines.append(',\n'.join('  (%s, %s, %s, %s)' % tuple(lean_str(x) for x in r) for r in writes))
    lines.append(']')
    lines.append('')
    lines.append('/-- (class, method, attribute, operation): fields of the process-wide classes written outside `__init__` -/')
    lines.append('def fields : List (String × String × String × String) := [')
    lines.append(',\n'.join('  (%s, %s, %s, %s)' % tuple(lean_str(x) for x in r) for r in fields))
    lines.append(']')
    lines.append('')
    lines.append('end CssVerif.Gen.C12M')
    return '\n'.join(lines) + '\n'


def generate(repo):
    defs, writes, fields, hashes = collect(repo)
    return {'CssVerif/Gen/C12Mutables.lean': render(defs, writes, fields, hashes)}, (defs, writes, fields)


if __name__ == '__main__':
    import sys
    files, (defs, writes, fields) = generate(sys.argv[1] if len(sys.argv) > 1 else '/repo')
    for r in defs:
        print('DEF  ', r)
    for r in writes:
        print('WRITE', r)
    for r in fields:
        print('FIELD', r)
