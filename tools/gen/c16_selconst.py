"""C16 translator: cssutils/css/selector.py  ->  lean/CssVerif/Gen/C16SelConst.lean

What is *data* in selector.py is never typed into Lean by hand:

* the constant strings of class ``Constants`` (verbatim: the code does real SUBSTRING tests on them, e.g.
  ``'attrib' in 'prefix attribute'`` is true, and the model performs the same substring tests on these lists),
* the dispatch table returned by ``New.productions`` (token type -> callback method name),
* the four legacy one-colon pseudo-elements tested in ``New._pseudo``,
* the item types counted as "d" in ``New.append`` and the combinator name tables of ``New._char``.

The source is read with ``ast`` only (nothing is imported), so a tree whose import fails still translates.
``crosscheck(repo)`` (run by the harness in the check process) compares the result with the live objects.
A shape the translator does not know stops it with an explicit message; it never guesses.
"""
import ast
import hashlib
import os

SRC = 'cssutils/css/selector.py'
OUT = 'CssVerif/Gen/C16SelConst.lean'


class Unsupported(Exception):
    pass


def _str_expr(node, env):
    """evaluate a string expression built from literals, earlier constants and +"""
    if isinstance(node, ast.Constant) and isinstance(node.value, str):
        return node.value
    if isinstance(node, ast.Name) and node.id in env:
        return env[node.id]
    if isinstance(node, ast.BinOp) and isinstance(node.op, ast.Add):
        return _str_expr(node.left, env) + _str_expr(node.right, env)
    raise Unsupported('Constants: unsupported expression %s' % ast.dump(node))


def read(repo):
    path = os.path.join(repo, SRC)
    with open(path, 'rb') as f:
        raw = f.read()
    tree = ast.parse(raw.decode('utf-8'))
    consts, prods, legacy, dtypes, names_pm, names_comb = {}, None, None, None, None, None
    for node in tree.body:
        if isinstance(node, ast.ClassDef) and node.name == 'Constants':
            for st in node.body:
                if isinstance(st, ast.Expr) and isinstance(st.value, ast.Constant):
                    continue                      # docstring
                if isinstance(st, ast.Assign) and len(st.targets) == 1 and isinstance(st.targets[0], ast.Name):
                    consts[st.targets[0].id] = _str_expr(st.value, consts)
                else:
                    raise Unsupported('Constants: unsupported statement %s' % ast.dump(st)[:200])
        if isinstance(node, ast.ClassDef) and node.name == 'New':
            for fn in node.body:
                if not isinstance(fn, ast.FunctionDef):
                    continue
                if fn.name == 'productions':
                    rets = [n for n in ast.walk(fn) if isinstance(n, ast.Return)]
                    if len(rets) != 1 or not isinstance(rets[0].value, ast.Dict):
                        raise Unsupported('New.productions: expected one `return {...}`')
                    prods = []
                    for k, v in zip(rets[0].value.keys, rets[0].value.values):
                        if not (isinstance(k, ast.Constant) and isinstance(k.value, str) and
                                isinstance(v, ast.Attribute) and isinstance(v.value, ast.Name) and v.value.id == 'self'):
                            raise Unsupported('New.productions: unsupported entry %s' % ast.dump(k))
                        prods.append((k.value, v.attr))
                if fn.name == '_pseudo':
                    # if val in (':first-line', ...):  typ = 'pseudo-element'
                    for n in ast.walk(fn):
                        if (isinstance(n, ast.If) and isinstance(n.test, ast.Compare) and len(n.test.ops) == 1
                                and isinstance(n.test.ops[0], ast.In) and isinstance(n.test.comparators[0], ast.Tuple)
                                and isinstance(n.test.left, ast.Name) and n.test.left.id == 'val'):
                            legacy = [e.value for e in n.test.comparators[0].elts]
                if fn.name == 'append':
                    # elif typ in ('type-selector', 'negation-type-selector', 'pseudo-element'): specificity[3] += 1
                    for n in ast.walk(fn):
                        if (isinstance(n, ast.Compare) and len(n.ops) == 1 and isinstance(n.ops[0], ast.In)
                                and isinstance(n.left, ast.Name) and n.left.id == 'typ'
                                and isinstance(n.comparators[0], ast.Tuple)
                                and len(n.comparators[0].elts) == 3):
                            dtypes = [e.value for e in n.comparators[0].elts]
                if fn.name == '_char':
                    dicts = [n for n in ast.walk(fn) if isinstance(n, ast.Assign) and isinstance(n.value, ast.Dict)
                             and isinstance(n.targets[0], ast.Name) and n.targets[0].id == '_names']
                    for d in dicts:
                        tab = [(k.value, v.value) for k, v in zip(d.value.keys, d.value.values)]
                        if len(tab) == 2:
                            names_pm = tab
                        elif len(tab) == 3:
                            names_comb = tab
    need = ['S', 'simple_selector_sequence', 'simple_selector_sequence2', 'element_name', 'negation_arg',
            'negationend', 'attname', 'attname2', 'attcombinator', 'attvalue', 'attend', 'expressionstart',
            'expression', 'combinator']
    for k in need:
        if k not in consts:
            raise Unsupported('Constants.%s not found' % k)
    if set(consts) - set(need):
        raise Unsupported('Constants has attributes the model does not know: %s' % sorted(set(consts) - set(need)))
    for what, v in (('New.productions', prods), ('legacy pseudo-elements in New._pseudo', legacy),
                    ('d-counted item types in New.append', dtypes), ('plus/minus names in New._char', names_pm),
                    ('combinator names in New._char', names_comb)):
        if not v:
            raise Unsupported('%s not found' % what)
    return {'sha256': hashlib.sha256(raw).hexdigest(), 'consts': consts, 'need': need, 'productions': prods,
            'legacy': legacy, 'dtypes': dtypes, 'names_pm': names_pm, 'names_comb': names_comb}


def lit(s):
    return '[' + ', '.join(str(ord(c)) for c in s) + ']'


def generate(repo):
    d = read(repo)
    o = []
    o.append('/- GENERATED by tools/gen/c16_selconst.py from %s -- do not edit.' % SRC)
    o.append('   source sha256 = %s -/' % d['sha256'])
    o.append('namespace CssVerif.Gen.C16')
    o.append('')
    o.append('/-! ## class Constants (verbatim; code points) -/')
    for k in d['need']:
        o.append('/-- `%s = %r` -/' % (k, d['consts'][k]))
        o.append('def %s : List Nat := %s' % ('c_' + k, lit(d['consts'][k])))
    o.append('')
    o.append('/-! ## New.productions: token type -> callback method -/')
    o.append('def productions : List (List Nat × List Nat) := [')
    o.append(',\n'.join('  (%s, %s)  /- %s: self.%s -/' % (lit(k), lit(v), k, v) for k, v in d['productions']))
    o.append(']')
    o.append('')
    o.append('/-! ## New._pseudo: one-colon spellings that are always pseudo-elements -/')
    o.append('def legacyPseudoElements : List (List Nat) := [')
    o.append(',\n'.join('  %s  /- %s -/' % (lit(k), k) for k in d['legacy']))
    o.append(']')
    o.append('')
    o.append('/-! ## New.append: item types that count as type selectors / pseudo-elements (d) -/')
    o.append('def dTypes : List (List Nat) := [')
    o.append(',\n'.join('  %s  /- %s -/' % (lit(k), k) for k in d['dtypes']))
    o.append(']')
    o.append('')
    o.append('/-! ## New._char: `_names` tables -/')
    o.append('def namesPlusMinus : List (List Nat × List Nat) := [')
    o.append(',\n'.join('  (%s, %s)  /- %r: %s -/' % (lit(k), lit(v), k, v) for k, v in d['names_pm']))
    o.append(']')
    o.append('def namesCombinator : List (List Nat × List Nat) := [')
    o.append(',\n'.join('  (%s, %s)  /- %r: %s -/' % (lit(k), lit(v), k, v) for k, v in d['names_comb']))
    o.append(']')
    o.append('')
    o.append('end CssVerif.Gen.C16')
    return '\n'.join(o) + '\n'


def crosscheck(repo):
    """compare the AST reading with the live objects (called in the check process, cssutils importable)"""
    d = read(repo)
    from cssutils.css import selector as m
    problems = []
    for k in d['need']:
        if getattr(m.Constants, k) != d['consts'][k]:
            problems.append('Constants.%s: live %r, read %r' % (k, getattr(m.Constants, k), d['consts'][k]))
    new = m.New(selector=m.Selector(), namespaces={})
    live = [(k, v.__name__) for k, v in new.productions.items()]
    if live != d['productions']:
        problems.append('productions: live %r, read %r' % (live, d['productions']))
    return problems


if __name__ == '__main__':
    import sys
    repo = sys.argv[1] if len(sys.argv) > 1 else '/repo'
    sys.stdout.write(generate(repo))
