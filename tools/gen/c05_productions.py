"""C05 translator: cssutils/cssproductions.py (MACROS, PRODUCTIONS), cssutils/tokenize2.py (at-keyword table,
unicodesub / stringsub patterns, the literal constants used by Tokenizer.tokenize) and cssutils/helper.py
(_simpleescapes) -> lean/CssVerif/Gen/C05Productions.lean.

Everything is read with `ast` (no import of cssutils); the macro expansion is re-implemented here and
cross-checked against the live `Tokenizer._expand_macros` / compiled matchers by `crosscheck()`.
A shape that is not found exactly as expected raises TranslateError - the translator never guesses.
"""
import ast
import hashlib
import os
import re

from gen import relib


class TranslateError(Exception):
    pass


SOURCES = ('cssutils/cssproductions.py', 'cssutils/tokenize2.py', 'cssutils/helper.py')


def _read(repo, rel):
    with open(os.path.join(repo, rel), encoding='utf-8') as f:
        return f.read()


def _lit(node):
    try:
        return ast.literal_eval(node)
    except Exception as e:
        raise TranslateError('not a literal: %s (%s)' % (ast.dump(node)[:200], e))


def _module_assign(tree, name):
    for node in tree.body:
        if isinstance(node, ast.Assign) and len(node.targets) == 1 and isinstance(node.targets[0], ast.Name) \
                and node.targets[0].id == name:
            return node.value
    raise TranslateError('module-level assignment %s not found' % name)


def _class(tree, name):
    for node in tree.body:
        if isinstance(node, ast.ClassDef) and node.name == name:
            return node
    raise TranslateError('class %s not found' % name)


def _class_assign(cls, name):
    for node in cls.body:
        if isinstance(node, ast.Assign) and len(node.targets) == 1 and isinstance(node.targets[0], ast.Name) \
                and node.targets[0].id == name:
            return node.value
    raise TranslateError('%s.%s not found' % (cls.name, name))


def _compiled_pattern(node, what):
    """`re.compile(<str>[, flags]).sub|match` -> (pattern, flags)"""
    if isinstance(node, ast.Attribute) and node.attr in ('sub', 'match'):
        node = node.value
    if not (isinstance(node, ast.Call) and isinstance(node.func, ast.Attribute) and node.func.attr == 'compile'):
        raise TranslateError('%s is not re.compile(...)' % what)
    pat = _lit(node.args[0])
    flags = 0
    for a in node.args[1:]:
        if isinstance(a, ast.Attribute) and a.attr in ('U', 'UNICODE'):
            flags |= re.U
        else:
            raise TranslateError('%s: unsupported flag expression' % what)
    if not isinstance(pat, str):
        raise TranslateError('%s: pattern is not a str' % what)
    return pat, flags


# ----------------------------------------------------------------------------------------------
def expand(macros, productions):
    """independent re-implementation of Tokenizer._expand_macros: `{name}` -> `(?:<expanded macro>)`,
    recursively, where name = [a-zA-Z][a-zA-Z0-9-]* (so `{1,6}` is left alone)"""
    cache = {}
    alpha = 'abcdefghijklmnopqrstuvwxyzABCDEFGHIJKLMNOPQRSTUVWXYZ'
    rest = alpha + '0123456789-'

    def ex(value, stack):
        out, i, n = [], 0, len(value)
        while i < n:
            if value[i] == '{' and i + 1 < n and value[i + 1] in alpha:
                j = i + 2
                while j < n and value[j] in rest:
                    j += 1
                if j < n and value[j] == '}':
                    name = value[i + 1:j]
                    if name in stack:
                        raise TranslateError('recursive macro %s' % name)
                    if name not in macros:
                        raise TranslateError('unknown macro {%s}' % name)   # the code raises KeyError
                    if name not in cache:
                        cache[name] = ex(macros[name], stack + (name,))
                    out.append('(?:%s)' % cache[name])
                    i = j + 1
                    continue
            out.append(value[i])
            i += 1
        return ''.join(out)

    return [(k, ex(v, ())) for k, v in productions]


def _find_tokenize(ttree):
    cls = _class(ttree, 'Tokenizer')
    for node in cls.body:
        if isinstance(node, ast.FunctionDef) and node.name == 'tokenize':
            return cls, node
    raise TranslateError('Tokenizer.tokenize not found')


def _one(items, what):
    items = list(items)
    vals = []
    for x in items:
        if x not in vals:
            vals.append(x)
    if len(vals) != 1:
        raise TranslateError('%s: expected exactly one, found %r' % (what, vals))
    return vals[0]


def extract(repo):
    ptree = ast.parse(_read(repo, 'cssutils/cssproductions.py'))
    ttree = ast.parse(_read(repo, 'cssutils/tokenize2.py'))
    htree = ast.parse(_read(repo, 'cssutils/helper.py'))
    macros = _lit(_module_assign(ptree, 'MACROS'))
    productions = _lit(_module_assign(ptree, 'PRODUCTIONS'))
    if not (isinstance(macros, dict) and all(isinstance(k, str) and isinstance(v, str) for k, v in macros.items())):
        raise TranslateError('MACROS is not a dict of str')
    if not (isinstance(productions, list) and all(isinstance(p, tuple) and len(p) == 2 for p in productions)):
        raise TranslateError('PRODUCTIONS is not a list of pairs')
    # CSSProductions.X = 'X' constants
    pcls = _class(ptree, 'CSSProductions')
    syms = {}
    for node in pcls.body:
        if isinstance(node, ast.Assign) and len(node.targets) == 1 and isinstance(node.targets[0], ast.Name):
            syms[node.targets[0].id] = _lit(node.value)
    tcls, fn = _find_tokenize(ttree)

    def sym(node):
        if isinstance(node, ast.Attribute) and isinstance(node.value, ast.Name) and node.value.id == 'CSSProductions':
            if node.attr not in syms or not isinstance(syms[node.attr], str):
                raise TranslateError('CSSProductions.%s is not a string constant' % node.attr)
            return syms[node.attr]
        v = _lit(node)
        if not isinstance(v, str):
            raise TranslateError('token name is not a str')
        return v

    akw = _class_assign(tcls, '_atkeywords')
    if not isinstance(akw, ast.Dict):
        raise TranslateError('_atkeywords is not a dict display')
    atkeywords = [(_lit(k), sym(v)) for k, v in zip(akw.keys, akw.values)]
    unicodesub = _compiled_pattern(_class_assign(tcls, 'unicodesub'), 'unicodesub')
    stringsub = _compiled_pattern(_class_assign(tcls, 'stringsub'), 'stringsub')
    linesep = _lit(_class_assign(tcls, '_linesep'))
    simpleescapes = _compiled_pattern(_module_assign(htree, '_simpleescapes'), '_simpleescapes')

    # literal constants inside Tokenizer.tokenize, by syntactic shape only (local variable names are not looked at,
    # so renaming a local does not disturb the translation)
    nametuples = []
    fast, unesc, clean, ends, hasat, andword, urlfn, cpl, charset_kw, charset_sym = [], [], [], [], [], [], [], [], [], []

    def str_tuple(node):
        return isinstance(node, ast.Tuple) and node.elts and all(
            isinstance(e, ast.Constant) and isinstance(e.value, str) for e in node.elts)

    for node in ast.walk(fn):
        if isinstance(node, ast.Compare) and len(node.ops) == 1:
            left, op, right = node.left, node.ops[0], node.comparators[0]
            if isinstance(op, ast.In) and isinstance(left, ast.Name) and isinstance(right, ast.Constant) \
                    and isinstance(right.value, str):
                fast.append(right.value)                                 # c in ',:;{}>[]'
            elif isinstance(op, ast.In) and isinstance(left, ast.Name) and str_tuple(right):
                t = tuple(_lit(right))                                   # name in (...)
                nametuples.append(t)
            elif isinstance(op, ast.NotEq) and isinstance(left, ast.Call) and isinstance(left.func, ast.Attribute) \
                    and left.func.attr == 'lower' and isinstance(right, ast.Constant):
                andword.append(right.value)                              # found.lower() != "and"
            elif isinstance(op, ast.Eq) and isinstance(left, ast.Constant) and isinstance(right, ast.Call):
                urlfn.append(left.value)                                 # 'url(' == _normalize(found)
            elif isinstance(op, ast.Eq) and isinstance(left, ast.Constant) and isinstance(left.value, str) \
                    and left.value.startswith('@') and isinstance(right, ast.Name):
                charset_kw.append(left.value)                            # '@charset' == found
        elif isinstance(node, ast.For) and str_tuple(node.iter):
            ends.append(tuple(_lit(node.iter)))                          # for end in ("')", '")', ')')
        elif isinstance(node, ast.Call) and isinstance(node.func, ast.Name) and node.func.id == 'has_at' \
                and len(node.args) == 3 and isinstance(node.args[2], ast.Constant):
            hasat.append(node.args[2].value)
        elif isinstance(node, ast.BinOp) and isinstance(node.op, ast.Mod) and isinstance(node.left, ast.Constant) \
                and isinstance(node.left.value, str) and node.left.value.startswith('%s'):
            cpl.append(node.left.value[2:])                              # '%s*/' % text[pos:]
        elif isinstance(node, ast.Attribute) and isinstance(node.value, ast.Name) and node.value.id == 'CSSProductions':
            charset_sym.append(sym(node))                                # CSSProductions.CHARSET_SYM
    # `name in (...)`: the larger tuple lists the unescaped types, the other one (a subset) the string-like types
    distinct = []
    for t in nametuples:
        if t not in distinct:
            distinct.append(t)
    if len(distinct) != 2:
        raise TranslateError('`name in (...)` tuples: expected 2 distinct, found %r' % (distinct,))
    distinct.sort(key=len)
    if len(distinct[0]) == len(distinct[1]) or not set(distinct[0]) <= set(distinct[1]):
        raise TranslateError('string-like types %r are not a proper subset of the unescaped types %r' % tuple(distinct))
    clean.append(distinct[0])
    unesc.append(distinct[1])
    # has_at constants in source order: '@charset ', '/*', ' '
    hasat_set = []
    for h in hasat:
        if h not in hasat_set:
            hasat_set.append(h)
    if len(hasat_set) != 3:
        raise TranslateError('has_at constants: expected 3 distinct, found %r' % (hasat_set,))
    charset_start = _one([h for h in hasat_set if h.startswith('@')], 'has_at @charset constant')
    comment_open = _one([h for h in hasat_set if h.startswith('/')], 'has_at comment opener')
    charset_sep = _one([h for h in hasat_set if not h.startswith('@') and not h.startswith('/')], 'has_at separator')
    res = {
        'macros': macros, 'productions': productions, 'atkeywords': atkeywords,
        'unicodesub': unicodesub, 'stringsub': stringsub, 'simpleescapes': simpleescapes,
        'linesep': linesep,
        'fast': _one(fast, 'fast-path character set'),
        'unesc_types': _one(unesc, 'unescaped token types'),
        'clean_types': _one(clean, 'string-like token types'),
        'uri_ends': _one(ends, 'url( completion endings'),
        'and_word': _one(andword, 'IDENT exception word'),
        'url_fn': _one(urlfn, 'url( function name'),
        'comment_close': _one(cpl, 'comment completion'),
        'comment_open': comment_open,
        'charset_start': charset_start,
        'charset_sep': charset_sep,
        'charset_kw': _one(charset_kw, 'misplaced @charset keyword'),
        'charset_sym': _one(charset_sym, 'CHARSET_SYM name'),
    }
    if linesep != '\n':
        raise TranslateError('_linesep is not LF: the model counts U+000A')
    return res


# ----------------------------------------------------------------------------------------------
def cps(s):
    return '[' + ', '.join(str(ord(c)) for c in s) + ']'


def lean_str(s):
    if not all(32 <= ord(c) < 127 and c not in '"\\' for c in s):
        raise TranslateError('token name %r is not plain ASCII' % s)
    return '"%s"' % s


def ident(name):
    return 're' + ''.join(ch if ch.isalnum() else '_' for ch in name)


def build(repo):
    """-> (data dict with Re ASTs, lean source text)"""
    d = extract(repo)
    expanded = expand(d['macros'], d['productions'])
    res = []
    for name, value in expanded:
        # tokenize2.py:84  re.compile('(?:%s)' % value, re.U)
        res.append((name, relib.parse('(?:%s)' % value, re.U)))
    d['expanded'] = expanded
    d['re'] = res
    names = [n for n, _ in res]
    if len(set(names)) != len(names):
        raise TranslateError('duplicate production names')
    for need in ('BOM', 'COMMENT', 'URI'):
        if need not in names:
            raise TranslateError('production %s missing' % need)
    if names[0] != 'BOM':
        raise TranslateError('first production is not BOM (tokenize2.py:136 takes tokenmatches[0])')
    d['re_unicodesub'] = relib.parse(*d['unicodesub'])
    d['re_stringsub'] = relib.parse(*d['stringsub'])
    d['re_simpleescapes'] = relib.parse(*d['simpleescapes'])
    h = hashlib.sha256()
    for s in SOURCES:
        h.update(_read(repo, s).encode('utf-8'))
    sha = {s: hashlib.sha256(_read(repo, s).encode('utf-8')).hexdigest() for s in SOURCES}
    L = []
    L.append('/- GENERATED by tools/gen/c05_productions.py - do not edit.')
    for s in SOURCES:
        L.append('   %s sha256 %s' % (s, sha[s]))
    L.append('-/')
    L.append('import CssVerif.Lib.Re')
    L.append('namespace CssVerif.Gen.C05')
    L.append('open CssVerif')
    L.append('')
    for name, r in res:
        L.append('/-- %s (expanded, %d nodes) -/' % (name, relib.size(r)))
        L.append('def %s : Re := %s' % (ident(name), relib.tolean(r)))
    L.append('')
    L.append('/-- tokenmatches[0] (tokenize2.py:136) -/')
    L.append('def bomName : String := %s' % lean_str(names[0]))
    L.append('def bomRe : Re := %s' % ident(names[0]))
    L.append('/-- tokenmatches[1:] in order -/')
    L.append('def productions : List (String × Re) := [%s]'
             % ', '.join('(%s, %s)' % (lean_str(n), ident(n)) for n in names[1:]))
    L.append('def commentRe : Re := %s' % ident('COMMENT'))
    L.append('def uriRe : Re := %s' % ident('URI'))
    L.append('')
    L.append('def unicodesubRe : Re := %s' % relib.tolean(d['re_unicodesub']))
    L.append('def stringsubRe : Re := %s' % relib.tolean(d['re_stringsub']))
    L.append('def simpleescapesRe : Re := %s' % relib.tolean(d['re_simpleescapes']))
    L.append('')
    L.append('def atkeywords : List (List Nat × String) := [%s]'
             % ', '.join('(%s, %s)' % (cps(k), lean_str(v)) for k, v in d['atkeywords']))
    L.append('def fastChars : List Nat := %s' % cps(d['fast']))
    L.append('def unescTypes : List String := [%s]' % ', '.join(lean_str(x) for x in d['unesc_types']))
    L.append('def cleanTypes : List String := [%s]' % ', '.join(lean_str(x) for x in d['clean_types']))
    L.append('def uriEnds : List (List Nat) := [%s]' % ', '.join(cps(x) for x in d['uri_ends']))
    L.append('def andWord : List Nat := %s' % cps(d['and_word']))
    L.append('def urlFn : List Nat := %s' % cps(d['url_fn']))
    L.append('def commentOpen : List Nat := %s' % cps(d['comment_open']))
    L.append('def commentClose : List Nat := %s' % cps(d['comment_close']))
    L.append('def charsetStart : List Nat := %s' % cps(d['charset_start']))
    L.append('def charsetKw : List Nat := %s' % cps(d['charset_kw']))
    L.append('def charsetSep : List Nat := %s' % cps(d['charset_sep']))
    L.append('def charsetSym : String := %s' % lean_str(d['charset_sym']))
    L.append('')
    L.append('end CssVerif.Gen.C05')
    return d, '\n'.join(L) + '\n'


def crosscheck(d):
    """compare with the live objects of the cssutils that is first on sys.path; returns list of problems"""
    problems = []
    import cssutils.tokenize2 as tk
    import cssutils.cssproductions as cp
    import cssutils.helper as hp
    t = tk.Tokenizer()
    live = t._expand_macros(cp.MACROS, cp.PRODUCTIONS)
    if live != d['expanded']:
        bad = [k for (k, v), (k2, v2) in zip(live, d['expanded']) if (k, v) != (k2, v2)]
        problems.append('macro expansion differs from Tokenizer._expand_macros for %s' % (bad or 'length'))
    pats = [(k, m.__self__.pattern, m.__self__.flags) for k, m in t.tokenmatches]
    want = [(k, '(?:%s)' % v, re.U) for k, v in d['expanded']]
    if [(k, p) for k, p, _ in pats] != [(k, p) for k, p, _ in want]:
        problems.append('compiled tokenmatches differ from (?:expanded)')
    for k, p, f in pats:
        if f & ~re.U:
            problems.append('production %s compiled with flags %s' % (k, f))
    if t.commentmatcher.__self__.pattern != '(?:%s)' % dict(d['expanded'])['COMMENT']:
        problems.append('commentmatcher is not the COMMENT production')
    if t.urimatcher.__self__.pattern != '(?:%s)' % dict(d['expanded'])['URI']:
        problems.append('urimatcher is not the URI production')
    if list(tk.Tokenizer._atkeywords.items()) != d['atkeywords']:
        problems.append('_atkeywords differ')
    for nm, obj, mine in (('unicodesub', tk.Tokenizer.unicodesub, d['unicodesub']),
                          ('stringsub', tk.Tokenizer.stringsub, d['stringsub']),
                          ('_simpleescapes', hp._simpleescapes, d['simpleescapes'])):
        if obj.__self__.pattern != mine[0] or (obj.__self__.flags & ~re.U) != (mine[1] & ~re.U):
            problems.append('%s pattern differs' % nm)
    return problems
