"""C03 translator: the token productions and the auxiliary patterns the content codecs depend on, read from the
source with `ast` (no import of cssutils) and written as `CssVerif.Re` terms to lean/CssVerif/Gen/C03Productions.lean.

  cssutils/cssproductions.py  MACROS, PRODUCTIONS  -> STRING, URI, IDENT, COMMENT (macro-expanded as
                                                      Tokenizer._expand_macros does, wrapped in (?:…), re.U)
  cssutils/tokenize2.py       Tokenizer.unicodesub, Tokenizer.stringsub, the two lists of token types (unescaped / string-like)
  cssutils/helper.py          _simpleescapes, _match_forbidden_in_uri
"""
import ast
import hashlib
import os
import re

from gen import relib

WANTED = ['STRING', 'URI', 'IDENT', 'COMMENT']


def _src(repo, rel):
    with open(os.path.join(repo, rel), encoding='utf-8') as f:
        return f.read()


def _const(node):
    return ast.literal_eval(node)


def read_productions(repo):
    tree = ast.parse(_src(repo, 'cssutils/cssproductions.py'))
    macros = prods = None
    for n in tree.body:
        if isinstance(n, ast.Assign) and len(n.targets) == 1 and isinstance(n.targets[0], ast.Name):
            if n.targets[0].id == 'MACROS':
                macros = _const(n.value)
            elif n.targets[0].id == 'PRODUCTIONS':
                prods = _const(n.value)
    if not isinstance(macros, dict) or not isinstance(prods, list):
        raise relib.Unsupported('MACROS / PRODUCTIONS not found as literals in cssproductions.py')
    return macros, prods


def expand(macros, value):
    """re-implementation of Tokenizer._expand_macros for one production"""
    pat = re.compile(r'{(?P<macro>[a-zA-Z][a-zA-Z0-9-]*)}')
    for _ in range(100):
        if not pat.search(value):
            return value
        value = pat.sub(lambda m: '(?:%s)' % macros[m.group('macro')], value)
    raise relib.Unsupported('macro expansion does not terminate')


def _flags(node):
    """re.U / re.I … flag expression -> int"""
    if node is None:
        return 0
    if isinstance(node, ast.Attribute) and isinstance(node.value, ast.Name) and node.value.id == 're':
        return int(getattr(re, node.attr))
    if isinstance(node, ast.BinOp) and isinstance(node.op, ast.BitOr):
        return _flags(node.left) | _flags(node.right)
    raise relib.Unsupported('flag expression')


def _compile_call(node):
    """`re.compile(<literal>[, flags]).<attr>` or `re.compile(...)` -> (pattern, flags, attr)"""
    attr = None
    if isinstance(node, ast.Attribute):
        attr, node = node.attr, node.value
    if not (isinstance(node, ast.Call) and isinstance(node.func, ast.Attribute) and node.func.attr == 'compile'
            and isinstance(node.func.value, ast.Name) and node.func.value.id == 're'):
        raise relib.Unsupported('not a re.compile call')
    pattern = _const(node.args[0])
    flags = _flags(node.args[1]) if len(node.args) > 1 else 0
    return pattern, flags, attr


def read_tokenizer(repo):
    tree = ast.parse(_src(repo, 'cssutils/tokenize2.py'))
    out = {}
    cls = [n for n in tree.body if isinstance(n, ast.ClassDef) and n.name == 'Tokenizer'][0]
    for n in cls.body:
        if isinstance(n, ast.Assign) and isinstance(n.targets[0], ast.Name) and n.targets[0].id in ('unicodesub', 'stringsub'):
            out[n.targets[0].id] = _compile_call(n.value)
    # `if name in ( 'DIMENSION', … ):` and the nested `if name in ('STRING', 'INVALID', 'URI'):`
    lists = []
    for n in ast.walk(cls):
        if isinstance(n, ast.If) and isinstance(n.test, ast.Compare) and isinstance(n.test.left, ast.Name) \
                and n.test.left.id == 'name' and len(n.test.ops) == 1 and isinstance(n.test.ops[0], ast.In) \
                and isinstance(n.test.comparators[0], ast.Tuple):
            lists.append((n.lineno, [_const(e) for e in n.test.comparators[0].elts]))
    lists.sort()
    if len(lists) != 2 or 'unicodesub' not in out or 'stringsub' not in out:
        raise relib.Unsupported('tokenize2.py: expected unicodesub, stringsub and two `name in (...)` lists, got %r' % (lists,))
    out['unescaped_types'] = lists[0][1]
    out['cleaned_types'] = lists[1][1]
    return out


def read_helper(repo):
    tree = ast.parse(_src(repo, 'cssutils/helper.py'))
    out = {}
    for n in tree.body:
        if isinstance(n, ast.Assign) and isinstance(n.targets[0], ast.Name) and \
                n.targets[0].id in ('_simpleescapes', '_match_forbidden_in_uri'):
            out[n.targets[0].id] = _compile_call(n.value)
    if len(out) != 2:
        raise relib.Unsupported('helper.py: _simpleescapes / _match_forbidden_in_uri not found')
    return out


def patterns(repo):
    """name -> (python pattern text, flags)"""
    macros, prods = read_productions(repo)
    pd = dict(prods)
    res = {}
    for k in WANTED:
        res[k] = ('(?:%s)' % expand(macros, pd[k]), int(re.U))
    tk = read_tokenizer(repo)
    hp = read_helper(repo)
    res['unicodesub'] = tk['unicodesub'][:2]
    res['stringsub'] = tk['stringsub'][:2]
    res['simpleescapes'] = hp['_simpleescapes'][:2]
    res['forbidden_in_uri'] = hp['_match_forbidden_in_uri'][:2]
    return res, tk


LEAN_NAMES = {'STRING': 'stringRe', 'URI': 'uriRe', 'IDENT': 'identRe', 'COMMENT': 'commentRe',
              'unicodesub': 'unicodesubRe', 'stringsub': 'stringsubRe', 'simpleescapes': 'simpleescapesRe',
              'forbidden_in_uri': 'forbiddenInUriRe'}


def generate(repo):
    pats, tk = patterns(repo)
    h = hashlib.sha256()
    for rel in ('cssutils/cssproductions.py', 'cssutils/tokenize2.py', 'cssutils/helper.py'):
        h.update(_src(repo, rel).encode('utf-8'))
    lines = ['import CssVerif.Lib.Re',
             '/-! GENERATED by tools/gen/c03_productions.py from cssutils/cssproductions.py, tokenize2.py, helper.py',
             'sha256(sources) = %s -/' % h.hexdigest(),
             'namespace CssVerif.Gen.C03', 'open CssVerif', '']
    asts = {}
    for k, (p, fl) in pats.items():
        a = relib.parse(p, fl)
        asts[k] = a
        lines.append('/-- `%s` : %s -/' % (k, p.replace('-/', '- /').replace('/-', '/ -')[:300].replace('\n', ' ')))
        lines.append('def %s : Re := %s' % (LEAN_NAMES[k], relib.tolean(a)))
        lines.append('')

    def strs(l):
        return '[' + ', '.join('"%s"' % x for x in l) + ']'
    lines.append('/-- token types whose value goes through `unicodesub` (tokenize2.py) -/')
    lines.append('def unescapedTypes : List String := %s' % strs(tk['unescaped_types']))
    lines.append('/-- … and of those, the ones that go through `stringsub` instead (line continuations removed too) -/')
    lines.append('def cleanedTypes : List String := %s' % strs(tk['cleaned_types']))
    lines.append('')
    lines.append('end CssVerif.Gen.C03')
    return {'CssVerif/Gen/C03Productions.lean': '\n'.join(lines) + '\n'}, pats, asts
