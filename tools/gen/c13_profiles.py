"""C13 translator: cssutils/profiles.py -> lean/CssVerif/Gen/C13Profiles.lean

Reads (with `ast`, never importing the tree) `Profiles._TOKEN_MACROS`, `Profiles._MACROS`, the profile-name
constants, the module-level `macros[...]` / `properties[...]` tables and the list handed to `addProfiles` in
`Profiles.__init__`; re-implements what `addProfiles` / `addProfile` / `_expand_macros` / `_compile_regexes` do
for that list (all macros of all profiles are merged FIRST, later profiles overriding earlier ones, then every
profile's properties are expanded against the merged table, wrapped as `^(?:...)$` and compiled with `re.I`);
parses every expanded pattern with CPython's own `re._parser` and emits it as a `CssVerif.Re` term.

A construct outside the supported subset raises (`relib.Unsupported`, `TranslateError`): a translator never guesses.
`crosscheck(repo)` compares the result with the live `cssutils.profile` object in a subprocess.
"""
import ast
import hashlib
import json
import os
import re
import subprocess
import sys

sys.path.insert(0, os.path.dirname(os.path.dirname(os.path.abspath(__file__))))
from gen import relib  # noqa: E402


class TranslateError(Exception):
    pass


# ----------------------------------------------------------------------------------------------
# reading the tables
def _const_env(cls):
    """class-level string constants of Profiles (CSS_LEVEL_2 = '...', CSS3_BOX = CSS_BOX_LEVEL_3 = '...')"""
    env = {}
    for st in cls.body:
        if isinstance(st, ast.Assign) and isinstance(st.value, ast.Constant) and isinstance(st.value.value, str):
            for t in st.targets:
                if isinstance(t, ast.Name):
                    env[t.id] = st.value.value
    return env


class Reader:
    def __init__(self, src):
        self.tree = ast.parse(src)
        self.cls = None
        for st in self.tree.body:
            if isinstance(st, ast.ClassDef) and st.name == 'Profiles':
                self.cls = st
        if self.cls is None:
            raise TranslateError('class Profiles not found')
        self.consts = _const_env(self.cls)
        self.class_dicts = {}
        for st in self.cls.body:
            if isinstance(st, ast.Assign) and isinstance(st.value, ast.Dict):
                for t in st.targets:
                    if isinstance(t, ast.Name):
                        self.class_dicts[t.id] = self.str_dict(st.value)
        for need in ('_TOKEN_MACROS', '_MACROS'):
            if need not in self.class_dicts:
                raise TranslateError('%s not found' % need)
        self.tables = {'macros': {}, 'properties': {}}
        self.read_module_tables()
        self.order = self.read_addprofiles()
        self.flags = self.read_flags()

    def profile_name(self, node):
        """Profiles.X / self.X -> the constant's value"""
        if isinstance(node, ast.Attribute) and isinstance(node.value, ast.Name) \
                and node.value.id in ('Profiles', 'self') and node.attr in self.consts:
            return self.consts[node.attr]
        if isinstance(node, ast.Constant) and isinstance(node.value, str):
            return node.value
        raise TranslateError('profile name expression not understood: %s' % ast.dump(node))

    def str_value(self, node):
        if isinstance(node, ast.Constant) and isinstance(node.value, str):
            return node.value
        # macros[Profiles.X]['key']
        if isinstance(node, ast.Subscript) and isinstance(node.value, ast.Subscript) \
                and isinstance(node.value.value, ast.Name) and node.value.value.id in self.tables:
            prof = self.profile_name(node.value.slice)
            key = self.str_value(node.slice)
            try:
                return self.tables[node.value.value.id][prof][key]
            except KeyError:
                raise TranslateError('reference to undefined table entry %s' % ast.dump(node))
        raise TranslateError('table value is not a string literal: %s' % ast.dump(node))

    def str_dict(self, node):
        if not isinstance(node, ast.Dict):
            raise TranslateError('expected a dict display, found %s' % ast.dump(node)[:200])
        out = {}
        for k, v in zip(node.keys, node.values):
            if k is None:
                raise TranslateError('dict unpacking in table')
            out[self.str_value(k)] = self.str_value(v)     # a repeated key: the last one wins, as in Python
        return out

    def read_module_tables(self):
        for st in self.tree.body:
            if not isinstance(st, ast.Assign) or len(st.targets) != 1:
                continue
            t = st.targets[0]
            if isinstance(t, ast.Name) and t.id in self.tables:
                if not (isinstance(st.value, ast.Dict) and not st.value.keys):
                    raise TranslateError('%s is not initialised with {}' % t.id)
            elif isinstance(t, ast.Subscript) and isinstance(t.value, ast.Name) and t.value.id in self.tables:
                self.tables[t.value.id][self.profile_name(t.slice)] = self.str_dict(st.value)

    FLAGS = {'I': re.I, 'IGNORECASE': re.I, 'A': re.A, 'ASCII': re.A, 'U': re.U, 'UNICODE': re.U}

    def read_flags(self):
        """the flags expression of `util.LazyRegex('^(?:%s)$' % value, <flags>)` in `_compile_regexes`"""
        fn = [st for st in self.cls.body if isinstance(st, ast.FunctionDef) and st.name == '_compile_regexes']
        if not fn:
            raise TranslateError('Profiles._compile_regexes not found')
        calls = [n for n in ast.walk(fn[0]) if isinstance(n, ast.Call) and isinstance(n.func, ast.Attribute)
                 and n.func.attr == 'LazyRegex']
        if len(calls) != 1 or len(calls[0].args) not in (1, 2) or calls[0].keywords:
            raise TranslateError('expected exactly one util.LazyRegex(pattern[, flags]) call in _compile_regexes')
        c = calls[0]
        a0 = c.args[0]
        if not (isinstance(a0, ast.BinOp) and isinstance(a0.op, ast.Mod) and isinstance(a0.left, ast.Constant)
                and a0.left.value == '^(?:%s)$'):
            raise TranslateError('the pattern is not wrapped as ^(?:%s)$')

        def ev(node):
            if isinstance(node, ast.BinOp) and isinstance(node.op, ast.BitOr):
                return ev(node.left) | ev(node.right)
            if isinstance(node, ast.Attribute) and isinstance(node.value, ast.Name) and node.value.id == 're' \
                    and node.attr in self.FLAGS:
                return int(self.FLAGS[node.attr])
            raise TranslateError('flags expression not understood: %s' % ast.dump(node))
        return ev(c.args[1]) if len(c.args) == 2 else 0

    def read_addprofiles(self):
        """the (profile, properties[...], macros[...]) triples of the addProfiles call in __init__"""
        init = [st for st in self.cls.body if isinstance(st, ast.FunctionDef) and st.name == '__init__']
        if not init:
            raise TranslateError('Profiles.__init__ not found')
        calls = [n for n in ast.walk(init[0]) if isinstance(n, ast.Call) and isinstance(n.func, ast.Attribute)
                 and n.func.attr in ('addProfiles', 'addProfile')]
        if len(calls) != 1 or calls[0].func.attr != 'addProfiles' or len(calls[0].args) != 1 \
                or not isinstance(calls[0].args[0], (ast.List, ast.Tuple)):
            raise TranslateError('expected exactly one addProfiles([...]) call in Profiles.__init__')
        out = []
        for el in calls[0].args[0].elts:
            if not (isinstance(el, ast.Tuple) and len(el.elts) == 3):
                raise TranslateError('addProfiles entry is not a 3-tuple')
            name = self.profile_name(el.elts[0])
            refs = []
            for which, node in (('properties', el.elts[1]), ('macros', el.elts[2])):
                if not (isinstance(node, ast.Subscript) and isinstance(node.value, ast.Name)
                        and node.value.id == which):
                    raise TranslateError('addProfiles entry: expected %s[...]' % which)
                refs.append(self.profile_name(node.slice))
            out.append((name, refs[0], refs[1]))
        return out


# ----------------------------------------------------------------------------------------------
# what addProfiles / _expand_macros / _compile_regexes compute
MACRO_RE = re.compile(r'{(?P<macro>[a-z][a-z0-9-]*)}')


def expand(value, macros):
    """profiles.py:160-161 — repeated whole-string substitution until no macro reference is left"""
    n = 0
    while re.search(r'{[a-z][a-z0-9-]*}', value):
        def macro_value(m):
            name = m.group('macro')
            if name not in macros:
                raise TranslateError('undefined macro {%s}' % name)
            return '(?:%s)' % macros[name]
        value = MACRO_RE.sub(macro_value, value)
        n += 1
        if n > 50:
            raise TranslateError('macro expansion does not terminate')
    return value


def registry(reader):
    """-> (merged macros, [(profile, [(property, full pattern)])]) as Profiles.__init__ leaves them"""
    used = dict(reader.class_dicts['_TOKEN_MACROS'])
    used.update(reader.class_dicts['_MACROS'])
    for prof, pref, mref in reader.order:                      # profiles.py:250-253
        m = reader.tables['macros'].get(mref)
        if m is None:
            raise TranslateError('macros[%r] undefined' % mref)
        if m:
            used.update(m)
    names, table = [], {}
    for prof, pref, mref in reader.order:                      # profiles.py:256-257, addProfile with macros=None
        props = reader.tables['properties'].get(pref)
        if props is None:
            raise TranslateError('properties[%r] undefined' % pref)
        if prof not in names:                                   # profiles.py:300
            names.append(prof)
        table[prof] = [(k, '^(?:%s)$' % expand(v, used)) for k, v in props.items()]   # :307-308, :174
    return used, [(p, table[p]) for p in names]


# ----------------------------------------------------------------------------------------------
# classification (syntactic, on the Re AST) — mirrored by Lean `Re.words` (the Lean side decides for the proofs)
def fold_cp(c):
    return c + 32 if 65 <= c <= 90 else c


def words(r, limit=4000):
    """finite language of a star-free Re over positive classes, as a list of folded strings; None if not finite/small"""
    k = r[0]
    if k == 'eps':
        return [()]
    if k == 'cls':
        if r[1]:
            return None
        n = sum(hi - lo + 1 for lo, hi in r[2])
        if n > 64:
            return None
        out = []
        for lo, hi in r[2]:
            for c in range(lo, hi + 1):
                if fold_cp(c) == c and (c,) not in out:
                    out.append((c,))
        return out
    if k == 'seq':
        a, b = words(r[1], limit), words(r[2], limit)
        if a is None or b is None or len(a) * len(b) > limit:
            return None
        return [x + y for x in a for y in b]
    if k == 'alt':
        a, b = words(r[1], limit), words(r[2], limit)
        if a is None or b is None:
            return None
        return a + b
    if k == 'rep':
        a = words(r[1], limit)
        if a is None or r[3] > 8:
            return None
        out, cur = [], [()]
        for i in range(r[3] + 1):
            if i >= r[2]:
                out += cur
            if len(cur) * len(a) > limit:
                return None
            cur = [x + y for x in cur for y in a]
        return out
    return None     # star, eol


def body_of(r):
    """pattern = right-nested seq spine ending in eol (the `^` was dropped by relib): the spine without the eol"""
    if r == ('eol',):
        return ('eps',)
    if r[0] == 'seq':
        rest = body_of(r[2])
        return r[1] if rest == ('eps',) else ('seq', r[1], rest)
    raise TranslateError('expanded pattern does not end in `$`')


def lean_str(s):
    return '"' + ''.join(c if 32 <= ord(c) < 127 and c not in '"\\' else '\\u{%x}' % ord(c) for c in s) + '"'


def lean_ident(s):
    return 're_' + re.sub(r'[^a-z0-9]', '_', s.lower())


def freeze(r):
    """hashable copy of a relib AST"""
    if r[0] == 'cls':
        return ('cls', r[1], tuple(tuple(x) for x in r[2]))
    return tuple(freeze(x) if isinstance(x, tuple) and x and isinstance(x[0], str) else x for x in r)


class Sharing:
    """subterms of size >= 24 that occur more than once become their own `def sN : Re`"""
    MIN = 24

    def __init__(self, asts):
        self.count, self.sz = {}, {}
        for a in asts:
            self.walk(a)
        self.names, self.defs = {}, []

    def walk(self, r):
        if r in self.count:
            self.count[r] += 1
            return self.sz[r]
        n = 1 + sum(self.walk(x) for x in r[1:] if isinstance(x, tuple) and x and isinstance(x[0], str))
        self.count[r] = 1
        self.sz[r] = n
        return n

    def tolean(self, r, top=False):
        if not top and self.sz.get(r, 0) >= self.MIN and self.count.get(r, 0) > 1:
            if r not in self.names:
                body = self.tolean(r, top=True)
                name = 's%d' % len(self.names)
                self.names[r] = name
                self.defs.append('def %s : Re :=\n  %s\n' % (name, body))
            return self.names[r]
        k = r[0]
        if k in ('eps', 'eol', 'cls'):
            return relib.tolean(r)
        if k in ('seq', 'alt'):
            return '(Re.%s %s %s)' % (k, self.tolean(r[1]), self.tolean(r[2]))
        if k == 'star':
            return '(Re.star %s %s)' % (self.tolean(r[1]), 'true' if r[2] else 'false')
        if k == 'rep':
            return '(Re.rep %s %d %d %s)' % (self.tolean(r[1]), r[2], r[3], 'true' if r[4] else 'false')
        raise ValueError(k)


# ----------------------------------------------------------------------------------------------
ASCII_SPACE = [(9, 13), (32, 32)]


def parse_pattern(pat, flags):
    """relib.parse with the category tables of the mode the pattern is compiled in (relib's \\s is Unicode's)"""
    if not (flags & re.A):
        return relib.parse(pat, flags)
    from re._constants import CATEGORY_SPACE
    saved = relib.CATS[CATEGORY_SPACE]
    relib.CATS[CATEGORY_SPACE] = ASCII_SPACE
    try:
        return relib.parse(pat, flags)
    finally:
        relib.CATS[CATEGORY_SPACE] = saved


def translate(repo):
    """-> (lean source of Gen/C13Profiles.lean, info dict for the harness)"""
    path = os.path.join(repo, 'cssutils', 'profiles.py')
    with open(path, encoding='utf-8') as f:
        src = f.read()
    rd = Reader(src)
    if not (rd.flags & re.I):
        # the theorems (fold-closed classes) and the harness are about case-insensitive patterns; a tree that
        # compiles them case-sensitively is translated as such (and then fails those theorems)
        pass
    used, reg = registry(rd)
    sha = hashlib.sha256(src.encode('utf-8')).hexdigest()
    info = {'sha256': sha, 'profiles': [], 'fontface': rd.consts.get('CSS3_FONT_FACE'),
            'consts': rd.consts, 'macros': used, 'flags': rd.flags}
    defs, entries, seen = [], [], {}
    kw = []
    total_size = 0
    # pass 1: parse everything, count repeated subtrees (the colour tables recur in dozens of patterns)
    parsed = {}
    for prof, props in reg:
        for name, pat in props:
            if pat not in parsed:
                parsed[pat] = freeze(parse_pattern(pat, rd.flags))        # raises Unsupported on anything outside the subset
    share = Sharing(parsed.values())
    for pi, (prof, props) in enumerate(reg):
        plist = []
        for name, pat in props:
            ast_ = parsed[pat]
            if pat not in seen:
                ident = 'p%d_%s' % (pi, re.sub(r'[^a-z0-9]', '_', name))
                seen[pat] = (ident, ast_)
                sz = relib.size(ast_)
                total_size += sz
                defs.append('/-- `%s` / `%s` (size %d): `%s` -/\ndef %s : Re :=\n  %s\n'
                            % (prof, name, sz, pat.replace('-/', '- /')[:300] + ('…' if len(pat) > 300 else ''),
                               ident, share.tolean(ast_, top=True)))
            ident = seen[pat][0]
            w = words(body_of(ast_))
            plist.append({'name': name, 'pattern': pat, 'ident': ident, 'finite': w is not None,
                          'nwords': len(set(w)) if w is not None else None, 'size': relib.size(ast_)})
            entries.append((prof, name, ident))
            if w is not None:
                kw.append((prof, name, ident))
        info['profiles'].append({'name': prof, 'props': plist})
    if rd.consts.get('CSS3_FONT_FACE') not in [p for p, _ in reg]:
        raise TranslateError('CSS3_FONT_FACE profile is not registered')
    out = []
    out.append('import CssVerif.Lib.Re')
    out.append('/-!')
    out.append('GENERATED by tools/gen/c13_profiles.py from cssutils/profiles.py — do not edit.')
    out.append('source sha256: %s' % sha)
    out.append('')
    out.append('The registry as `Profiles.__init__` leaves it: profiles in `_profileNames` order, each with its')
    out.append('properties in dictionary order and the fully macro-expanded, `^(?:…)$`-wrapped pattern compiled with')
    out.append('`%s`, as a `Re` term (the leading `^` is dropped: `match` is anchored; `$` is `Re.eol`; case'
               % ('|'.join(n for n, f in (('re.I', re.I), ('re.A', re.A)) if rd.flags & f) or '0'))
    out.append('insensitivity is folded into the classes, ASCII letters only).')
    out.append('%d profiles, %d (profile, property) entries, %d distinct patterns, total Re size %d.'
               % (len(reg), len(entries), len(seen), total_size))
    out.append('-/')
    out.append('namespace CssVerif.Gen.C13')
    out.append('open CssVerif')
    out.append('')
    out.append('set_option maxRecDepth 100000')
    out.append('')
    out += share.defs
    out += defs
    out.append('/-- profile names in `_profileNames` order -/')
    out.append('def profileNames : List String := [%s]' % ', '.join(lean_str(p) for p, _ in reg))
    out.append('')
    out.append('/-- `Profiles.CSS3_FONT_FACE` (property.py:485) -/')
    out.append('def fontFaceProfile : String := %s' % lean_str(rd.consts['CSS3_FONT_FACE']))
    out.append('')
    out.append('/-- `Profiles.CSS_LEVEL_2` -/')
    out.append('def css2Profile : String := %s' % lean_str(rd.consts['CSS_LEVEL_2']))
    out.append('')
    out.append('/-- (profile, [(property, pattern)]) in registration / dictionary order -/')
    out.append('def table : List (String × List (String × Re)) := [')
    rows = []
    for prof, props in reg:
        rows.append('  (%s, [\n%s])' % (lean_str(prof), ',\n'.join(
            '    (%s, %s)' % (lean_str(n), seen[p][0]) for n, p in props)))
    out.append(',\n'.join(rows))
    out.append(']')
    out.append('')
    out.append('/-- entries whose pattern body has a finite language (star-free, positive small classes): the')
    out.append('keyword-list patterns (classification recomputed in Lean by `Re.words`) -/')
    out.append('def finiteEntries : List (String × String) := [')
    out.append(',\n'.join('  (%s, %s)' % (lean_str(p), lean_str(n)) for p, n, _ in kw))
    out.append(']')
    out.append('')
    out.append('end CssVerif.Gen.C13')
    return '\n'.join(out) + '\n', info


CROSS = r'''
import json, sys, logging
import cssutils
cssutils.log.setLevel(logging.FATAL)
p = cssutils.profile
out = {'names': list(p.profiles), 'default': list(p.defaultProfiles), 'known': list(p.knownNames), 'profiles': []}
for name in p.profiles:
    props = []
    for k, v in p._profilesProperties[name].items():
        props.append([k, v.pattern, int(v.flags if v.matcher is None else v.matcher.flags)])
    out['profiles'].append([name, props])
out['FONT_FACE'] = p.CSS3_FONT_FACE
out['CSS2'] = p.CSS_LEVEL_2
json.dump(out, sys.stdout)
'''


def crosscheck(repo, info):
    """compare the re-implemented expansion with the live registry; returns a list of differences (strings)"""
    env = dict(os.environ, PYTHONPATH=repo)
    p = subprocess.run([sys.executable, '-c', CROSS], env=env, stdout=subprocess.PIPE, stderr=subprocess.PIPE,
                       timeout=120)
    if p.returncode != 0:
        return ['live registry cannot be read: %s' % p.stderr.decode('utf-8', 'replace')[-400:]]
    live = json.loads(p.stdout)
    diffs = []
    mine = [(pr['name'], [(x['name'], x['pattern']) for x in pr['props']]) for pr in info['profiles']]
    if [n for n, _ in mine] != live['names']:
        diffs.append('profile order: translated %r, live %r' % ([n for n, _ in mine], live['names']))
    for (n, props), (ln, lprops) in zip(mine, live['profiles']):
        if n != ln:
            continue
        lp = [(k, pat) for k, pat, fl in lprops]
        if props != lp:
            a, b = dict(props), dict(lp)
            for k in sorted(set(a) | set(b)):
                if a.get(k) != b.get(k):
                    diffs.append('pattern %s / %s: translated %r, live %r' % (n, k, a.get(k), b.get(k)))
            if [k for k, _ in props] != [k for k, _ in lp]:
                diffs.append('property order differs in %s' % n)
        for k, pat, fl in lprops:
            if (fl & ~re.U) != (info['flags'] & ~re.U):
                diffs.append('flags of %s / %s: live %s, translated %s' % (n, k, fl, info['flags']))
    if info['fontface'] != live['FONT_FACE']:
        diffs.append('CSS3_FONT_FACE differs')
    if live['default'] != live['names']:
        diffs.append('defaultProfiles is not the list of all profiles at import: %r' % live['default'])
    known = [x['name'] for pr in info['profiles'] for x in pr['props']]
    if known != live['known']:
        diffs.append('knownNames differ')
    return diffs


if __name__ == '__main__':
    repo = sys.argv[1] if len(sys.argv) > 1 else os.environ.get('VERIF_REPO', '/repo')
    text, info = translate(repo)
    print('profiles', [(p['name'], len(p['props'])) for p in info['profiles']])
    fin = [(p['name'], x['name'], x['nwords']) for p in info['profiles'] for x in p['props'] if x['finite']]
    print(len(fin), 'finite-language entries')
    for f in fin:
        print('   ', f)
    print('crosscheck:', crosscheck(repo, info))
    print('bytes', len(text))
    if len(sys.argv) > 2:
        open(sys.argv[2], 'w').write(text)
