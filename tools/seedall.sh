#!/bin/sh
# re-verify every stored seeded change against the CURRENT /repo HEAD: applies? demo flips? check catches?
HERE="$(cd "$(dirname "$0")/.." && pwd)"; cd "$HERE"
for d in seeded/C*-*; do
  p=$(basename $d | cut -d- -f1)
  out=$(tools/seedcheck.sh "$HERE/$d" $p 2>&1)
  if echo "$out" | grep -q "PATCH DOES NOT APPLY"; then echo "$(basename $d): PATCH-DOES-NOT-APPLY"; continue; fi
  demo0=$(echo "$out" | grep -A1 "demo on unchanged" | tail -1 | cut -c1-12)
  demo1=$(echo "$out" | grep -A1 "demo with change" | tail -1 | cut -c1-8)
  viol=$(echo "$out" | grep -E "^VIOLATION" | head -1 | sed 's/replay=[^ ]*//')
  echo "$(basename $d): clean[$demo0] changed[$demo1] check[${viol:-NOT-CAUGHT}]"
done
