#!/usr/bin/env python3
"""assemble MANIFEST.json from manifest.d/Cxx.json fragments (one per claimed property)"""
import glob
import json
import os

HERE = os.path.dirname(os.path.dirname(os.path.abspath(__file__)))
props = [json.loads(l) for l in open(os.path.join(HERE, 'properties.jsonl'))]
ids = [p['id'] for p in props]
frags = {}
for f in sorted(glob.glob(os.path.join(HERE, 'manifest.d', 'C*.json'))):
    d = json.load(open(f))
    frags[d['property_id']] = d
na_path = os.path.join(HERE, 'manifest.d', 'not_applicable.json')
na_reasons = json.load(open(na_path)) if os.path.exists(na_path) else {}
fix_commits = []
checks = []
for i in ids:
    if i not in frags:
        continue
    d = frags[i]
    checks.append({
        'property_id': i,
        'quick_cmd': './check %s --tier quick' % i,
        'thorough_cmd': './check %s --tier thorough' % i,
        'evidence_file': 'evidence/%s.json' % i,
        'replay_cmd_template': './check %s --replay {path}' % i,
        'engine': 'lean-model+harness',
        'level_claimed': {'category': 'proof', 'text': d['level_text'], 'design_ref': d.get('design_ref', 'DESIGN.md §4 ' + i)},
        'level_note': d['level_note'],
        'technique': d.get('technique', 'Lean 4 theorems on an executable model of the code; differential correspondence '
                                        'model vs implementation; direct property oracle for failing-input search'),
    })
manifest = {
    'version': 1,
    'setup_cmd': './setup.sh',
    'hooks': {
        'guard': 'CSSUTILS_VERIF',
        'enable': 'no hooks are compiled into /repo; ./check sets CSSUTILS_VERIF=1 and instruments from the harness process',
        'baseline_off_cmd': 'cd /repo && /venv/bin/python -m pytest -ra -q -p no:cacheprovider --timeout=900 --continue-on-collection-errors',
        'source_commits': [],
        'add_only': True,
    },
    'engines': [
        {'name': 'lean-model+harness', 'path': 'lean/ tools/', 'serves_properties': [c['property_id'] for c in checks],
         'kind_free_text': 'Lean 4 library CssVerif (models, lemmas, property theorems), per-property compiled model '
                           'drivers (line protocol), Python harness running the real cssutils in-process'},
    ],
    'checks': checks,
    'not_applicable': [{'property_id': i, 'reason': na_reasons.get(i, 'check not built yet (build round in progress); '
                        'an executable model exists in the design, nothing is claimed until its theorems are proved')}
                       for i in ids if i not in frags],
    'notes': 'Each check: regenerate tables from /repo, lake build, axiom audit, model-vs-implementation correspondence, '
             'implementation-side property oracle, known findings (known/Cxx.json). See DESIGN.md.',
}
with open(os.path.join(HERE, 'MANIFEST.json'), 'w') as f:
    json.dump(manifest, f, indent=1)
    f.write('\n')
print('MANIFEST.json: %d checks, %d not claimed' % (len(checks), len(manifest['not_applicable'])))
