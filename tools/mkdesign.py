#!/usr/bin/env python3
"""Regenerate the machine-written appendices of DESIGN.md (between the BEGIN/END GENERATED markers):
 A. theorem inventory per property (from the Props files and the last evidence),
 B. repaired defects (fix: commits in /repo, from known/fixed.json + known/Cxx.json status fixed),
 C. known findings (known/Cxx.json status known),
 D. seeded changes and which check caught them (seeded/*/meta.json).
The hand-written body of DESIGN.md is left untouched."""
import glob
import json
import os
import re
import subprocess
import sys

HERE = os.path.dirname(os.path.dirname(os.path.abspath(__file__)))
sys.path.insert(0, os.path.join(HERE, 'tools'))
from lib import framework as fw  # noqa: E402

BEGIN = '<!-- BEGIN GENERATED APPENDICES (tools/mkdesign.py) -->'
END = '<!-- END GENERATED APPENDICES -->'


def props():
    return [json.loads(l) for l in open(os.path.join(HERE, 'properties.jsonl'))]


def md_escape(s):
    return str(s).replace('|', '\\|').replace('\n', ' ')


def appendix_theorems():
    out = ['### Appendix A — theorem inventory (every `theorem` of `lean/CssVerif/Props/Cxx.lean`; all audited)\n']
    total = 0
    for p in props():
        pid = p['id']
        path = os.path.join(HERE, 'lean', 'CssVerif', 'Props', pid + '.lean')
        if not os.path.exists(path):
            out.append('* **%s** — not claimed (no Props file).' % pid)
            continue
        names = fw.declared_theorems('CssVerif.Props.' + pid)
        total += len(names)
        ev = {}
        evp = os.path.join(HERE, 'evidence', pid + '.json')
        if os.path.exists(evp):
            ev = json.load(open(evp))
        cov = ev.get('coverage', {})
        short = [n.split('.')[-1] for n in names]
        out.append('* **%s** %s — %d theorems (%s discharged at the last run, tier %s): %s' % (
            pid, md_escape(p['title']), len(names), cov.get('discharged', '?'), ev.get('tier', '?'),
            ', '.join('`%s`' % s for s in short)))
    out.append('\nTotal: %d property theorems.\n' % total)
    return '\n'.join(out)


def appendix_fixed():
    rows = []
    seen = set()
    for f in sorted(glob.glob(os.path.join(HERE, 'known', '*.json'))):
        for e in json.load(open(f)).get('findings', []):
            if e.get('status') != 'fixed':
                continue
            key = (e.get('property'), e.get('commit'), e.get('what_fails', '')[:60])
            if key in seen:
                continue
            seen.add(key)
            rows.append((e.get('property', '?'), e.get('commit') or e.get('commit_subject', '?'), e.get('what_fails', '')))
    rows.sort()
    out = ['### Appendix B — genuine defects repaired by `fix:` commits in /repo (a fixed entry suppresses nothing)\n',
           '| property | commit | what failed |', '|---|---|---|']
    for p, c, w in rows:
        w = re.sub(r'^fixed: property=\S+ \S+ ', '', w)
        out.append('| %s | `%s` | %s |' % (p, md_escape(c), md_escape(w)))
    try:
        n = subprocess.run(['git', '-C', fw.REPO, 'log', '--oneline', '--grep', '^fix:'], stdout=subprocess.PIPE).stdout.decode().count('\n')
        out.append('\n`git -C /repo log --oneline --grep "^fix:"` lists %d commits.\n' % n)
    except Exception:
        pass
    return '\n'.join(out)


def appendix_known():
    out = ['### Appendix C — known findings (genuine defects recorded, not repaired; each is replayed on every run)\n',
           '| property | id | what fails | region | why not fixed |', '|---|---|---|---|---|']
    for f in sorted(glob.glob(os.path.join(HERE, 'known', 'C*.json'))):
        for e in json.load(open(f)).get('findings', []):
            if e.get('status') != 'known':
                continue
            out.append('| %s | %s | %s | %s | %s |' % (e.get('property'), e.get('id'), md_escape(e.get('what_fails', '')),
                                                  md_escape(e.get('region', '')), md_escape(e.get('why_not_fixed', ''))))
    return '\n'.join(out) + '\n'


def appendix_seeded():
    out = ['### Appendix D — seeded changes (written by sub-agents that saw only the property text) and what caught them\n',
           '| id | property | clause broken | needs | caught | how reported |', '|---|---|---|---|---|---|']
    n = caught = 0
    for d in sorted(glob.glob(os.path.join(HERE, 'seeded', '*'))):
        mp = os.path.join(d, 'meta.json')
        if not os.path.exists(mp):
            continue
        m = json.load(open(mp))
        v = m.get('verified', {})
        n += 1
        caught += bool(v.get('caught_by_check'))
        out.append('| %s | %s | %s | %s | %s | %s |' % (os.path.basename(d), m.get('property'), md_escape(m.get('clause', ''))[:160],
                                                   md_escape(m.get('needs', ''))[:200], 'yes' if v.get('caught_by_check') else 'NO',
                                                   md_escape(v.get('how_reported', ''))[:220]))
    out.append('\n%d seeded changes, %d caught.\n' % (n, caught))
    return '\n'.join(out)


def appendix_claims():
    out = ['### Appendix E — what each check claims (from manifest.d/Cxx.json) and where its details are\n']
    for p in props():
        pid = p['id']
        f = os.path.join(HERE, 'manifest.d', pid + '.json')
        if not os.path.exists(f):
            out.append('#### %s — %s\n\nNot claimed yet.\n' % (pid, p['title']))
            continue
        d = json.load(open(f))
        doc = 'docs/%s.md' % pid
        out.append('#### %s — %s\n' % (pid, p['title']))
        out.append('*Claim.* %s\n' % d['level_text'])
        out.append('*Trusted / residual.* %s\n' % d['level_note'])
        if os.path.exists(os.path.join(HERE, doc)):
            out.append('*Details* (model ↔ source map, theorem list, generators, mutation table, findings): `%s`.\n' % doc)
    return '\n'.join(out)


def main():
    path = os.path.join(HERE, 'DESIGN.md')
    body = open(path, encoding='utf-8').read()
    gen = '\n\n'.join([BEGIN, appendix_theorems(), appendix_fixed(), appendix_known(), appendix_seeded(), appendix_claims(), END])
    if BEGIN in body and END in body:
        body = body[:body.index(BEGIN)] + gen + body[body.index(END) + len(END):]
    else:
        body = body.rstrip('\n') + '\n\n' + gen + '\n'
    open(path, 'w', encoding='utf-8').write(body)
    print('DESIGN.md appendices regenerated')


if __name__ == '__main__':
    main()
