#!/usr/bin/env python3
"""copy a verified seeded change into /verif/seeded/<id>/ and record what was run
usage: seedimport.py <seed-src-dir> <prop> <k> <caught: yes|no> "<how the check reported it>" """
import json, os, shutil, sys
src, prop, k, caught, how = sys.argv[1:6]
here = os.path.dirname(os.path.dirname(os.path.abspath(__file__)))
dst = os.path.join(here, 'seeded', '%s-%s' % (prop, k))
os.makedirs(dst, exist_ok=True)
for f in ('patch.diff', 'demo.py'):
    shutil.copy(os.path.join(src, f), os.path.join(dst, f))
meta = json.load(open(os.path.join(src, 'meta.json')))
meta['verified'] = {
    'ran': ['tools/seedcheck.sh <seed> %s: scratch worktree of /repo HEAD; demo.py passes without and fails with the patch; '
            'test suite with the patch: 410 passed + the 2 baseline failures; ./check %s --tier quick with VERIF_REPO=<scratch>' % (prop, prop)],
    'caught_by_check': caught == 'yes',
    'how_reported': how,
}
json.dump(meta, open(os.path.join(dst, 'meta.json'), 'w'), indent=1)
print(dst)
