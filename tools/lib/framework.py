"""Shared machinery for every ./check Cxx run (see DESIGN.md §2.3).

flow: translate -> lake build -> axiom audit -> source scan -> correspondence + oracle (CHECK.run)
      -> search when an obligation/correspondence broke -> known findings -> evidence -> verdict
"""
import collections
import contextlib
import fcntl
import hashlib
import json
import os
import random
import re
import signal
import subprocess
import sys
import time

VERIF = os.path.dirname(os.path.dirname(os.path.dirname(os.path.abspath(__file__))))
REPO = os.environ.get('VERIF_REPO', '/repo')
LEAN = os.path.join(VERIF, 'lean')
ALLOWED_AXIOMS = {'propext', 'Classical.choice', 'Quot.sound'}
FORBIDDEN = re.compile(r'\bsorry\b|\badmit\b|^\s*axiom\s|\bnative_decide\b|\bbv_decide\b|'
                       r'\bimplemented_by\b|\bunsafe\s|maxHeartbeats\s+0\b|\bextern\b', re.M)


# ----------------------------------------------------------------------------------------------
# string <-> protocol
def enc(s):
    """str (or list of code points) -> dotted hex"""
    if isinstance(s, str):
        s = [ord(c) for c in s]
    return '.'.join('%X' % c for c in s) if s else '-'


def dec(w):
    return '' if w == '-' else ''.join(chr(int(x, 16)) for x in w.split('.'))


def encb(b):
    return '.'.join('%X' % c for c in b) if b else '-'


class TimeLimit(Exception):
    pass


@contextlib.contextmanager
def time_limit(seconds):
    def h(signum, frame):
        raise TimeLimit()
    old = signal.signal(signal.SIGALRM, h)
    signal.setitimer(signal.ITIMER_REAL, seconds)
    try:
        yield
    finally:
        signal.setitimer(signal.ITIMER_REAL, 0)
        signal.signal(signal.SIGALRM, old)


def strip_lean_comments(src):
    out, i, depth, n = [], 0, 0, len(src)
    while i < n:
        if src.startswith('/-', i):
            depth += 1
            i += 2
        elif depth and src.startswith('-/', i):
            depth -= 1
            i += 2
        elif depth:
            i += 1
        elif src.startswith('--', i):
            j = src.find('\n', i)
            i = n if j < 0 else j
        elif src[i] == '"':
            j = i + 1
            while j < n and src[j] != '"':
                j += 2 if src[j] == '\\' else 1
            out.append('""')
            i = j + 1
        else:
            out.append(src[i])
            i += 1
    return ''.join(out)


def sha256_file(path):
    h = hashlib.sha256()
    with open(path, 'rb') as f:
        h.update(f.read())
    return h.hexdigest()


# ----------------------------------------------------------------------------------------------
class Check:
    """Base class; one subclass per property in tools/harness/cXX.py, exported as CHECK."""
    id = None
    props_module = None          # e.g. 'CssVerif.Props.C07'
    driver_exe = None            # e.g. 'drv_c07'
    extra_modules = ()           # further Lean modules whose theorems count as obligations
    sources = ()                 # repo-relative source files the model mirrors (hashed into evidence)
    trusted_base = ()            # strings
    assumptions = ()
    rule = ''                    # how cases are generated / what counts as non-trivial

    def translate(self, ctx):
        """return {path relative to lean/: content} regenerated from ctx.repo (tables only)"""
        return {}

    def run(self, ctx):
        """correspondence + direct oracle over generated cases; report through ctx"""
        raise NotImplementedError

    def search(self, ctx):
        """called when an obligation or the correspondence broke and no failing input is known yet:
        look harder for a concrete failing input on the implementation (default: rerun at thorough size)"""
        ctx.tier_counts = 'thorough'
        ctx.search_mode = True
        self.run(ctx)

    def known(self, ctx, finding):
        """replay one known finding; return True if it still fails on the implementation"""
        return True

    def replay(self, ctx, data):
        """re-run a replay file; report through ctx"""
        raise NotImplementedError


class Ctx:
    def __init__(self, check, tier, seed):
        self.check = check
        self.prop = check.id
        self.tier = tier
        self.tier_counts = tier
        self.seed = seed
        self.rng = random.Random(seed)
        self.repo = REPO
        self.verif = VERIF
        self.lean = LEAN
        self.search_mode = False
        self.evaluations = 0
        self.nontrivial = set()
        self.samples = []
        self.dist = collections.Counter()
        self.disagreements = []
        self.violations = []
        self.known_hits = collections.Counter()
        self.traces = 0
        self.notes = {}
        self.model_ok = False      # driver executable available
        self.harness_errors = []
        self.t0 = time.time()

    # -- sizes
    def n(self, quick, thorough):
        return thorough if self.tier_counts == 'thorough' else quick

    def sub_rng(self, tag):
        return random.Random('%s/%s/%s' % (self.seed, self.prop, tag))

    # -- bookkeeping
    def case(self, key=None, nontrivial=True, sample=None, kind=None):
        self.evaluations += 1
        if nontrivial and key is not None:
            if len(self.nontrivial) < 2_000_000:
                self.nontrivial.add(hashlib.blake2b(repr(key).encode('utf-8', 'surrogatepass'),
                                                    digest_size=8).digest())
        if kind:
            self.dist[kind] += 1
        if sample is not None and len(self.samples) < 12 and self.rng_sample():
            self.samples.append(sample)

    def rng_sample(self):
        # keep the first few and then a thin random selection
        return len(self.samples) < 4 or random.Random(self.evaluations).random() < 0.01

    def count(self, kind, k=1):
        self.dist[kind] += k

    def disagree(self, what, inp, impl, model):
        if len(self.disagreements) < 50:
            self.disagreements.append({'correspondence': what, 'input': inp, 'impl': impl, 'model': model})
        else:
            self.dist['disagreements_not_recorded'] += 1

    def violate(self, clause, witness, detail=None, known=None):
        """the IMPLEMENTATION breaks the property on `witness`. `known` = id of a listed known finding
        whose region contains the witness (then it is attributed, not reported)."""
        if known:
            self.known_hits[known] += 1
            return
        if len(self.violations) < 50:
            self.violations.append({'clause': clause, 'witness': witness, 'detail': detail})

    # -- phases: one failing phase must not hide what the others would find
    def phase(self, fn, *args, **kw):
        """run one part of a harness; an exception is recorded as a broken obligation (reported by main)
        and the remaining phases still run"""
        import traceback
        try:
            return fn(*args, **kw)
        except TimeLimit:
            raise
        except Exception as e:
            traceback.print_exc()
            self.harness_errors.append('%s: %r' % (getattr(fn, '__name__', 'phase'), e))
            return None

    # -- model driver
    def driver(self, lines, exe=None, timeout=600):
        exe = exe or self.check.driver_exe
        path = os.path.join(LEAN, '.lake', 'build', 'bin', exe)
        if not os.path.exists(path):
            raise RuntimeError('driver %s not built' % exe)
        if not lines:
            return []
        data = ('\n'.join(lines) + '\n').encode('ascii')
        p = subprocess.run([path], input=data, stdout=subprocess.PIPE, stderr=subprocess.PIPE, timeout=timeout)
        out = p.stdout.decode('ascii', 'replace').split('\n')
        if out and out[-1] == '':
            out.pop()
        if p.returncode != 0 or len(out) != len(lines):
            raise RuntimeError('driver %s: rc=%s, %d lines in, %d out; stderr=%s'
                               % (exe, p.returncode, len(lines), len(out), p.stderr[-500:]))
        self.traces += len(lines)
        return out


# ----------------------------------------------------------------------------------------------
def lake_lock():
    f = open(os.path.join(LEAN, '.lake.lock'), 'w')
    fcntl.flock(f, fcntl.LOCK_EX)
    return f


def write_generated(ctx, files):
    changed = []
    for rel, content in sorted(files.items()):
        path = os.path.join(LEAN, rel)
        os.makedirs(os.path.dirname(path), exist_ok=True)
        old = None
        if os.path.exists(path):
            with open(path, encoding='utf-8') as f:
                old = f.read()
        if old != content:
            with open(path, 'w', encoding='utf-8') as f:
                f.write(content)
            changed.append(rel)
    return changed


def lake_build(targets, timeout=3000):
    p = subprocess.run(['lake', 'build'] + list(targets), cwd=LEAN, stdout=subprocess.PIPE,
                       stderr=subprocess.STDOUT, timeout=timeout)
    return p.returncode, p.stdout.decode('utf-8', 'replace')


def declared_theorems(module):
    """theorem names written in the module's source (textual), with their namespace prefix"""
    path = os.path.join(LEAN, *module.split('.')) + '.lean'
    src = strip_lean_comments(open(path, encoding='utf-8').read())
    ns, out = [], []
    for line in src.split('\n'):
        m = re.match(r'\s*namespace\s+(\S+)', line)
        if m:
            ns.append(m.group(1))
            continue
        m = re.match(r'\s*end\s+(\S+)\s*$', line)
        if m and ns and ns[-1] == m.group(1):
            ns.pop()
            continue
        m = re.match(r'\s*(?:@\[[^\]]*\]\s*)?(?:private\s+|protected\s+)?theorem\s+([^\s:({\[]+)', line)
        if m:
            name = m.group(1)
            out.append(name[len('_root_.'):] if name.startswith('_root_.') else '.'.join(ns + [name]))
    return out


def audit(modules):
    """returns ({theorem: [axioms]}, raw output, rc) for all theorems of the given modules"""
    lines = ['import CssVerif.Lib.Audit'] + ['import %s' % m for m in modules] + \
            ['#audit_module %s' % m for m in modules]
    os.makedirs(os.path.join(LEAN, '.lake', 'audit'), exist_ok=True)
    path = os.path.join(LEAN, '.lake', 'audit', 'Audit_%s_%d.lean' % (modules[0].replace('.', '_'), os.getpid()))
    with open(path, 'w') as f:
        f.write('\n'.join(lines) + '\n')
    p = subprocess.run(['lake', 'env', 'lean', path], cwd=LEAN, stdout=subprocess.PIPE,
                       stderr=subprocess.STDOUT, timeout=1800)
    os.unlink(path)
    out = p.stdout.decode('utf-8', 'replace')
    res = {}
    for m in re.finditer(r'AUDIT (\S+) ::([^\n]*)', out):
        res[m.group(1)] = m.group(2).split()
    return res, out, p.returncode


def scan_sources(modules_dirs=('CssVerif', 'Drv')):
    hits = []
    for d in modules_dirs:
        for root, _, files in os.walk(os.path.join(LEAN, d)):
            for fn in files:
                if fn.endswith('.lean'):
                    path = os.path.join(root, fn)
                    src = strip_lean_comments(open(path, encoding='utf-8').read())
                    for m in FORBIDDEN.finditer(src):
                        if os.path.relpath(path, LEAN) == os.path.join('CssVerif', 'Lib', 'Audit.lean'):
                            continue
                        hits.append('%s: %s' % (os.path.relpath(path, LEAN), m.group(0).strip()))
    return hits


def load_known(prop):
    """known/<prop>.json: {"findings": [{id, property, status: known|fixed, commit?, witness, what_fails, region}]}"""
    path = os.path.join(VERIF, 'known', '%s.json' % prop)
    if not os.path.exists(path):
        return []
    data = json.load(open(path))
    return [f for f in data.get('findings', []) if f.get('property', prop) == prop]


def write_replay(ctx, kind, payload):
    os.makedirs(os.path.join(VERIF, 'replays'), exist_ok=True)
    body = {'property': ctx.prop, 'tier': ctx.tier, 'seed': ctx.seed, 'kind': kind}
    body.update(payload)
    text = json.dumps(body, indent=1, sort_keys=True, default=repr)
    h = hashlib.sha1(text.encode()).hexdigest()[:12]
    rel = os.path.join('replays', '%s-%s.json' % (ctx.prop, h))
    with open(os.path.join(VERIF, rel), 'w') as f:
        f.write(text + '\n')
    return rel
